// Native replay driver for U-ninja-scope: small Ninja manifests assembled from a fragment alphabet are loaded by the real
// ninja::ManifestLoader (from memory) under ASan/UBSan; the loader must report errors or succeed, never crash or recurse without end.
#include "llbuild/Ninja/ManifestLoader.h"
#include "llbuild/Ninja/Manifest.h"
#include "llvm/Support/MemoryBuffer.h"
#include "driver_common.h"
#include <sys/resource.h>
using namespace llbuild; using namespace llbuild::ninja;
static const char* TOK[] = { "rule r\n", "  command = $command x\n", "  command = $a\n", "  a = $b\n", "  b = $command\n", "  command = cc $in -o $out\n", "build out: r in\n", "  a = 1\n",
                             "x = $x\n", "build o2: r\n", "  description = $description\n", "  depfile = $out.d\n", "rule s\n", "build o3: s out\n", "  command = ${command}\n" };
static const char* ALPHABET() { static const char a[] = "\x01\x02\x03\x04\x05\x06\x07\x08\x09\x0a\x0b\x0c\x0d\x0e\x0f"; return a; }
namespace {
struct Actions : ManifestLoaderActions {
  std::string text;
  void initialize(ManifestLoader*) override {}
  void error(StringRef, StringRef, const Token&) override {}
  std::unique_ptr<llvm::MemoryBuffer> readFile(StringRef, StringRef, const Token*) override { return llvm::MemoryBuffer::getMemBufferCopy(text, "build.ninja"); }
};
}
static int run_case(const std::string& fn, const std::vector<unsigned char>& in, std::string& why) {
  struct rlimit rl = { 16u << 20, 16u << 20 }; setrlimit(RLIMIT_STACK, &rl);
  Actions a; for (unsigned char c : in) a.text += TOK[(c + sizeof(TOK) / sizeof(TOK[0]) - 1) % (sizeof(TOK) / sizeof(TOK[0]))];
  ManifestLoader loader("/", "build.ninja", a);
  (void)loader.load();
  return 0;        // a crash (stack overflow included) is seen by the forking search loop
}
