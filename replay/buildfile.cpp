// Native replay driver for U-buildfile: small build files assembled from a token alphabet are loaded by the real loader
// (BuildSystem::loadDescription) under ASan/UBSan; the loader must report an error or succeed, never crash.
#include "llbuild/BuildSystem/BuildValue.h"
#include "unittests/BuildSystem/MockBuildSystemDelegate.cpp"
#include <fstream>
#include <unistd.h>
#include "driver_common.h"
using namespace llbuild::unittests;
static const char* TOK[] = { "{}", "client:\n  name: mock\n", "tools:\n", "targets:\n", "commands:\n", "nodes:\n", "default: x\n", "  a:\n", "    tool: phony\n", "    k: {x: [1]}\n", "    k: [[1]]\n",
                             "    k: {[1]: 2}\n", "  b: [x, [y]]\n", "  c: {d: e}\n", "client: {}\n", "[]\n", "  a: {}\n", "    inputs: {a: b}\n", "    outputs: [[a]]\n" };
static const char* ALPHABET() { static const char a[] = "\0\x01\x02\x03\x04\x05\x06\x07\x08\x09\x0a\x0b\x0c\x0d\x0e\x0f\x10\x11\x12"; return a; }
static int run_case(const std::string& fn, const std::vector<unsigned char>& in, std::string& why) {
  char tmpl[] = "/tmp/verif_bf_XXXXXX"; std::string dir = mkdtemp(tmpl);
  std::string text; for (unsigned char c : in) text += TOK[c % (sizeof(TOK) / sizeof(TOK[0]))];
  { std::ofstream f(dir + "/b.llbuild"); f << text; }
  { MockBuildSystemDelegate d; BuildSystem bs(d, createLocalFileSystem()); (void)bs.loadDescription(dir + "/b.llbuild"); }
  std::string cmd = "rm -rf " + dir; (void)system(cmd.c_str());
  return 0;       // a crash is seen by the forking search loop (non-zero child status)
}
