// Native replay driver for U-sig-fields: two definitions of the same shell command that differ only in
// deps-style (makefile / dependency-info) are loaded through the real BuildSystem and their signatures compared.
#include "llbuild/BuildSystem/BuildValue.h"
#include "unittests/BuildSystem/MockBuildSystemDelegate.cpp"
#include <fstream>
#include "driver_common.h"
using namespace llbuild::unittests;
static const char* ALPHABET() { static const char a[] = "\0\x01\x02"; return a; }
namespace {
struct D : MockBuildSystemDelegate {
  unsigned long long sig = 0;
  void commandStatusChanged(Command* c, CommandStatusKind k) override { if (k == CommandStatusKind::IsScanning) sig = c->getSignature().value; }
};
unsigned long long sigOf(const std::string& dir, const char* body) {
  std::string file = dir + "/sig.llbuild";
  { std::ofstream f(file); f << "client:\n  name: mock\ncommands:\n  c:\n    tool: shell\n" << body; }
  D delegate; BuildSystem system(delegate, createLocalFileSystem());
  if (!system.loadDescription(file)) return 0;
  system.build(BuildKey::makeCommand("c"));
  return delegate.sig;
}
}
static int run_case(const std::string& fn, const std::vector<unsigned char>& in, std::string& why) {
  char tmpl[] = "/tmp/verif_sig_XXXXXX"; std::string dir = mkdtemp(tmpl);
  int scenario = in.size() > 0 ? in[0] % 3 : 0;
  const char* base = "    inputs: [\"a\", \"b\"]\n    outputs: [\"c\"]\n    args: [\"/bin/true\"]\n    deps: \"d.d\"\n";
  std::string d1, d2; const char* what;
  if (scenario == 0) { d1 = std::string(base) + "    deps-style: makefile\n"; d2 = std::string(base) + "    deps-style: dependency-info\n"; what = "deps-style makefile and dependency-info"; }
  else if (scenario == 1) { d1 = "    inputs: [\"a\", \"b\"]\n    outputs: [\"c\"]\n    args: [\"/bin/true\"]\n"; d2 = "    inputs: [\"a\"]\n    outputs: [\"b\", \"c\"]\n    args: [\"/bin/true\"]\n"; what = "inputs [a, b] outputs [c] and inputs [a] outputs [b, c]"; }
  else { d1 = "    inputs: [\"a\"]\n    outputs: [\"c\"]\n    args: [\"/bin/true\", \"d.d\"]\n"; d2 = "    inputs: [\"a\"]\n    outputs: [\"c\"]\n    args: [\"/bin/true\"]\n    deps: \"d.d\"\n"; what = "args [/bin/true, d.d] and args [/bin/true] with deps d.d"; }
  unsigned long long s1 = sigOf(dir, d1.c_str());
  unsigned long long s2 = sigOf(dir, d2.c_str());
  std::string cmd = "rm -rf " + dir; (void)system(cmd.c_str());
  if (s1 != 0 && s1 == s2) { char b[240]; snprintf(b, sizeof b, "%s give the same signature %016llx", what, s1); why = b; return 1; }
  return 0;
}
