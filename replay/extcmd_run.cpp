// Native replay driver for U-ext-run: one BuildSystem instance, a history of builds of a shell command with allow-modified-outputs.
// Each input byte is one step: bit 0 = the command can succeed in this step (a marker file exists), bit 1 = its output is deleted first.
// A build must report success exactly when the command can succeed or a still-valid successful result is reused -- a command whose
// last run failed must be run again.
#include "llbuild/BuildSystem/BuildValue.h"
#include "unittests/BuildSystem/MockBuildSystemDelegate.cpp"
#include <fstream>
#include <unistd.h>
#include "driver_common.h"
using namespace llbuild::unittests;
static const char* ALPHABET() { static const char a[] = "\0\x01\x02\x03"; return a; }
namespace { int started; struct D : MockBuildSystemDelegate { void commandStarted(Command*) override { started++; } }; }
static int run_case(const std::string& fn, const std::vector<unsigned char>& in, std::string& why) {
  char tmpl[] = "/tmp/verif_ext_XXXXXX"; std::string dir = mkdtemp(tmpl); int rc = 0;
  {
    std::string yaml = "client:\n  name: mock\ncommands:\n  A:\n    tool: shell\n    outputs: [\"" + dir + "/a.out\"]\n    allow-modified-outputs: true\n"
                       "    args: \"echo partial > " + dir + "/a.out; test -f " + dir + "/ok || exit 1; echo good > " + dir + "/a.out\"\n";
    { std::ofstream f(dir + "/b.llbuild"); f << yaml; }
    D delegate; BuildSystem bs(delegate, createLocalFileSystem());
    bs.attachDB(dir + "/build.db", nullptr);
    if (!bs.loadDescription(dir + "/b.llbuild")) { why = "load failed"; rc = 2; }
    bool lastRunFailed = false, everRan = false;
    for (size_t i = 0; rc == 0 && i < in.size() && i < 6; i++) {
      bool canSucceed = in[i] & 1;
      if (canSucceed) { std::ofstream f(dir + "/ok"); } else unlink((dir + "/ok").c_str());
      if (in[i] & 2) unlink((dir + "/a.out").c_str());
      started = 0; auto r = bs.build(BuildKey::makeCommand("A"));
      bool ok = r.hasValue() && r->isSuccessfulCommand();
      if (everRan && lastRunFailed && started == 0) { char b[160]; snprintf(b, sizeof b, "step %zu: the command failed when it last ran and was not run again (build reported %s)", i, ok ? "success" : "failure"); why = b; rc = 1; }
      if (started) { everRan = true; lastRunFailed = !canSucceed; }
    }
  }
  std::string cmd = "rm -rf " + dir; (void)system(cmd.c_str());
  return rc == 2 ? 0 : rc;
}
