// Native replay driver for U-eng-cancel (C05): histories over one engine.  A declares D and, on D's value, X; each
// input byte is one build step: low 3 bits = callback in which the build is cancelled (7: not cancelled), bits 3-4 =
// which external values change before the step.  After every step the engine is reset; an uncancelled build must
// return the clean-build value for the then-current external state.
#include "llbuild/Core/BuildEngine.h"
#include "llbuild/Basic/ExecutionQueue.h"
#include "driver_common.h"
using namespace llbuild; using namespace llbuild::core;
static const char* ALPHABET() { static const char a[] = "\0\x0f\x11\x09\x17\x0a\x12\x13\x0c\x14"; return a; }
namespace {
int extX = 1, extD = 10, cancelAt = 7; BuildEngine* gEngine;
ValueType iv(int v){ return ValueType{(uint8_t)v,(uint8_t)(v>>8),0,0}; }
int vi(const ValueType& v){ return v.size()<2?-1:(v[0]|(v[1]<<8)); }
void at(int point) { if (cancelAt == point) gEngine->cancelBuild(); }
struct Del : BuildEngineDelegate, basic::ExecutionQueueDelegate {
  std::unique_ptr<Rule> lookupRule(const KeyType&) override { abort(); }
  void cycleDetected(const std::vector<Rule*>&) override {}
  void error(const Twine&) override {}
  void processStarted(basic::ProcessContext*, basic::ProcessHandle, llbuild_pid_t) override {}
  void processHadError(basic::ProcessContext*, basic::ProcessHandle, const Twine&) override {}
  void processHadOutput(basic::ProcessContext*, basic::ProcessHandle, StringRef) override {}
  void processFinished(basic::ProcessContext*, basic::ProcessHandle, const basic::ProcessResult&) override {}
  void queueJobStarted(basic::JobDescriptor*) override {} void queueJobFinished(basic::JobDescriptor*) override {}
  std::unique_ptr<basic::ExecutionQueue> createExecutionQueue() override { return createSerialQueue(*this, nullptr); }
};
struct InputTask : Task { int* ext; int point; InputTask(int* e, int p):ext(e),point(p){} void start(TaskInterface) override {}
  void provideValue(TaskInterface, uintptr_t, const KeyType&, const ValueType&) override {}
  void inputsAvailable(TaskInterface ti) override { at(point); ti.complete(iv(*ext)); } };
struct InputRule : Rule { int* ext; int point; InputRule(const KeyType& k, int* e, int p):Rule(k),ext(e),point(p){}
  Task* createTask(BuildEngine&) override { return new InputTask(ext, point); }
  bool isResultValid(BuildEngine&, const ValueType& v) override { return vi(v) == *ext; } };
struct ATask : Task { int d = 0, x = 0;
  void start(TaskInterface ti) override { at(0); ti.request("D", 0); }
  void provideValue(TaskInterface ti, uintptr_t id, const KeyType&, const ValueType& v) override {
    if (id == 0) { d = vi(v); at(1); ti.request("X", 1); } else { x = vi(v); at(2); } }
  void inputsAvailable(TaskInterface ti) override { at(3); ti.complete(iv(d + x)); } };
struct ARule : Rule { ARule():Rule("A"){} Task* createTask(BuildEngine&) override { return new ATask(); }
  bool isResultValid(BuildEngine&, const ValueType&) override { return true; } };
}
static int run_case(const std::string& fn, const std::vector<unsigned char>& in, std::string& why) {
  Del del; BuildEngine engine(del); gEngine = &engine; extX = 1; extD = 10;
  engine.addRule(std::unique_ptr<Rule>(new InputRule("D", &extD, 4)));
  engine.addRule(std::unique_ptr<Rule>(new InputRule("X", &extX, 5)));
  engine.addRule(std::unique_ptr<Rule>(new ARule()));
  std::vector<unsigned char> steps(in); steps.push_back(7);             // always end with an uncancelled build
  for (size_t i = 0; i < steps.size() && i < 8; i++) {
    unsigned char b = steps[i];
    if (b & 8) extD += 10; if (b & 16) extX += 1;
    cancelAt = b & 7;
    const ValueType& v = engine.build("A");
    bool cancelled = cancelAt != 7 && cancelAt <= 5;
    if (!cancelled || !v.empty()) {
      if (vi(v) != extD + extX && !(cancelled && v.empty())) {
        char buf[200]; snprintf(buf, sizeof buf, "step %zu: build returned %d, a clean build of the current state gives %d", i, vi(v), extD + extX);
        why = buf; return 1; }
    }
    engine.resetForBuild();
  }
  return 0;
}
