// Native replay driver for U-prefix: the real pathIsPrefixedByPath from libllbuildBuildSystem.
#include "llbuild/BuildSystem/BuildSystem.h"
#include "driver_common.h"
static const char* ALPHABET() { static const char a[] = "\x01/ab"; return a; }
static bool spec(const std::string& p, const std::string& r) {
  size_t n = r.size(); if (n > 0 && r[n - 1] == '/') n--;
  if (p.size() < n) return false;
  for (size_t i = 0; i < n; i++) if (p[i] != r[i]) return false;
  return p.size() == n || p[n] == '/';
}
static int run_case(const std::string& fn, const std::vector<unsigned char>& in, std::string& why) {
  // input = path 0x01 prefix
  std::string s(in.begin(), in.end());
  size_t k = s.find('\x01');
  if (k == std::string::npos || s.find('\x01', k + 1) != std::string::npos) return 0;
  std::string path = s.substr(0, k), prefix = s.substr(k + 1);
  bool got = llbuild::buildsystem::pathIsPrefixedByPath(path, prefix);
  if (got != spec(path, prefix)) { why = "pathIsPrefixedByPath(\"" + path + "\", \"" + prefix + "\") = " + (got ? "true" : "false") + ", component-wise spec says otherwise"; return 1; }
  return 0;
}
