// Shared skeleton of the native replay drivers.  Each driver #includes the real
// /repo .cpp under test (so that static functions are reachable and the code is
// itself compiled with ASan/UBSan) and defines:
//     int run_case(const std::string& fn, const std::vector<unsigned char>& in, std::string& why)
// returning 0 when every property-level clause evaluated natively holds.
#include <cstdio>
#include <cstdlib>
#include <cstring>
#include <string>
#include <vector>
#include <unistd.h>
#include <sys/wait.h>

static int run_case(const std::string& fn, const std::vector<unsigned char>& in, std::string& why);
static const char* ALPHABET();   // interesting bytes for enumeration

static std::vector<unsigned char> unhex(const char* s) {
  std::vector<unsigned char> v;
  for (size_t i = 0; s[i] && s[i + 1]; i += 2) {
    unsigned x; sscanf(s + i, "%2x", &x); v.push_back((unsigned char)x);
  }
  return v;
}
static std::string hex(const std::vector<unsigned char>& v) {
  std::string s; char b[3];
  for (unsigned char c : v) { snprintf(b, 3, "%02x", c); s += b; }
  return s;
}

// run one case in a child so that a sanitizer abort does not end the search
static int run_forked(const std::string& fn, const std::vector<unsigned char>& in) {
  fflush(stdout);
  pid_t p = fork();
  if (p == 0) {
    std::string why;
    int r = run_case(fn, in, why);
    if (r) { printf("CLAUSE %s\n", why.c_str()); fflush(stdout); }
    _exit(r ? 3 : 0);
  }
  int st = 0; waitpid(p, &st, 0);
  if (WIFEXITED(st)) return WEXITSTATUS(st);
  return 100 + (WIFSIGNALED(st) ? WTERMSIG(st) : 0);
}

int main(int argc, char** argv) {
  if (argc >= 4 && !strcmp(argv[1], "run")) {
    std::string why;
    std::vector<unsigned char> in = unhex(argv[3]);
    int r = run_case(argv[2], in, why);
    if (r) { printf("REPRODUCED %s\n", why.c_str()); return 3; }
    printf("OK\n");
    return 0;
  }
  if (argc >= 6 && !strcmp(argv[1], "search")) {
    std::string fn = argv[2];
    int maxlen = atoi(argv[3]); unsigned seed = (unsigned)atoi(argv[4]); long budget = atol(argv[5]);
    const char* A = ALPHABET(); int na = 0; while (A[na] || na == 0) { na++; if (!A[na]) break; }
    na = (int)strlen(A + 1) + 1;   // alphabet may start with NUL
    long tried = 0;
    // exhaustive by length over the alphabet, then random bytes
    for (int len = 0; len <= maxlen && tried < budget; len++) {
      std::vector<int> idx(len, 0);
      while (tried < budget) {
        std::vector<unsigned char> in(len);
        for (int i = 0; i < len; i++) in[i] = (unsigned char)A[idx[i]];
        tried++;
        int r = run_forked(fn, in);
        if (r) { printf("FOUND %s exit=%d tried=%ld\n", hex(in).c_str(), r, tried); return 0; }
        int k = len - 1;
        while (k >= 0 && ++idx[k] == na) { idx[k] = 0; k--; }
        if (k < 0) break;
      }
    }
    srand(seed);
    while (tried < budget) {
      int len = rand() % (maxlen * 3 + 1);
      std::vector<unsigned char> in(len);
      for (int i = 0; i < len; i++) in[i] = (rand() % 3) ? (unsigned char)A[rand() % na] : (unsigned char)(rand() & 0xff);
      tried++;
      int r = run_forked(fn, in);
      if (r) { printf("FOUND %s exit=%d tried=%ld\n", hex(in).c_str(), r, tried); return 0; }
    }
    printf("NONE tried=%ld\n", tried);
    return 0;
  }
  fprintf(stderr, "usage: %s run <fn> <hex> | search <fn> <maxlen> <seed> <budget>\n", argv[0]);
  return 2;
}
