// Native replay driver for U-mkdeps: the real lib/Core/MakefileDepsParser.cpp under ASan/UBSan.
#include "lib/Core/MakefileDepsParser.cpp"
#include "driver_common.h"

static const char* ALPHABET() { static const char a[] = "\0\\ $:#\na\r\t"; return a; }

namespace {
struct Rec : public MakefileDepsParser::ParseActions {
  const char* b; size_t n; long starts = 0, ends = 0; std::string why;
  bool inside(StringRef s) { return s.data() >= b && s.data() + s.size() <= b + n; }
  void error(StringRef, uint64_t pos) override { if (pos > n) why = "error position beyond the buffer"; }
  void actOnRuleStart(StringRef name, StringRef un) override {
    starts++;
    if (!inside(name)) why = "rule name span outside the buffer";
    if (name.size() < 1 || un.size() < 1 || un.size() > name.size() || 2 * un.size() < name.size()) why = "rule word accounting";
  }
  void actOnRuleDependency(StringRef dep, StringRef un) override {
    if (!inside(dep)) why = "dependency span outside the buffer";
    if (dep.size() < 1 || un.size() < 1 || un.size() > dep.size() || 2 * un.size() < dep.size()) why = "dependency word accounting";
  }
  void actOnRuleEnd() override { ends++; if (ends != starts) why = "rule end without matching start"; }
};
}

static int run_case(const std::string& fn, const std::vector<unsigned char>& in, std::string& why) {
  // exact-size heap copy: any read outside [b, b+n) is an ASan report
  char* b = (char*)malloc(in.size() ? in.size() : 1);
  if (in.size()) memcpy(b, in.data(), in.size());
  char* heap = in.size() ? b : (char*)malloc(0);
  const char* cur = in.size() ? b : heap; const char* end = cur + in.size(); const char* start = cur;
  int rc = 0;
  if (fn == "lexWord") {
    SmallString<256> w; lexWord(cur, end, w);
    size_t consumed = cur - start;
    if (cur < start || cur > end) { why = "cursor left the buffer"; rc = 1; }
    else if (w.size() > consumed || 2 * w.size() < consumed) { why = "consumed/produced byte accounting"; rc = 1; }
  } else if (fn == "skipWhitespaceAndComments" || fn == "skipNonNewlineWhitespace" || fn == "skipToEndOfLine") {
    if (fn == "skipWhitespaceAndComments") skipWhitespaceAndComments(cur, end);
    else if (fn == "skipNonNewlineWhitespace") skipNonNewlineWhitespace(cur, end);
    else skipToEndOfLine(cur, end);
    if (cur < start || cur > end) { why = "cursor left the buffer"; rc = 1; }
    if (fn == "skipToEndOfLine" && start != end && cur == start) { why = "no progress"; rc = 1; }
    if (fn == "skipNonNewlineWhitespace" && !rc)
      for (const char* p = start; p < cur; ++p)
        if (!(*p == ' ' || *p == '\t' || *p == '\r' || *p == '\\' || *p == '\n')) { why = "skipped a byte that is not a blank or an escaped newline"; rc = 1; }
  } else if (fn == "MakefileDepsParser::parse") {
    Rec r; r.b = start; r.n = in.size();
    MakefileDepsParser(StringRef(start, in.size()), r, false).parse();
    if (r.why.empty() && r.ends != r.starts) r.why = "rule start without end";
    if (!r.why.empty()) { why = r.why; rc = 1; }
    Rec r2; r2.b = start; r2.n = in.size();
    MakefileDepsParser(StringRef(start, in.size()), r2, true).parse();
    if (r2.why.empty() && r2.ends != r2.starts) r2.why = "rule start without end";
    if (!r2.why.empty()) { why = r2.why; rc = 1; }
  } else if (fn == "isWordChar") {
    for (int c = -1; c < 256; c++) {
      bool expect = !(c == 0 || c == '\t' || c == '\r' || c == '\n' || c == ' ' || c == '$' || c == ':');
      if (isWordChar(c) != expect) { why = "isWordChar table"; rc = 1; }
    }
  } else { why = "unknown function"; rc = 2; }
  free(b); if (!in.size()) free(heap);
  return rc;
}
