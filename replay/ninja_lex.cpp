// Native replay driver for U-ninja-lex: the real lib/Ninja/Lexer.cpp under ASan/UBSan.
#include "lib/Ninja/Lexer.cpp"
#include "driver_common.h"

static const char* ALPHABET() { static const char a[] = "\0$ \n\r\xff" "a:|#=\tsubninjXe"; return a; }

static int run_case(const std::string& fn, const std::vector<unsigned char>& in, std::string& why) {
  char* b = (char*)malloc(in.size());   // exact size, no terminator
  if (in.size()) memcpy(b, in.data(), in.size());
  const char* end = b + in.size();
  int rc = 0;
  for (int mode = 0; mode < 4 && !rc; mode++) {
    Lexer lexer(StringRef(b, in.size()));
    lexer.setMode((Lexer::LexingMode)mode);
    const char* pos = b;
    for (size_t n = 0; n <= in.size() + 2; n++) {
      Token t; lexer.lex(t);
      // tiling: token starts at or after the previous end, only blanks / $-newline escapes are skipped
      if (t.start < pos || t.start + t.length > end) { why = "token outside the buffer or overlapping"; rc = 1; break; }
      for (const char* p = pos; p < t.start; ++p)
        if (!(*p == ' ' || *p == '\t' || *p == '\v' || *p == '\f' || *p == '$' || *p == '\n' || *p == '\r')) { why = "non-blank byte skipped between tokens"; rc = 1; }
      if (rc) break;
      if (t.tokenKind == Token::Kind::EndOfFile) {
        if (t.start != end || t.length != 0) { why = "EndOfFile before the true end of the buffer"; rc = 1; }
        break;
      }
      if (t.length == 0) { why = "empty token (no progress)"; rc = 1; break; }
      if (t.isKeyword()) {
        static const char* kws[] = {"rule", "pool", "build", "default", "include", "subninja"};
        bool ok = false;
        for (const char* k : kws) if (strlen(k) == t.length && !memcmp(k, t.start, t.length)) ok = true;
        if (!ok) { why = "keyword kind for bytes that are not a keyword"; rc = 1; break; }
      }
      if (t.tokenKind == Token::Kind::Identifier && mode != (int)Lexer::LexingMode::IdentifierSpecific) {
        static const char* kws[] = {"rule", "pool", "build", "default", "include", "subninja"};
        for (const char* k : kws) if (strlen(k) == t.length && !memcmp(k, t.start, t.length)) { why = "keyword bytes lexed as identifier"; rc = 1; }
        if (rc) break;
      }
      pos = t.start + t.length;
      if (n == in.size() + 2) { why = "more tokens than bytes"; rc = 1; }
    }
  }
  free(b);
  return rc;
}
