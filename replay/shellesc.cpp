// Native replay driver for U-shell-esc: the real basic::shellEscaped through the real /bin/sh.
#include "llbuild/Basic/ShellUtility.h"
#include "driver_common.h"
static const char* ALPHABET() { static const char a[] = "#~'a /$\\\"*"; return a; }
static int run_case(const std::string& fn, const std::vector<unsigned char>& in, std::string& why) {
  if (in.empty()) return 0;
  for (unsigned char c : in) if (c == 0) return 0;           // sh cannot carry NUL
  std::string path(in.begin(), in.end());
  std::string esc = llbuild::basic::shellEscaped(path);
  std::string cmd = "printf '%s' " + esc;
  FILE* p = popen(("/bin/sh -c " + std::string("'") + "exec 2>/dev/null; " + "'").c_str(), "r"); if (p) pclose(p);
  // run: /bin/sh -c "<cmd>" with the command passed through a file to avoid a second level of quoting
  char tmpl[] = "/tmp/verif_sh_XXXXXX"; int fd = mkstemp(tmpl); if (fd < 0) return 0;
  if (write(fd, cmd.data(), cmd.size()) != (ssize_t)cmd.size()) { close(fd); unlink(tmpl); return 0; }
  close(fd);
  std::string run = std::string("/bin/sh ") + tmpl + " 2>/dev/null";
  FILE* f = popen(run.c_str(), "r"); std::string got; char buf[256]; size_t n;
  while (f && (n = fread(buf, 1, sizeof buf, f)) > 0) got.append(buf, n);
  if (f) pclose(f);
  unlink(tmpl);
  if (got != path) { why = "shellEscaped(\"" + path + "\") = " + esc + " ; /bin/sh yields \"" + got + "\""; return 1; }
  return 0;
}
