// Native replay driver for U-depinfo: the real lib/Core/DependencyInfoParser.cpp under ASan/UBSan.
#include "lib/Core/DependencyInfoParser.cpp"
#include "driver_common.h"

static const char* ALPHABET() { static const char a[] = "\0\x10\x11\x40" "a\x7f"; return a; }

namespace {
struct Rec : public DependencyInfoParser::ParseActions {
  const char* b; size_t n; size_t next = 0; bool err = false, evt = false; std::string why;
  void rec(StringRef op, unsigned char opcode) {
    evt = true;
    if (!(op.data() >= b + 1 && op.data() + op.size() < b + n)) { why = "operand span outside the buffer"; return; }
    if (op.size() < 1 || op.data()[op.size()] != 0 || (unsigned char)op.data()[-1] != opcode) why = "record not reported with exactly its bytes";
    if (!err && (size_t)(op.data() - b) - 1 != next) why = "record skipped or reported out of order";
    next = (op.data() - b) + op.size() + 1;
  }
  void error(const char*, uint64_t pos) override { err = true; if (pos > n) why = "error position beyond the buffer"; }
  void actOnVersion(StringRef s) override { rec(s, 0x00); }
  void actOnInput(StringRef s) override { rec(s, 0x10); }
  void actOnMissing(StringRef s) override { rec(s, 0x11); }
  void actOnOutput(StringRef s) override { rec(s, 0x40); }
};
}

static int run_case(const std::string& fn, const std::vector<unsigned char>& in, std::string& why) {
  char* b = (char*)malloc(in.size());   // exact size: any read outside is an ASan report
  if (in.size()) memcpy(b, in.data(), in.size());
  Rec r; r.b = b; r.n = in.size();
  DependencyInfoParser(StringRef(b, in.size()), r).parse();
  bool malformed = in.size() == 0 || in.back() != 0 || in[0] != 0;
  if (r.why.empty() && malformed && !(r.err && !r.evt)) r.why = "malformed file not rejected through the error callback";
  if (r.why.empty() && !r.err && r.next != in.size()) r.why = "records dropped without an error";
  free(b);
  if (!r.why.empty()) { why = r.why; return 1; }
  return 0;
}
