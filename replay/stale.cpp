// Native replay driver for U-stale: the stale-file-removal tool through the real BuildSystem.  A first session records [a.o, b.o]; a
// second session (expected [a.o]) runs in.size()+1 builds on ONE BuildSystem instance; after each build b.o is re-created when the
// step's bit 0 is set.  A file that the previous successful run did not list must never be removed.
#include "llbuild/BuildSystem/BuildValue.h"
#include "unittests/BuildSystem/MockBuildSystemDelegate.cpp"
#include <fstream>
#include <unistd.h>
#include "driver_common.h"
using namespace llbuild::unittests;
static const char* ALPHABET() { static const char a[] = "\0\x01"; return a; }
static void desc(const std::string& dir, const std::string& list) {
  std::ofstream f(dir + "/b.llbuild");
  f << "client:\n  name: mock\ntools:\n  stale-file-removal: {}\ncommands:\n  S:\n    tool: stale-file-removal\n    expectedOutputs: [" << list << "]\n"; }
static int run_case(const std::string& fn, const std::vector<unsigned char>& in, std::string& why) {
  char tmpl[] = "/tmp/verif_stale_XXXXXX"; std::string dir = mkdtemp(tmpl); int rc = 0;
  std::string a = dir + "/a.o", b = dir + "/b.o";
  { std::ofstream(a.c_str()) << "a"; std::ofstream(b.c_str()) << "b"; }
  { desc(dir, "\"" + a + "\", \"" + b + "\""); MockBuildSystemDelegate d; BuildSystem bs(d, createLocalFileSystem()); bs.attachDB(dir + "/build.db", nullptr);
    if (bs.loadDescription(dir + "/b.llbuild")) bs.build(BuildKey::makeCommand("S")); }
  {
    desc(dir, "\"" + a + "\""); MockBuildSystemDelegate d; BuildSystem bs(d, createLocalFileSystem()); bs.attachDB(dir + "/build.db", nullptr);
    if (bs.loadDescription(dir + "/b.llbuild")) {
      bs.build(BuildKey::makeCommand("S"));
      if (access(b.c_str(), F_OK) == 0) { why = "the obsolete output b.o was not removed"; rc = 1; }
      for (size_t i = 0; rc == 0 && i < in.size() && i < 4; i++) {
        bool recreate = in[i] & 1;
        if (recreate) { std::ofstream(b.c_str()) << "user file"; }
        bs.build(BuildKey::makeCommand("S"));
        if (recreate && access(b.c_str(), F_OK) != 0) { char buf[200]; snprintf(buf, sizeof buf, "build %zu on the same instance removed b.o although the previous successful run did not list it", i + 2); why = buf; rc = 1; }
      }
    }
  }
  std::string cmd = "rm -rf " + dir; (void)system(cmd.c_str());
  return rc;
}
