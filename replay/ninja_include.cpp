// Native replay driver for U-ninja-include: a three-file in-memory file system (a, b, c) whose contents are assembled from a fragment
// alphabet is loaded by the real ninja::ManifestLoader under ASan/UBSan, starting at file a.  The loader must end -- reporting the
// include of a file that is still being loaded -- and never crash or recurse without end; a file is read again only after it was left.
#include "llbuild/Ninja/ManifestLoader.h"
#include "llbuild/Ninja/Manifest.h"
#include "llvm/Support/MemoryBuffer.h"
#include "driver_common.h"
#include <sys/resource.h>
#include <map>
using namespace llbuild; using namespace llbuild::ninja;
// token 8 closes the current file and continues with the next one (a -> b -> c)
static const char* TOK[] = { "include a\n", "include b\n", "include c\n", "subninja a\n", "subninja b\n", "subninja c\n", "x = 1\n", 0 };
static const char* ALPHABET() { static const char a[] = "\x01\x02\x03\x04\x05\x06\x07\x08"; return a; }
namespace {
struct Actions : ManifestLoaderActions {
  std::map<std::string, std::string> files;
  unsigned reads = 0;
  void initialize(ManifestLoader*) override {}
  void error(StringRef, StringRef, const Token&) override {}
  std::unique_ptr<llvm::MemoryBuffer> readFile(StringRef path, StringRef, const Token*) override {
    // every read of a file that is being loaded is one more level of recursion: more reads than files on one chain cannot end
    if (++reads > 4096) { printf("CLAUSE a manifest file is read again while it is still being loaded (more than 4096 nested reads of 3 files)\n"); fflush(stdout); _exit(3); }
    auto it = files.find(path.str());
    if (it == files.end()) return nullptr;
    return llvm::MemoryBuffer::getMemBufferCopy(it->second, path);
  }
};
}
static int run_case(const std::string& fn, const std::vector<unsigned char>& in, std::string& why) {
  struct rlimit rl = { 16u << 20, 16u << 20 }; setrlimit(RLIMIT_STACK, &rl);
  Actions a; const char* names[] = { "/a", "/b", "/c" }; unsigned cur = 0;
  a.files["/a"] = ""; a.files["/b"] = ""; a.files["/c"] = "";
  for (unsigned char c : in) {
    unsigned k = (c + 7) % 8;          // byte 1 -> token 0
    if (!TOK[k]) { if (cur < 2) cur++; continue; }
    a.files[names[cur]] += TOK[k];
  }
  ManifestLoader loader("/", "a", a);
  (void)loader.load();
  return 0;        // a crash (stack overflow included) is seen by the forking search loop
}
