// Native replay driver for U-db-open: the real lib/Core/SQLiteBuildDB.cpp (compiled into the driver under ASan/UBSan).
// Input bytes: [0] = kind of database path (0: a fresh file, 1: ":memory:", 2: a file whose directory is missing,
// 3: a file holding a database of another schema version), [1] = recreateOnUnmatchedVersion.
// Clause: a database that plain sqlite3_open() can open is either opened by BuildDB (first operation succeeds) or rejected
// with a version error when recreation is not allowed -- it never fails while "initialising" a connection it already closed.
#include "lib/Core/SQLiteBuildDB.cpp"
#include "driver_common.h"
#include <sys/stat.h>
static const char* ALPHABET() { static const char a[] = "\0\x01\x02\x03"; return a; }
static int run_case(const std::string& fn, const std::vector<unsigned char>& in, std::string& why) {
  int kind = in.size() > 0 ? in[0] & 3 : 0; bool recreate = in.size() > 1 ? (in[1] & 1) : true;
  char tmpl[] = "/tmp/verif_dbopen_XXXXXX"; std::string dir = mkdtemp(tmpl);
  std::string path = dir + "/build.db";
  if (kind == 1) path = ":memory:";
  if (kind == 2) path = dir + "/missing/build.db";
  if (kind == 3) {
    sqlite3* db; sqlite3_open(path.c_str(), &db);
    sqlite3_exec(db, "CREATE TABLE info (id INTEGER PRIMARY KEY, version INTEGER, client_version INTEGER, iteration INTEGER); INSERT INTO info VALUES (0, 3, 0, 0);", 0, 0, 0);
    sqlite3_close(db);
  }
  sqlite3* probe = nullptr; bool sqliteOpens = sqlite3_open(path.c_str(), &probe) == SQLITE_OK; sqlite3_close(probe);
  if (kind != 3 && kind != 1) ::unlink(path.c_str());
  int rc = 0;
  {
    std::string error;
    std::unique_ptr<llbuild::core::BuildDB> db = llbuild::core::createSQLiteBuildDB(path, /*clientSchemaVersion=*/1, recreate, &error);
    bool ok = false;
    if (db) { std::string e2; bool success = false; db->getCurrentEpoch(&success, &e2); ok = success; if (!success) error = e2; }
    bool mayReject = !recreate;      // every case here starts from a database without the expected version row
    if (sqliteOpens && !ok && !(mayReject && error.find("Version mismatch") != std::string::npos)) {
      why = "database at '" + path + "' opens with sqlite3_open but BuildDB fails: " + error; rc = 1; }
    if (!sqliteOpens && ok) { why = "BuildDB reports success on a path sqlite cannot open"; rc = 1; }
  }
  std::string cmd = "rm -rf " + dir; (void)system(cmd.c_str());
  return rc;
}
