// Native replay driver for U-db-open: the real lib/Core/SQLiteBuildDB.cpp (compiled into the driver under ASan/UBSan).
// Input bytes: [0] = kind of database path (0: a fresh file, 1: ":memory:", 2: a file whose directory is missing,
// 3: a file holding a database of another schema version), [1] = recreateOnUnmatchedVersion.
// Clause: a database that plain sqlite3_open() can open is either opened by BuildDB (first operation succeeds) or rejected
// with a version error when recreation is not allowed -- it never fails while "initialising" a connection it already closed.
// (the busy timeout of the connection is shortened for the driver only: 5 s -> 50 ms; nothing else of the source is touched)
#include <sqlite3.h>
static inline int verif_busy_timeout(sqlite3* db, int) { return sqlite3_busy_timeout(db, 50); }
#define sqlite3_busy_timeout(db, ms) verif_busy_timeout(db, ms)
#include "lib/Core/SQLiteBuildDB.cpp"
#undef sqlite3_busy_timeout
#include "driver_common.h"
#include "llbuild/Core/BuildEngine.h"
#include "llbuild/Basic/ExecutionQueue.h"
#include <sys/stat.h>
// kind 4..7: two rules whose keys are [2] and [3] (decimal spellings such as "0123" / "123") are built in three sessions over one
// database file; a rule must never be handed the stored result of the other one.
namespace {
using namespace llbuild; using namespace llbuild::core;
int g_runs;
ValueType iv(int v){ return ValueType{(uint8_t)v,(uint8_t)(v>>8),0,0}; }
int vi(const ValueType& v){ return v.size()<2?-1:(v[0]|(v[1]<<8)); }
struct Del : BuildEngineDelegate, basic::ExecutionQueueDelegate {
  std::unique_ptr<Rule> lookupRule(const KeyType&) override { abort(); }
  void cycleDetected(const std::vector<Rule*>&) override {}
  void error(const Twine&) override {}
  void processStarted(basic::ProcessContext*, basic::ProcessHandle, llbuild_pid_t) override {}
  void processHadError(basic::ProcessContext*, basic::ProcessHandle, const Twine&) override {}
  void processHadOutput(basic::ProcessContext*, basic::ProcessHandle, StringRef) override {}
  void processFinished(basic::ProcessContext*, basic::ProcessHandle, const basic::ProcessResult&) override {}
  void queueJobStarted(basic::JobDescriptor*) override {} void queueJobFinished(basic::JobDescriptor*) override {}
  std::unique_ptr<basic::ExecutionQueue> createExecutionQueue() override { return createSerialQueue(*this, nullptr); }
};
struct CT : Task { int v; CT(int v):v(v){} void start(TaskInterface) override {}
  void provideValue(TaskInterface, uintptr_t, const KeyType&, const ValueType&) override {}
  void inputsAvailable(TaskInterface ti) override { g_runs++; ti.complete(iv(v)); } };
struct CR : Rule { int v; CR(const KeyType& k, int v):Rule(k),v(v){}
  Task* createTask(BuildEngine&) override { return new CT(v); }
  bool isResultValid(BuildEngine&, const ValueType&) override { return true; } };
int session(const std::string& path, const std::string& k1, const std::string& k2, const std::string& key) {
  Del del; BuildEngine engine(del); std::string err;
  engine.attachDB(createSQLiteBuildDB(path, 1, true, &err), &err);
  engine.addRule(std::unique_ptr<Rule>(new CR(k1, 7)));
  if (k2 != k1) engine.addRule(std::unique_ptr<Rule>(new CR(k2, 9)));
  return vi(engine.build(key)); }
const char* SPELL[] = {"123", "0123", "1e3", "1000", "123.0", " 123", "a", "+5"};
}
static const char* ALPHABET() { static const char a[] = "\0\x01\x02\x03\x04\x05\x06\x07\x08"; return a; }
static int run_case(const std::string& fn, const std::vector<unsigned char>& in, std::string& why) {
  if (in.size() > 0 && (in[0] & 8)) {
    // kind 8: a database of another schema version (3) with iteration 41 is held by another connection while BuildDB first touches it;
    // the first access fails (busy); the holder lets go; the same BuildDB object is used again.  Clause: the foreign database is still
    // never interpreted -- the second access reports the version mismatch ([1] & 1 == 0) or recreates the database and reads epoch 0.
    bool recreate = in.size() > 1 ? (in[1] & 1) : false;
    char t3[] = "/tmp/verif_dbbusy_XXXXXX"; std::string d3 = mkdtemp(t3); std::string path = d3 + "/build.db";
    sqlite3* holder = nullptr; sqlite3_open(path.c_str(), &holder);
    sqlite3_exec(holder, "CREATE TABLE info (id INTEGER PRIMARY KEY, version INTEGER, client_version INTEGER, iteration INTEGER); INSERT INTO info VALUES (0, 3, 0, 41);", 0, 0, 0);
    sqlite3_exec(holder, "BEGIN EXCLUSIVE;", 0, 0, 0);
    int rc = 0;
    {
      std::string error;
      std::unique_ptr<llbuild::core::BuildDB> db = llbuild::core::createSQLiteBuildDB(path, /*clientSchemaVersion=*/1, recreate, &error);
      bool s1 = false, s2 = false; std::string e1, e2;
      db->getCurrentEpoch(&s1, &e1);
      sqlite3_exec(holder, "END;", 0, 0, 0); sqlite3_close(holder);
      unsigned long long ep = db->getCurrentEpoch(&s2, &e2);
      char buf[400];
      if (!s1 && s2 && (!recreate || ep != 0)) {
        snprintf(buf, sizeof buf, "a database of schema version 3 (iteration 41) was busy at the first access (%s); at the next access of the same BuildDB the version check was skipped and epoch %llu was read from it (recreate=%d)", e1.c_str(), ep, (int)recreate);
        why = buf; rc = 1; }
      else if (!s1 && !s2 && e2.find("Version mismatch") == std::string::npos) {
        snprintf(buf, sizeof buf, "a database of schema version 3 was busy at the first access (%s); the next access of the same BuildDB fails with '%s' instead of the version check (recreate=%d)", e1.c_str(), e2.c_str(), (int)recreate);
        why = buf; rc = 1; }
    }
    std::string cmd = "rm -rf " + d3; (void)system(cmd.c_str());
    return rc;
  }
  if (in.size() > 0 && (in[0] & 4)) {
    char t2[] = "/tmp/verif_dbkeys_XXXXXX"; std::string d2 = mkdtemp(t2); std::string path = d2 + "/build.db";
    std::string k1 = SPELL[in.size() > 2 ? in[2] & 7 : 0], k2 = SPELL[in.size() > 3 ? in[3] & 7 : 1];
    int a = session(path, k1, k2, k1), b = session(path, k1, k2, k2), c = session(path, k1, k2, k1);
    std::string cmd = "rm -rf " + d2; (void)system(cmd.c_str());
    int eb = k1 == k2 ? 7 : 9;
    if (a != 7 || b != eb || c != 7) { char buf[200]; snprintf(buf, sizeof buf, "keys '%s' and '%s' over one database: sessions returned %d, %d, %d (expected 7, %d, 7)", k1.c_str(), k2.c_str(), a, b, c, eb); why = buf; return 1; }
    return 0;
  }
  int kind = in.size() > 0 ? in[0] & 3 : 0; bool recreate = in.size() > 1 ? (in[1] & 1) : true;
  char tmpl[] = "/tmp/verif_dbopen_XXXXXX"; std::string dir = mkdtemp(tmpl);
  std::string path = dir + "/build.db";
  if (kind == 1) path = ":memory:";
  if (kind == 2) path = dir + "/missing/build.db";
  if (kind == 3) {
    sqlite3* db; sqlite3_open(path.c_str(), &db);
    sqlite3_exec(db, "CREATE TABLE info (id INTEGER PRIMARY KEY, version INTEGER, client_version INTEGER, iteration INTEGER); INSERT INTO info VALUES (0, 3, 0, 0);", 0, 0, 0);
    sqlite3_close(db);
  }
  sqlite3* probe = nullptr; bool sqliteOpens = sqlite3_open(path.c_str(), &probe) == SQLITE_OK; sqlite3_close(probe);
  if (kind != 3 && kind != 1) ::unlink(path.c_str());
  int rc = 0;
  {
    std::string error;
    std::unique_ptr<llbuild::core::BuildDB> db = llbuild::core::createSQLiteBuildDB(path, /*clientSchemaVersion=*/1, recreate, &error);
    bool ok = false;
    if (db) { std::string e2; bool success = false; db->getCurrentEpoch(&success, &e2); ok = success; if (!success) error = e2; }
    bool mayReject = !recreate;      // every case here starts from a database without the expected version row
    if (sqliteOpens && !ok && !(mayReject && error.find("Version mismatch") != std::string::npos)) {
      why = "database at '" + path + "' opens with sqlite3_open but BuildDB fails: " + error; rc = 1; }
    if (!sqliteOpens && ok) { why = "BuildDB reports success on a path sqlite cannot open"; rc = 1; }
  }
  std::string cmd = "rm -rf " + dir; (void)system(cmd.c_str());
  return rc;
}
