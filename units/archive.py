"""U-archive: the first step of ArchiveShellCommand::executeExternalCommand (lib/BuildSystem/BuildSystem.cpp) -- C08: before `ar cr` re-creates an archive the OLD ARCHIVE
(the file named archiveName: the first non-virtual output) is removed, so members of inputs that left the description do not survive; a failed removal fails the command."""
from units.serialqueue import COMMON

UNIT = dict(COMMON, **{
    'name': 'archive',
    'source': 'lib/BuildSystem/BuildSystem.cpp',
    'dumps': ['ArchiveShellCommand', 'basic::ProcessResult', 'basic::ProcessStatus'],
    'types': dict(COMMON['types'], **{'std::string': 'vstr', 'string': 'vstr', 'basic_string<char>': 'vstr', 'Twine': 'strref', 'llvm::Twine': 'strref', 'StringRef': 'strref'}),
    'type_patterns': COMMON['type_patterns'] + [(r'(std::)?error_code', 'int'), (r'(std::)?vector<(buildsystem::)?BuildNode \*.*>', 'vec_node')],
    'vec_types': {'vec_node': 'struct BuildNode *'},
    'struct_extra': {'BuildNode': '  strref g_name;\n', 'Node': '  strref g_name;\n'},
    'by_value': COMMON['by_value'] + ['strref'], 'by_pointer': ['vstr'],
    'need_fields': {'ArchiveShellCommand': ['archiveName']},
    'no_translate': ['remove', 'getName'],
    'after_structs': ('static inline void verif_complete(struct completion_opt *f, struct ProcessResult r) { g_completions++; g_completion_status = r.status; }\n'
                      'static inline struct ProcessResult presult_of(int status, int exitCode, int pid, uint64_t a, uint64_t b, uint64_t c) { struct ProcessResult r; r.status = status; r.exitCode = exitCode; return r; }\n'
                      'const char *g_rm_path; unsigned g_removes; _Bool g_rm_ignore_missing; int g_rm_error;\n'
                      '/* llvm::sys::fs::remove(path, IgnoreNonExisting): which path, with which flag; the error code is a ghost */\n'
                      'static inline int verif_fs_remove(strref path, _Bool ignore) { g_removes++; g_rm_path = path.ptr; g_rm_ignore_missing = ignore; return g_rm_error; }\n'
                      'static inline strref vstr_as_ref(const vstr *s) { strref r; r.ptr = s->ptr; r.len = s->len; return r; }\n'),
    'calls': {
        'm:@struct completion_opt::hasValue': '($o->has)', 'm:@struct completion_opt::getValue': '$o', 'o:():@struct completion_opt': 'verif_complete', 'fn:remove': 'verif_fs_remove', 'o:[]:@vec_node': '$o->ptr[$0]', 'm:Node::getName': '($o->g_name)', 'm:BuildNode::getName': '($o->g_name)',
        'm:@int::operator bool': '(*$o != 0)', 'm:error_code::operator bool': '(*$o != 0)',
    },
    'call_patterns': [(r'c:(llvm::)?Twine\(const (llvm::)?StringRef &\)', '$0'), (r'c:(llvm::)?Twine\(const (std::)?(string|basic_string<char>) &\)', 'vstr_as_ref'), (r'c:(basic::)?ProcessResult\((basic::)?ProcessStatus.*\)', 'presult_of'), (r'c:(basic::)?ProcessResult\((const )?(basic::)?ProcessResult &+\)', '$0')],
    'functions': {
        'ArchiveShellCommand::executeExternalCommand#remove': {
            'of': 'ArchiveShellCommand::executeExternalCommand', 'cname': 'ArchiveShellCommand_execute_remove_step',
            'segment': {'kind': 'IfStmt', 'mentions': ['remove', 'completionFn', 'Failed'], 'exits': True},
            'requires': ['__CPROVER_is_fresh(self, sizeof(*self))', '__CPROVER_is_fresh(__seg_exit, sizeof(int))', '__CPROVER_is_fresh(completionFn, sizeof(*completionFn))', 'g_removes == 0 && g_completions == 0',
                         'self->archiveName.ptr != 0'],
            'assigns': ['*__seg_exit', 'g_removes', 'g_rm_path', 'g_rm_ignore_missing', 'g_completions', 'g_completion_status'],
            'ensures': [
                ('P:C08', 'g_removes == 1 && g_rm_path == self->archiveName.ptr && g_rm_ignore_missing'),
                ('P:C08,P:C10', '(g_rm_error != 0) ? (*__seg_exit == 1 && g_completions == (completionFn->has ? 1u : 0u) && (completionFn->has ==> g_completion_status == ProcessStatus_Failed)) : (*__seg_exit == 0 && g_completions == 0)'),
            ]},
    },
})
