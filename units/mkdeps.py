"""U-mkdeps: lib/Core/MakefileDepsParser.cpp (C19 safety/termination, C11 escaping)."""

OFF = '__CPROVER_POINTER_OFFSET'
BUF = [
    # the input buffer is one fresh object of symbolic length g_len; no terminator is assumed.
    # (+1: a zero-sized object is awkward in cbmc; byte g_len is never read -- reading it fails `*cur < end` proofs
    #  because every dereference is preceded by a proof that OFFSET(*cur) < g_len... see the deref guard below)
    'g_len <= (size_t)1 << 40',
    '__CPROVER_is_fresh(g_buf, g_len)',
    '__CPROVER_is_fresh(cur, sizeof(*cur))',
    '__CPROVER_same_object(*cur, g_buf) && %s(*cur) <= g_len' % OFF,
    '__CPROVER_same_object(end, g_buf) && %s(end) == g_len' % OFF,
]

INV = ['__CPROVER_same_object(*cur, end) && %s(__CPROVER_loop_entry(*cur)) <= %s(*cur) && %s(*cur) <= %s(end)' % (OFF, OFF, OFF, OFF)]
POST = '__CPROVER_same_object(*cur, end) && %s(OLD(*cur)) <= %s(*cur) && %s(*cur) <= %s(end)' % (OFF, OFF, OFF, OFF)

VSTR_OK = ['__CPROVER_is_fresh(unescapedWord, sizeof(*unescapedWord))',
           'unescapedWord->len <= ((size_t)1 << 40)']

SKIP = {
    'requires': BUF,
    'assigns': ['*cur'],
    'ensures': [('P:C19', POST)],
}


def skip(extra_loops=None):
    d = dict(SKIP)
    d['loops'] = {0: {'assigns': ['*cur'], 'invariant': INV, 'decreases': 'end - *cur'}}
    if extra_loops:
        d['loops'].update(extra_loops)
    return d


UNIT = {
    'name': 'mkdeps',
    'source': 'lib/Core/MakefileDepsParser.cpp',
    'dumps': ['MakefileDepsParser', 'isWordChar', 'skipWhitespaceAndComments', 'skipNonNewlineWhitespace',
              'skipToEndOfLine', 'lexWord'],
    'types': {'StringRef': 'strref', 'SmallVectorImpl<char>': 'vstr', 'SmallString<256>': 'vstr'},
    'by_value': ['strref'], 'by_pointer': ['vstr'],
    'ref_fields': ['MakefileDepsParser::actions'],
    'calls': {
        'm:SmallVectorImpl<char>::push_back': 'vstr_push_back',
        'm:SmallString<256>::push_back': 'vstr_push_back',
        'm:SmallString<256>::clear': 'vstr_clear',
        'm:SmallString<256>::str': 'vstr_str',
        'm:StringRef::data': 'strref_data',
        'm:StringRef::size': 'strref_size',
        'c:StringRef(const char *, size_t)': 'strref_make',
        'c:StringRef(const char *)': 'strref_make($0, sizeof($0) - 1)',   # only string literals reach this in the unit
        'c:SmallString<256>()': 'vstr_new',
    },
    'prelude': '#include "models/base.h"\n#include "models/mkdeps.h"\n',
    'functions': {
        'isWordChar': {
            'requires': [],
            'assigns': [],
            'ensures': [('P:C11', 'RESULT == !(c == 0 || c == 9 || c == 13 || c == 10 || c == 32 || c == 36 || c == 58)')],
        },
        'skipWhitespaceAndComments': skip({1: {'assigns': ['*cur'], 'invariant': ['__CPROVER_same_object(*cur, end) && %s(__CPROVER_loop_entry(*cur)) <= %s(*cur) && %s(*cur) < %s(end)' % (OFF, OFF, OFF, OFF)], 'decreases': 'end - *cur'}}),
        # only blanks and escaped newlines are skipped: for an arbitrary (ghost) index g_k inside the skipped span
        # the byte is one of ' ', TAB, CR, backslash, LF -- a dependency name can never lose a byte here
        'skipNonNewlineWhitespace': dict(skip(), ensures=[('P:C19', POST),
            ('P:C11', '(%s(OLD(*cur)) <= g_k && g_k < (size_t)%s(*cur)) ==> (g_buf[g_k] == 32 || g_buf[g_k] == 9 || g_buf[g_k] == 13 || g_buf[g_k] == 92 || g_buf[g_k] == 10)' % (OFF, OFF))],
            loops={0: {'assigns': ['*cur'], 'invariant': INV + ['(%s(__CPROVER_loop_entry(*cur)) <= g_k && g_k < (size_t)%s(*cur)) ==> (g_buf[g_k] == 32 || g_buf[g_k] == 9 || g_buf[g_k] == 13 || g_buf[g_k] == 92 || g_buf[g_k] == 10)' % (OFF, OFF)], 'decreases': 'end - *cur'}}),
        'skipToEndOfLine': dict(skip(), ensures=[('P:C19', POST),
                                                 # progress: used by parse's termination argument
                                                 '%s(OLD(*cur)) < g_len ==> %s(*cur) > %s(OLD(*cur))' % (OFF, OFF, OFF)]),
        'lexWord': {
            'requires': BUF + VSTR_OK,
            'assigns': ['*cur', 'unescapedWord->len'],
            'ensures': [('P:C19', POST),
                        # nothing is invented and nothing is dropped: between one and two input bytes per output byte
                        ('P:C11', 'unescapedWord->len - OLD(unescapedWord->len) <= %s(*cur) - %s(OLD(*cur))' % (OFF, OFF)),
                        ('P:C11', '2 * (unescapedWord->len - OLD(unescapedWord->len)) >= %s(*cur) - %s(OLD(*cur))' % (OFF, OFF))],
            'loops': {0: {'assigns': ['*cur', 'unescapedWord->len'],
                          'invariant': INV + ['unescapedWord->len >= __CPROVER_loop_entry(unescapedWord->len)',
                                             'unescapedWord->len - __CPROVER_loop_entry(unescapedWord->len) <= %s(*cur) - %s(__CPROVER_loop_entry(*cur))' % (OFF, OFF),
                                             '2 * (unescapedWord->len - __CPROVER_loop_entry(unescapedWord->len)) >= %s(*cur) - %s(__CPROVER_loop_entry(*cur))' % (OFF, OFF)],
                          'decreases': 'end - *cur'}},
            'replace': ['vstr_push_back'],
            'solver': 'cadical',
        },
        'MakefileDepsParser::parse': {
            'requires': ['g_len <= (size_t)1 << 40', '__CPROVER_is_fresh(g_buf, g_len)',
                         '__CPROVER_is_fresh(self, sizeof(*self))',
                         '__CPROVER_is_fresh(self->actions, sizeof(*self->actions))',
                         'self->data.ptr == g_buf && self->data.len == g_len', 'g_ends == g_starts'],
            'assigns': ['g_errors', 'g_starts', 'g_ends', 'g_deps'],
            # every reported rule start is closed by exactly one rule end, also on the error paths
            'ensures': [('P:C11', 'g_ends == g_starts')],
            'loops': {
                0: {'assigns': ['cur', 'g_errors', 'g_starts', 'g_ends', 'g_deps', 'unescapedWord.len'],
                    'invariant': ['__CPROVER_same_object(cur, end) && %s(cur) <= %s(end)' % (OFF, OFF),
                                  'g_ends == g_starts'],
                    'decreases': '%s(end) - %s(cur)' % (OFF, OFF)},
                1: {'assigns': ['cur', 'g_errors', 'g_deps', 'unescapedWord.len'],
                    'invariant': ['__CPROVER_same_object(cur, end) && %s(cur) <= %s(end) && %s(cur) >= %s(__CPROVER_loop_entry(cur))' % (OFF, OFF, OFF, OFF)],
                    'decreases': '%s(end) - %s(cur)' % (OFF, OFF)},
                2: {'assigns': ['cur', 'unescapedWord.len'],
                    'invariant': ['__CPROVER_same_object(cur, end) && %s(cur) <= %s(end) && %s(cur) >= %s(__CPROVER_loop_entry(cur))' % (OFF, OFF, OFF, OFF),
                                  'unescapedWord.len >= 1 && unescapedWord.len <= %s(cur) - %s(wordStart) && 2 * unescapedWord.len >= %s(cur) - %s(wordStart)' % (OFF, OFF, OFF, OFF)],
                    'decreases': '%s(end) - %s(cur)' % (OFF, OFF)},
            },
        },
    },
    'stubs': {
        'MakefileDepsParser_ParseActions_error': {
            'params': 'struct MakefileDepsParser_ParseActions *self, strref message, uint64_t position',
            'requires': [('P:C19', 'position <= g_len')],
            'assigns': ['g_errors'], 'ensures': ['g_errors == OLD(g_errors) + 1'],
        },
        'MakefileDepsParser_ParseActions_actOnRuleStart': {
            'params': 'struct MakefileDepsParser_ParseActions *self, strref name, strref unescapedWord',
            'requires': [('P:C19', '__CPROVER_same_object(name.ptr, g_buf) && %s(name.ptr) + name.len <= g_len' % OFF),
                         ('P:C11', 'name.len >= 1 && unescapedWord.len >= 1 && unescapedWord.len <= name.len && 2 * unescapedWord.len >= name.len')],
            'assigns': ['g_starts'], 'ensures': ['g_starts == OLD(g_starts) + 1'],
        },
        'MakefileDepsParser_ParseActions_actOnRuleDependency': {
            'params': 'struct MakefileDepsParser_ParseActions *self, strref dependency, strref unescapedWord',
            'requires': [('P:C19', '__CPROVER_same_object(dependency.ptr, g_buf) && %s(dependency.ptr) + dependency.len <= g_len' % OFF),
                         ('P:C11', 'dependency.len >= 1 && unescapedWord.len >= 1 && unescapedWord.len <= dependency.len && 2 * unescapedWord.len >= dependency.len')],
            'assigns': ['g_deps'], 'ensures': ['g_deps == OLD(g_deps) + 1'],
        },
        'MakefileDepsParser_ParseActions_actOnRuleEnd': {
            'params': 'struct MakefileDepsParser_ParseActions *self',
            'requires': [('P:C11', 'g_ends + 1 == g_starts')],
            'assigns': ['g_ends'], 'ensures': ['g_ends == OLD(g_ends) + 1'],
        },
    },
}
