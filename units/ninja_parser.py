"""U-ninja-parser: the Ninja manifest parser (lib/Ninja/Parser.cpp) -- C19: parsing terminates on every token stream (every loop and every
top-level declaration consumes input), C17: the lexer is left in mode None after every declaration (a wrong mode re-interprets the next
tokens).  The lexer is an assumed contract here, proved in U-ninja-lex."""
K = 'Token_Kind_'
EOF_ = K + 'EndOfFile'
# progress measure: bytes not yet lexed, plus one while the look-ahead token is not EndOfFile
M = '(g_rem + (self->tok.tokenKind != %s ? 1u : 0u))' % EOF_
INV = ['__CPROVER_is_fresh(self, sizeof(*self))', '__CPROVER_is_fresh(self->actions, 1)', 'g_rem <= ((size_t)1 << 31)',
       # the look-ahead token is EndOfFile only when the input is used up
       '(self->tok.tokenKind == %s) ==> g_rem == 0' % EOF_, 'self->tok.tokenKind >= 0 && self->tok.tokenKind <= 20']
A = ['self->tok', 'g_rem', 'self->lexer.mode', 'g_errors', 'g_actions']
KEEP = '((self->tok.tokenKind == %s) ==> g_rem == 0) && g_rem <= OLD(g_rem) && self->tok.tokenKind >= 0 && self->tok.tokenKind <= 20' % EOF_
KEEPL = '((self->tok.tokenKind == %s) ==> g_rem == 0)' % EOF_
NONE = 'self->lexer.mode == Lexer_LexingMode_None'
# the token after a Newline starts a new line: it must be lexed in mode None (in any other mode keywords come back as identifiers, text as one string)
NLMODE = ('P:C17', '(self->tok.tokenKind == %sNewline) ==> self->lexer.mode == Lexer_LexingMode_None' % K)
ATEND = '(OLD(g_rem) == 0) ==> self->tok.tokenKind == %s' % EOF_          # once the input is used up every further token is EndOfFile
STAYS = '(OLD(self->tok.tokenKind) == %s) ==> self->tok.tokenKind == %s' % (EOF_, EOF_)
PROGRESS = '(OLD(self->tok.tokenKind) != %s) ==> %s <= OLD(g_rem)' % (EOF_, M)        # i.e. the measure strictly decreased (it was OLD(g_rem) + 1)


def _err(tr, n, obj, args, argnodes):
    return '(g_errors++)'


def _noop(tr, n, obj, args, argnodes):
    return '(g_actions++)'


def _push(tr, n, obj, args, argnodes):
    return '((void)(%s), tokvec_push(%s))' % (tr.expr(argnodes[0]), obj)


def _begin(tr, n, obj, args, argnodes):
    return '(g_actions++, (void *)0)'


def P(extra_req=(), extra_ens=(), loops=None, mode_none=True, extra_assigns=(), progress=True):
    d = {'requires': INV + list(extra_req), 'assigns': list(A) + list(extra_assigns),
         'ensures': [('P:C19', KEEP), ('P:C19', STAYS)] + ([('P:C19', PROGRESS)] if progress else []) + ([('P:C17', NONE)] if mode_none else []) + list(extra_ens)}
    if loops:
        d['loops'] = loops
    return d


LOOP = lambda cond='1', extra=(): {'assigns': list(A) + list(extra), 'invariant': [KEEPL + ' && g_rem <= __CPROVER_loop_entry(g_rem) && g_rem <= ((size_t)1 << 31) && self->tok.tokenKind >= 0 && self->tok.tokenKind <= 20 && ' + cond], 'decreases': M}
UNIT = {
    'name': 'ninja_parser',
    'source': 'lib/Ninja/Parser.cpp',
    'dumps': ['Parser::ParserImpl', 'ninja::Token', 'Lexer::LexingMode', 'ninja::Lexer'],
    'types': {'StringRef': 'strref'},
    'type_patterns': [(r'(llvm::)?SmallVector<(ninja::)?Token, \d+>', 'struct tokvec'), (r'ParseActions::(Build|Pool|Rule)Result', 'void *')],
    'by_value': ['strref', 'struct tokvec'],
    'full_structs': ['Token'],
    'predefined_structs': ['tokvec'],
    'need_fields': {'Lexer': ['mode']}, 'class_alias': {'ParserImpl': 'Parser::ParserImpl'},
    'no_translate': ['lex', 'error'],
    'calls': {
        'm:Lexer::setMode': '($o->mode = $0)', 'm:Lexer::getMode': '($o->mode)', 'm:@struct tokvec::push_back': _push, 'm:@struct tokvec::empty': '($o->n == 0)', 'm:@struct tokvec::size': '($o->n)',
        'm:Parser::ParserImpl::error': _err, 'm:ParserImpl::error': _err, 'm:ParseActions::error': '(g_errors++)', 'm:ParseActions::actOnBeginManifest': _noop, 'm:ParseActions::actOnEndManifest': _noop, 'm:ParseActions::actOnBindingDecl': _noop,
        'm:ParseActions::actOnDefaultDecl': _noop, 'm:ParseActions::actOnIncludeDecl': _noop, 'm:ParseActions::actOnBuildBindingDecl': _noop, 'm:ParseActions::actOnPoolBindingDecl': _noop,
        'm:ParseActions::actOnRuleBindingDecl': _noop, 'm:ParseActions::actOnEndBuildDecl': _noop, 'm:ParseActions::actOnEndPoolDecl': _noop, 'm:ParseActions::actOnEndRuleDecl': _noop,
        'm:ParseActions::actOnBeginBuildDecl': _begin, 'm:ParseActions::actOnBeginPoolDecl': _begin, 'm:ParseActions::actOnBeginRuleDecl': _begin,
        'o:=:@struct Token': '(*$o = *$0)',
    },
    'call_patterns': [(r'c:(ninja::)?Token\((const )?(ninja::)?Token &+\)', '(*$0)'), (r'c:SmallVector<.*>/0', 'tokvec_new'), (r'c:SmallVector<.*>\(\)', 'tokvec_new'), (r'c:StringRef\(const char \*\)', '$0'),
                      (r'c:(ninja::)?Token/0', 'token_new'), (r'c:(ninja::)?Token\(\)', 'token_new')],
    'prelude': '#include "models/base.h"\n#include "models/ninja_parser.h"\n',
    'after_structs': 'static inline struct Token token_new(void) { struct Token t; return t; }\n',
    'stubs': {
        'Lexer_lex': {'ret': 'struct Token *', 'params': 'struct Lexer *self, struct Token *result', 'requires': [('P:C17', '(result->tokenKind == %sNewline) ==> self->mode == Lexer_LexingMode_None' % K)], 'assigns': ['*result', 'g_rem'],
                      'ensures': ['result->tokenKind >= 0 && result->tokenKind <= 20',
                                  '(OLD(g_rem) == 0) ? (result->tokenKind == %s && g_rem == 0) : (result->tokenKind != %s && g_rem < OLD(g_rem))' % (EOF_, EOF_), 'RESULT == result']},
    },
    'functions': {
        # (also the first call of parse(), when there is no look-ahead token yet)
        'Parser::ParserImpl::getNextNonCommentToken': {
            'requires': ['__CPROVER_is_fresh(self, sizeof(*self))', 'g_rem <= ((size_t)1 << 31)', NLMODE], 'assigns': ['self->tok', 'g_rem'],
            'ensures': [('P:C19', KEEP), ('P:C19', '%s <= OLD(g_rem)' % M), ('P:C17', 'self->tok.tokenKind != %sComment' % K), ATEND],
            # comments are skipped; every comment token consumes input, so the loop ends
            'loops': {0: {'assigns': ['self->tok', 'g_rem'], 'invariant': ['g_rem <= __CPROVER_loop_entry(g_rem)', NLMODE[1]], 'decreases': 'g_rem'}}},
        'Parser::ParserImpl::consumeToken': P(mode_none=False, extra_req=[NLMODE], extra_ens=['self->lexer.mode == OLD(self->lexer.mode)', ATEND]),
        'Parser::ParserImpl::consumeExpectedToken': P(mode_none=False, extra_req=[NLMODE], extra_ens=['self->lexer.mode == OLD(self->lexer.mode)', 'RESULT.tokenKind == OLD(self->tok.tokenKind)', ATEND]),
        'Parser::ParserImpl::consumeIfToken': P(mode_none=False, progress=False, extra_req=[('P:C17', '(self->tok.tokenKind == %sNewline && kind == %sNewline) ==> self->lexer.mode == Lexer_LexingMode_None' % (K, K))], extra_ens=[('P:C19', '(RESULT != 0 && OLD(self->tok.tokenKind) != %s) ==> %s <= OLD(g_rem)' % (EOF_, M)),'self->lexer.mode == OLD(self->lexer.mode)', '(RESULT != 0) == (OLD(self->tok.tokenKind) == kind)',
                                                                    '(RESULT == 0) ==> (self->tok.tokenKind == OLD(self->tok.tokenKind) && g_rem == OLD(g_rem))']),
        'Parser::ParserImpl::skipPastEOL': P(extra_req=[('P:C17', NONE)], loops={0: {'assigns': ['self->tok', 'g_rem'], 'invariant': [KEEPL + ' && g_rem <= __CPROVER_loop_entry(g_rem) && self->tok.tokenKind >= 0 && self->tok.tokenKind <= 20 && ((__CPROVER_loop_entry(self->tok.tokenKind) == %s) ==> self->tok.tokenKind == %s)' % (EOF_, EOF_)], 'decreases': M}}, mode_none=False, extra_ens=['self->lexer.mode == OLD(self->lexer.mode)', ATEND]),
        'Parser::ParserImpl::parseBindingInternal': P(extra_req=['__CPROVER_is_fresh(name_out, sizeof(*name_out))', '__CPROVER_is_fresh(value_out, sizeof(*value_out))'], extra_assigns=['*name_out', '*value_out'],
                                              extra_ens=[('P:C17', 'RESULT ==> (name_out->tokenKind == %sIdentifier && value_out->tokenKind == %sString)' % (K, K))]),
        'Parser::ParserImpl::parseBindingDecl': P(),
        'Parser::ParserImpl::parseDefaultDecl': P(extra_req=['self->tok.tokenKind == %sKWDefault' % K], loops={0: LOOP('1', ['names.n'])}),
        'Parser::ParserImpl::parseIncludeDecl': P(extra_req=['self->tok.tokenKind == %sKWInclude || self->tok.tokenKind == %sKWSubninja' % (K, K)]),
        'Parser::ParserImpl::parseBuildSpecifier': P(extra_req=['__CPROVER_is_fresh(decl_out, sizeof(*decl_out))', 'self->tok.tokenKind == %sKWBuild' % K], extra_assigns=['*decl_out'],
                                                     loops={0: LOOP('self->tok.tokenKind == %sString' % K, ['outputs.n']), 1: LOOP('1', ['inputs.n']), 2: LOOP('1', ['inputs.n']), 3: LOOP('1', ['inputs.n'])}),
        'Parser::ParserImpl::parsePoolSpecifier': P(extra_req=['__CPROVER_is_fresh(decl_out, sizeof(*decl_out))', 'self->tok.tokenKind == %sKWPool' % K], extra_assigns=['*decl_out']),
        'Parser::ParserImpl::parseRuleSpecifier': P(extra_req=['__CPROVER_is_fresh(decl_out, sizeof(*decl_out))', 'self->tok.tokenKind == %sKWRule' % K], extra_assigns=['*decl_out']),
        'Parser::ParserImpl::parseParameterizedDecl': P(loops={0: LOOP(NONE), 1: LOOP(NONE + ' && (kind == %sKWBuild || kind == %sKWPool || kind == %sKWRule)' % (K, K, K))},
                                                extra_req=['self->tok.tokenKind == %sKWBuild || self->tok.tokenKind == %sKWPool || self->tok.tokenKind == %sKWRule' % (K, K, K)]),
        'Parser::ParserImpl::parseDecl': P(extra_req=[NONE]),
        # the whole file: the main loop ends, with the look-ahead at EndOfFile and the input used up
        'Parser::ParserImpl::parse': {'requires': ['__CPROVER_is_fresh(self, sizeof(*self))', '__CPROVER_is_fresh(self->actions, 1)', 'g_rem <= ((size_t)1 << 31)', 'self->lexer.mode == Lexer_LexingMode_None'],
                              'assigns': list(A), 'ensures': [('P:C19', 'self->tok.tokenKind == %s && g_rem == 0' % EOF_), ('P:C17', NONE)],
                              'loops': {0: LOOP(NONE)}},
    },
}
