"""U-node-tasks: FileInputNodeTask / ProducedNodeTask (lib/BuildSystem/BuildSystem.cpp) -- C08: a source file's stored value is valid exactly when the
file's existence and file information are unchanged, and building it records the current information; C10: the value of a produced node is
never valid when it was a failed or missing input, and a node without a producer fails the build."""
K = 'BuildValue_Kind_'


def _mk(tr, n, obj, args, argnodes):
    callee = tr.peel(n['inner'][0])
    nm = (callee.get('referencedDecl') or {}).get('name') or callee.get('name', '')
    if not nm.startswith('make'):
        raise Exception('not a BuildValue factory: %s' % nm)
    if nm == 'makeExistingInput':
        return 'bv_existing(%s)' % ', '.join(tr.expr(a) for a in argnodes)
    return 'bv_make(BuildValue_Kind_%s)' % nm[4:]


def _bs(tr, n, obj, args, argnodes):
    return '(*verif_bs_any())'


UNIT = {
    'name': 'nodetasks',
    'source': 'lib/BuildSystem/BuildSystem.cpp',
    'dumps': ['FileInputNodeTask', 'ProducedNodeTask', 'ProducedDirectoryNodeTask', 'MissingCommandTask', 'TargetTask', 'CommandTask', 'BuildValue::Kind', 'buildsystem::BuildValue', 'BuildNode::NodeType', 'buildsystem::BuildNode'],
    'types': {'BuildKey': 'struct valuedata', 'StringList': 'struct StringList', 'basic::StringList': 'struct StringList', 'StringRef': 'strref', 'basic::FileInfo': 'struct FileInfo', 'FileInfo': 'struct FileInfo', 'BuildValue::FileInfo': 'struct FileInfo', 'buildsystem::BuildValue::FileInfo': 'struct FileInfo',
              'TaskInterface': 'struct TaskInterface', 'core::TaskInterface': 'struct TaskInterface', 'ValueType': 'struct valuedata', 'core::ValueType': 'struct valuedata', 'KeyType': 'struct valuedata', 'core::KeyType': 'struct valuedata'},
    'type_patterns': [(r'(std::)?vector<(unsigned char|uint8_t).*>', 'struct valuedata'), (r'(llvm::)?SmallPtrSet<(buildsystem::)?Node \*, \d+>', 'struct nodeset'), (r'(std::)?vector<(buildsystem::)?Node \*.*>', 'struct nodelist')],
    'by_value': ['strref', 'struct FileInfo', 'struct TaskInterface', 'struct BuildValue', 'struct valuedata'],
    'predefined_structs': ['FileInfo', 'TaskInterface', 'valuedata', 'nodeset', 'nodelist', 'StringList'],
    'struct_extra': {'Node': '  strref g_name;\n', 'BuildNode': '  size_t g_idx;\n', 'FileSystem': '', 'BuildValue': '  unsigned g_n;\n  const void *g_src;\n'},
    'need_fields': {'BuildValue': ['kind'], 'ProducedNodeTask': ['isInvalid', 'nodeResult', 'producingCommand', 'node'], 'ProducedDirectoryNodeTask': ['isInvalid', 'nodeResult', 'producingCommand', 'node', 'directorySignature', 'returnDirectorySignature'], 'FileInputNodeTask': ['node']},
    'ref_fields': ['FileInputNodeTask::node', 'ProducedNodeTask::node', 'ProducedDirectoryNodeTask::node', 'TargetTask::target', 'CommandTask::command'],
    'no_translate': ['getName', 'endswith', 'substr', 'request', 'makeDirectoryTreeSignature', 'providePriorValue', 'provideValue', 'getNodes', 'getFileInfo', 'getNthOutputInfo', 'getOutputInfo', 'getNumOutputs', 'getFileSystem', 'getBuildSystem', 'getDelegate', 'hadCommandFailure', 'complete', 'toData', 'fromData', 'getResultForOutput'],
    'calls': {
        'm:BuildValue::getOutputInfo': 'verif_stored_info0', 'm:BuildNode::getFileInfo': 'verif_current_info',
        'm:@struct FileInfo::isMissing': '($o->missing != 0)', 'o:==:@struct FileInfo': 'verif_info_eq', 'm:BuildSystem::getFileSystem': 'verif_fs', 'fn:getBuildSystem': _bs,
        'm:BuildSystem::getDelegate': 'verif_delegate', 'm:BuildSystemImpl::getDelegate': 'verif_delegate', 'm:BuildSystemImpl::getFileSystem': 'verif_fs', 'm:BuildSystemDelegate::hadCommandFailure': 'verif_had_failure',
        'm:TaskInterface::complete': 'ti_complete', 'm:@struct TaskInterface::complete': 'ti_complete', 'm:BuildValue::toData': 'bv_to_data', 'm:@struct BuildValue::toData': 'bv_to_data',
        'm:BuildValue::fromData': 'bv_from_data', 'fn:fromData': 'bv_from_data', 'm:Command::getResultForOutput': 'verif_result_for_output', 'm:Command::providePriorValue': 'verif_cmd_prior', 'm:Command::provideValue': 'verif_cmd_provide', 'm:BuildSystemImpl::getBuildSystem': 'verif_outer_bs',
        'm:Node::getName': 'node_name', 'm:@strref::endswith': 'name_endswith', 'm:StringRef::endswith': 'name_endswith', 'o:!=:StringRef': 'name_ne_root', 'o:!=:@strref': 'name_ne_root', 'fn:operator!=': 'name_ne_root',
        'm:@strref::substr': 'name_substr', 'm:StringRef::substr': 'name_substr', 'm:@strref::size': '($o->len)', 'm:StringRef::size': '($o->len)', 'o:=:StringRef': '(*$o = $0)', 'o:=:@strref': '(*$o = $0)',
        'fn:makeDirectoryTreeSignature': 'key_treesig_v', 'm:BuildKey::makeDirectoryTreeSignature': 'key_treesig_v', 'm:BuildKey::toData': '(*$o)', 'm:@struct valuedata::toData': '(*$o)',
        'm:TaskInterface::request': 'ti_request_v', 'm:@struct TaskInterface::request': 'ti_request_v', 'o:=:@struct valuedata': '(*$o = $0)',
        'm:Target::getNodes': 'verif_target_nodes', 'o:[]:@struct nodelist': 'nodelist_at($o, $0)', 'm:@struct nodeset::insert': ('nodeset_insert', 'v'), 'o:=:@struct BuildValue': '(*$o = $0)',
    },
    'call_patterns': [(r'fn:make[A-Z].*', _mk), (r'm:BuildValue::make[A-Z].*', _mk), (r'c:(buildsystem::)?BuildValue\((buildsystem::)?BuildValue &&\)', '$0'), (r'c:(basic::)?FileInfo\((const )?(basic::)?FileInfo &+\)', '$0'),
                      (r'o:=:BuildValue', '(*$o = $0)'), (r'c:StringRef\(const char \*\)', '$0'), (r'c:StringRef\(const StringRef &\)', '$0'), (r'c:(basic::)?StringList/0', 'strlist_empty'), (r'c:(basic::)?StringList\(\)', 'strlist_empty'),
                      (r'c:(core::)?ValueType\(const .*&\)', '$0'), (r'c:(std::)?vector<(unsigned char|uint8_t).*>\(const .*&\)', '$0')],
    'prelude': '#include "models/base.h"\n#include "models/vec.h"\n#include "models/extresult.h"\nstruct valuedata { int kind; const void *src; };\nstruct nodeset { unsigned n; const void *last; }; struct nodelist { char _e; };\n',
    'after_structs': '#include "models/nodetasks_after.h"\n',
    'functions': {
        'FileInputNodeTask::isResultValid': {
            'requires': ['__CPROVER_is_fresh(node, sizeof(*node))', 'node->g_idx == 0', 'value.kind >= 0 && value.kind <= 20'],
            'assigns': [],
            # valid exactly when existence matches the kind of the stored value and, for an existing file, the stored file information is the current one
            'ensures': [('P:C08', '(RESULT != 0) == (g_current[0].missing ? value.kind == %sMissingInput : (value.kind == %sExistingInput && g_stored[0].id == g_current[0].id && g_stored[0].size == g_current[0].size && !g_stored[0].missing))' % (K, K))]},
        'FileInputNodeTask::inputsAvailable': {
            'requires': ['__CPROVER_is_fresh(self, sizeof(*self))', '__CPROVER_is_fresh(self->node, sizeof(*self->node))', 'self->node->g_idx == 0', 'g_completes == 0'],
            'assigns': ['g_completes', 'g_complete_kind', 'g_existing_info', 'g_complete_force', 'g_complete_src'],
            # the value built for a source file is "missing" or the file's CURRENT information, completed exactly once
            'ensures': [('P:C08', 'g_completes == 1 && (g_current[0].missing ? g_complete_kind == %sMissingInput : (g_complete_kind == %sExistingInput && g_existing_info.id == g_current[0].id && g_existing_info.size == g_current[0].size))' % (K, K))]},
        'ProducedNodeTask::isResultValid': {
            'requires': ['value.kind >= 0 && value.kind <= 20'], 'assigns': [],
            # a failed input is always rebuilt, and so is a node that was missing before it had a producer
            'ensures': [('P:C10,P:C08', '(RESULT != 0) == (value.kind != %sFailedInput && value.kind != %sMissingInput)' % (K, K))]},
        'ProducedNodeTask::provideValue': {
            'requires': ['__CPROVER_is_fresh(self, sizeof(*self))', '__CPROVER_is_fresh(self->node, 1)', '__CPROVER_is_fresh(self->producingCommand, 1)', 'g_rfo_calls == 0'],
            'assigns': ['self->nodeResult', 'g_rfo_calls', 'g_rfo_node', 'g_rfo_value_src'],
            # the node's value is what its producing command derives, for THIS node, from the command's value as delivered
            'ensures': [('P:C08,P:C10', 'g_rfo_calls == 1 && g_rfo_node == (const void *)self->node && g_rfo_value_src == valueData.src && self->nodeResult.kind == g_rfo_kind')]},
        'ProducedNodeTask::inputsAvailable': {
            'requires': ['__CPROVER_is_fresh(self, sizeof(*self))', 'g_completes == 0 && g_failures == 0', 'self->nodeResult.kind >= 0 && self->nodeResult.kind <= 20'],
            'assigns': ['g_completes', 'g_complete_kind', 'g_failures', 'g_complete_force', 'g_complete_src'],
            'ensures': [
                # a node that cannot be produced fails the build and yields a failed input (never a stale or invented value)
                ('P:C10', 'self->isInvalid ? (g_failures == 1 && g_completes == 1 && g_complete_kind == %sFailedInput) : (g_failures == 0 && g_completes == 1 && g_complete_kind == (int)self->nodeResult.kind)' % K)]},
        # a command that is no longer in the description builds to an invalid value and forces its former consumers to re-run
        'MissingCommandTask::inputsAvailable': {
            'requires': ['g_completes == 0'], 'assigns': ['g_completes', 'g_complete_kind', 'g_complete_force', 'g_complete_src'],
            'ensures': [('P:C08', 'g_completes == 1 && g_complete_kind == BuildValue_Kind_Invalid && g_complete_force')]},
        # a target is re-evaluated in every build
        'TargetTask::isResultValid': {'requires': [], 'assigns': [], 'ensures': [('P:C08', '!RESULT')]},
        'TargetTask::provideValue': {
            'requires': ['__CPROVER_is_fresh(self, sizeof(*self))', '__CPROVER_is_fresh(self->target, 1)'],
            'assigns': ['self->missingInputNodes'],
            # exactly the nodes whose value is a missing input are remembered (the node at the position of the request)
            'ensures': [('P:C10', '(valueData.kind == BuildValue_Kind_MissingInput) ? (self->missingInputNodes.n == OLD(self->missingInputNodes.n) + 1 && self->missingInputNodes.last == NODE_AT(inputID)) : self->missingInputNodes.n == OLD(self->missingInputNodes.n)')]},
        # the command sees exactly the values the engine delivers, under the input id the engine delivers them with
        'CommandTask::providePriorValue': {
            'requires': ['__CPROVER_is_fresh(self, sizeof(*self))', '__CPROVER_is_fresh(self->command, 1)', 'g_prior_calls == 0'], 'assigns': ['g_prior_calls', 'g_fwd_src'],
            'ensures': [('P:C10,P:C09', 'g_prior_calls == 1 && g_fwd_src == valueData.src')]},
        'CommandTask::provideValue': {
            'requires': ['__CPROVER_is_fresh(self, sizeof(*self))', '__CPROVER_is_fresh(self->command, 1)', 'g_provide_calls == 0'], 'assigns': ['g_provide_calls', 'g_fwd_src', 'g_fwd_id'],
            'ensures': [('P:C10,P:C08', 'g_provide_calls == 1 && g_fwd_src == valueData.src && g_fwd_id == inputID')]},
        # a produced DIRECTORY node: only when its producer really produced it (an existing input) is the tree signature requested and returned; a failed,
        # skipped or missing producer result is passed on as it is (a failed input never turns into a signature that would let consumers run)
        'ProducedDirectoryNodeTask::provideValue': {
            'requires': ['__CPROVER_is_fresh(self, sizeof(*self))', '__CPROVER_is_fresh(self->node, sizeof(struct Node))', '__CPROVER_is_fresh(self->producingCommand, 1)', 'g_rfo_calls == 0 && g_nreq == 0', 'g_rfo_kind >= 0 && g_rfo_kind <= 20'],
            'assigns': ['self->nodeResult', 'self->directorySignature', 'self->returnDirectorySignature', 'g_rfo_calls', 'g_rfo_node', 'g_rfo_value_src', 'g_nreq', 'g_req_id0', 'g_req_kind0', 'g_req_path0'],
            'ensures': [
                ('P:C10,P:C08', '(inputID == 0) ==> (g_rfo_calls == 1 && g_rfo_node == (const void *)self->node && self->nodeResult.kind == g_rfo_kind)'),
                ('P:C10,P:C08', '(inputID == 0) ==> ((g_rfo_kind == BuildValue_Kind_ExistingInput) ? (g_nreq == 1 && g_req_id0 == 1 && g_req_kind0 == -2 && g_req_path0 == self->node->g_name.ptr && self->returnDirectorySignature) '
                                ': (g_nreq == 0 && self->returnDirectorySignature == OLD(self->returnDirectorySignature)))'),
                ('P:C08', '(inputID == 1) ==> (self->directorySignature.src == valueData.src && g_nreq == 0 && g_rfo_calls == 0)'),
                ('P:C08', '(inputID > 1) ==> (g_nreq == 0 && g_rfo_calls == 0 && self->directorySignature.src == OLD(self->directorySignature.src))')]},
        'ProducedDirectoryNodeTask::inputsAvailable': {
            'requires': ['__CPROVER_is_fresh(self, sizeof(*self))', 'g_completes == 0 && g_failures == 0', 'self->nodeResult.kind >= 0 && self->nodeResult.kind <= 20'],
            'assigns': ['g_completes', 'g_complete_kind', 'g_complete_src', 'g_failures', 'g_complete_force'],
            'ensures': [('P:C10,P:C08', 'g_completes == 1 && (self->returnDirectorySignature ? (g_complete_src == self->directorySignature.src && g_failures == 0) : '
                                        'self->isInvalid ? (g_failures == 1 && g_complete_kind == BuildValue_Kind_FailedInput) : (g_failures == 0 && g_complete_kind == (int)self->nodeResult.kind))')]},
        'ProducedDirectoryNodeTask::isResultValid': {
            'requires': ['value.kind >= 0 && value.kind <= 20'], 'assigns': [],
            'ensures': [('P:C10,P:C08', '(RESULT != 0) == (value.kind != BuildValue_Kind_FailedInput && value.kind != BuildValue_Kind_MissingInput)')]},
    },
}
