"""U-clang-deps: the depfile callback of the clang tool (lib/BuildSystem/BuildSystem.cpp, ClangShellCommand::processDiscoveredDependencies()::DepsActions) -- C11:
the dependency recorded with the engine, and reported to the delegate, is the UNESCAPED word."""
from units import shelldeps as _s
import copy

UNIT = copy.deepcopy({k: v for k, v in _s.UNIT.items() if k not in ('functions',)})
UNIT['name'] = 'clangdeps'
UNIT['source'] = 'lib/BuildSystem/BuildSystem.cpp'
UNIT['dumps'] = ['ClangShellCommand']
UNIT['class_alias'] = {'ClangShellCommand::DepsActions': 'DepsActions'}
UNIT['calls'] = dict(_s.UNIT['calls'], **{'fn:getBuildSystem': (lambda tr, n, obj, args, argnodes: '(*clang_bs())'), 'm:BuildSystemImpl::getDelegate': 'clang_delegate'})
UNIT['no_translate'] = list(_s.UNIT['no_translate']) + ['getBuildSystem']
UNIT['prelude'] = _s.UNIT['prelude'] + ('struct BuildSystemImpl; static inline struct BuildSystemImpl *clang_bs(void) { static char b; return (struct BuildSystemImpl *)&b; }\n'
                                        'static inline struct BuildSystemDelegate *clang_delegate(void *s) { return (struct BuildSystemDelegate *)s; }\n')
UNIT['functions'] = {
    'DepsActions::actOnRuleDependency': {
        'requires': ['__CPROVER_is_fresh(self, sizeof(*self))', 'g_dd == 0 && g_found == 0', 'dependency.ptr != unescapedWord.ptr && unescapedWord.ptr != 0 && dependency.ptr != 0'],
        'assigns': ['g_dd', 'g_found', 'g_dd_key', 'g_found_path'],
        'ensures': [('P:C11', 'g_dd == 1 && g_dd_key == unescapedWord.ptr'), ('P:C11', 'g_found == 1 && g_found_path == unescapedWord.ptr')]},
}
