"""U-ninja-task: buildCommand()::NinjaCommandTask::{provideValue, providePriorValue, canUpdateIfNewerWithResult} (lib/Commands/NinjaBuildCommand.cpp)
-- C18: a failed, skipped or missing input stops the command; a command is brought up to date without running only if every output
exists and is not older than the newest input; the prior command hash is taken only from a successful stored result."""
def _report(tr, n, obj, args, argnodes):
    tr.dropped.add('the node passed to BuildContext::reportMissingInput')
    return '(g_missing_reports++)'


KIND = 'BuildValue_BuildValueKind_'
SELF = ['__CPROVER_is_fresh(self, sizeof(*self))', '__CPROVER_is_fresh(self->context, sizeof(*self->context))', 'g_value.kind <= 4']
UNIT = {
    'name': 'ninja_task',
    'source': 'lib/Commands/NinjaBuildCommand.cpp',
    'dumps': ['NinjaCommandTask', 'BuildValue::BuildValueKind', 'BuildValue::is', 'BuildValue::getNumOutputs', 'BuildValue::hasMultipleOutputs'],
    'types': {'StringRef': 'strref', 'FileInfo': 'struct FileInfo', 'basic::FileInfo': 'struct FileInfo', 'core::ValueType': 'vbytes', 'ValueType': 'vbytes', 'core::KeyType': 'vstr', 'KeyType': 'vstr',
              'std::string': 'vstr', 'string': 'vstr', 'basic_string<char>': 'vstr', 'CommandSignature': 'struct CommandSignature', 'basic::CommandSignature': 'struct CommandSignature',
              'BuildValue': 'struct BuildValue', 'FileTimestamp': 'struct FileTimestamp', 'basic::FileTimestamp': 'struct FileTimestamp', 'TaskInterface': 'struct TaskInterface', 'core::TaskInterface': 'struct TaskInterface'},
    'type_patterns': [(r'(std::)?atomic<unsigned( int)?>', 'unsigned'), (r'(std::)?__atomic_base<unsigned( int)?>', 'unsigned'), (r'vector<(unsigned char|uint8_t)(, allocator<(unsigned char|uint8_t)>)?\s*>', 'vbytes')],
    'by_value': ['strref', 'struct FileInfo', 'struct CommandSignature', 'struct BuildValue', 'struct FileTimestamp', 'struct TaskInterface'], 'by_pointer': ['vstr', 'vbytes'],
    'predefined_structs': ['FileInfo', 'CommandSignature', 'BuildValue', 'FileTimestamp', 'TaskInterface'],
    'struct_extra': {'Command': '  _Bool g_generator; const void *g_rule;\n', 'Manifest': '  const void *g_phony;\n'},
    'ref_fields': ['NinjaCommandTask::context'],
    'no_translate': ['computeCommandResult', 'canUpdateIfNewerWithResult', 'complete', 'toValue', 'hasGeneratorFlag', 'getRule', 'getPhonyRule', 'fromValue', 'getCommandHash', 'getOutputInfo', 'getNthOutputInfo', 'reportMissingInput', 'getInputs'],
    'calls': {
        'fn:fromValue': 'verif_from_value',
        'm:@struct BuildValue::getCommandHash': '($o->commandHash)', 'm:@struct BuildValue::getOutputInfo': 'verif_output_info0', 'm:@struct BuildValue::getNthOutputInfo': 'verif_nth_info',
        'm:@struct FileInfo::isMissing': '($o->missing != 0)',
        'o:>:@struct FileTimestamp': '($o->t > $0.t)', 'o:<:@struct FileTimestamp': '($o->t < $0.t)', 'o:<=:@struct FileTimestamp': '($o->t <= $0.t)', 'o:>=:@struct FileTimestamp': '($o->t >= $0.t)',
        'o:=:@struct FileTimestamp': '(*$o = $0)', 'o:=:@struct CommandSignature': '(*$o = $0)',
        'm:BuildContext::reportMissingInput': _report, 'm:Command::hasGeneratorFlag': '($o->g_generator != 0)', 'm:Command::getRule': '($o->g_rule)', 'm:Manifest::getPhonyRule': '($o->g_phony)',
        'm:TaskInterface::complete': 'ti_complete', 'm:@struct TaskInterface::complete': 'ti_complete', 'm:@struct BuildValue::toValue': 'bv_to_value', 'm:BuildValue::toValue': 'bv_to_value',
        'o:!=:@struct CommandSignature': '($o->value != $0.value)', 'o:==:@struct CommandSignature': '($o->value == $0.value)',
    },
    'call_patterns': [(r'o:\+\+:__atomic_base<unsigned( int)?>', '(++(*$o))'), (r'o:\+\+:(std::)?atomic<unsigned( int)?>', '(++(*$o))'), (r'c:BuildValue\(.*BuildValue &&\)', '$0'), (r'c:BuildValue/1', '$0')],
    'prelude': '#include "models/base.h"\n#include "models/vec.h"\nstruct TaskInterface { char _e; };\n#include "models/ninja_task.h"\n',
    'functions': {
        'NinjaCommandTask::provideValue': {
            'requires': SELF + ['__CPROVER_is_fresh(valueData, sizeof(*valueData))', 'g_missing_reports == 0'],
            'assigns': ['self->shouldSkip', 'self->hasMissingInput', 'self->canUpdateIfNewer', 'self->newestModTime', 'g_missing_reports'],
            'ensures': [
                # an input that is neither an existing file nor a successful command stops this command ("a failing command stops its dependents")
                ('P:C18', '(g_value.kind != %sExistingInput && g_value.kind != %sSuccessfulCommand) ==> self->shouldSkip' % (KIND, KIND)),
                ('P:C18', '(g_value.kind == %sMissingInput) ? (self->hasMissingInput && g_missing_reports == 1) : (self->hasMissingInput == OLD(self->hasMissingInput) && g_missing_reports == 0)' % KIND),
                # a usable input never un-skips a command, and its time stamp is accounted for
                ('P:C18', '(g_value.kind == %sExistingInput || g_value.kind == %sSuccessfulCommand) ==> (self->shouldSkip == OLD(self->shouldSkip))' % (KIND, KIND)),
                ('P:C18', '((g_value.kind == %sExistingInput || g_value.kind == %sSuccessfulCommand) && g_info[0].missing) ==> !self->canUpdateIfNewer' % (KIND, KIND)),
                ('P:C18', '((g_value.kind == %sExistingInput || g_value.kind == %sSuccessfulCommand) && !g_info[0].missing) ==> (self->newestModTime.t >= g_info[0].modTime.t && self->newestModTime.t >= OLD(self->newestModTime.t) && '
                          '(self->newestModTime.t == g_info[0].modTime.t || self->newestModTime.t == OLD(self->newestModTime.t)))' % (KIND, KIND)),
                # update-if-newer is never switched back on
                ('P:C18', '!OLD(self->canUpdateIfNewer) ==> !self->canUpdateIfNewer'),
            ]},
        'NinjaCommandTask::providePriorValue': {
            'requires': SELF + ['__CPROVER_is_fresh(valueData, sizeof(*valueData))'],
            'assigns': ['self->hasPriorResult', 'self->priorCommandHash'],
            'ensures': [('P:C18', '(g_value.kind == %sSuccessfulCommand) ? (self->hasPriorResult && self->priorCommandHash.value == g_value.commandHash.value) : '
                                  '(self->hasPriorResult == OLD(self->hasPriorResult) && self->priorCommandHash.value == OLD(self->priorCommandHash.value))' % KIND)]},
        'NinjaCommandTask::canUpdateIfNewerWithResult': {
            'requires': SELF + ['result.numOutputInfos <= NO', 'g_k < result.numOutputInfos'],
            'assigns': [],
            'ensures': [
                # brought up to date without running only if EVERY output exists and is not older than the newest input (strictly newer in strict mode)
                ('P:C18', 'RESULT ==> (!g_info[g_k].missing && (self->context->strict ? g_info[g_k].modTime.t > self->newestModTime.t : g_info[g_k].modTime.t >= self->newestModTime.t))'),
            ],
            'loops': {0: {'assigns': ['i'], 'invariant': ['i <= e && e == result.numOutputInfos', '(g_k < (size_t)i) ==> (!g_info[g_k].missing && (self->context->strict ? g_info[g_k].modTime.t > self->newestModTime.t : g_info[g_k].modTime.t >= self->newestModTime.t))'],
                          'decreases': 'e - i'}},
        },
    },
}
