"""U-eng-gather: the graph-gathering half of BuildEngineImpl::findCycle (lib/Core/BuildEngine.cpp) -- C07: the wait-for edges the cycle search
works on are exactly the requests that are parked on the scan records: for every paused input request that has a task, the edge from the
awaited rule to the rule of the waiting task; for every deferred scan request, the edge from the awaited rule to the rule whose scan is
deferred (and that rule's own scan record is visited next).  Each of the two inner loops is verified as a step (a segment)."""
import copy
from units import engine_cancel as _c

_b = copy.deepcopy(_c.UNIT)
UNIT = {k: v for k, v in _b.items() if k not in ('functions', 'stubs')}
UNIT['name'] = 'engine_gather'
UNIT['no_translate'] = list(_b.get('no_translate', [])) + ['cancelRemainingTasks', 'breakCycle', 'cycleDetected']
UNIT['type_patterns'] = list(_b.get('type_patterns', [])) + [
    (r'.*unordered_map<.*Rule \*, .*vector<.*Rule \*.*>>::mapped_type', 'struct edgesink'), (r'(std::)?unordered_map<(core::)?Rule \*, (std::)?vector<(core::)?Rule \*.*>', 'struct succmap'),
    (r'(std::)?pair<(core::)?Rule \*const, (std::)?vector<(core::)?Rule \*.*>', 'struct succentry'), (r'(std::)?vector<const (BuildEngineImpl::)?RuleScanRecord \*.*>', 'vec_recp'), (r'(std::)?vector<(core::)?Rule \*.*>', 'struct edgesink')]
UNIT['predefined_structs'] = list(_b.get('predefined_structs', [])) + ['edgesink', 'succmap', 'succentry']
UNIT['vec_types'] = dict(_b['vec_types'], vec_recp='struct BuildEngineImpl_RuleScanRecord *')
UNIT['need_fields'] = _b['need_fields']
NE = 3
UNIT['prelude'] = _b['prelude'] + '''
/* successorGraph as an edge log: successorGraph[a].push_back(b) records the edge a -> b ("b waits for a") */
#define NE 3
struct Rule; struct edgesink { struct Rule **ptr; size_t len; size_t cap; };     /* std::vector<Rule*>: iterated as a list, appended to as an edge log */
struct succentry { struct Rule *first; struct edgesink second; };
struct succmap { struct succentry *ptr; size_t len; size_t cap; };   /* unordered_map<Rule*, vector<Rule*>>: iterated as a list of entries, indexed as an edge log */
static inline size_t sink_size(const struct edgesink *v) { return v->len; }
static inline struct Rule **sink_at(const struct edgesink *v, size_t i) { return &v->ptr[i]; }
static inline size_t succmap_size(const struct succmap *v) { return v->len; }
static inline struct succentry *succmap_at(const struct succmap *v, size_t i) { return &v->ptr[i]; }
struct Rule *g_edge_from[NE + 1], *g_edge_to[NE + 1]; unsigned g_nedges; struct Rule *g_cur_from; struct edgesink g_sink;
static inline struct edgesink *sg_lookup(struct succmap *m, struct Rule *from) { g_cur_from = from; return &g_sink; }
static inline void edge_push(struct edgesink *s, struct Rule *to) {
  __CPROVER_assert(g_nedges <= NE, "edge log: room for one more edge (ghost capacity)");
  g_edge_from[g_nedges] = g_cur_from; g_edge_to[g_nedges] = to; g_nedges = g_nedges + 1; }
'''
UNIT['calls'] = dict(_b['calls'], **{
    'o:[]:@struct succmap': ('sg_lookup', 'v'), 'm:@struct edgesink::push_back': ('edge_push', 'v'),
    'm:@vec_recp::push_back': ('vec_recp_push_back', 'v'), 'range:@struct succmap': ('succmap_size', 'succmap_at'), 'range:@struct edgesink': ('sink_size', 'sink_at'),
})
UNIT['stubs'] = {}
RQ = '(*record)->pausedInputRequests.ptr[%d]'
DQ = '(*record)->deferredScanRequests.ptr[%d]'
S = _c.S


def has_task(k):
    return '(g_has_task[%d] != 0)' % k


def cnt_tasks(upto):
    return '(' + ' + '.join(['0u'] + ['((%d < %s && %s) ? 1u : 0u)' % (k, upto, has_task(k)) for k in range(NE)]) + ')'


def paused_edge(k):
    # the edge of request k sits at position (number of earlier requests that have a task)
    pos = '(' + ' + '.join(['0u'] + ['(%s ? 1u : 0u)' % has_task(j) for j in range(k)]) + ')'
    return ('((%d < LIMIT && %s) ==> (g_edge_from[%s] == %s.inputRuleInfo->rule && g_edge_to[%s] == %s.taskInfo->forRuleInfo->rule))' % (k, has_task(k), pos, RQ % k, pos, RQ % k))


def fresh_req(k):
    r = RQ % k
    return ['__CPROVER_is_fresh(%s.inputRuleInfo, sizeof(struct BuildEngineImpl_RuleInfo))' % r,
            'g_has_task[%d] ? __CPROVER_is_fresh(%s.taskInfo, sizeof(struct BuildEngineImpl_TaskInfo)) : (%s.taskInfo == 0)' % (k, r, r),
            'g_has_task[%d] ==> __CPROVER_is_fresh(%s.taskInfo->forRuleInfo, sizeof(struct BuildEngineImpl_RuleInfo))' % (k, r)]


def deferred_edge(k):
    r = DQ % k
    return '((%d < LIMIT) ==> (g_edge_from[%d] == %s.inputRuleInfo->rule && g_edge_to[%d] == %s.ruleInfo->rule))' % (k, k, r, k, r)


def scanning(k):
    return '(%s.ruleInfo->state == %sIsScanning)' % (DQ % k, S)


def fresh_def(k):
    r = DQ % k
    return ['__CPROVER_is_fresh(%s.inputRuleInfo, sizeof(struct BuildEngineImpl_RuleInfo))' % r, '__CPROVER_is_fresh(%s.ruleInfo, sizeof(struct BuildEngineImpl_RuleInfo))' % r,
            '%s ==> PSR(%s.ruleInfo) != 0' % (scanning(k), r)]


def pushed(k):
    pos = '(' + ' + '.join(['0u'] + ['(%s ? 1u : 0u)' % scanning(j) for j in range(k)]) + ')'
    return '((%d < LIMIT && %s) ==> activeRuleScanRecords->ptr[g_a0 + %s] == PSR(%s.ruleInfo))' % (k, scanning(k), pos, DQ % k)


def cnt_scanning(upto):
    return '(' + ' + '.join(['0u'] + ['((%d < %s && %s) ? 1u : 0u)' % (k, upto, scanning(k)) for k in range(NE)]) + ')'


PL = '(*record)->pausedInputRequests.len'
DL = '(*record)->deferredScanRequests.len'
UNIT['after_structs'] = _b['after_structs'] + 'size_t g_a0; _Bool g_has_task[NE];\n'
UNIT['functions'] = {
    # for (const auto& request: record->pausedInputRequests) if (request.taskInfo) successorGraph[input rule].push_back(rule of the waiting task);
    'BuildEngineImpl::findCycle#paused': {
        'of': 'BuildEngineImpl::findCycle', 'cname': 'BuildEngineImpl_findCycle_paused_step',
        'segment': {'kind': 'CXXForRangeStmt', 'mentions': ['pausedInputRequests', 'successorGraph', 'taskInfo', 'inputRuleInfo']},
        'requires': ['__CPROVER_is_fresh(record, sizeof(*record))', '__CPROVER_is_fresh(*record, sizeof(**record))', '__CPROVER_is_fresh(successorGraph, 1)', 'VEC_OKN((*record)->pausedInputRequests, struct BuildEngineImpl_TaskInputRequest, NE)', 'g_nedges == 0']
                    + sum([fresh_req(k) for k in range(NE)], []),
        'assigns': ['g_nedges', 'g_cur_from', '__CPROVER_object_whole(g_edge_from)', '__CPROVER_object_whole(g_edge_to)'],
        'ensures': [('P:C07', 'g_nedges == %s' % cnt_tasks(PL))] + [('P:C07', paused_edge(k).replace('LIMIT', PL)) for k in range(NE)],
        'loops': {0: {'assigns': ['$i', 'g_nedges', 'g_cur_from', '__CPROVER_object_whole(g_edge_from)', '__CPROVER_object_whole(g_edge_to)'],
                      'invariant': ['$i <= $range->len && g_nedges == %s && ' % cnt_tasks('$i') + ' && '.join(paused_edge(k).replace('LIMIT', '$i') for k in range(NE))],
                      'decreases': '$range->len - $i'}},
    },
    # for (const auto& request: record->deferredScanRequests) { successorGraph[input rule].push_back(rule whose scan is deferred); if that rule is scanning, visit its record }
    'BuildEngineImpl::findCycle#deferred': {
        'of': 'BuildEngineImpl::findCycle', 'cname': 'BuildEngineImpl_findCycle_deferred_step',
        'segment': {'kind': 'CXXForRangeStmt', 'mentions': ['deferredScanRequests', 'successorGraph', 'activeRuleScanRecords', 'inputRuleInfo']},
        'requires': ['__CPROVER_is_fresh(record, sizeof(*record))', '__CPROVER_is_fresh(*record, sizeof(**record))', '__CPROVER_is_fresh(successorGraph, 1)', '__CPROVER_is_fresh(activeRuleScanRecords, sizeof(*activeRuleScanRecords))',
                     'VEC_OKN((*record)->deferredScanRequests, struct BuildEngineImpl_RuleScanRequest, NE)', 'VEC_OKN(*activeRuleScanRecords, struct BuildEngineImpl_RuleScanRecord *, 8)',
                     'activeRuleScanRecords->len <= 4 && g_a0 == activeRuleScanRecords->len', 'g_nedges == 0'] + sum([fresh_def(k) for k in range(NE)], []),
        'assigns': ['g_nedges', 'g_cur_from', '__CPROVER_object_whole(g_edge_from)', '__CPROVER_object_whole(g_edge_to)', 'activeRuleScanRecords->len', '__CPROVER_object_whole(activeRuleScanRecords->ptr)'],
        'ensures': [('P:C07', 'g_nedges == %s' % DL)] + [('P:C07', deferred_edge(k).replace('LIMIT', DL)) for k in range(NE)] +
                   [('P:C07', 'activeRuleScanRecords->len == g_a0 + %s' % cnt_scanning(DL))] + [('P:C07', pushed(k).replace('LIMIT', DL)) for k in range(NE)],
        'loops': {0: {'assigns': ['$i', 'g_nedges', 'g_cur_from', '__CPROVER_object_whole(g_edge_from)', '__CPROVER_object_whole(g_edge_to)', 'activeRuleScanRecords->len', '__CPROVER_object_whole(activeRuleScanRecords->ptr)'],
                      'invariant': ['$i <= $range->len && g_nedges == $i && activeRuleScanRecords->len == g_a0 + %s && ' % cnt_scanning('$i') + ' && '.join(deferred_edge(k).replace('LIMIT', '$i') for k in range(NE)) + ' && ' +
                                    ' && '.join(pushed(k).replace('LIMIT', '$i') for k in range(NE))],
                      'decreases': '$range->len - $i'}},
    },
}

# Invert the graph: for (auto& entry: successorGraph) for (auto& succ: entry.second) predecessorGraph[succ].push_back(entry.first);
EN = 'successorGraph->ptr[%d]'
UNIT['functions']['BuildEngineImpl::findCycle#invert'] = {
    'of': 'BuildEngineImpl::findCycle', 'cname': 'BuildEngineImpl_findCycle_invert_step',
    'segment': {'kind': 'CXXForRangeStmt', 'mentions': ['successorGraph', 'predecessorGraph', 'succ', 'node']},
    'requires': ['__CPROVER_is_fresh(successorGraph, sizeof(*successorGraph))', '__CPROVER_is_fresh(predecessorGraph, sizeof(*predecessorGraph))', 'VEC_OKN(*successorGraph, struct succentry, 2)',
                 'VEC_OKN(successorGraph->ptr[0].second, struct Rule *, 2)', 'VEC_OKN(successorGraph->ptr[1].second, struct Rule *, 2)', 'g_nedges == 0'],
    'assigns': ['g_nedges', 'g_cur_from', '__CPROVER_object_whole(g_edge_from)', '__CPROVER_object_whole(g_edge_to)'],
    # every successor edge node -> succ becomes exactly one predecessor entry "succ waits for node", nothing else is added
    'ensures': [('P:C07', 'g_nedges == ((0 < successorGraph->len ? successorGraph->ptr[0].second.len : 0) + (1 < successorGraph->len ? successorGraph->ptr[1].second.len : 0))'), ('P:C07', '((0 < successorGraph->len && 0 < successorGraph->ptr[0].second.len) ==> (g_edge_from[0 + 0] == successorGraph->ptr[0].second.ptr[0] && g_edge_to[0 + 0] == successorGraph->ptr[0].first)) && ((0 < successorGraph->len && 1 < successorGraph->ptr[0].second.len) ==> (g_edge_from[0 + 1] == successorGraph->ptr[0].second.ptr[1] && g_edge_to[0 + 1] == successorGraph->ptr[0].first)) && ((1 < successorGraph->len && 0 < successorGraph->ptr[1].second.len) ==> (g_edge_from[successorGraph->ptr[0].second.len + 0] == successorGraph->ptr[1].second.ptr[0] && g_edge_to[successorGraph->ptr[0].second.len + 0] == successorGraph->ptr[1].first)) && ((1 < successorGraph->len && 1 < successorGraph->ptr[1].second.len) ==> (g_edge_from[successorGraph->ptr[0].second.len + 1] == successorGraph->ptr[1].second.ptr[1] && g_edge_to[successorGraph->ptr[0].second.len + 1] == successorGraph->ptr[1].first))')],
    'loops': {0: {'assigns': ['$i', 'g_nedges', 'g_cur_from', '__CPROVER_object_whole(g_edge_from)', '__CPROVER_object_whole(g_edge_to)'],
                  'invariant': ['$i <= $range->len && g_nedges == ((0 < $i ? successorGraph->ptr[0].second.len : 0) + (1 < $i ? successorGraph->ptr[1].second.len : 0)) && ((0 < $i && 0 < successorGraph->ptr[0].second.len) ==> (g_edge_from[0 + 0] == successorGraph->ptr[0].second.ptr[0] && g_edge_to[0 + 0] == successorGraph->ptr[0].first)) && ((0 < $i && 1 < successorGraph->ptr[0].second.len) ==> (g_edge_from[0 + 1] == successorGraph->ptr[0].second.ptr[1] && g_edge_to[0 + 1] == successorGraph->ptr[0].first)) && ((1 < $i && 0 < successorGraph->ptr[1].second.len) ==> (g_edge_from[successorGraph->ptr[0].second.len + 0] == successorGraph->ptr[1].second.ptr[0] && g_edge_to[successorGraph->ptr[0].second.len + 0] == successorGraph->ptr[1].first)) && ((1 < $i && 1 < successorGraph->ptr[1].second.len) ==> (g_edge_from[successorGraph->ptr[0].second.len + 1] == successorGraph->ptr[1].second.ptr[1] && g_edge_to[successorGraph->ptr[0].second.len + 1] == successorGraph->ptr[1].first))'], 'decreases': '$range->len - $i'},
              1: {'assigns': ['$i', 'g_nedges', 'g_cur_from', '__CPROVER_object_whole(g_edge_from)', '__CPROVER_object_whole(g_edge_to)'],
                  'invariant': ['$i <= $range->len && __i1 < 2 && $range == &successorGraph->ptr[__i1].second && node == successorGraph->ptr[__i1].first && g_nedges == ((0 < __i1 ? successorGraph->ptr[0].second.len : 0) + (1 < __i1 ? successorGraph->ptr[1].second.len : 0)) + $i && ((0 < __i1 && 0 < successorGraph->ptr[0].second.len) ==> (g_edge_from[0 + 0] == successorGraph->ptr[0].second.ptr[0] && g_edge_to[0 + 0] == successorGraph->ptr[0].first)) && ((0 < __i1 && 1 < successorGraph->ptr[0].second.len) ==> (g_edge_from[0 + 1] == successorGraph->ptr[0].second.ptr[1] && g_edge_to[0 + 1] == successorGraph->ptr[0].first)) && ((1 < __i1 && 0 < successorGraph->ptr[1].second.len) ==> (g_edge_from[successorGraph->ptr[0].second.len + 0] == successorGraph->ptr[1].second.ptr[0] && g_edge_to[successorGraph->ptr[0].second.len + 0] == successorGraph->ptr[1].first)) && ((1 < __i1 && 1 < successorGraph->ptr[1].second.len) ==> (g_edge_from[successorGraph->ptr[0].second.len + 1] == successorGraph->ptr[1].second.ptr[1] && g_edge_to[successorGraph->ptr[0].second.len + 1] == successorGraph->ptr[1].first)) && '
                                '((__i1 == 0 && 0 < $i) ==> (g_edge_from[0] == successorGraph->ptr[0].second.ptr[0] && g_edge_to[0] == successorGraph->ptr[0].first)) && '
                                '((__i1 == 0 && 1 < $i) ==> (g_edge_from[1] == successorGraph->ptr[0].second.ptr[1] && g_edge_to[1] == successorGraph->ptr[0].first)) && '
                                '((__i1 == 1 && 0 < $i) ==> (g_edge_from[successorGraph->ptr[0].second.len] == successorGraph->ptr[1].second.ptr[0] && g_edge_to[successorGraph->ptr[0].second.len] == successorGraph->ptr[1].first)) && '
                                '((__i1 == 1 && 1 < $i) ==> (g_edge_from[successorGraph->ptr[0].second.len + 1] == successorGraph->ptr[1].second.ptr[1] && g_edge_to[successorGraph->ptr[0].second.len + 1] == successorGraph->ptr[1].first))'],
                  'decreases': '$range->len - $i'}},
}


# the first loop of findCycle, one task: successors of the task's rule are the rules of the tasks that requested it and the rules whose scan is deferred on it
def _sg_insert(tr, n, obj, args, argnodes):
    """successorGraph.insert({ rule, successors }): the braces build a pair; its two members are the only two expressions of pointer / vector type inside"""
    found = []

    def walk(x):
        if isinstance(x, dict):
            if x.get('kind') in ('InitListExpr', 'CXXConstructExpr') and len(x.get('inner', [])) == 2:
                found.append(x)
                return
            for c in x.get('inner', []):
                walk(c)
    walk({'inner': argnodes})
    if len(found) != 1:
        def show(x, d=0, out=None):
            if isinstance(x, dict):
                out.append('  ' * d + x.get('kind', '?') + ' ' + (x.get('type') or {}).get('qualType', '')[:60])
                if d < 8:
                    for c in x.get('inner', []):
                        show(c, d + 1, out)
            return out
        raise Exception('successorGraph.insert: expected one braced pair\n' + '\n'.join(show({'inner': argnodes}, 0, [])))
    a, b = found[0]['inner']
    return 'sg_insert(%s, %s)' % (obj, tr.expr(a))


UNIT['calls']['m:@struct succmap::insert'] = _sg_insert
UNIT['prelude'] += """
/* successors.push_back(x) logs the target of an edge whose source is known only at successorGraph.insert({rule, successors}) */
unsigned g_mark;
static inline void sg_insert(struct succmap *m, struct Rule *from) {
  if (g_mark <= 0 && 0 < g_nedges) g_edge_from[0] = from;
  if (g_mark <= 1 && 1 < g_nedges) g_edge_from[1] = from;
  if (g_mark <= 2 && 2 < g_nedges) g_edge_from[2] = from;
  if (g_mark <= 3 && 3 < g_nedges) g_edge_from[3] = from;
  g_mark = g_nedges; }
"""
TI = 'taskInfo'
RB = '(*it).second.requestedBy.ptr[%d]'
DS = '(*it).second.deferredScanRequests.ptr[%d]'
RBL = '(*it).second.requestedBy.len'
DSL = '(*it).second.deferredScanRequests.len'
UNIT['functions']['BuildEngineImpl::findCycle#tasks'] = {
    'of': 'BuildEngineImpl::findCycle', 'cname': 'BuildEngineImpl_findCycle_tasks_step',
    'segment': {'kind': 'CompoundStmt', 'mentions': ['requestedBy', 'deferredScanRequests', 'successors', 'successorGraph', 'forRuleInfo', 'taskInfo']},
    'requires': ['__CPROVER_is_fresh(it, sizeof(*it))', '__CPROVER_is_fresh(successorGraph, sizeof(*successorGraph))', '__CPROVER_is_fresh((*it).second.forRuleInfo, sizeof(struct BuildEngineImpl_RuleInfo))',
                 'VEC_OKN((*it).second.requestedBy, struct BuildEngineImpl_TaskInputRequest, 2)', 'VEC_OKN((*it).second.deferredScanRequests, struct BuildEngineImpl_RuleScanRequest, 2)',
                 '__CPROVER_is_fresh(%s.taskInfo, sizeof(struct BuildEngineImpl_TaskInfo)) && __CPROVER_is_fresh(%s.taskInfo, sizeof(struct BuildEngineImpl_TaskInfo))' % (RB % 0, RB % 1),
                 '__CPROVER_is_fresh(%s.taskInfo->forRuleInfo, sizeof(struct BuildEngineImpl_RuleInfo)) && __CPROVER_is_fresh(%s.taskInfo->forRuleInfo, sizeof(struct BuildEngineImpl_RuleInfo))' % (RB % 0, RB % 1),
                 '__CPROVER_is_fresh(%s.ruleInfo, sizeof(struct BuildEngineImpl_RuleInfo)) && __CPROVER_is_fresh(%s.ruleInfo, sizeof(struct BuildEngineImpl_RuleInfo))' % (DS % 0, DS % 1),
                 'g_nedges == 0 && g_mark == 0'],
    'assigns': ['g_nedges', 'g_mark', 'g_cur_from', '__CPROVER_object_whole(g_edge_from)', '__CPROVER_object_whole(g_edge_to)'],
    'ensures': [
        ('P:C07', 'g_nedges == %s + %s && g_mark == g_nedges' % (RBL, DSL)),
        # every request for this task's rule: the requesting task's rule waits for it
        ('P:C07', ' && '.join('((%d < %s) ==> (g_edge_from[%d] == (*it).second.forRuleInfo->rule && g_edge_to[%d] == %s.taskInfo->forRuleInfo->rule))' % (k, RBL, k, k, RB % k) for k in range(2))),
        # every scan deferred on this task: the rule being scanned waits for it
        ('P:C07', ' && '.join('((%d < %s) ==> (g_edge_from[%s + %d] == (*it).second.forRuleInfo->rule && g_edge_to[%s + %d] == %s.ruleInfo->rule))' % (k, DSL, RBL, k, RBL, k, DS % k) for k in range(2))),
    ],
    'loops': {0: {'assigns': ['$i', 'g_nedges', 'g_cur_from', '__CPROVER_object_whole(g_edge_from)', '__CPROVER_object_whole(g_edge_to)'],
                  'invariant': ['$i <= $range->len && g_nedges == $i && g_mark == 0 && ' + ' && '.join('((%d < $i) ==> g_edge_to[%d] == %s.taskInfo->forRuleInfo->rule)' % (k, k, RB % k) for k in range(2))],
                  'decreases': '$range->len - $i'},
              1: {'assigns': ['$i', 'g_nedges', 'g_cur_from', '__CPROVER_object_whole(g_edge_from)', '__CPROVER_object_whole(g_edge_to)'],
                  'invariant': ['$i <= $range->len && g_nedges == %s + $i && g_mark == 0 && ' % RBL + ' && '.join('((%d < %s) ==> g_edge_to[%d] == %s.taskInfo->forRuleInfo->rule)' % (k, RBL, k, RB % k) for k in range(2)) + ' && ' +
                                ' && '.join('((%d < $i) ==> g_edge_to[%s + %d] == %s.ruleInfo->rule)' % (k, RBL, k, DS % k) for k in range(2))],
                  'decreases': '$range->len - $i'}},
}

# the second loop of findCycle, one rule: the pending scan record of every rule that is being scanned is a starting point of the gathering
UNIT['functions']['BuildEngineImpl::findCycle#scanning'] = {
    'of': 'BuildEngineImpl::findCycle', 'cname': 'BuildEngineImpl_findCycle_scanning_step',
    'segment': {'kind': 'IfStmt', 'mentions': ['isScanning', 'activeRuleScanRecords', 'getPendingScanRecord', 'scanRecord'], 'excludes': ['deferredScanRequests', 'successorGraph']},
    'requires': ['__CPROVER_is_fresh(ruleInfo, sizeof(*ruleInfo))', '__CPROVER_is_fresh(activeRuleScanRecords, sizeof(*activeRuleScanRecords))',
                 'VEC_OKN(*activeRuleScanRecords, struct BuildEngineImpl_RuleScanRecord *, 8)', 'activeRuleScanRecords->len <= 4 && g_a0 == activeRuleScanRecords->len',
                 '(ruleInfo->state == %sIsScanning) ==> PSR(ruleInfo) != 0' % S],
    'assigns': ['activeRuleScanRecords->len', '__CPROVER_object_whole(activeRuleScanRecords->ptr)'],
    'ensures': [('P:C07', '(ruleInfo->state == %sIsScanning) ? (activeRuleScanRecords->len == g_a0 + 1 && activeRuleScanRecords->ptr[g_a0] == PSR(ruleInfo)) : activeRuleScanRecords->len == g_a0' % S)],
}
