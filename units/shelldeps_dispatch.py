"""U-shell-deps-dispatch: ShellCommand::processDiscoveredDependencies (lib/BuildSystem/ShellCommand.cpp) -- C11, C08: every deps file of the
command is read (a relative one against the working directory) and handed, with its own contents, to the processor of the declared style;
`makefile` honours every rule of the file, `makefile-ignoring-subsequent-outputs` only the first; an unreadable or malformed file fails the command."""
ST = 'ShellCommand_DepsStyle_'


def _err(tr, n, obj, args, argnodes):
    tr.dropped.add('the message text passed to commandHadError')
    return '(g_errors++)'


def _contents(tr, n, obj, args, argnodes):
    """FileSystem::getFileContents(const std::string&): given the deps path itself, or the joined buffer converted to a string"""
    e = tr.expr(argnodes[0])
    if 'disp_ref_of_pathbuf' in e:
        return 'disp_contents_of_ref(%s, %s)' % (obj, e)
    e = e.strip()
    while e.startswith('((') and e.endswith('))'):
        e = e[1:-1]
    e = e[2:-1] if e.startswith('(*') and e.endswith(')') else '&(%s)' % e
    return 'disp_contents_of_string(%s, %s)' % (obj, e)


def _fatal(tr, n, obj, args, argnodes):
    return '__CPROVER_assert(0, "[P:C11] every declared deps style is dispatched (report_fatal_error is unreachable)")'


K = 'g_k'
PROC = '(g_mk_calls + g_di_calls)'
UNIT = {
    'name': 'shelldeps_dispatch',
    'source': 'lib/BuildSystem/ShellCommand.cpp',
    'dumps': ['buildsystem::ShellCommand', 'ShellCommand::DepsStyle'],
    'types': {'StringRef': 'strref', 'TaskInterface': 'struct TaskInterface', 'core::TaskInterface': 'struct TaskInterface', 'std::string': 'vstr', 'string': 'vstr', 'basic_string<char>': 'vstr',
              'Twine': 'strref', 'llvm::Twine': 'strref', 'llvm::MemoryBuffer': 'struct membuf', 'MemoryBuffer': 'struct membuf'},
    'type_patterns': [(r'(llvm::)?SmallString<\d+>', 'struct pathbuf'), (r'(llvm::)?SmallVectorImpl<char>', 'struct pathbuf'), (r'(std::)?vector<(std::)?(basic_string<char>|string).*>', 'vec_str'), (r'(llvm::)?SmallVector<(std::)?(basic_string<char>|string), \d+>', 'vec_str')],
    'by_value': ['strref', 'struct TaskInterface', 'struct pathbuf'], 'by_pointer': ['vstr'],
    'predefined_structs': ['TaskInterface', 'pathbuf', 'membuf'],
    'need_fields': {'ShellCommand': ['depsStyle', 'depsPaths', 'workingDirectory']},
    'no_translate': ['is_absolute', 'append', 'make_absolute', 'getDelegate', 'getFileSystem', 'getFileContents', 'commandHadError', 'processMakefileDiscoveredDependencies', 'processDependencyInfoDiscoveredDependencies', 'report_fatal_error'],
    'prelude': '#include "models/base.h"\n#include "models/strmodel.h"\n#include "models/shelldisp.h"\n',
    'calls': {
        'fn:is_absolute': 'disp_is_absolute($0)', 'fn:append': 'disp_path_append(&$0, $1)', 'fn:make_absolute': 'disp_make_absolute(&$0)',
        'm:BuildSystem::getDelegate': 'disp_delegate', 'm:BuildSystem::getFileSystem': 'disp_fs', 'm:FileSystem::getFileContents': _contents, 'm:BuildSystemDelegate::commandHadError': _err,
        'range:@vec_str': ('vec_str_size', 'vec_str_at'), 'fn:report_fatal_error': _fatal,
    },
    'call_patterns': [(r'c:StringRef\(const (std::)?(string|basic_string<char>) &\)', 'disp_ref_of_string'), (r'c:Twine\(const (std::)?(string|basic_string<char>) &\)', 'disp_ref_of_string'), (r'c:Twine\(.*\)', '$0'),
                      (r'c:SmallString<\d+>\(StringRef\)', 'disp_pathbuf_from'), (r'c:StringRef\(.*SmallString.*\)', 'disp_ref_of_pathbuf'),
                      (r'm:SmallString<\d+>::operator StringRef', 'disp_ref_of_pathbuf'), (r'm:@struct pathbuf::operator StringRef', 'disp_ref_of_pathbuf'),
                      (r'o:=:unique_ptr<.*>', '(*$o = $0)'), (r'm:StringRef::operator .*', 'disp_ref_id'), (r'm:@strref::operator .*', 'disp_ref_id'), (r'fn:operator\+', '0'), (r'c:(basic_string<char>|string|std::string)\(.*\)', '0')],
    'stubs': {
        'ShellCommand_processMakefileDiscoveredDependencies': {
            'ret': '_Bool', 'params': 'struct ShellCommand *self, struct BuildSystem *system, struct TaskInterface ti, struct QueueJobContext *context, strref depsPath, struct membuf *input, _Bool ignoreSubsequentOutputs',
            'requires': [('P:C11', 'PIDX(depsPath.ptr) < NP && input == &g_contents[PIDX(depsPath.ptr)]')],
            'assigns': ['g_mk_calls', '__CPROVER_object_whole(g_proc_kind)', '__CPROVER_object_whole(g_proc_ignore)'],
            'ensures': ['g_mk_calls == OLD(g_mk_calls) + 1 && g_proc_kind[PIDX(depsPath.ptr)] == 1 && g_proc_ignore[PIDX(depsPath.ptr)] == (ignoreSubsequentOutputs != 0) && (RESULT != 0) == (g_proc_ok[PIDX(depsPath.ptr)] != 0)',
                        'PIDX(depsPath.ptr) == 0 ? (g_proc_kind[1] == OLD(g_proc_kind[1]) && g_proc_ignore[1] == OLD(g_proc_ignore[1])) : (g_proc_kind[0] == OLD(g_proc_kind[0]) && g_proc_ignore[0] == OLD(g_proc_ignore[0]))']},
        'ShellCommand_processDependencyInfoDiscoveredDependencies': {
            'ret': '_Bool', 'params': 'struct ShellCommand *self, struct BuildSystem *system, struct TaskInterface ti, struct QueueJobContext *context, strref depsPath, struct membuf *input',
            'requires': [('P:C11', 'PIDX(depsPath.ptr) < NP && input == &g_contents[PIDX(depsPath.ptr)]')],
            'assigns': ['g_di_calls', '__CPROVER_object_whole(g_proc_kind)'],
            'ensures': ['g_di_calls == OLD(g_di_calls) + 1 && g_proc_kind[PIDX(depsPath.ptr)] == 2 && (RESULT != 0) == (g_proc_ok[PIDX(depsPath.ptr)] != 0)',
                        'PIDX(depsPath.ptr) == 0 ? g_proc_kind[1] == OLD(g_proc_kind[1]) : g_proc_kind[0] == OLD(g_proc_kind[0])']},
    },
    'functions': {
        'ShellCommand::processDiscoveredDependencies': {
            'requires': ['__CPROVER_is_fresh(self, sizeof(*self))', '__CPROVER_is_fresh(system, 1)', '__CPROVER_is_fresh(self->depsPaths.ptr, NP * sizeof(vstr)) && self->depsPaths.len <= NP && self->depsPaths.cap == NP',
                         'self->depsPaths.ptr[0].ptr == g_path_id[0] && self->depsPaths.ptr[1].ptr == g_path_id[1] && g_path_id[0] != 0 && g_path_id[1] != 0 && g_path_id[0] != g_path_id[1]',
                         'self->workingDirectory.ptr != 0 && self->workingDirectory.ptr != g_path_id[0] && self->workingDirectory.ptr != g_path_id[1]',
                         'self->depsStyle >= 0 && self->depsStyle <= 3', 'g_reads == 0 && g_errors == 0 && g_mk_calls == 0 && g_di_calls == 0', 'g_proc_kind[0] == 0 && g_proc_kind[1] == 0', 'g_k < NP'],
            'assigns': ['g_reads', 'g_errors', 'g_mk_calls', 'g_di_calls', 'g_joined_src', '__CPROVER_object_whole(g_read_joined)', '__CPROVER_object_whole(g_read_wd)', '__CPROVER_object_whole(g_read_abs)',
                        '__CPROVER_object_whole(g_proc_kind)', '__CPROVER_object_whole(g_proc_ignore)'],
            'ensures': [
                # a command with deps files but no declared style fails with a diagnostic, nothing is read
                ('P:C11', '(self->depsStyle == %sUnused) ==> (!RESULT && g_errors == 1 && g_reads == 0 && %s == 0)' % (ST, PROC)),
                # success means EVERY deps file was read and processed without error, by the processor of the declared style
                ('P:C11,P:C08', '(RESULT && g_k < self->depsPaths.len) ==> (g_readable[g_k] && g_proc_ok[g_k] && g_proc_kind[g_k] == (self->depsStyle == %sDependencyInfo ? 2 : 1))' % ST),
                ('P:C11,P:C08', '(RESULT && self->depsStyle != %sUnused) ==> (g_reads == self->depsPaths.len && %s == self->depsPaths.len && g_errors == 0)' % (ST, PROC)),
                # `makefile`: all rules of the file count; only the -ignoring-subsequent-outputs style stops after the first rule
                ('P:C11,P:C08', '(RESULT && g_k < self->depsPaths.len && self->depsStyle == %sMakefile) ==> !g_proc_ignore[g_k]' % ST),
                ('P:C11', '(RESULT && g_k < self->depsPaths.len && self->depsStyle == %sMakefileIgnoringSubsequentOutputs) ==> g_proc_ignore[g_k]' % ST),
                # a relative deps path is resolved against the command's working directory and made absolute; an absolute one is read as spelled
                ('P:C11', '(RESULT && g_k < self->depsPaths.len) ==> (g_is_abs[g_k] ? !g_read_joined[g_k] : (g_read_joined[g_k] && g_read_wd[g_k] == self->workingDirectory.ptr && g_read_abs[g_k]))'),
                # an unreadable deps file, or one its processor rejects, fails the command (with a diagnostic for the unreadable one)
                ('P:C11', '(self->depsStyle != %sUnused && self->depsPaths.len > 0 && !g_readable[0]) ==> (!RESULT && g_errors == 1)' % ST),
                ('P:C11', '(self->depsStyle != %sUnused && self->depsPaths.len > 0 && g_readable[0] && !g_proc_ok[0]) ==> !RESULT' % ST),
            ],
            'loops': {0: {'assigns': ['$i', 'g_reads', 'g_errors', 'g_mk_calls', 'g_di_calls', 'g_joined_src', '__CPROVER_object_whole(g_read_joined)', '__CPROVER_object_whole(g_read_wd)', '__CPROVER_object_whole(g_read_abs)',
                                      '__CPROVER_object_whole(g_proc_kind)', '__CPROVER_object_whole(g_proc_ignore)'],
                          'invariant': ['$i <= $range->len && g_reads == $i && %s == $i && g_errors == 0 && self->depsStyle != %sUnused' % (PROC, ST),
                                        '(g_k < $i) ==> (g_readable[g_k] && g_proc_ok[g_k] && g_proc_kind[g_k] == (self->depsStyle == %sDependencyInfo ? 2 : 1) && '
                                        '(self->depsStyle == %sMakefile ==> !g_proc_ignore[g_k]) && (self->depsStyle == %sMakefileIgnoringSubsequentOutputs ==> g_proc_ignore[g_k]) && '
                                        '(g_is_abs[g_k] ? !g_read_joined[g_k] : (g_read_joined[g_k] && g_read_wd[g_k] == self->workingDirectory.ptr && g_read_abs[g_k])))' % (ST, ST, ST),
                                        '($i == 0) ==> (g_proc_kind[0] == 0 && g_proc_kind[1] == 0)'],
                          'decreases': '$range->len - $i'}},
        },
    },
}
