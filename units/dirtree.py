"""U-dir-tree: DirectoryTreeSignatureTask / DirectoryTreeStructureSignatureTask (lib/BuildSystem/BuildSystem.cpp) -- C12.

Reduction (lemma L2, paper): the signature of a directory changes when anything beneath it changes if (ii) the task requests, for
every name of the (filtered) listing, that child's node value and, for every child that is a directory, that child's tree
signature *with the same filters*, and (iii) the signature feeds the path, the directory value, and for every child in order its
name/value (structure: name and mode) and its sub-signature or the nil marker.  (ii) and (iii) are the contracts below."""
T = 'struct DirectoryTreeSignatureTask'


def _mk_tree_key(tr, argnodes, kind):
    """BuildKey::makeDirectoryTree(Structure)Signature(path, filters): the key of a sub-tree request"""
    from tools.cxx2c import Unsupported
    if len(argnodes) != 2:
        raise Unsupported('tree signature key with %d arguments' % len(argnodes))
    a = tr.lower_args(argnodes, 'vp')
    return 'bkey_child(%s, %s, %s)' % (kind, a[0], a[1])


def _complete(tr, obj, argnodes):
    """ti.complete(BuildValue::makeDirectoryTree(Structure)Signature(CommandSignature(uint64_t(code))).toData())"""
    from tools.cxx2c import Unsupported
    found = []

    def walk(x):
        if isinstance(x, dict):
            if x.get('kind') == 'CallExpr':
                c = tr.peel(x['inner'][0])
                nm = c.get('referencedDecl', {}).get('name', '')
                if nm.startswith('makeDirectoryTree') and len(x['inner']) == 2:
                    found.append((nm, x['inner'][1]))
                    return
            for c in x.get('inner', []):
                walk(c)
    walk(argnodes[0])
    if len(found) != 1:
        raise Unsupported('completion value is not a single tree signature value')
    nm, arg = found[0]
    return 'TaskInterface_complete_sig(%s, %s, %s)' % (obj, 'K_TreeStructSig' if 'Structure' in nm else 'K_TreeSig', tr.expr(arg))
N = 'self->childResults.len'


def start(kind_plain, kind_filtered):
    return {'requires': ['__CPROVER_is_fresh(self, sizeof(*self))', 'g_requests == 0'], 'assigns': ['g_requests', 'g_req_key', 'g_req_id', 'g_kth_key', 'g_kth_id'],
            # input 0 is the (filtered) contents key of the task's own path, with the task's filters
            'ensures': [('P:C12', 'g_requests == 1 && g_req_id == 0 && g_req_key.base.ptr == self->path.ptr && g_req_key.name.ptr == 0 && '
                         '(self->filters.size == 0 ? (g_req_key.kind == %s) : (g_req_key.kind == %s && g_req_key.filters == &self->filters))' % (kind_plain, kind_filtered))]}


def provide(cls, kind_sub, fieldsig, listing_ok):
    SI = 'struct %s_SubpathInfo' % cls
    return {
        'requires': ['__CPROVER_is_fresh(self, sizeof(*self))', 'valueData.gid < 16', 'g_requests == 0',
                     'VEC_OK(self->childResults, %s)' % SI, '__CPROVER_is_fresh(g_names, 8 * sizeof(strref))', 'g_values[valueData.gid].n_names <= 8',
                     # the children are created by input 0; later inputs arrive when the list is complete
                     'inputID == 0 ? (%s == 0 && self->childResults.cap >= 8) : 1' % N, 'g_k < 8',
                     # values are provided only for the ids the task itself requested (task protocol, C06)
                     'inputID < 1 + 2 * %s || inputID == 0' % N],
        'assigns': ['self->directoryValue', 'self->childResults.len', '__CPROVER_object_whole(self->childResults.ptr)', 'g_requests', 'g_req_key', 'g_req_id', 'g_kth_key', 'g_kth_id', 'g_last_path', 'g_last_path_obj'],
        'ensures': [
            # input 0: one node request per name of the listing, in order, with id 1+k (ghost index g_k), and one child record per name
            ('P:C12', '(inputID == 0 && (%s)) ==> (%s == g_values[valueData.gid].n_names && g_requests == %s)' % (listing_ok, N, N)),
            ('P:C12', '(inputID == 0 && (%s) && g_k < %s) ==> (g_kth_id == 1 + g_k && g_kth_key.kind == K_Node && g_kth_key.base.ptr == self->path.ptr && '
                      'g_kth_key.name.ptr == g_names[g_k].ptr && self->childResults.ptr[g_k].filename.ptr == g_names[g_k].ptr)' % (listing_ok, N)),
            ('P:C12', '(inputID == 0 && !(%s)) ==> (g_requests == 0 && %s == 0)' % (listing_ok, N)),
            # a child value: stored in its slot; a child that is an existing directory triggers exactly one sub-tree request for
            # path/name with THE TASK'S FILTERS and id 1+n+index
            ('P:C12', '(inputID >= 1 && inputID < 1 + OLD(%s)) ==> (self->childResults.ptr[inputID - 1].value.gid == valueData.gid && '
                      '((g_values[valueData.gid].kind == BV_ExistingInput && g_values[valueData.gid].is_dir) ? '
                      '(g_requests == 1 && g_req_id == 1 + OLD(%s) + (inputID - 1) && g_req_key.kind == %s && g_req_key.base.ptr == self->path.ptr && '
                      'g_req_key.name.ptr == self->childResults.ptr[inputID - 1].filename.ptr && g_req_key.filters == &self->filters) : g_requests == 0))' % (N, N, kind_sub)),
            # a sub-tree signature: stored in the slot of its child
            ('P:C12', '(inputID >= 1 + OLD(%s) && inputID < 1 + 2 * OLD(%s)) ==> (g_requests == 0 && self->childResults.ptr[inputID - 1 - OLD(%s)].%s.has && '
                      'self->childResults.ptr[inputID - 1 - OLD(%s)].%s.v.gid == valueData.gid)' % (N, N, N, fieldsig, N, fieldsig)),
        ],
        'loops': {0: {'assigns': ['i', 'self->childResults.len', '__CPROVER_object_whole(self->childResults.ptr)', 'g_requests', 'g_req_key', 'g_req_id', 'g_kth_key', 'g_kth_id', 'g_last_path', 'g_last_path_obj'],
                      'invariant': ['i <= filenames.len && %s == i && g_requests == i' % N,
                                    '(g_k < i) ==> (g_kth_id == 1 + g_k && g_kth_key.kind == K_Node && g_kth_key.base.ptr == self->path.ptr && g_kth_key.name.ptr == g_names[g_k].ptr && '
                                    'self->childResults.ptr[g_k].filename.ptr == g_names[g_k].ptr)'],
                      'decreases': 'filenames.len - i'}},
    }


def inputs_available(cls, fieldsig, structure, kind_done):
    SI = 'struct %s_SubpathInfo' % cls
    CH = 'self->childResults.ptr[g_k]'
    if structure:
        per, base = 3, 2
        dir_item = '(g_values[self->directoryValue.gid].kind == BV_DirectoryContents ? (g_items[1].kind == IT_U64 && g_items[1].a == g_values[self->directoryValue.gid].mode) : (g_items[1].kind == IT_RANGE && g_items[1].a == self->directoryValue.gid))'
        child = ('(g_items[2 + 3 * g_k].kind == IT_NAME && g_items[2 + 3 * g_k].a == (uint64_t)%s.filename.ptr) && '
                 '(g_values[%s.value.gid].kind == BV_ExistingInput ? (g_items[3 + 3 * g_k].kind == IT_U64 && g_items[3 + 3 * g_k].a == g_values[%s.value.gid].mode) '
                 ': (g_items[3 + 3 * g_k].kind == IT_RANGE && g_items[3 + 3 * g_k].a == %s.value.gid)) && '
                 '(%s.%s.has ? (g_items[4 + 3 * g_k].kind == IT_RANGE && g_items[4 + 3 * g_k].a == %s.%s.v.gid) : (g_items[4 + 3 * g_k].kind == IT_U64 && g_items[4 + 3 * g_k].a == NIL_MARK))' % (CH, CH, CH, CH, CH, fieldsig, CH, fieldsig))
    else:
        per, base = 2, 2
        dir_item = '(g_items[1].kind == IT_RANGE && g_items[1].a == self->directoryValue.gid)'
        child = ('(g_items[2 + 2 * g_k].kind == IT_RANGE && g_items[2 + 2 * g_k].a == %s.value.gid) && '
                 '(%s.%s.has ? (g_items[3 + 2 * g_k].kind == IT_RANGE && g_items[3 + 2 * g_k].a == %s.%s.v.gid) : (g_items[3 + 2 * g_k].kind == IT_U64 && g_items[3 + 2 * g_k].a == NIL_MARK))' % (CH, CH, fieldsig, CH, fieldsig))
    return {
        'requires': ['__CPROVER_is_fresh(self, sizeof(*self))', 'VEC_OK(self->childResults, %s) && %s <= 8' % (SI, N), 'self->directoryValue.gid < 16', 'g_k < 8',
                     ' && '.join('(%d >= %s || (self->childResults.ptr[%d].value.gid < 16 && self->childResults.ptr[%d].%s.v.gid < 16))' % (i, N, i, i, fieldsig) for i in range(8)),
                     'g_nitems == 0 && g_completes == 0'],
        'assigns': ['g_nitems', '__CPROVER_object_whole(g_items)', 'g_range_gid', 'g_completes', 'g_complete_kind'],
        'ensures': [
            # the chain is fed: the path, the directory's own value (structure: only its mode), then for every child in listing order
            # its value (structure: its name and its mode) and its sub-tree signature or the nil marker -- nothing else, nothing less
            ('P:C12', 'g_nitems == %d + %d * %s && g_items[0].kind == IT_PATH && g_items[0].a == (uint64_t)self->path.ptr && %s' % (base, per, N, dir_item)),
            ('P:C12', 'g_k < %s ==> (%s)' % (N, child)),
            ('P:C12', 'g_completes == 1 && g_complete_kind == %s' % kind_done)],
        'loops': {0: {'assigns': ['__i1', 'code', 'g_nitems', '__CPROVER_object_whole(g_items)', 'g_range_gid'],
                      'invariant': ['__i1 <= __range1->len && g_nitems == %d + %d * __i1 && g_items[0].kind == IT_PATH && g_items[0].a == (uint64_t)self->path.ptr && %s' % (base, per, dir_item),
                                    '(g_k < __i1) ==> (%s)' % child],
                      'decreases': '__range1->len - __i1'}},
    }


UNIT = {
    'name': 'dirtree',
    'source': 'lib/BuildSystem/BuildSystem.cpp',
    'dumps': ['DirectoryTreeSignatureTask', 'DirectoryTreeStructureSignatureTask', 'DirectoryContentsTask::isResultValid'],
    'types': {'std::string': 'vstr', 'string': 'vstr', 'basic_string<char>': 'vstr', 'StringRef': 'strref', 'StringList': 'struct StringList', 'basic::StringList': 'struct StringList',
              'ValueType': 'vbytes', 'core::ValueType': 'vbytes', 'KeyType': 'bkey', 'core::KeyType': 'bkey', 'BuildKey': 'bkey', 'BuildValue': 'struct bvalue', 'TaskInterface': 'struct TaskInterface',
              'SmallString<256>': 'pathbuf', 'SmallVectorImpl<char>': 'pathbuf', 'Twine': 'strref', 'llvm::hash_code': 'uint64_t', 'hash_code': 'uint64_t', 'CommandSignature': 'struct CommandSignature', 'FileInfo': 'struct bvalue'},
    'type_patterns': [(r'vector<(unsigned char|uint8_t)(, allocator<(unsigned char|uint8_t)>)?\s*>', 'vbytes'), (r'(llvm::)?Optional<(ValueType|core::ValueType|vector<.*>)>', 'struct optvalue'),
                      (r'(std::)?vector<StringRef.*>', 'vec_names'), (r'(std::)?vector<(std::)?(string|basic_string<char>).*>', 'vec_cur'),
                      (r'__normal_iterator<(const )?(std::)?(string|basic_string<char>) \*, .*>', 'vstr *'), (r'__normal_iterator<(const )?StringRef \*, .*>', 'strref *'),
                      (r'(std::)?error_code', 'int'), (r'(std::)?vector<DirectoryTreeSignatureTask::SubpathInfo.*>', 'vec_sub_sig'),
                      (r'(std::)?vector<DirectoryTreeStructureSignatureTask::SubpathInfo.*>', 'vec_sub_struct')],
    'by_value': ['strref', 'bkey', 'struct bvalue', 'struct TaskInterface', 'vbytes', 'struct optvalue'], 'by_pointer': ['vstr', 'pathbuf'],
    'predefined_structs': ['StringList', 'bvalue', 'optvalue', 'TaskInterface', 'CommandSignature'],
    'vec_types': {'vec_sub_sig': 'struct DirectoryTreeSignatureTask_SubpathInfo', 'vec_sub_struct': 'struct DirectoryTreeStructureSignatureTask_SubpathInfo'},
    'full_structs': ['DirectoryTreeSignatureTask::SubpathInfo', 'DirectoryTreeStructureSignatureTask::SubpathInfo'],
    'no_translate': ['getContents', 'getFileInfo', 'getBuildSystem', 'getFileSystem', 'request', 'complete', 'fromData', 'toData', 'getDirectoryContents', 'getOutputInfo', 'isDirectory'],
    'calls': {
        'm:@struct StringList::isEmpty': 'StringList_isEmpty',
        'fn:makeDirectoryContents': ('bkey_simple(K_DirectoryContents, $0)', 'v'), 'fn:makeFilteredDirectoryContents': ('bkey_filtered(K_FilteredDirectoryContents, $0, $1)', 'vp'),
        'fn:makeNode': ('bkey_child(K_Node, $0, 0)', 'v'),
        'fn:makeDirectoryTreeSignature': (lambda tr, n, obj, args, argnodes: _mk_tree_key(tr, argnodes, 'K_TreeSig')),
        'fn:makeDirectoryTreeStructureSignature': (lambda tr, n, obj, args, argnodes: _mk_tree_key(tr, argnodes, 'K_TreeStructSig')),
        'm:@bkey::toData': '(*$o)', 'm:@struct TaskInterface::request': 'TaskInterface_request',
        'fn:fromData': 'verif_fromData',
        'fn:hash_value': 'hv_path', 'fn:hash_combine': 'HC', 'fn:hash_combine_range': ('hc_range_of', 'vv'),
        'm:@vbytes::begin': 'vb_begin', 'm:@vbytes::end': 'vb_end',
        'm:@struct optvalue::hasValue': '($o->has != 0)', 'm:@struct optvalue::getValue': '($o->v)',
        'c:CommandSignature(uint64_t)': '$0',
        'm:@struct TaskInterface::complete': (lambda tr, n, obj, args, argnodes: _complete(tr, obj, argnodes)),
        'range:@vec_sub_sig': ('vec_sub_sig_size', 'vec_sub_sig_at'), 'range:@vec_sub_struct': ('vec_sub_struct_size', 'vec_sub_struct_at'),
        'm:@struct bvalue::isDirectoryContents': '($o->kind == BV_DirectoryContents)', 'm:@struct bvalue::isFilteredDirectoryContents': '($o->kind == BV_FilteredDirectoryContents)',
        'm:@struct bvalue::isExistingInput': '($o->kind == BV_ExistingInput)', 'm:@struct bvalue::isMissingInput': '($o->kind == BV_MissingInput)', 'm:@struct bvalue::isMissing': '($o->kind == BV_MissingInput)',
        'm:@struct bvalue::isSkippedCommand': '($o->kind == BV_SkippedCommand)', 'm:@struct bvalue::getOutputInfo': '(*$o)', 'm:@struct bvalue::isDirectory': '($o->is_dir != 0)',
        'm:@struct bvalue::getDirectoryContents': 'verif_listing',
        'fn:getBuildSystem': ('verif_bs', ''), 'm:*::getFileSystem': ('verif_fs', ''), 'fn:getContents': ('verif_get_contents', 'vp'),
        'm:@vec_cur::size': 'vec_cur_size', 'm:@vec_cur::begin': '($o->ptr)', 'm:@vec_cur::end': '($o->ptr + $o->len)', 'm:@vec_names::begin': '($o->ptr)', 'm:@vec_names::end': '($o->ptr + $o->len)',
        'o:==:@struct bvalue': 'bvalue_info_eq', 'o:!=:StringRef': '(SR_PTR($o) != SR_PTR($0))', 'o:==:StringRef': '(SR_PTR($o) == SR_PTR($0))', 'fn:operator!=': 'VERIF_NE', 'fn:operator==': 'VERIF_EQ',
        'm:@vec_names::size': 'vec_names_size', 'o:[]:@vec_names': '$o->ptr[$0]',
        'm:@vec_sub_sig::size': 'vec_sub_sig_size', 'o:[]:@vec_sub_sig': '$o->ptr[$0]', 'm:@vec_sub_struct::size': 'vec_sub_struct_size', 'o:[]:@vec_sub_struct': '$o->ptr[$0]',
        'm:@vec_sub_sig::emplace_back': ('vec_sub_sig_push_back', 'v'), 'm:@vec_sub_struct::emplace_back': ('vec_sub_struct_push_back', 'v'),
        'fn:append': ('pathbuf_append', 'pv'),
        'c:StringRef(const std::string &)': 'vstr_ref', 'c:StringRef(const string &)': 'vstr_ref', 'm:@pathbuf::operator StringRef': 'pathbuf_ref',
        'c:Twine(const StringRef &)': '$0', 'c:Twine(const std::string &)': 'vstr_ref', 'c:Twine(const string &)': 'vstr_ref',
        'm:StringRef::operator basic_string': 'vstr_of_ref_p', 'm:StringRef::operator std::string': 'vstr_of_ref_p', 'm:StringRef::str': 'vstr_of_ref_p',
        'o:=:@vbytes': '(*$o = $0)', 'o:=:hash_code': '(*$o = $0)', 'o:=:@uint64_t': '(*$o = $0)', 'm:hash_code::operator unsigned long': '(*$o)', 'm:@uint64_t::operator unsigned long': '(*$o)', 'o:=:@struct optvalue': 'optvalue_assign',
    },
    'call_patterns': [(r'o:!=:__normal_iterator<.*>', '(*$o != $0)'), (r'o:\*:__normal_iterator<.*>', '(**$o)'), (r'o:\+\+:__normal_iterator<.*>', '((*$o)++)'),
                      (r'c:(std::)?vector<(std::)?(string|basic_string<char>).*>/0', ('vec_cur_new', '')), (r'm:.*::getFileInfo', ('verif_cur_info', '')),
                      (r'c:SmallString<256>\(.*\)', ('pathbuf_make', 'v')), (r'c:(basic_string<char>|string|std::string)\(StringRef.*\)', ('vstr_of_ref', 'v')),
                      (r'c:(basic_string<char>|string|std::string)\(const StringRef.*\)', ('vstr_of_ref', 'v')),
                      (r'c:Optional<.*>\(NoneType\)', ('optvalue_none', '')), (r'c:Optional<.*>\((llvm::)?NoneType\)', ('optvalue_none', '')), (r'c:vector<.*>/0', 'vbytes_empty'), (r'c:.*ValueType/0', 'vbytes_empty')],
    'globals': {'None': '0'},
    'prelude': '#include "models/base.h"\n#include "models/dirtree.h"\n',
    'after_structs': '#include "models/dirtree_after.h"\n',
    'functions': {
        'DirectoryContentsTask::isResultValid': {
            'requires': ['__CPROVER_is_fresh(engine, 1)', '__CPROVER_is_fresh(g_names, 8 * sizeof(strref))', '__CPROVER_is_fresh(g_cur_names, 8 * sizeof(vstr))',
                         'value.n_names <= 8 && g_cur_n <= 8', 'g_k < 8'],
            'assigns': [],
            'ensures': [
                # a path that is missing now is up to date only if it was recorded as missing
                ('P:C12', 'g_cur_info.kind == BV_MissingInput ==> (RESULT != 0) == (value.kind == BV_MissingInput)'),
                ('P:C12', '(g_cur_info.kind != BV_MissingInput && value.kind != BV_DirectoryContents) ==> !RESULT'),
                # file <-> directory retyping invalidates; for a file the stat information decides
                ('P:C12', '(g_cur_info.kind != BV_MissingInput && value.kind == BV_DirectoryContents && (g_cur_info.is_dir != 0) != (value.is_dir != 0)) ==> !RESULT'),
                ('P:C12', '(g_cur_info.kind != BV_MissingInput && value.kind == BV_DirectoryContents && !g_cur_info.is_dir && !value.is_dir) ==> (RESULT != 0) == (g_cur_info.mode == value.mode)'),
                # for a directory the current listing and the recorded one must have the same length and the same names in order
                ('P:C12', '(g_cur_info.kind != BV_MissingInput && value.kind == BV_DirectoryContents && g_cur_info.is_dir && value.is_dir && g_cur_n != value.n_names) ==> !RESULT'),
                ('P:C12', '(RESULT && g_cur_info.kind != BV_MissingInput && g_cur_info.is_dir && g_k < g_cur_n) ==> g_cur_names[g_k].ptr == g_names[g_k].ptr'),
            ],
            'loops': {0: {'assigns': ['cur_it', 'prev_it'],
                          'invariant': ['__CPROVER_same_object(cur_it, cur.ptr) && __CPROVER_same_object(prev_it, prev.ptr) && __CPROVER_POINTER_OFFSET(cur_it) <= (long)(cur.len * sizeof(vstr)) && '
                                        '__CPROVER_POINTER_OFFSET(cur_it) / (long)sizeof(vstr) == __CPROVER_POINTER_OFFSET(prev_it) / (long)sizeof(strref) && '
                                        '__CPROVER_POINTER_OFFSET(cur_it) % (long)sizeof(vstr) == 0 && __CPROVER_POINTER_OFFSET(prev_it) % (long)sizeof(strref) == 0',
                                        '(g_k < (size_t)(__CPROVER_POINTER_OFFSET(cur_it) / (long)sizeof(vstr))) ==> g_cur_names[g_k].ptr == g_names[g_k].ptr'],
                          'decreases': '(long)(cur.len * sizeof(vstr)) - __CPROVER_POINTER_OFFSET(cur_it)'}},
        },
        'DirectoryTreeSignatureTask::start': start('K_DirectoryContents', 'K_FilteredDirectoryContents'),
        'DirectoryTreeSignatureTask::inputsAvailable': inputs_available('DirectoryTreeSignatureTask', 'directorySignatureValue', False, 'K_TreeSig'),
        'DirectoryTreeStructureSignatureTask::start': start('K_DirectoryContents', 'K_FilteredDirectoryContents'),
        'DirectoryTreeStructureSignatureTask::provideValue': provide('DirectoryTreeStructureSignatureTask', 'K_TreeStructSig', 'directoryStructureSignatureValue',
                                                                     '!(g_values[valueData.gid].kind == BV_MissingInput || g_values[valueData.gid].kind == BV_SkippedCommand)'),
        'DirectoryTreeStructureSignatureTask::inputsAvailable': inputs_available('DirectoryTreeStructureSignatureTask', 'directoryStructureSignatureValue', True, 'K_TreeStructSig'),
        'DirectoryTreeSignatureTask::provideValue': provide('DirectoryTreeSignatureTask', 'K_TreeSig', 'directorySignatureValue',
                                                            '(self->filters.size == 0) ? g_values[valueData.gid].kind == BV_DirectoryContents : g_values[valueData.gid].kind == BV_FilteredDirectoryContents'),
    },
}
