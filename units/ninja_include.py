"""U-ninja-include: ManifestLoaderImpl::enterFile / actOnIncludeDecl / exitCurrentFile / load (lib/Ninja/ManifestLoader.cpp) -- C19: an
`include` / `subninja` of a file that is still being loaded is reported, not entered again (the include stack holds pairwise distinct
files, so its depth is bounded by the number of files and loading ends); C17: `include` evaluates the file in the current scope,
`subninja` in a new scope whose parent is the current one."""


def _err(tr, n, obj, args, argnodes):
    tr.dropped.add('the message text passed to ManifestLoaderImpl::error')
    return '(g_errors++)'


def _eq(tr, n, obj, args, argnodes):
    return 'ref_same(%s, %s)' % (obj, tr.expr(argnodes[0]))


def _addr(e):
    e = e.strip()
    while e.startswith('((') and e.endswith('))'):
        e = e[1:-1]
    if e.startswith('(*') and e.endswith(')'):
        return e[2:-1]
    return '&(%s)' % e


def _push(tr, n, obj, args, argnodes):
    a = [tr.expr(x) for x in argnodes]
    a[2] = _addr(a[2])          # Scope &: the object itself
    if len(a) == 3:
        a.append('pstr_ref(pstr_from_ref((strref){0, 0}))')
    return 'incl_push(%s, %s)' % (obj if obj.startswith('&') else '&(%s)' % obj.lstrip('*') if obj.startswith('*') else obj, ', '.join(a))


def _evalstr(tr, n, obj, args, argnodes):
    """evalString(token, scope, result): the text of the path expression evaluated in `scope` (U-ninja-eval proves the evaluation)"""
    return 'eval_path(%s, %s, %s)' % (_addr(tr.expr(argnodes[0])), _addr(tr.expr(argnodes[1])), _addr(tr.expr(argnodes[2])))


def _has_path_field():
    """Does IncludeEntry record the path of its file?  (When it does not, there is nothing for the ghost shadow to be related to: the relation is
    left out and the obligations about files that are already being loaded stand on their own.)"""
    import os
    import re
    from tools import astdump
    try:
        src = open(os.path.join(astdump.REPO, 'lib/Ninja/ManifestLoader.cpp')).read()
    except OSError:
        return True
    m = re.search(r'struct IncludeEntry \{(.*?)\n  \};', src, re.S)
    return bool(m and re.search(r'\bpath;', m.group(1)))


HAS_PATH = _has_path_field()
DISTINCT = ('!(self->includeStack.len > 1 && g_stack_paths[0] == g_stack_paths[1]) && !(self->includeStack.len > 2 && (g_stack_paths[0] == g_stack_paths[2] || g_stack_paths[1] == g_stack_paths[2])) && '
            '!(self->includeStack.len > 3 && (g_stack_paths[0] == g_stack_paths[3] || g_stack_paths[1] == g_stack_paths[3] || g_stack_paths[2] == g_stack_paths[3]))')
SHADOW = ('(self->includeStack.len > 0 ==> self->includeStack.ptr[0].path.ptr == g_stack_paths[0]) && (self->includeStack.len > 1 ==> self->includeStack.ptr[1].path.ptr == g_stack_paths[1]) && '
          '(self->includeStack.len > 2 ==> self->includeStack.ptr[2].path.ptr == g_stack_paths[2]) && (self->includeStack.len > 3 ==> self->includeStack.ptr[3].path.ptr == g_stack_paths[3])')
if not HAS_PATH:
    SHADOW = '1'
STACK = ['__CPROVER_is_fresh(self, sizeof(*self))', 'VEC_OKN(self->includeStack, struct ManifestLoader_ManifestLoaderImpl_IncludeEntry, NINC)', 'g_depth == self->includeStack.len', SHADOW, DISTINCT]
GHOSTS = ['g_abs_of', 'g_reads', 'g_errors', 'g_parsers', 'g_last_read_path', 'g_depth', '__CPROVER_object_whole(g_stack_paths)']
UNIT = {
    'name': 'ninja_include',
    'source': 'lib/Ninja/ManifestLoader.cpp',
    'dumps': ['ManifestLoaderImpl', 'ManifestLoaderImpl::IncludeEntry'],
    'types': {'StringRef': 'strref', 'std::string': 'pstr', 'string': 'pstr', 'basic_string<char>': 'pstr', 'llvm::MemoryBuffer': 'struct membuf', 'MemoryBuffer': 'struct membuf'},
    'type_patterns': [(r'(llvm::)?SmallVector<(ManifestLoader::ManifestLoaderImpl::)?IncludeEntry, \d+>', 'vec_incl'), (r'(llvm::)?SmallString<\d+>', 'pstr'), (r'(llvm::)?SmallVectorImpl<char>', 'pstr'), (r'(llbuild::)?(ninja::)?ManifestLoaderActions', 'void'),
                      (r'(llbuild::)?(ninja::)?Parser', 'struct Parser'), (r'(llbuild::)?(ninja::)?Scope', 'struct Scope'), (r'(llbuild::)?(ninja::)?Manifest', 'struct Manifest')],
    'by_value': ['strref', 'pstr'],
    'predefined_structs': ['membuf', 'Parser', 'Scope', 'Manifest'],
    'need_fields': {'ManifestLoader::ManifestLoaderImpl::IncludeEntry': ['data', 'parser', 'scope'] + (['path'] if HAS_PATH else []), 'ManifestLoader::ManifestLoaderImpl': ['includeStack']},
    'class_alias': {'ManifestLoaderImpl': 'ManifestLoader::ManifestLoaderImpl'},
    'no_translate': ['error', 'getCurrentFilename', 'getCurrentScope', 'getCurrentParser', 'evalString', 'getRootScope'],
    'calls': {
        'o:==:StringRef': _eq, 'o:==:@strref': _eq,
        'fn:make_absolute': 'make_abs(&$1)', 'fn:llvm::sys::fs::make_absolute': 'make_abs(&$1)',
        'm:@vec_incl::empty': 'vec_incl_empty', 'm:@vec_incl::size': 'vec_incl_size', 'm:@vec_incl::emplace_back': _push, 'm:@vec_incl::pop_back': 'incl_pop', 'm:@vec_incl::back': 'vec_incl_back',
        'range:@vec_incl': ('vec_incl_size', 'vec_incl_at'),
        'm:ManifestLoaderActions::readFile': 'read_file', 'm:@struct membuf::getBuffer': 'membuf_text', 'm:MemoryBuffer::getBuffer': 'membuf_text', 'm:MemoryBuffer::getBufferIdentifier': 'membuf_ident',
        'fn:move': '$0', 'm:@pstr::str': 'pstr_ref_p', 'm:ManifestLoader::ManifestLoaderImpl::error': _err, 'm:*::error': _err,
        'm:ManifestLoader::ManifestLoaderImpl::getCurrentFilename': 'cur_filename', 'm:ManifestLoader::ManifestLoaderImpl::getCurrentScope': 'cur_scope', 'm:ManifestLoader::ManifestLoaderImpl::getCurrentParser': 'cur_parser',
        'm:ManifestLoader::ManifestLoaderImpl::evalString': _evalstr, 'm:Parser::parse': 'parser_parse', 'm:Manifest::getRootScope': 'manifest_root_scope',
    },
    'call_patterns': [(r'm:SmallString<\d+>::operator StringRef', 'pstr_ref_p'), (r'c:(llvm::)?Twine\(const (llvm::)?StringRef &\)', '$0'), (r'c:SmallString<\d+>\(.*StringRef.*\)', 'pstr_from_ref'), (r'c:SmallString<\d+>/0', 'pstr_empty'), (r'c:SmallString<\d+>\(\)', 'pstr_empty'), (r'c:StringRef\(const (std::)?(string|basic_string<char>) &\)', 'pstr_ref'),
                      (r'fn:(llvm::)?make_unique.*', 'parser_new'), (r'c:(ninja::)?Scope\(.*\)', 'scope_child')],
    'prelude': '#include "models/base.h"\n#include "models/vec.h"\n#include "models/ninja_include.h"\n',
    'after_structs': ('' if HAS_PATH else '#define VERIF_NO_ENTRY_PATH 1\n') + '#include "models/ninja_include_after.h"\n',
    'functions': {
        'ManifestLoaderImpl::enterFile': {
            'requires': STACK + ['self->includeStack.len < NINC', 'g_reads == 0 && g_errors == 0 && g_parsers == 0', '__CPROVER_is_fresh(scope, 1)', 'filename.ptr != 0 && g_abs_text != 0 && g_abs_text != filename.ptr',
                                 'forToken == 0 || __CPROVER_is_fresh(forToken, 1)'],
            'assigns': GHOSTS + ['self->includeStack.len', '__CPROVER_object_whole(self->includeStack.ptr)'],
            'ensures': [
                # a file that is still being loaded is not entered again; the include is reported
                ('P:C19', 'ON_STACK(OLD(self->includeStack.len), g_abs_text) ==> (RESULT == 0 && g_reads == 0 && self->includeStack.len == OLD(self->includeStack.len) && (forToken != 0 ==> g_errors == 1))'),
                # otherwise the file is read once; it is entered iff the client produced its contents
                ('P:C19', '!ON_STACK(OLD(self->includeStack.len), g_abs_text) ==> (g_reads == 1 && g_last_read_path == g_abs_text && g_abs_of == filename.ptr)'),
                ('P:C19', '!ON_STACK(OLD(self->includeStack.len), g_abs_text) ==> (RESULT == (g_read_ok != 0) && g_errors == 0)'),
                ('P:C19', '!ON_STACK(OLD(self->includeStack.len), g_abs_text) ==> (self->includeStack.len == OLD(self->includeStack.len) + (g_read_ok ? 1 : 0))'),
                # an entered file is on top of the stack with a parser of its own, evaluated in the scope given (C17)
                ('P:C19,P:C17', 'RESULT ==> (g_parsers == 1 && self->includeStack.ptr[self->includeStack.len - 1].parser == (struct Parser *)&g_parser_obj && self->includeStack.ptr[self->includeStack.len - 1].scope == scope && self->includeStack.ptr[self->includeStack.len - 1].data == &g_buffer && '
                                'g_stack_paths[self->includeStack.len - 1] == g_abs_text)'),
                # the files being loaded stay pairwise distinct, and the stack below the top is untouched
                ('P:C19', DISTINCT), ('P:C19', SHADOW), ('P:C19', 'g_depth == self->includeStack.len'),
            ],
            'loops': {0: {'assigns': ['$i'], 'invariant': ['$i <= $range->len && !ON_STACK($i, path.ptr)'], 'decreases': '$range->len - $i'}},
        },
        # include / subninja: the path expression is evaluated in the current scope; the file is parsed iff it was entered; `include` parses it
        # in the current scope, `subninja` in a new scope whose parent is the current one
        'ManifestLoaderImpl::actOnIncludeDecl': {
            'replace': ['ManifestLoaderImpl::enterFile'],
            'requires': STACK + ['self->includeStack.len >= 1 && self->includeStack.len < NINC', 'g_reads == 0 && g_errors == 0 && g_parsers == 0 && g_parses == 0 && g_evals == 0 && g_scopes_made == 0', '__CPROVER_is_fresh(pathTok, 1)',
                                 '__CPROVER_is_fresh(g_cur_scope_in, sizeof(struct Scope)) && self->includeStack.ptr[self->includeStack.len - 1].scope == g_cur_scope_in', 'g_eval_text != 0 && g_abs_text != 0 && g_abs_text != g_eval_text'],
            'assigns': GHOSTS + ['self->includeStack.len', '__CPROVER_object_whole(self->includeStack.ptr)', 'g_parses', 'g_evals', 'g_eval_scope', 'g_parse_scope', 'g_parse_scope_parent', 'g_scopes_made'],
            'ensures': [
                ('P:C17', 'g_evals == 1 && g_eval_scope == g_cur_scope_in'),
                # the file named is read unless it is being loaded already; it is parsed exactly when it was entered
                ('P:C19', 'ON_STACK(OLD(self->includeStack.len), g_abs_text) ==> (g_reads == 0 && g_parses == 0 && g_errors == 1)'),
                ('P:C19', '!ON_STACK(OLD(self->includeStack.len), g_abs_text) ==> (g_reads == 1 && g_last_read_path == g_abs_text && g_abs_of == g_eval_text && g_parses == (g_read_ok ? 1 : 0))'),
                ('P:C17', '(g_parses == 1 && isInclude) ==> (g_parse_scope == g_cur_scope_in && g_scopes_made == 0)'),
                ('P:C17', '(g_parses == 1 && !isInclude) ==> (g_parse_scope != g_cur_scope_in && g_scopes_made == 1 && g_parse_scope_parent == g_cur_scope_in)'),
                ('P:C19', DISTINCT),
            ],
        },
        'ManifestLoaderImpl::exitCurrentFile': {
            'requires': STACK + ['self->includeStack.len >= 1'],
            'assigns': ['self->includeStack.len', 'g_depth'],
            'ensures': [('P:C19', 'self->includeStack.len == OLD(self->includeStack.len) - 1 && g_depth == self->includeStack.len'), ('P:C19', DISTINCT), ('P:C19', SHADOW)],
        },
    },
}
