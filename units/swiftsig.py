"""U-swift-sig: SwiftCompilerShellCommand::getSignature (lib/BuildSystem/BuildSystem.cpp) -- C09: every signature-relevant part of a swift-compiler command definition is fed into
its signature, once, after the common ExternalCommand part: executable, module name, module aliases, module output path, sources, objects, import paths, temps path, other
arguments, is-library.  (hash_combine itself is an assumed, uninterpreted function.)"""
FIELDS = ['executable', 'moduleName', 'moduleAliases', 'moduleOutputPath', 'sourcesList', 'objectsList', 'importPaths', 'tempsPath', 'otherArgs']


def _combine(tr, n, obj, args, argnodes):
    e = tr.expr(argnodes[0]).strip()
    t = tr.ntype(argnodes[0])
    if t.base in ('_Bool', 'bool') and t.ptr == 0:
        return '(*sig_feed_bool(%s, %s))' % (obj, e)
    while e.startswith('((') and e.endswith('))'):
        e = e[1:-1]
    if e.startswith('(*') and e.endswith(')'):
        e = e[2:-1]
    elif not e.startswith('&'):
        e = '&(%s)' % e
    return '(*sig_feed_ptr(%s, (const void *)%s))' % (obj, e)


UNIT = {
    'name': 'swiftsig',
    'source': 'lib/BuildSystem/BuildSystem.cpp',
    'dumps': ['SwiftCompilerShellCommand'],
    'types': {'StringRef': 'strref', 'std::string': 'vstr', 'string': 'vstr', 'basic_string<char>': 'vstr', 'CommandSignature': 'struct CommandSignature', 'basic::CommandSignature': 'struct CommandSignature'},
    'type_patterns': [(r'(std::)?vector<(std::)?(string|basic_string<char>).*>', 'struct strvec'), (r'(std::)?vector<(std::)?pair<.*>.*>', 'struct strvec'), (r'(llvm::)?SmallVector<.*>', 'struct strvec')],
    'by_value': ['strref', 'struct CommandSignature'], 'by_pointer': ['vstr', 'struct strvec'],
    'predefined_structs': ['CommandSignature', 'strvec'],
    'need_fields': {'SwiftCompilerShellCommand': FIELDS + ['isLibrary']},
    'no_translate': ['combine', 'getSignature', 'ExternalCommand::getSignature'],
    'calls': {'m:ExternalCommand::getSignature': 'ext_sig_base'},
    'call_patterns': [(r'm:.*CommandSignature.*::combine', _combine), (r'c:CommandSignature\(const (basic::)?CommandSignature &+\)', '$0'), (r'c:(basic::)?CommandSignature\((basic::)?CommandSignature &&\)', '$0')],
    'prelude': ('#include "models/base.h"\nstruct strvec { char _e; }; struct CommandSignature { uint64_t value; };\n'
                '#define NF 12\nconst void *g_item[NF]; _Bool g_item_is_bool[NF]; _Bool g_item_bool[NF]; unsigned g_items; unsigned g_base_calls;\n'
                '/* CommandSignature::combine(x): one more item in the hash chain (the chain value is an uninterpreted function of the items fed so far) */\n'
                'static inline struct CommandSignature *sig_feed_ptr(struct CommandSignature *s, const void *p) { __CPROVER_assert(g_items < NF, "item log capacity"); g_item[g_items] = p; g_item_is_bool[g_items] = 0; g_items++; s->value = s->value * 31 + 1; return s; }\n'
                'static inline struct CommandSignature *sig_feed_bool(struct CommandSignature *s, _Bool b) { __CPROVER_assert(g_items < NF, "item log capacity"); g_item[g_items] = 0; g_item_is_bool[g_items] = 1; g_item_bool[g_items] = b; g_items++; s->value = s->value * 31 + 2; return s; }\n'),
    'after_structs': 'static inline struct CommandSignature ext_sig_base(void *self) { g_base_calls++; struct CommandSignature s; s.value = 7; return s; }\n',
    'functions': {
        'SwiftCompilerShellCommand::getSignature': {
            'requires': ['__CPROVER_is_fresh(self, sizeof(*self))', 'g_items == 0 && g_base_calls == 0', 'self->isLibrary <= 1'],
            'assigns': ['g_items', 'g_base_calls', '__CPROVER_object_whole(g_item)', '__CPROVER_object_whole(g_item_is_bool)', '__CPROVER_object_whole(g_item_bool)'],
            'ensures': [('P:C09', 'g_base_calls == 1 && g_items == %d' % (len(FIELDS) + 1)),
                        ('P:C09', ' && '.join('g_item[%d] == (const void *)&self->%s' % (k, f) for k, f in enumerate(FIELDS))),
                        ('P:C09', 'g_item_is_bool[%d] && g_item_bool[%d] == (self->isLibrary != 0)' % (len(FIELDS), len(FIELDS)))]},
    },
}
