"""U-ext-result: ExternalCommand::computeCommandResult / canUpdateIfNewerWithResult (lib/BuildSystem/ExternalCommand.cpp) -- C08, C09, C10:
what a successful command records about its outputs (one info per output, in output order: the epoch for a command-timestamp node, the
all-zero record for a virtual node, the node's current file info otherwise), and when a command may be brought up to date without running."""
def _mk(tr, n, obj, args, argnodes):
    """BuildValue::makeX(...): a value of kind X; makeExistingInput(info) also carries the info"""
    callee = tr.peel(n['inner'][0])
    nm = (callee.get('referencedDecl') or {}).get('name') or callee.get('name', '')
    if not nm.startswith('make'):
        raise Exception('not a BuildValue factory: %s' % nm)
    if nm == 'makeSuccessfulCommand':
        return 'bv_success(%s)' % ', '.join(tr.expr(a) for a in argnodes)
    if nm == 'makeExistingInput':
        return 'bv_existing(%s)' % ', '.join(tr.expr(a) for a in argnodes)
    return 'bv_make(BuildValue_Kind_%s)' % nm[4:]


OUT = 'self->__base.outputs.ptr[%s]'
KTH = ('(%(o)s->commandTimestamp ? (g_made[g_k].size == g_epoch && g_made[g_k].id == 0) : %(o)s->type == BuildNode_NodeType_Virtual ? (g_made[g_k].missing && g_made[g_k].id == 0 && g_made[g_k].size == 0) : '
       '(g_made[g_k].id == g_current[g_k].id && g_made[g_k].size == g_current[g_k].size && (g_made[g_k].missing != 0) == (g_current[g_k].missing != 0)))') % {'o': OUT % 'g_k'}
KTH_I = KTH.replace('g_made[', 'outputInfos.buf[')
NODES = ['__CPROVER_is_fresh(self->__base.outputs.ptr, NO * sizeof(struct BuildNode *)) && self->__base.outputs.len <= NO && self->__base.outputs.cap == NO',
         ' && '.join('__CPROVER_is_fresh(self->__base.outputs.ptr[%d], sizeof(struct BuildNode))' % i for i in range(4)),
         ' && '.join('self->__base.outputs.ptr[%d]->g_idx == %d' % (i, i) for i in range(4))]
UNIT = {
    'name': 'extcmd_result',
    'source': 'lib/BuildSystem/ExternalCommand.cpp',
    'dumps': ['buildsystem::ExternalCommand', 'buildsystem::Command', 'BuildValue::Kind', 'buildsystem::BuildValue', 'BuildNode::NodeType', 'buildsystem::BuildNode'],
    'types': {'StringRef': 'strref', 'basic::FileInfo': 'struct FileInfo', 'FileInfo': 'struct FileInfo', 'BuildValue::FileInfo': 'struct FileInfo', 'buildsystem::BuildValue::FileInfo': 'struct FileInfo', 'TaskInterface': 'struct TaskInterface', 'core::TaskInterface': 'struct TaskInterface'},
    'type_patterns': [(r'(std::)?vector<(BuildNode|buildsystem::BuildNode) \*.*>', 'vec_node'), (r'(llvm::)?SmallVector<(basic::)?FileInfo, \d+>', 'vec_finfo'), (r'__normal_iterator<(buildsystem::)?BuildNode \*\*.*', 'struct BuildNode **'), (r'(std::)?vector<(buildsystem::)?BuildNode \*.*>::(const_)?iterator', 'struct BuildNode **'), (r'(llvm::)?SmallVectorTemplateCommon<(basic::)?FileInfo.*>', 'vec_finfo'), (r'(llvm::)?SmallVectorImpl<(basic::)?FileInfo>', 'vec_finfo'), (r'(llvm::)?ArrayRef<(basic::)?FileInfo>', 'vec_finfo')],
    'by_value': ['strref', 'struct FileInfo', 'struct TaskInterface', 'struct BuildValue'],
    'predefined_structs': ['FileInfo', 'TaskInterface'],
    'vec_types': {'vec_node': 'struct BuildNode *'},
    'value_init': {'struct FileInfo': 'finfo_zero()'},
    'struct_extra': {'BuildNode': '  size_t g_idx;\n', 'FileSystem': '', 'BuildValue': '  unsigned g_n;\n'},
    'need_fields': {'BuildValue': ['kind'], 'BuildNode': ['type', 'commandTimestamp']},
    'no_translate': ['find', 'getFileInfo', 'getNthOutputInfo', 'getNumOutputs', 'getFileSystem', 'BuildNode::getFileInfo', 'currentEpoch', 'makeSuccessfulCommand'],
    'calls': {
        'm:@vec_node::size': 'vec_node_size', 'o:[]:@vec_node': '$o->ptr[$0]', 'range:@vec_node': ('vec_node_size', 'vec_node_at'),
        'm:BuildValue::getNthOutputInfo': 'verif_stored_info', 'm:BuildValue::getNumOutputs': 'verif_num_outputs', 'm:BuildNode::getFileInfo': 'verif_current_info',
        'm:@struct FileInfo::isMissing': '($o->missing != 0)', 'm:BuildSystem::getFileSystem': 'verif_fs',
        'm:TaskInterface::currentEpoch': 'ti_epoch', 'm:@struct TaskInterface::currentEpoch': 'ti_epoch',
        'm:@vec_finfo::push_back': ('vec_finfo_push', 'v'), 'm:@vec_node::begin': '($o->ptr)', 'm:@vec_node::end': '($o->ptr + $o->len)', 'fn:find': 'verif_find_node',
    },
    'call_patterns': [(r'fn:make[A-Z].*', _mk), (r'm:BuildValue::make[A-Z].*', _mk), (r'fn:operator-', '($0 - $1)'), (r'o:-:__normal_iterator<.*>', '(*$o - $0)'), (r'c:__normal_iterator<.*', '$0'), (r'o:!=:__normal_iterator<.*>', '(*$o != $0)'), (r'fn:operator!=', '($0 != $1)'),
                      (r'c:SmallVector<.*FileInfo, \d+>/0', 'vec_finfo_new'), (r'c:SmallVector<.*FileInfo, \d+>\(\)', 'vec_finfo_new'), (r'c:(basic::)?FileInfo/0', 'finfo_zero'), (r'c:(basic::)?FileInfo\(\)', 'finfo_zero'),
                      (r'c:(llvm::)?ArrayRef<(basic::)?FileInfo>\(.*SmallVector.*\)', '$0'), (r'c:(llvm::)?ArrayRef<(basic::)?FileInfo>.*', '$0'), (r'c:(buildsystem::)?BuildValue\((buildsystem::)?BuildValue &&\)', '$0'), (r'c:(basic::)?FileInfo\((const )?(basic::)?FileInfo &+\)', '$0')],
    'prelude': '#include "models/base.h"\n#include "models/vec.h"\n#include "models/extresult.h"\n',
    'after_structs': '#include "models/extresult_after.h"\n',
    'functions': {
        'ExternalCommand::computeCommandResult': {
            'requires': ['__CPROVER_is_fresh(self, sizeof(*self))', '__CPROVER_is_fresh(system, 1)'] + NODES + ['g_makes == 0'],
            'assigns': ['g_makes', 'g_made_n', '__CPROVER_object_whole(g_made)'],
            'ensures': [
                ('P:C08,P:C10', 'g_makes == 1 && RESULT.kind == BuildValue_Kind_SuccessfulCommand'),
                # one info per output, in output order (isResultValid compares output k with info k); a command without outputs records the epoch
                ('P:C08,P:C09', 'g_made_n == (self->__base.outputs.len == 0 ? 1 : self->__base.outputs.len)'),
                ('P:C08,P:C09', '(g_k < self->__base.outputs.len) ==> %s' % KTH),
                ('P:C08,P:C09', '(self->__base.outputs.len == 0) ==> (g_made[0].size == g_epoch && g_made[0].id == 0)'),
            ],
            'loops': {0: {'assigns': ['$i', 'outputInfos'], 'invariant': ['$i <= $range->len && outputInfos.len == $i', '(g_k < $i) ==> %s' % KTH_I], 'decreases': '$range->len - $i'}},
        },
        'ExternalCommand::getResultForOutput': {
            'requires': ['__CPROVER_is_fresh(self, sizeof(*self))'] + NODES + ['value.g_n <= NO && value.g_n >= self->__base.outputs.len', 'g_k < self->__base.outputs.len', '__CPROVER_pointer_in_range_dfcc((char *)self->__base.outputs.ptr[g_k], (char *)node, (char *)self->__base.outputs.ptr[g_k])',
                         'value.kind >= 0 && value.kind <= 20'],
            'assigns': ['g_existing_info'],
            'ensures': [
                # a failed, cancelled or propagated-failure command never yields a usable value for its outputs; a skipped one yields "skipped"
                ('P:C10', '(value.kind == BuildValue_Kind_FailedCommand || value.kind == BuildValue_Kind_PropagatedFailureCommand || value.kind == BuildValue_Kind_CancelledCommand) ==> RESULT.kind == BuildValue_Kind_FailedInput'),
                ('P:C10', '(!(value.kind == BuildValue_Kind_FailedCommand || value.kind == BuildValue_Kind_PropagatedFailureCommand || value.kind == BuildValue_Kind_CancelledCommand) && value.kind == BuildValue_Kind_SkippedCommand) ==> RESULT.kind == BuildValue_Kind_SkippedCommand'),
                # a successful command: the value of output k is the k-th recorded info (existing input with exactly that info, or missing output); a virtual output is a virtual input
                ('P:C08', '(value.kind == BuildValue_Kind_SuccessfulCommand && self->__base.outputs.ptr[g_k]->type == BuildNode_NodeType_Virtual && !self->__base.outputs.ptr[g_k]->commandTimestamp) ==> RESULT.kind == BuildValue_Kind_VirtualInput'),
                ('P:C08,P:C09', '(value.kind == BuildValue_Kind_SuccessfulCommand && !(self->__base.outputs.ptr[g_k]->type == BuildNode_NodeType_Virtual && !self->__base.outputs.ptr[g_k]->commandTimestamp)) ==> '
                                '(g_stored[g_k].missing ? RESULT.kind == BuildValue_Kind_MissingOutput : (RESULT.kind == BuildValue_Kind_ExistingInput && g_existing_info.id == g_stored[g_k].id && g_existing_info.size == g_stored[g_k].size))'),
            ],
        },
        'ExternalCommand::canUpdateIfNewerWithResult': {
            'requires': ['__CPROVER_is_fresh(self, sizeof(*self))', 'result.g_n <= NO', 'g_k < result.g_n'],
            'assigns': [],
            'ensures': [
                # brought up to date without running only when modified outputs are allowed and EVERY recorded output exists
                ('P:C08,P:C10', 'RESULT ==> (self->allowModifiedOutputs && !g_stored[g_k].missing)'),
                ('P:C09', '!self->allowModifiedOutputs ==> !RESULT'),
            ],
            'loops': {0: {'assigns': ['i'], 'invariant': ['i <= e && e == result.g_n', '(g_k < (size_t)i) ==> !g_stored[g_k].missing'], 'decreases': 'e - i'}},
        },
    },
}
