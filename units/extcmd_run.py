"""U-ext-run: ExternalCommand::start / provideValue / canUpdateIfNewerWithResult and the decision steps of execute
(lib/BuildSystem/ExternalCommand.cpp) -- C10 (a failed input never feeds the command, a failed command is retried), C08, C09."""
BV = 'BuildValue_Kind_'


def _opt_assign(tr, n, obj, args, argnodes):
    """skipValue = llvm::None / skipValue = std::move(optional)"""
    t = tr.ntype(argnodes[0])
    if 'NoneType' in (t.cxx or '') or 'NoneType' in t.base or t.base == 'int':
        return '((%s)->has = 0)' % obj
    return '(*%s = %s)' % (obj, tr.expr(argnodes[0]))


def _mk(tr, n, obj, args, argnodes):
    """BuildValue::makeX(): a value of kind X (payload not modelled here)"""
    callee = tr.peel(n['inner'][0])
    nm = (callee.get('referencedDecl') or {}).get('name') or callee.get('name', '')
    if not nm.startswith('make'):
        raise Exception('not a BuildValue factory: %s' % nm)
    return 'bv_make(BuildValue_Kind_%s)' % nm[4:]


def _missing(tr, n, obj, args, argnodes):
    tr.dropped.add('arguments of commandCannotBuildOutputDueToMissingInputs (first output, key list): only that the report is made')
    return 'ext_missing_inputs(%s)' % obj


UNIT = {
    'name': 'extcmd_run',
    'source': 'lib/BuildSystem/ExternalCommand.cpp',
    'dumps': ['buildsystem::ExternalCommand', 'buildsystem::Command', 'BuildValue::Kind', 'buildsystem::BuildValue', 'basic::ProcessStatus', 'basic::ProcessResult'],
    'types': {'StringRef': 'strref', 'TaskInterface': 'struct TaskInterface', 'core::TaskInterface': 'struct TaskInterface', 'BuildKey': 'struct bkey', 'KeyType': 'struct keydata', 'core::KeyType': 'struct keydata',
              'llvm::NoneType': 'int', 'NoneType': 'int', 'ResultFn': 'struct resultfn', 'Command::ResultFn': 'struct resultfn'},
    'type_patterns': [(r'(std::)?vector<(BuildNode|buildsystem::BuildNode) \*.*>', 'vec_node'), (r'(llvm::)?Optional<(buildsystem::)?BuildValue>', 'struct optvalue'),
                      (r'(llvm::)?SmallVector<(buildsystem::)?BuildKey, \d+>', 'vec_bkey'), (r'__normal_iterator<(buildsystem::)?BuildNode \*\*.*', 'struct BuildNode **'),
                      (r'(std::)?vector<(buildsystem::)?BuildNode \*.*>::(const_)?iterator', 'struct BuildNode **'), (r'(std::)?function<void \(.*BuildValue.*\)>', 'struct resultfn')],
    'by_value': ['struct BuildValue', 'struct optvalue', 'strref', 'struct TaskInterface', 'struct bkey', 'struct keydata', 'struct resultfn'],
    'predefined_structs': ['TaskInterface', 'bkey', 'keydata', 'resultfn'],
    'vec_types': {'vec_node': 'struct BuildNode *'},
    'synthetic_structs': {'optvalue': [('has', '_Bool'), ('v', 'struct BuildValue')]},
    'need_fields': {'ExternalCommand': ['skipValue', 'missingInputKeys', 'canUpdateIfNewer', 'hasPriorResult', 'allowMissingInputs', 'allowModifiedOutputs'], 'BuildValue': ['kind']},
    'globals': {'None': '0'},
    'no_translate': ['computeCommandResult', 'canUpdateIfNewerWithResult', 'getDelegate', 'hadCommandFailure', 'commandCannotBuildOutputDueToMissingInputs', 'startExternalCommand', 'provideValueExternalCommand', 'request', 'makeNode', 'toData', 'fromData'],
    'calls': {
        'o:=:@struct optvalue': _opt_assign, 'm:@vec_bkey::clear': 'vec_bkey_clear', 'm:@vec_bkey::push_back': ('vec_bkey_push_back', 'v'), 'm:@vec_bkey::empty': 'vec_bkey_empty',
        'm:@vec_node::begin': '($o->ptr)', 'm:@vec_node::end': '($o->ptr + $o->len)', 'm:@vec_node::size': 'vec_node_size', 'o:[]:@vec_node': '$o->ptr[$0]',
        'm:BuildKey::makeNode': 'bkey_node', 'fn:makeNode': 'bkey_node', 'm:@struct bkey::toData': 'bkey_data', 'm:BuildKey::fromData': 'bkey_from_data', 'fn:fromData': 'bkey_from_data',
        'm:TaskInterface::request': 'ti_request', 'm:@struct TaskInterface::request': 'ti_request',
        'm:BuildSystem::getDelegate': 'ext_delegate', 'm:BuildSystemDelegate::hadCommandFailure': 'ext_had_failure', 'm:BuildSystemDelegate::commandCannotBuildOutputDueToMissingInputs': _missing,
        'o:():@struct resultfn': 'ext_result($o, $0)', 'm:@vec_node::empty': 'vec_node_empty',
        'm:@struct optvalue::hasValue': '($o->has)', 'm:@struct optvalue::getValue': '$o->v', 'fn:move': '$0',
    },
    'call_patterns': [(r'o:!=:__normal_iterator<.*>', '(*$o != $0)'), (r'o:==:__normal_iterator<.*>', '(*$o == $0)'), (r'o:\*:__normal_iterator<.*>', '(**$o)'), (r'o:\+\+:__normal_iterator<.*>', '(++(*$o))'),
                      (r'fn:operator!=', '($0 != $1)'), (r'fn:operator==', '($0 == $1)'), (r'c:__normal_iterator<.*', '$0'), (r'c:Optional<.*>\(NoneType\)', 'optvalue_none'), (r'c:Optional<.*>\((buildsystem::)?BuildValue &&\)', 'optvalue_some'), (r'fn:make[A-Z]\w*', _mk), (r'm:BuildValue::make[A-Z]\w*', _mk),
                      (r'c:(buildsystem::)?BuildValue\((buildsystem::)?BuildValue &&\)', '$0'), (r'c:Optional<.*>\((const )?(llvm::)?Optional<.*> &+\)', '$0')],
    'prelude': '#include "models/base.h"\n#include "models/vec.h"\n#include "models/extrun.h"\n',
    'after_structs': 'static inline struct optvalue optvalue_none(int none) { struct optvalue o; o.has = 0; return o; }\nstatic inline struct BuildValue bv_make(int kind) { struct BuildValue v; v.kind = kind; return v; }\nstatic inline struct optvalue optvalue_some(struct BuildValue v) { struct optvalue o; o.has = 1; o.v = v; return o; }\nstatic inline void ext_result(struct resultfn *f, struct BuildValue v) { g_results++; g_result_kind = v.kind; }\n',
    'stubs': {
        'ExternalCommand_computeCommandResult': {'ret': 'struct BuildValue', 'params': 'struct ExternalCommand *self, struct BuildSystem *system, struct TaskInterface ti', 'requires': [], 'assigns': ['g_computes'],
                                                 'ensures': ['g_computes == OLD(g_computes) + 1 && RESULT.kind == BuildValue_Kind_SuccessfulCommand']},
        'ExternalCommand_canUpdateIfNewerWithResult': {'ret': '_Bool', 'params': 'struct ExternalCommand *self, struct BuildValue result', 'requires': [], 'assigns': ['g_can_update_calls'],
                                                       'ensures': ['(RESULT != 0) == (g_can_update_answer != 0)']},
        'ExternalCommand_provideValueExternalCommand': {'params': 'struct ExternalCommand *self, struct BuildSystem *system, struct TaskInterface ti, uintptr_t inputID, struct BuildValue value', 'requires': [], 'assigns': ['g_provide_ext'], 'ensures': ['g_provide_ext == OLD(g_provide_ext) + 1']},
        'ExternalCommand_startExternalCommand': {'params': 'struct ExternalCommand *self, struct BuildSystem *system, struct TaskInterface ti', 'requires': [], 'assigns': ['g_start_ext'], 'ensures': ['g_start_ext == OLD(g_start_ext) + 1']},
    },
    'functions': {
        'ExternalCommand::provideValue': {
            'requires': ['__CPROVER_is_fresh(self, sizeof(*self))', 'VEC_OKN(self->__base.inputs, struct BuildNode *, 6)',
                         'VEC_OKN(self->missingInputKeys, struct bkey, 4) && self->missingInputKeys.len < 4', 'value.kind >= 0 && value.kind <= 20', 'g_provide_ext == 0',
                         # the kinds a direct input can have (asserted in the source; asserts are compiled out)
                         '(value.kind == BuildValue_Kind_SuccessfulCommand || value.kind == BuildValue_Kind_SuccessfulCommandWithOutputSignature || value.kind == BuildValue_Kind_FailedCommand || value.kind == BuildValue_Kind_PropagatedFailureCommand || value.kind == BuildValue_Kind_CancelledCommand) || value.kind == BuildValue_Kind_ExistingInput || value.kind == BuildValue_Kind_MissingInput || value.kind == BuildValue_Kind_MissingOutput || value.kind == BuildValue_Kind_FailedInput || value.kind == BuildValue_Kind_VirtualInput || '
                         'value.kind == BuildValue_Kind_SkippedCommand || value.kind == BuildValue_Kind_DirectoryTreeSignature || value.kind == BuildValue_Kind_DirectoryTreeStructureSignature || value.kind == BuildValue_Kind_StaleFileRemoval'],
            'assigns': ['self->skipValue', 'self->missingInputKeys.len', '__CPROVER_object_whole(self->missingInputKeys.ptr)', 'self->canUpdateIfNewer', 'g_provide_ext'],
            'ensures': [
                ('P:C10', 'g_provide_ext == 1'),
                # a failed input, or a missing input that is not allowed, makes the command skip with a propagated failure: it never runs on it
                ('P:C10', '(value.kind == BuildValue_Kind_FailedInput || (value.kind == BuildValue_Kind_MissingInput && !self->allowMissingInputs)) ==> (self->skipValue.has && self->skipValue.v.kind == BuildValue_Kind_PropagatedFailureCommand)'),
                # a missing input is remembered for the diagnostic: the declared input of that position, or the key itself for a custom request
                ('P:C10', '(value.kind == BuildValue_Kind_MissingInput && !self->allowMissingInputs) ==> (self->missingInputKeys.len == OLD(self->missingInputKeys.len) + 1 && '
                          'self->missingInputKeys.ptr[OLD(self->missingInputKeys.len)].node == ((inputID < self->__base.inputs.len) ? (const void *)self->__base.inputs.ptr[inputID] : key.node))'),
                # every other input leaves an earlier skip decision alone (in particular a later good input never clears it)
                ('P:C10', '!(value.kind == BuildValue_Kind_FailedInput || (value.kind == BuildValue_Kind_MissingInput && !self->allowMissingInputs)) ==> (self->skipValue.has == OLD(self->skipValue.has) && self->missingInputKeys.len == OLD(self->missingInputKeys.len))'),
                # an input that is a missing output of a successful command forces a real run (no update-if-newer shortcut)
                ('P:C08,P:C10', '(value.kind == BuildValue_Kind_MissingOutput) ==> !self->canUpdateIfNewer'),
                ('P:C08', '(value.kind != BuildValue_Kind_MissingOutput) ==> self->canUpdateIfNewer == OLD(self->canUpdateIfNewer)'),
            ],
        },

        # execute(), first decision: a command that was told to skip reports that value and never runs
        'ExternalCommand::execute#skip': {
            'of': 'ExternalCommand::execute', 'cname': 'ExternalCommand_execute_skip_step',
            'segment': {'kind': 'IfStmt', 'mentions': ['skipValue', 'missingInputKeys', 'hadCommandFailure', 'resultFn'], 'excludes': ['canUpdateIfNewer'], 'exits': True},
            'requires': ['__CPROVER_is_fresh(self, sizeof(*self))', '__CPROVER_is_fresh(system, 1)', '__CPROVER_is_fresh(__seg_exit, sizeof(int))', '__CPROVER_is_fresh(resultFn, 1)',
                         'VEC_OKN(self->missingInputKeys, struct bkey, 4)', 'g_results == 0 && g_failures == 0 && g_missing_reports == 0'],
            'assigns': ['*__seg_exit', 'g_results', 'g_result_kind', 'g_failures', 'g_missing_reports', 'self->skipValue'],
            'ensures': [
                ('P:C10', 'self->skipValue.has ? (*__seg_exit == 1 && g_results == 1 && g_result_kind == OLD(self->skipValue.v.kind)) : (*__seg_exit == 0 && g_results == 0)'),
                # missing inputs are reported as a command failure (the build must not report success)
                ('P:C10', '(OLD(self->skipValue.has) && self->missingInputKeys.len != 0) ==> (g_failures == 1 && g_missing_reports == 1)'),
                ('P:C10', '(!OLD(self->skipValue.has) || self->missingInputKeys.len == 0) ==> (g_failures == 0 && g_missing_reports == 0)'),
            ]},
        # second decision: the result is taken from the file system without running the command only if that is legal in THIS build
        'ExternalCommand::execute#update': {
            'of': 'ExternalCommand::execute', 'cname': 'ExternalCommand_execute_update_step',
            'segment': {'kind': 'IfStmt', 'mentions': ['canUpdateIfNewer', 'hasPriorResult', 'computeCommandResult', 'canUpdateIfNewerWithResult'], 'exits': True},
            'requires': ['__CPROVER_is_fresh(self, sizeof(*self))', '__CPROVER_is_fresh(system, 1)', '__CPROVER_is_fresh(__seg_exit, sizeof(int))', '__CPROVER_is_fresh(resultFn, 1)', '__CPROVER_is_fresh(ti, sizeof(*ti))', 'g_results == 0 && g_computes == 0'],
            'assigns': ['*__seg_exit', 'g_results', 'g_result_kind', 'g_computes', 'g_can_update_calls'],
            'ensures': [
                # no run is skipped unless a successful prior result was provided in this build, no input forced a run, and the outputs allow it
                ('P:C10,P:C08', '(*__seg_exit == 1) ==> (self->hasPriorResult && self->canUpdateIfNewer && g_can_update_answer && g_results == 1 && g_result_kind == BuildValue_Kind_SuccessfulCommand && g_computes == 1)'),
                ('P:C10,P:C08', '(*__seg_exit == 0) ==> g_results == 0'),
                ('P:C08', '(self->hasPriorResult && self->canUpdateIfNewer && g_can_update_answer) ==> *__seg_exit == 1'),
            ]},
        # the callback of executeExternalCommand: how a process status becomes the command's value
        'ExternalCommand::execute#result': {
            'of': 'ExternalCommand::execute', 'cname': 'ExternalCommand_execute_result_step',
            'segment': {'kind': 'SwitchStmt', 'mentions': ['makeFailedCommand', 'makeCancelledCommand', 'computeCommandResult'], 'exits': True},
            'requires': ['__CPROVER_is_fresh(self, sizeof(*self))', '__CPROVER_is_fresh(system, 1)', '__CPROVER_is_fresh(__seg_exit, sizeof(int))', '__CPROVER_is_fresh(resultFn, 1)', '__CPROVER_is_fresh(result, sizeof(*result))', '__CPROVER_is_fresh(ti, sizeof(*ti))',
                         'g_results == 0 && g_computes == 0'],
            'assigns': ['*__seg_exit', 'g_results', 'g_result_kind', 'g_computes'],
            'ensures': [
                # a failed process gives a failed command, a cancelled one a cancelled command (both invalid stored results: retried); only a succeeded
                # process gives the successful value computed from the outputs
                ('P:C10', '(result->status == ProcessStatus_Failed) ==> (g_results == 1 && g_result_kind == BuildValue_Kind_FailedCommand && g_computes == 0)'),
                ('P:C10', '(result->status == ProcessStatus_Cancelled) ==> (g_results == 1 && g_result_kind == BuildValue_Kind_CancelledCommand && g_computes == 0)'),
                ('P:C10,P:C08', '(result->status == ProcessStatus_Succeeded) ==> (g_results == 1 && g_result_kind == BuildValue_Kind_SuccessfulCommand && g_computes == 1)'),
                ('P:C10', '(result->status != ProcessStatus_Failed && result->status != ProcessStatus_Cancelled && result->status != ProcessStatus_Succeeded) ==> g_results == 0'),
            ]},
        'ExternalCommand::start': {
            'requires': ['__CPROVER_is_fresh(self, sizeof(*self))', 'VEC_OKN(self->__base.inputs, struct BuildNode *, 6)', 'VEC_OKN(self->missingInputKeys, struct bkey, 4)', 'g_requests == 0 && g_start_ext == 0 && g_k < 6'],
            'assigns': ['self->skipValue', 'self->missingInputKeys.len', 'self->hasPriorResult', 'self->canUpdateIfNewer', 'g_requests', 'g_req_id_k', 'g_req_node_k', 'g_start_ext'],
            'ensures': [
                # the per-build state of the command is re-initialised: nothing decided in an earlier build on the same instance carries over
                ('P:C10', '!self->skipValue.has && self->missingInputKeys.len == 0'),
                ('P:C10,P:C08', '!self->hasPriorResult && self->canUpdateIfNewer'),
                # every declared input is requested once, in order, under the id of its position
                ('P:C08,P:C01', 'g_requests == self->__base.inputs.len && g_start_ext == 1'),
                ('P:C08,P:C01', '(g_k < self->__base.inputs.len) ==> (g_req_id_k == g_k && g_req_node_k == (const void *)self->__base.inputs.ptr[g_k])'),
            ],
            'loops': {0: {'assigns': ['it', 'id', 'g_requests', 'g_req_id_k', 'g_req_node_k'],
                          'invariant': ['it == self->__base.inputs.ptr + id && id <= self->__base.inputs.len && ie == self->__base.inputs.ptr + self->__base.inputs.len && g_requests == id',
                                        '(g_k < id) ==> (g_req_id_k == g_k && g_req_node_k == (const void *)self->__base.inputs.ptr[g_k])'],
                          'decreases': 'self->__base.inputs.len - id'}},
        },
    },
}
