"""U-ninja-lex: lib/Ninja/Lexer.cpp (C19 safety, termination, tiling, EOF; C17 keywords and byte identity)."""
OFF = '__CPROVER_POINTER_OFFSET'
POS = 'self->bufferPos'

# NOTE: pointer-valued fields of a fresh struct are constrained with __CPROVER_pointer_in_range_dfcc, which is
# constructive under assumption (cbmc otherwise dereferences a heap-loaded pointer with an unknown value set to a
# fresh nondet value at every read, which makes content clauses unprovable -- measured, see DESIGN.md section 2)
LEX = [
    '__CPROVER_is_fresh(self, sizeof(*self))',
    'g_len < ((size_t)1 << 31)',               # Token::length is an unsigned int
    '__CPROVER_is_fresh(g_buf, g_len)',
    '__CPROVER_pointer_in_range_dfcc(g_buf, self->buffer.ptr, g_buf) && self->buffer.len == g_len',
    '__CPROVER_pointer_in_range_dfcc(g_buf, self->bufferPos, g_buf + g_len)',
]
MONO = '__CPROVER_same_object(%s, g_buf) && %s(OLD(%s)) <= %s(%s) && (size_t)%s(%s) <= g_len' % (POS, OFF, POS, OFF, POS, OFF, POS)
CUR = ['self->bufferPos', 'self->lineNumber', 'self->columnNumber']
LOOPINV = '__CPROVER_same_object(%s, g_buf) && %s(__CPROVER_loop_entry(%s)) <= %s(%s) && (size_t)%s(%s) <= g_len' % (POS, OFF, POS, OFF, POS, OFF, POS)
DEC = 'g_len - (size_t)%s(%s)' % (OFF, POS)

TOK = ['__CPROVER_is_fresh(result, sizeof(*result))']
TOKSTART = ['__CPROVER_pointer_in_range_dfcc(g_buf, result->start, self->bufferPos)']
TOKF = ['result->tokenKind', 'result->length']
TILE = 'result->start == OLD(result->start) && (size_t)%s(result->start) + result->length == (size_t)%s(%s)' % (OFF, OFF, POS)

K = 'Token_Kind_'


def kw(word):
    return ' && '.join('result->start[%d] == %d' % (i, ord(ch)) for i, ch in enumerate(word))


KWS = [('KWRule', 'rule'), ('KWPool', 'pool'), ('KWBuild', 'build'), ('KWDefault', 'default'),
       ('KWInclude', 'include'), ('KWSubninja', 'subninja')]

UNIT = {
    'name': 'ninja_lex',
    'source': 'lib/Ninja/Lexer.cpp',
    'dumps': ['Lexer', 'isNonNewlineSpace', 'Token::Kind'],
    'types': {'StringRef': 'strref'},
    'by_value': ['strref'],
    'calls': {
        'm:StringRef::data': 'strref_data', 'm:StringRef::size': 'strref_size',
        'm:StringRef::begin': 'strref_data', 'm:StringRef::end': '($o->ptr + $o->len)',
        'fn:isspace': 'verif_isspace',
        'fn:memcmp': 'verif_memcmp',
    },
    'prelude': '#include "models/base.h"\n#include "models/ninja_lex.h"\n',
    'functions': {
        'Lexer::peekNextChar': {
            'inline_in_callers': True,
            'requires': LEX, 'assigns': [],
            'ensures': [('P:C19,P:C17', '(RESULT == -1) == ((size_t)%s(%s) == g_len)' % (OFF, POS)),
                        ('P:C17', 'RESULT != -1 ==> RESULT == (int)(unsigned char)*%s' % POS)],
        },
        'Lexer::getNextChar': {
            'inline_in_callers': True,
            'requires': LEX, 'assigns': CUR,
            'ensures': [('P:C19,P:C17', '(RESULT == -1) == ((size_t)%s(OLD(%s)) == g_len)' % (OFF, POS)),
                        MONO,
                        'RESULT == -1 ==> %s == OLD(%s)' % (POS, POS),
                        'RESULT != -1 ==> (%s(%s) > %s(OLD(%s)) && %s(%s) <= %s(OLD(%s)) + 2)' % (OFF, POS, OFF, POS, OFF, POS, OFF, POS),
                        ('P:C17', 'RESULT != -1 ==> (((unsigned char)*OLD(%s) == 10 || (unsigned char)*OLD(%s) == 13) ? RESULT == 10 : RESULT == (int)(unsigned char)*OLD(%s))' % (POS, POS, POS)),
                        'RESULT == 10 ==> self->columnNumber == 0',
                        '(RESULT != 10 && RESULT != -1) ==> self->columnNumber == OLD(self->columnNumber) + 1'],
        },
        'isNonNewlineSpace': {
            'requires': [('P:C19', 'c >= -1 && c <= 255')], 'assigns': [],
            'ensures': ['RESULT == (c == 32 || c == 9 || c == 11 || c == 12)'],
        },
        'Lexer::setTokenKind': {
            'requires': LEX + TOK + TOKSTART, 'assigns': TOKF,
            'ensures': ['result->tokenKind == kind', ('P:C19', TILE)],
            'inline_in_callers': True,
        },
        'Lexer::skipToEndOfLine': {
            'requires': LEX, 'assigns': CUR,
            'ensures': [MONO, '(size_t)%s(%s) == g_len || *%s == 10 || *%s == 13' % (OFF, POS, POS, POS)],
            'loops': {0: {'assigns': CUR, 'invariant': [LOOPINV], 'decreases': DEC}},
        },
        'Lexer::setIdentifierTokenKind': {
            'requires': LEX + TOK + TOKSTART, 'assigns': TOKF,
            'ensures': [('P:C19', TILE)] +
                       # a keyword kind is produced exactly when the token's bytes are the whole keyword
                       [('P:C17', '(result->tokenKind == %s%s) == (result->length == %d && %s)' % (K, k, len(w), kw(w))) for k, w in KWS] +
                       [('P:C17', ' || '.join('result->tokenKind == %s%s' % (K, k) for k, _ in KWS) + ' || result->tokenKind == %sIdentifier' % K)],
            'inline_in_callers': True,
        },
        'Lexer::lexIdentifier': {
            'requires': LEX + TOK + TOKSTART, 'assigns': CUR + TOKF,
            'ensures': [MONO, ('P:C19', TILE),
                        ('P:C17', 'self->mode == Lexer_LexingMode_IdentifierSpecific ==> result->tokenKind == %sIdentifier' % K),
                        ' || '.join('result->tokenKind == %s%s' % (K, k) for k, _ in KWS) + ' || result->tokenKind == %sIdentifier' % K],
            'loops': {0: {'assigns': CUR, 'invariant': [LOOPINV], 'decreases': DEC}},
        },
        'Lexer::lexPathString': {
            'requires': LEX + TOK + TOKSTART, 'assigns': CUR + TOKF,
            'ensures': [MONO, ('P:C19', TILE), 'result->tokenKind == %sString' % K,
                        # progress when the first byte does not end a path string
                        '((size_t)%s(OLD(%s)) < g_len && !(OB == 32 || (OB >= 9 && OB <= 13)) && OB != 58 && OB != 124) ==> %s(%s) > %s(OLD(%s))'.replace('OB', '(unsigned char)*OLD(%s)' % POS) % (OFF, POS, OFF, POS, OFF, POS)],
            'loops': {0: {'assigns': CUR, 'invariant': [LOOPINV], 'decreases': DEC},
                      1: {'assigns': CUR, 'invariant': [LOOPINV], 'decreases': DEC}},
        },
        'Lexer::lexVariableString': {
            'requires': LEX + TOK + TOKSTART, 'assigns': CUR + TOKF,
            'ensures': [MONO, ('P:C19', TILE), 'result->tokenKind == %sString' % K,
                        # progress when the first byte does not end a variable string
                        '((size_t)%s(OLD(%s)) < g_len && OB != 10 && OB != 13) ==> %s(%s) > %s(OLD(%s))'.replace('OB', '(unsigned char)*OLD(%s)' % POS) % (OFF, POS, OFF, POS, OFF, POS)],
            'loops': {0: {'assigns': CUR, 'invariant': [LOOPINV], 'decreases': DEC}},
        },
        'Lexer::lex': {
            'requires': LEX + TOK, 'assigns': CUR + TOKF + ['result->start', 'result->line', 'result->column'],
            'ensures': [
                MONO,
                # tokens tile the buffer: the token starts at or after the old position and ends at the new one
                ('P:C19', '__CPROVER_same_object(result->start, g_buf) && %s(OLD(%s)) <= %s(result->start) && (size_t)%s(result->start) + result->length == (size_t)%s(%s)' % (OFF, POS, OFF, OFF, OFF, POS)),
                # only blanks and $-newline escapes lie between the old position and the token (ghost index g_k)
                ('P:C19', '((size_t)%s(OLD(%s)) <= g_k && g_k < (size_t)%s(result->start)) ==> (g_buf[g_k] == 32 || g_buf[g_k] == 9 || g_buf[g_k] == 11 || g_buf[g_k] == 12 || g_buf[g_k] == 36 || g_buf[g_k] == 10 || g_buf[g_k] == 13)' % (OFF, POS, OFF)),
                # end of file is reported only at the true end of the buffer
                ('P:C19,P:C17', 'result->tokenKind == %sEndOfFile ==> ((size_t)%s(%s) == g_len && result->length == 0)' % (K, OFF, POS)),
                # every other token consumes at least one byte (no stall in the parser's token loop)
                ('P:C19', 'result->tokenKind != %sEndOfFile ==> %s(%s) > %s(OLD(%s))' % (K, OFF, POS, OFF, POS)),
            ],
            'loops': {0: {'assigns': CUR, 'invariant': [LOOPINV, '%s(%s) >= %s(result->start) && (size_t)%s(%s) < g_len' % (OFF, POS, OFF, OFF, POS)], 'decreases': DEC},
                      1: {'assigns': CUR + ['c'], 'invariant': [
                          LOOPINV, 'c >= -1 && c <= 255',
                          '(c == -1) == ((size_t)%s(%s) == g_len)' % (OFF, POS),
                          'c != -1 ==> c == (int)(unsigned char)*%s' % POS,
                          '((size_t)%s(__CPROVER_loop_entry(%s)) <= g_k && g_k < (size_t)%s(%s)) ==> (g_buf[g_k] == 32 || g_buf[g_k] == 9 || g_buf[g_k] == 11 || g_buf[g_k] == 12 || g_buf[g_k] == 36 || g_buf[g_k] == 10 || g_buf[g_k] == 13)' % (OFF, POS, OFF, POS)],
                          'decreases': DEC}},
        },
    },
}
