"""U-ext-valid / U-ext-prior: ExternalCommand::isResultValid and providePriorValue (lib/BuildSystem/ExternalCommand.cpp) -- C08, C09, C10."""
BV = 'BuildValue_Kind_'
OK_K = ('(OUT(g_k)->type == BuildNode_NodeType_Virtual || (OUT(g_k)->mutated ? (g_stored[g_k].missing != 0) == (g_current[g_k].missing != 0) '
        ': (g_stored[g_k].id == g_current[g_k].id && (g_stored[g_k].missing != 0) == (g_current[g_k].missing != 0))))')
OK_K = OK_K.replace('OUT(g_k)', 'self->__base.outputs.ptr[g_k]')
SUCC = '(value->kind == %sSuccessfulCommand || value->kind == %sSuccessfulCommandWithOutputSignature)' % (BV, BV)

UNIT = {
    'name': 'extcmd',
    'source': 'lib/BuildSystem/ExternalCommand.cpp',
    'dumps': ['buildsystem::ExternalCommand', 'buildsystem::Command', 'BuildValue::Kind', 'BuildNode::NodeType'],
    'types': {'StringRef': 'strref', 'basic::FileInfo': 'struct FileInfo', 'FileInfo': 'struct FileInfo', 'TaskInterface': 'struct TaskInterface', 'core::TaskInterface': 'struct TaskInterface'},
    'type_patterns': [(r'(std::)?vector<(BuildNode|buildsystem::BuildNode) \*.*>', 'vec_node')],
    'by_value': ['strref', 'struct FileInfo', 'struct TaskInterface'],
    'predefined_structs': ['FileInfo', 'TaskInterface'],
    'vec_types': {'vec_node': 'struct BuildNode *'},
    'struct_extra': {'BuildNode': '  size_t g_idx;\n', 'FileSystem': ''},
    'no_translate': ['getFileInfo', 'getNthOutputInfo', 'getFileSystem', 'BuildNode::getFileInfo'],
    'calls': {
        'm:@vec_node::size': 'vec_node_size', 'o:[]:@vec_node': '$o->ptr[$0]',
        'm:BuildValue::getNthOutputInfo': 'verif_stored_info', 'm:BuildNode::getFileInfo': 'verif_current_info',
        'm:@struct FileInfo::isMissing': '($o->missing != 0)', 'o:!=:@struct FileInfo': 'verif_info_ne',
        'm:BuildSystem::getFileSystem': 'verif_fs',
    },
    'prelude': '#include "models/base.h"\n#include "models/vec.h"\n#include "models/extcmd.h"\n',
    'after_structs': '#include "models/extcmd_after.h"\n',
    'functions': {
        'ExternalCommand::providePriorValue': {
            'requires': ['__CPROVER_is_fresh(self, sizeof(*self))', '__CPROVER_is_fresh(value, sizeof(*value))'],
            'assigns': ['self->hasPriorResult'],
            # only the result of a successful run counts as a prior result (a failed, cancelled, skipped or propagated-failure value never does)
            'ensures': [('P:C10', '%s ? (self->hasPriorResult != 0) : (self->hasPriorResult == OLD(self->hasPriorResult))' % SUCC)]},
        'ExternalCommand::isResultValid': {
            'requires': ['__CPROVER_is_fresh(self, sizeof(*self))', '__CPROVER_is_fresh(value, sizeof(*value))', '__CPROVER_is_fresh(system, sizeof(*system))',
                         '__CPROVER_is_fresh(self->__base.outputs.ptr, 8 * sizeof(struct BuildNode *)) && self->__base.outputs.len <= 8 && self->__base.outputs.cap == 8',
                         ' && '.join('__CPROVER_is_fresh(self->__base.outputs.ptr[%d], sizeof(struct BuildNode))' % i for i in range(8)),
                         ' && '.join('self->__base.outputs.ptr[%d]->g_idx == %d' % (i, i) for i in range(8)), 'g_k < self->__base.outputs.len'],
            'assigns': [],
            'ensures': [
                ('P:C09', 'self->alwaysOutOfDate ==> !RESULT'),
                # every stored result that is not a success is invalid: failed, cancelled and skipped commands are retried
                ('P:C10,P:C08', '!%s ==> !RESULT' % SUCC),
                # valid only if every non-virtual output still matches what the command produced (existence only for mutated outputs)
                ('P:C08,P:C09', 'RESULT ==> %s' % OK_K),
                ('P:C08', '(!self->alwaysOutOfDate && %s && self->__base.outputs.len == 0) ==> RESULT' % SUCC),
            ],
            'loops': {0: {'assigns': ['i'], 'invariant': ['i <= e && e == (unsigned)self->__base.outputs.len', '(g_k < (size_t)i) ==> %s' % OK_K], 'decreases': 'e - i'}},
            'bounded_note': 'output list of at most 8 nodes (each node is a separate object; the loop itself is closed by its invariant)',
        },
    },
}
