"""U-value (predicates): which BuildValue kinds carry which payload (include/llbuild/BuildSystem/BuildValue.h) -- C15.

toData() and the decoding constructor write/read the signature, the output infos and the string list exactly when these
three predicates say so; the spec table below is written from the factory functions (makeX(...) and their parameters)."""
K = 'BuildValue_Kind_'
# kind -> payload the factory of that kind takes
FACTORY = {
    'Invalid': (), 'VirtualInput': (), 'ExistingInput': ('infos',), 'MissingInput': (), 'DirectoryContents': ('infos', 'strings'),
    'DirectoryTreeSignature': ('signature',), 'DirectoryTreeStructureSignature': ('signature',), 'MissingOutput': (), 'FailedInput': (),
    'SuccessfulCommand': ('infos',), 'FailedCommand': (), 'PropagatedFailureCommand': (), 'CancelledCommand': (), 'SkippedCommand': (), 'Target': (),
    'StaleFileRemoval': ('strings',), 'FilteredDirectoryContents': ('strings',), 'SuccessfulCommandWithOutputSignature': ('infos', 'signature'),
}


def table(what):
    yes = [k for k, v in FACTORY.items() if what in v]
    return '(RESULT != 0) == (%s)' % ' || '.join('self->kind == %s%s' % (K, k) for k in yes)


SELF = ['__CPROVER_is_fresh(self, sizeof(*self))', 'self->kind >= 0 && self->kind <= 17']
UNIT = {
    'name': 'buildvalue',
    'source': 'lib/BuildSystem/BuildValue.cpp',
    'dumps': ['BuildValue::kindHas', 'BuildValue::Kind', 'BuildValue::is'],
    'types': {},
    'prelude': '#include "models/base.h"\n',
    'functions': {
        # a kind's payload is encoded/decoded iff its factory takes that payload: nothing a value can hold is dropped, nothing absent is invented
        'BuildValue::kindHasSignature': {'requires': SELF, 'assigns': [], 'ensures': [('P:C15', table('signature'))]},
        'BuildValue::kindHasOutputInfo': {'requires': SELF, 'assigns': [], 'ensures': [('P:C15', table('infos'))]},
        'BuildValue::kindHasStringList': {'requires': SELF, 'assigns': [], 'ensures': [('P:C15', table('strings'))]},
    },
}
