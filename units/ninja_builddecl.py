"""U-ninja-builddecl: ManifestLoaderImpl::actOnBeginBuildDecl (lib/Ninja/ManifestLoader.cpp) -- C17: the loaded build statement has, in order, one output
node per output token and one input node per input token (each the node of that token's path evaluated in the current scope, relative to the
working directory), the rule the name resolves to in the current scope (the phony rule, with a diagnostic, when there is none), and exactly the
explicit / implicit input counts the parser determined."""


def _err(tr, n, obj, args, argnodes):
    tr.dropped.add('the message text passed to ManifestLoaderImpl::error')
    return '(g_errors++)'


def _addr(e):
    e = e.strip()
    while e.startswith('((') and e.endswith('))'):
        e = e[1:-1]
    if e.startswith('(*') and e.endswith(')'):
        return e[2:-1]
    return '&(%s)' % e


def _evalstr(tr, n, obj, args, argnodes):
    return 'eval_tok(%s, %s, %s)' % (_addr(tr.expr(argnodes[0])), _addr(tr.expr(argnodes[1])), _addr(tr.expr(argnodes[2])))


def _lits(n, acc):
    if isinstance(n, dict):
        if n.get('kind') == 'StringLiteral':
            acc.append(n.get('value'))
        for c in n.get('inner', []):
            _lits(c, acc)
    return acc


def _lookup(tr, n, obj, args, argnodes):
    """lookupNamedBuildParameter(decl, startTok, "<literal>", storage)"""
    lits = _lits(argnodes[2], [])
    if len(lits) != 1:
        raise Exception('lookupNamedBuildParameter: the name is expected to be a string literal')
    return 'lookup_named(%s, %s, %s, %s, %s)' % (obj, tr.expr(argnodes[0]), _addr(tr.expr(argnodes[1])), lits[0], _addr(tr.expr(argnodes[3])))


def _eqword(tr, n, obj, args, argnodes):
    lits = _lits({'inner': argnodes}, [])
    if len(lits) != 1:
        raise Exception('comparison of a parameter value with something that is not a string literal')
    return 'ref_is_word(%s, %s)' % (obj if not obj.startswith('&') else '*' + obj, lits[0])


def _find(tr, n, obj, args, argnodes):
    return 'find_node(%s, %s, %s)' % (obj, tr.expr(argnodes[0]), tr.expr(argnodes[1]))


NT = 3
OUTK = ' && '.join('((%d < outputTokens.len) ==> g_c_out.buf[%d] == (struct Node *)&outputTokens.ptr[%d])' % (k, k, k) for k in range(NT))
INK = ' && '.join('((%d < inputTokens.len) ==> g_c_in.buf[%d] == (struct Node *)&inputTokens.ptr[%d])' % (k, k, k) for k in range(NT))
UNIT = {
    'name': 'ninja_builddecl',
    'source': 'lib/Ninja/ManifestLoader.cpp',
    'dumps': ['ManifestLoaderImpl', 'ninja::Token', 'Command::DepsStyleKind'],
    'types': {'StringRef': 'strref', 'std::string': 'pstr', 'string': 'pstr', 'basic_string<char>': 'pstr', 'BuildResult': 'void *', 'ParseActions::BuildResult': 'void *', 'RuleResult': 'void *', 'ParseActions::RuleResult': 'void *', 'PoolResult': 'void *', 'ParseActions::PoolResult': 'void *'},
    'type_patterns': [(r'(llvm::)?SmallString<\d+>', 'pstr'), (r'(llvm::)?SmallVectorImpl<char>', 'pstr'), (r'(llvm::)?ArrayRef<(ninja::)?Token>', 'struct tokarr'), (r'(llvm::)?SmallVector<(ninja::)?Node \*, \d+>', 'struct nodevec'),
                      (r'(llvm::)?ArrayRef<(ninja::)?Node \*>', 'struct nodevec'), (r'(llvm::)?SmallVectorTemplateCommon<(ninja::)?Node \*.*>', 'struct nodevec'), (r'(llvm::)?SmallVectorImpl<(ninja::)?Node \*>', 'struct nodevec'), (r'(llvm::)?StringMap(Const)?Iterator<.*Rule.*>', 'struct ruleiter'), (r'(llvm::)?iterator_facade_base<StringMap.*Rule.*', 'struct ruleiter'), (r'(llvm::)?StringMapIterBase<.*Rule.*', 'struct ruleiter'), (r'(llvm::)?StringMapEntry<.*Rule \*>', 'struct ruleiter'), (r'(llvm::)?StringMap<.*Pool \*>::(const_)?iterator', 'struct pooliter'), (r'(llvm::)?StringMap(Const)?Iterator<.*Pool.*>', 'struct pooliter'), (r'(llvm::)?iterator_facade_base<StringMap.*Pool.*', 'struct pooliter'), (r'(llvm::)?StringMapIterBase<.*Pool.*', 'struct pooliter'), (r'(llvm::)?StringMapEntry<.*Pool \*>', 'struct pooliter'),
                      (r'(llvm::)?StringMap<(std::)?(basic_string<char>|string).*>', 'struct pmap'), (r'(llbuild::)?(ninja::)?Scope', 'struct Scope'), (r'(llbuild::)?(ninja::)?Manifest', 'struct Manifest'), (r'(llbuild::)?(ninja::)?Rule', 'struct Rule'), (r'(llbuild::)?(ninja::)?Node', 'struct Node'),
                      (r'(llbuild::)?(ninja::)?Command', 'struct Command')],
    'by_value': ['strref', 'pstr', 'struct tokarr', 'struct nodevec', 'struct ruleiter', 'struct pooliter'],
    'predefined_structs': ['pooliter', 'pmap', 'Scope', 'Manifest', 'Rule', 'Node', 'Command', 'nodevec', 'ruleiter', 'tokarr'],
    'class_alias': {'ManifestLoaderImpl': 'ManifestLoader::ManifestLoaderImpl'},
    'need_fields': {'ManifestLoader::ManifestLoaderImpl': ['workingDirectory', 'manifest', 'buildCommand', 'buildDescription']},
    'need_enums': ['Command::DepsStyleKind'],
    'no_translate': ['lookupNamedBuildParameter', 'normalize_path', 'getPools', 'setCommandString', 'setDescription', 'setDepsStyle', 'setDepsFile', 'setRspFile', 'setRspFileContent', 'setGeneratorFlag', 'setRestatFlag', 'setExecutionPool', 'isValidParameterName', 'getParameters', 'insertBinding', 'error', 'getCurrentScope', 'evalString', 'findOrCreateNode', 'getPhonyRule', 'getRules', 'getCommands', 'getAllocator'],
    'calls': {
        'm:ManifestLoader::ManifestLoaderImpl::error': _err, 'm:*::error': _err, 'm:ManifestLoader::ManifestLoaderImpl::getCurrentScope': 'cur_scope', 'm:ManifestLoader::ManifestLoaderImpl::evalString': _evalstr,
        'm:Scope::getRules': 'scope_rules', 'm:Manifest::findOrCreateNode': _find, 'm:Manifest::getPhonyRule': 'phony_rule', 'm:Manifest::getCommands': 'manifest_commands', 'm:Manifest::getAllocator': '0',
        'm:ManifestLoader::ManifestLoaderImpl::lookupNamedBuildParameter': _lookup, 'o:==:StringRef': _eqword, 'o:==:@strref': _eqword, 'fn:operator==': _eqword, 'm:@pstr::clear': 'pstr_clear', 'm:Manifest::getPools': 'manifest_pools',
        'fn:normalize_path': 'normalize_rsp', 'm:Manifest::normalize_path': 'normalize_rsp', 'm:Command::setCommandString': 'set_command', 'm:Command::setDescription': 'set_description', 'm:Command::setDepsStyle': 'set_depsstyle',
        'm:Command::setDepsFile': 'set_depfile', 'm:Command::setRspFile': 'set_rspfile', 'm:Command::setRspFileContent': 'set_rspcontent', 'm:Command::setGeneratorFlag': 'set_generator', 'm:Command::setRestatFlag': 'set_restat', 'm:Command::setExecutionPool': 'set_pool',
        'm:@strref::empty': '($o->len == 0)', 'm:StringRef::empty': '($o->len == 0)', 'm:Command::getParameters': 'decl_params', 'm:Rule::getParameters': 'decl_params', 'fn:isValidParameterName': 'valid_param_name', 'm:Rule::isValidParameterName': 'valid_param_name', 'm:Scope::insertBinding': 'scope_insert',
        'm:@pstr::str': 'pstr_to_ref', 'range:@struct tokarr': ('tokarr_size', 'tokarr_at'), 'm:@struct nodevec::push_back': ('nodevec_push', 'v'), 'm:@pstr::empty': 'pstr_is_empty', 'new:@struct Command': 'command_new',
    },
    'call_patterns': [(r'o:\[\]:StringMap<.*(string|basic_string).*>', ('pmap_slot', 'v')), (r'o:=:(std::)?(basic_string<char>|string)', 'slot_assign($o, $0)'), (r'o:=:@pstr', 'slot_assign($o, $0)'), (r'm:SmallString<\d+>::str', 'pstr_to_ref'), (r'm:StringRef::operator .*', 'ref_id'), (r'm:@strref::operator .*', 'ref_id'), (r'c:(basic_string<char>|string|std::string)\(.*\)', '$0'),
                      (r'm:SmallString<\d+>::operator StringRef', 'pstr_to_ref'), (r'm:@pstr::operator StringRef', 'pstr_to_ref'), (r'c:StringRef\(const char \*, (size_t|unsigned long)\)', 'strref_make'), (r'c:SmallString<\d+>/0', 'pstr_none'), (r'c:SmallString<\d+>\(\)', 'pstr_none'), (r'c:SmallVector<.*Node \*, \d+>/0', 'nodevec_new'),
                      (r'c:SmallVector<.*Node \*, \d+>\(\)', 'nodevec_new'), (r'm:StringMap<.*Pool.*>::find', ('pools_find', 'v')), (r'm:StringMap<.*Pool.*>::end', 'pools_end'), (r'm:StringMap<.*Rule.*>::find', ('rules_find', 'v')), (r'm:StringMap<.*Rule.*>::end', 'rules_end'), (r'c:StringMap(Const)?Iterator<.*', '$0'),
                      (r'o:==:StringMapIterBase<.*', '(!$o->hit)'), (r'o:->:StringMapIterBase<.*', '($o)'), (r'o:==:iterator_facade_base<StringMap.*', '(!$o->hit)'), (r'o:==:StringMap(Const)?Iterator.*', '(!$o->hit)'), (r'o:->:iterator_facade_base<StringMap.*', '($o)'), (r'o:->:StringMap(Const)?Iterator.*', '($o)'),
                      (r'c:(llvm::)?ArrayRef<.*Node \*>\(.*\)', '$0'), (r'm:.*vector<.*Command \*.*>::push_back', ('commands_push', 'v'))],
    'prelude': '#include "models/base.h"\n#include "models/vec.h"\n#include "models/ninja_builddecl.h"\n',
    'after_structs': ('struct tokarr { struct Token *ptr; size_t len; };\nstatic inline size_t tokarr_size(const struct tokarr *a) { return a->len; }\nstatic inline struct Token *tokarr_at(const struct tokarr *a, size_t i) { return &a->ptr[i]; }\n'
                      'static inline pstr pstr_none(void) { pstr p; p.ptr = 0; p.len = 0; return p; }\n#include "models/ninja_builddecl_after.h"\n'),
    'functions': {
        'ManifestLoaderImpl::actOnBeginBuildDecl': {
            'requires': ['__CPROVER_is_fresh(self, sizeof(*self))', '__CPROVER_is_fresh(self->manifest, 1)', '__CPROVER_is_fresh(nameTok, sizeof(*nameTok))',
                         '__CPROVER_is_fresh(outputTokens.ptr, NT * sizeof(struct Token)) && outputTokens.len <= NT', '__CPROVER_is_fresh(inputTokens.ptr, NT * sizeof(struct Token)) && inputTokens.len <= NT',
                         'g_errors == 0 && g_evals == 0 && g_finds == 0 && g_cmds == 0 && g_appended == 0', 'g_phony != 0 && g_rule_hit != 0 && g_phony != g_rule_hit', 'self->workingDirectory.ptr != 0',
                         ' && '.join('g_eval_len[%d] > 0' % k for k in range(2 * NT))],      # no empty paths here: the diagnostics for them are counted separately
            'assigns': ['g_errors', 'g_evals', 'g_finds', 'g_cmds', 'g_eval_scope_ok', 'g_find_wd_ok', 'g_c_rule', 'g_c_out', 'g_c_in', 'g_c_exp', 'g_c_imp', 'g_appended', 'g_appended_cmd'],
            'ensures': [
                # the rule: what the name resolves to in the current scope; an unknown name is reported and stands for the phony rule
                ('P:C17', 'g_rule_found ? (g_c_rule == g_rule_hit && g_errors == 0) : (g_c_rule == g_phony && g_errors == 1)'),
                # one node per token, in token order, outputs and inputs not mixed up
                ('P:C17', 'g_cmds == 1 && g_c_out.len == outputTokens.len && g_c_in.len == inputTokens.len'),
                ('P:C17', OUTK), ('P:C17', INK),
                # every path is evaluated in the current scope and resolved against the working directory
                ('P:C17', 'g_evals == outputTokens.len + inputTokens.len && g_finds == g_evals && ((g_evals > 0) ==> (g_eval_scope_ok == (const void *)&g_scope_marker && g_find_wd_ok == self->workingDirectory.ptr))'),
                # the parser's classification of the inputs is passed on unchanged
                ('P:C17', 'g_c_exp == numExplicitInputs && g_c_imp == numImplicitInputs'),
                # the statement is appended to the manifest once and is the one returned
                ('P:C17', 'g_appended == 1 && g_appended_cmd == (const void *)&g_cmd_obj && RESULT == (void *)&g_cmd_obj'),
            ],
            'loops': {0: {'assigns': ['$i', 'g_evals', 'g_finds', 'g_eval_scope_ok', 'g_find_wd_ok', 'outputs'],
                          'invariant': ['$i <= $range->len && outputs.len == $i && g_evals == $i && g_finds == $i && g_errors == (g_rule_found ? 0 : 1) && '
                                        '(($i > 0) ==> (g_eval_scope_ok == (const void *)&g_scope_marker && g_find_wd_ok == self->workingDirectory.ptr)) && ' +
                                        ' && '.join('((%d < $i) ==> outputs.buf[%d] == (struct Node *)&outputTokens.ptr[%d])' % (k, k, k) for k in range(NT))],
                          'decreases': '$range->len - $i'},
                      1: {'assigns': ['$i', 'g_evals', 'g_finds', 'g_eval_scope_ok', 'g_find_wd_ok', 'inputs'],
                          'invariant': ['$i <= $range->len && inputs.len == $i && g_evals == outputTokens.len + $i && g_finds == g_evals && g_errors == (g_rule_found ? 0 : 1) && '
                                        '((g_evals > 0) ==> (g_eval_scope_ok == (const void *)&g_scope_marker && g_find_wd_ok == self->workingDirectory.ptr)) && ' +
                                        ' && '.join('((%d < $i) ==> inputs.buf[%d] == (struct Node *)&inputTokens.ptr[%d])' % (k, k, k) for k in range(NT))],
                          'decreases': '$range->len - $i'}},
        },
        # rule variables are stored UNEVALUATED (the raw text of the value token): they are expanded lazily, per build statement
        'ManifestLoaderImpl::actOnRuleBindingDecl': {
            'requires': ['__CPROVER_is_fresh(self, sizeof(*self))', '__CPROVER_is_fresh(nameTok, sizeof(*nameTok))', '__CPROVER_is_fresh(valueTok, sizeof(*valueTok))', '__CPROVER_is_fresh(abstractDecl, 1)',
                         'g_errors == 0 && g_evals == 0 && g_stores == 0', 'nameTok->start != 0 && valueTok->start != 0 && nameTok->start != valueTok->start'],
            'assigns': ['g_errors', 'g_stores', 'g_store_map', 'g_store_name', 'g_slot'],
            'ensures': [('P:C17', 'g_evals == 0'),
                        ('P:C17', 'g_name_valid ? (g_stores == 1 && g_store_map == (const void *)abstractDecl && g_store_name == nameTok->start && g_slot.ptr == valueTok->start && g_slot.len == valueTok->length && g_errors == 0) : (g_stores == 0 && g_errors == 1)')]},
        # a binding inside a build statement is evaluated at once, in the scope of the file being loaded, and stored under its name in that statement
        'ManifestLoaderImpl::actOnBuildBindingDecl': {
            'requires': ['__CPROVER_is_fresh(self, sizeof(*self))', '__CPROVER_is_fresh(nameTok, sizeof(*nameTok))', '__CPROVER_is_fresh(valueTok, sizeof(*valueTok))', '__CPROVER_is_fresh(abstractDecl, 1)',
                         'g_errors == 0 && g_evals == 0 && g_stores == 0', 'nameTok->start != 0'],
            'assigns': ['g_evals', 'g_eval_scope_ok', 'g_stores', 'g_store_map', 'g_store_name', 'g_slot'],
            'ensures': [('P:C17', 'g_evals == 1 && g_eval_scope_ok == (const void *)&g_scope_marker'),
                        ('P:C17', 'g_stores == 1 && g_store_map == (const void *)abstractDecl && g_store_name == nameTok->start && g_slot.ptr == (const char *)valueTok')]},
        # a file-level binding is evaluated when it is bound (so it cannot refer to itself recursively) and lands in the current scope
        'ManifestLoaderImpl::actOnBindingDecl': {
            'requires': ['__CPROVER_is_fresh(self, sizeof(*self))', '__CPROVER_is_fresh(nameTok, sizeof(*nameTok))', '__CPROVER_is_fresh(valueTok, sizeof(*valueTok))',
                         'g_errors == 0 && g_evals == 0 && g_inserts == 0', 'nameTok->start != 0'],
            'assigns': ['g_evals', 'g_eval_scope_ok', 'g_inserts', 'g_insert_scope', 'g_insert_name', 'g_insert_val'],
            'ensures': [('P:C17,P:C19', 'g_evals == 1 && g_eval_scope_ok == (const void *)&g_scope_marker'),
                        ('P:C17', 'g_inserts == 1 && g_insert_scope == (const void *)&g_scope_marker && g_insert_name == nameTok->start && g_insert_val == (const char *)valueTok')]},
        # the attributes of a build statement: each is the value of the build parameter of THAT name (looked up for this statement), stored in its own attribute
        'ManifestLoaderImpl::actOnEndBuildDecl': {
            'requires': ['__CPROVER_is_fresh(self, sizeof(*self))', '__CPROVER_is_fresh(self->manifest, 1)', '__CPROVER_is_fresh(startTok, sizeof(*startTok))', '__CPROVER_is_fresh(abstractDecl, 1)',
                         'g_nlookups == 0 && g_errors == 0 && g_sets == 0', ' && '.join('g_plookups[%d] == 0' % i for i in range(1, 10)), 'g_deps_word >= 0 && g_deps_word <= 3 && (g_deps_word == 0) == (g_pempty[PN_deps] != 0)',
                         'g_set_command == 0 && g_set_description == 0 && g_set_depfile == 0 && g_set_rspfile == 0 && g_set_rspcontent == 0 && g_set_pool == 0 && g_set_depsstyle == -1 && g_set_generator == -1 && g_set_restat == -1'],
            'assigns': ['g_nlookups', '__CPROVER_object_whole(g_plookups)', 'g_lookup_decl_ok', 'g_lookup_tok_ok', 'g_errors', 'g_sets', 'g_set_command', 'g_set_description', 'g_set_depfile', 'g_set_rspfile', 'g_set_rspcontent', 'g_set_pool',
                        'g_set_depsstyle', 'g_set_generator', 'g_set_restat', 'self->buildCommand', 'self->buildDescription'],
            'ensures': [
                ('P:C17', 'g_set_command == &g_pval[PN_command] && g_set_description == &g_pval[PN_description]'),
                ('P:C17', 'g_lookup_decl_ok == (const void *)abstractDecl && g_lookup_tok_ok == (const void *)startTok'),
                # deps style: "" with a depfile and "gcc" mean GCC, "msvc" MSVC, "" without depfile none; anything else is reported
                ('P:C17', 'g_set_depsstyle == (g_deps_word == 0 ? (g_pempty[PN_depfile] ? Command_DepsStyleKind_None : Command_DepsStyleKind_GCC) : g_deps_word == 1 ? Command_DepsStyleKind_GCC : g_deps_word == 2 ? Command_DepsStyleKind_MSVC : Command_DepsStyleKind_None)'),
                # the depfile is stored exactly when there is one and the style is GCC
                ('P:C17', '(g_set_depfile != 0) == (!g_pempty[PN_depfile] && g_set_depsstyle == Command_DepsStyleKind_GCC) && (g_set_depfile == 0 || g_set_depfile == &g_pval[PN_depfile])'),
                ('P:C17', '(g_set_generator == (g_pempty[PN_generator] ? 0 : 1)) && (g_set_restat == (g_pempty[PN_restat] ? 0 : 1))'),
                ('P:C17', '(g_set_pool != 0) == (!g_pempty[PN_pool] && g_pool_known && g_pool_hit != 0) && (g_set_pool == 0 || g_set_pool == g_pool_hit)'),
                # response file: its (normalised) name and, only then, its content
                ('P:C17', '(g_set_rspfile != 0) == (!g_pempty[PN_rspfile] && g_norm_ok) && (g_set_rspfile == 0 || g_set_rspfile == &g_pval[PN_rspfile])'),
                ('P:C17', '(g_set_rspcontent != 0) == (g_set_rspfile != 0) && (g_set_rspcontent == 0 || g_set_rspcontent == &g_pval[PN_rspfile_content])'),
                # diagnostics: an invalid deps word, a depfile with a non-GCC style, GCC style without depfile, an unknown pool
                ('P:C17', 'g_errors == (g_deps_word == 3 ? 1u : 0u) + ((!g_pempty[PN_depfile] && g_set_depsstyle != Command_DepsStyleKind_GCC) ? 1u : 0u) + ((g_pempty[PN_depfile] && g_set_depsstyle == Command_DepsStyleKind_GCC) ? 1u : 0u) + ((!g_pempty[PN_pool] && !g_pool_known) ? 1u : 0u)'),
            ]},
    },
}
