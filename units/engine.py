"""U-eng-*: BuildEngineImpl in lib/Core/BuildEngine.cpp (C01, C02, C05, C06, C09).

Ghost state (never written by translated code; only by the stubs that stand for virtual callees):
  Rule.g_info    back pointer from a client rule to the engine's record of it (data-structure invariant)
  Rule.g_valid   the (pure) answer Rule::isResultValid gives for the stored value
  Task.g_tstate  protocol automaton of the task: 0 new, 1 started, 2 prior value provided, 3 inputs available
  g_reports / g_reason / g_report_rule / g_report_input   what was last reported to the delegate
  g_created      number of tasks created
"""
S = 'BuildEngineImpl_RuleInfo_StateKind_'
RR = 'Rule_RunReason_'
RIT = 'struct BuildEngineImpl_RuleInfo'


def rule_ok(ri):
    return ['__CPROVER_is_fresh(%s, sizeof(*%s))' % (ri, ri), '__CPROVER_is_fresh(%s->rule, sizeof(*%s->rule))' % (ri, ri),
            '__CPROVER_pointer_in_range_dfcc(%s, %s->rule->g_info, %s)' % (ri, ri, ri),
            '%s->state >= 0 && %s->state <= 6' % (ri, ri),
            'VEC_OK(%s->result.dependencies.items, struct KeyIDAndFlags)' % ri]


ENG = ['__CPROVER_is_fresh(self, sizeof(*self))', '__CPROVER_is_fresh(self->delegate, sizeof(*self->delegate))',
       '__CPROVER_is_fresh(self->buildEngine, sizeof(*self->buildEngine))', 'g_engine == self']
SCANQ = ['VEC_OK(self->ruleInfosToScan, struct BuildEngineImpl_RuleScanRequest)']
READYQ = ['VEC_OK(self->readyTaskInfos, struct BuildEngineImpl_TaskInfo *)']


def pred(body, extra=()):
    return {'requires': ['__CPROVER_is_fresh(self, sizeof(*self))'] + list(extra), 'assigns': [],
            'ensures': [('P:C01,P:C02', '(RESULT != 0) == (%s)' % body)], 'inline_in_callers': True}


SCANNED = ('(ruleInfo->state == %sNeedsToRun || ruleInfo->state == %sDoesNotNeedToRun || ruleInfo->state == %sInProgressWaiting || '
           'ruleInfo->state == %sInProgressComputing || (ruleInfo->state == %sComplete && ruleInfo->result.builtAt == self->currentEpoch))' % (S, S, S, S, S))

# scanRule: the decision, shared by C01 / C02 / C09
SCAN_ENS = [
    ('P:C02', '(OLD(ruleInfo->state) == %sIsScanning) ==> (RESULT == 0 && ruleInfo->state == %sIsScanning && g_reports == OLD(g_reports))' % (S, S)),
    ('P:C02', '(OLD(ruleInfo->state) > %sIsScanning && !(OLD(ruleInfo->state) == %sComplete && ruleInfo->result.builtAt != self->currentEpoch)) ==> '
              '(RESULT != 0 && ruleInfo->state == OLD(ruleInfo->state) && g_reports == OLD(g_reports))' % (S, S)),
    ('P:C01,P:C02', '((OLD(ruleInfo->state) == %sIncomplete || (OLD(ruleInfo->state) == %sComplete && ruleInfo->result.builtAt != self->currentEpoch)) && ruleInfo->result.builtAt == 0) ==> '
                    '(RESULT != 0 && ruleInfo->state == %sNeedsToRun && g_reports == OLD(g_reports) + 1 && g_reason == %sNeverBuilt && g_report_rule == ruleInfo->rule)' % (S, S, S, RR)),
    ('P:C01,P:C02,P:C09', '((OLD(ruleInfo->state) == %sIncomplete || (OLD(ruleInfo->state) == %sComplete && ruleInfo->result.builtAt != self->currentEpoch)) && ruleInfo->result.builtAt != 0 && '
                          'ruleInfo->rule->signature.value != ruleInfo->result.signature.value) ==> '
                          '(RESULT != 0 && ruleInfo->state == %sNeedsToRun && g_reports == OLD(g_reports) + 1 && g_reason == %sSignatureChanged && g_report_rule == ruleInfo->rule)' % (S, S, S, RR)),
    ('P:C01,P:C02', '((OLD(ruleInfo->state) == %sIncomplete || (OLD(ruleInfo->state) == %sComplete && ruleInfo->result.builtAt != self->currentEpoch)) && ruleInfo->result.builtAt != 0 && '
                    'ruleInfo->rule->signature.value == ruleInfo->result.signature.value && !ruleInfo->rule->g_valid) ==> '
                    '(RESULT != 0 && ruleInfo->state == %sNeedsToRun && g_reports == OLD(g_reports) + 1 && g_reason == %sInvalidValue && g_report_rule == ruleInfo->rule)' % (S, S, S, RR)),
    # declared up to date without a dependency scan only when nothing is recorded to scan; nothing is reported
    ('P:C01,P:C02', '(ruleInfo->state == %sDoesNotNeedToRun && OLD(ruleInfo->state) != %sDoesNotNeedToRun) ==> '
                    '(ruleInfo->result.builtAt != 0 && ruleInfo->rule->signature.value == ruleInfo->result.signature.value && ruleInfo->rule->g_valid && '
                    'ruleInfo->result.dependencies.items.len == 0 && g_reports == OLD(g_reports))' % (S, S)),
    # otherwise a dependency scan starting at index 0 is queued
    ('P:C01', '(ruleInfo->state == %sIsScanning && OLD(ruleInfo->state) != %sIsScanning) ==> '
              '(RESULT == 0 && ruleInfo->result.builtAt != 0 && ruleInfo->rule->signature.value == ruleInfo->result.signature.value && ruleInfo->rule->g_valid && '
              'self->ruleInfosToScan.len == OLD(self->ruleInfosToScan.len) + 1 && g_reports == OLD(g_reports) && '
              'self->ruleInfosToScan.ptr[self->ruleInfosToScan.len - 1].ruleInfo == ruleInfo && self->ruleInfosToScan.ptr[self->ruleInfosToScan.len - 1].inputIndex == 0 && '
              'self->ruleInfosToScan.ptr[self->ruleInfosToScan.len - 1].inputRuleInfo == 0 && ruleInfo->result.dependencies.items.len != 0)' % (S, S)),
    ('P:C01', 'ruleInfo->state == OLD(ruleInfo->state) || ruleInfo->state == %sNeedsToRun || ruleInfo->state == %sDoesNotNeedToRun || ruleInfo->state == %sIsScanning' % (S, S, S)),
    # the answer is "scanned" exactly when the rule is past scanning (this summary is what the input-request step of the engine loop relies on, U-eng-loop)
    ('P:C01,P:C02', '(RESULT == 0) == (ruleInfo->state == %sIsScanning)' % S),
    ('P:C01,P:C02', '(RESULT != 0) ==> %s' % SCANNED),
    'self->ruleInfosToScan.len == OLD(self->ruleInfosToScan.len) || self->ruleInfosToScan.len == OLD(self->ruleInfosToScan.len) + 1',
    'ruleInfo->result.dependencies.items.len <= OLD(ruleInfo->result.dependencies.items.len)',
    'ruleInfo->state == OLD(ruleInfo->state) ==> (ruleInfo->inProgressInfo.pendingScanRecord == OLD(ruleInfo->inProgressInfo.pendingScanRecord) && self->ruleInfosToScan.len == OLD(self->ruleInfosToScan.len) && '
    'ruleInfo->result.dependencies.items.len == OLD(ruleInfo->result.dependencies.items.len))',
    # the answer "scanned" means exactly that; "not yet" means the rule is being scanned
    '(RESULT != 0) ? %s : (ruleInfo->state == %sIsScanning)' % (SCANNED, S),
    # a newly queued scan owns a fresh, empty scan record
    '(ruleInfo->state == %sIsScanning && OLD(ruleInfo->state) != %sIsScanning) ==> (__CPROVER_is_fresh(ruleInfo->inProgressInfo.pendingScanRecord, sizeof(struct BuildEngineImpl_RuleScanRecord)) && '
    'VEC_OK(ruleInfo->inProgressInfo.pendingScanRecord->deferredScanRequests, struct BuildEngineImpl_RuleScanRequest) && ruleInfo->inProgressInfo.pendingScanRecord->deferredScanRequests.len == 0 && '
    'ruleInfo->inProgressInfo.pendingScanRecord->deferredScanRequests.cap >= 1)' % (S, S),
]

DEMAND_ENS = [
    # the new task record is fresh and can park scan requests (first: later clauses read through it)
    'OLD(ruleInfo->state) == %sNeedsToRun ==> (__CPROVER_is_fresh(g_new_taskinfo, sizeof(struct BuildEngineImpl_TaskInfo)) && '
    'VEC_OK(g_new_taskinfo->deferredScanRequests, struct BuildEngineImpl_RuleScanRequest) && g_new_taskinfo->deferredScanRequests.len == 0 && g_new_taskinfo->deferredScanRequests.cap >= 1)' % S,
    ('P:C02', '(OLD(ruleInfo->state) == %sComplete || OLD(ruleInfo->state) == %sInProgressWaiting || OLD(ruleInfo->state) == %sInProgressComputing) ==> '
              '(ruleInfo->state == OLD(ruleInfo->state) && g_created == OLD(g_created) && ruleInfo->result.builtAt == OLD(ruleInfo->result.builtAt) && (RESULT != 0) == (OLD(ruleInfo->state) == %sComplete))' % (S, S, S, S)),
    # an up-to-date rule is completed without a task; builtAt is stamped, value / computedAt / dependencies are kept (frame)
    ('P:C01,P:C02', 'OLD(ruleInfo->state) == %sDoesNotNeedToRun ==> (RESULT != 0 && ruleInfo->state == %sComplete && ruleInfo->result.builtAt == self->currentEpoch && g_created == OLD(g_created) && '
                    'ruleInfo->result.dependencies.items.len == OLD(ruleInfo->result.dependencies.items.len))' % (S, S)),
    # a rule that needs to run gets exactly one task, waits, and its recorded dependencies start empty
    ('P:C01,P:C02,P:C06', 'OLD(ruleInfo->state) == %sNeedsToRun ==> (RESULT == 0 && ruleInfo->state == %sInProgressWaiting && g_created == OLD(g_created) + 1 && '
                          'ruleInfo->result.dependencies.items.len == 0 && ruleInfo->result.builtAt == OLD(ruleInfo->result.builtAt) && g_new_taskinfo->forRuleInfo == ruleInfo && '
                          '__CPROVER_pointer_in_range_dfcc(g_new_taskinfo, ruleInfo->inProgressInfo.pendingTaskInfo, g_new_taskinfo))' % (S, S)),
    # a task without outstanding requests is queued as ready exactly once
    ('P:C06', 'OLD(ruleInfo->state) == %sNeedsToRun ==> ((g_new_taskinfo->waitCount == 0) ? (self->readyTaskInfos.len == OLD(self->readyTaskInfos.len) + 1 && self->readyTaskInfos.ptr[self->readyTaskInfos.len - 1] == g_new_taskinfo) '
              ': self->readyTaskInfos.len == OLD(self->readyTaskInfos.len))' % S),
    ('P:C06', '!self->taskInfosMutex.held'),
    ('P:C01', 'OLD(ruleInfo->state) != %sNeedsToRun ==> (g_created == OLD(g_created) && self->readyTaskInfos.len == OLD(self->readyTaskInfos.len))' % S),
    '(RESULT != 0) == (ruleInfo->state == %sComplete && ruleInfo->result.builtAt == self->currentEpoch)' % S,
    'RESULT == 0 ==> (ruleInfo->state == %sInProgressWaiting || ruleInfo->state == %sInProgressComputing)' % (S, S),
    'OLD(ruleInfo->state) != %sNeedsToRun ==> ruleInfo->inProgressInfo.pendingTaskInfo == OLD(ruleInfo->inProgressInfo.pendingTaskInfo)' % S,
    'ruleInfo->result.dependencies.items.len <= OLD(ruleInfo->result.dependencies.items.len)',
]

_SCANREQ_LAST = {
            # the scan step for the LAST recorded dependency (deps.len == inputIndex + 1): the do-while body runs once, so
            # the decision depends on this dependency alone; by arbitrariness of inputIndex this is the step for every index
            'of': 'BuildEngineImpl::processRuleScanRequest', 'cname': 'BuildEngineImpl_processRuleScanRequest_last',
            'unwindset': {'BuildEngineImpl_processRuleScanRequest_last_wrapped_for_contract_checking.0': 2}, 'no_loop_contracts': True,
            'requires': ENG + SCANQ + READYQ + rule_ok('g_ri_a') + rule_ok('g_ri_b') + [
                'VEC_OK(self->inputRequests, struct BuildEngineImpl_TaskInputRequest)',
                'request.ruleInfo == g_ri_a && g_ri_a->state == %sIsScanning' % S,
                '__CPROVER_is_fresh(g_ri_a->inProgressInfo.pendingScanRecord, sizeof(struct BuildEngineImpl_RuleScanRecord))',
                'VEC_OK(g_ri_a->inProgressInfo.pendingScanRecord->deferredScanRequests, struct BuildEngineImpl_RuleScanRequest) && g_ri_a->inProgressInfo.pendingScanRecord->deferredScanRequests.len < g_ri_a->inProgressInfo.pendingScanRecord->deferredScanRequests.cap',
                'VEC_OK(g_ri_a->inProgressInfo.pendingScanRecord->pausedInputRequests, struct BuildEngineImpl_TaskInputRequest)',
                'g_ri_a->result.dependencies.items.len >= 1 && (size_t)request.inputIndex + 1 == g_ri_a->result.dependencies.items.len',
                'request.inputRuleInfo == 0 || (request.inputRuleInfo == (g_ri_a->result.dependencies.items.ptr[request.inputIndex].keyID._value == g_key_a ? g_ri_a : g_ri_b) && request.orderOnly == g_ri_a->result.dependencies.items.ptr[request.inputIndex].orderOnly)',
                '(g_ri_b->state == %sIsScanning) ==> (__CPROVER_is_fresh(g_ri_b->inProgressInfo.pendingScanRecord, sizeof(struct BuildEngineImpl_RuleScanRecord)) && '
                'VEC_OK(g_ri_b->inProgressInfo.pendingScanRecord->deferredScanRequests, struct BuildEngineImpl_RuleScanRequest) && g_ri_b->inProgressInfo.pendingScanRecord->deferredScanRequests.len < g_ri_b->inProgressInfo.pendingScanRecord->deferredScanRequests.cap)' % S,
                '(g_ri_b->state == %sInProgressWaiting || g_ri_b->state == %sInProgressComputing) ==> (__CPROVER_is_fresh(g_ri_b->inProgressInfo.pendingTaskInfo, sizeof(struct BuildEngineImpl_TaskInfo)) && '
                'VEC_OK(g_ri_b->inProgressInfo.pendingTaskInfo->deferredScanRequests, struct BuildEngineImpl_RuleScanRequest) && g_ri_b->inProgressInfo.pendingTaskInfo->deferredScanRequests.len < g_ri_b->inProgressInfo.pendingTaskInfo->deferredScanRequests.cap)' % (S, S),
                'self->ruleInfosToScan.cap - self->ruleInfosToScan.len >= 1 + g_ri_a->inProgressInfo.pendingScanRecord->deferredScanRequests.len',
                'self->readyTaskInfos.len < self->readyTaskInfos.cap',
                'self->inputRequests.cap - self->inputRequests.len >= g_ri_a->inProgressInfo.pendingScanRecord->pausedInputRequests.len',
                '!self->taskInfosMutex.held && !self->inputRequestsMutex.held', 'g_k < g_ri_a->inProgressInfo.pendingScanRecord->deferredScanRequests.len'],
            'assigns': ['g_ri_a->state', 'g_ri_a->inProgressInfo', 'g_ri_b->state', 'g_ri_b->wasForced', 'g_ri_b->inProgressInfo', 'g_ri_b->result.dependencies.items.len',
                        'g_ri_b->result.builtAt', 'g_ri_b->result.end', 'g_ri_a->wasForced', 'g_ri_a->result.dependencies.items.len',
                        'self->ruleInfosToScan.len', '__CPROVER_object_whole(self->ruleInfosToScan.ptr)', 'self->readyTaskInfos.len', '__CPROVER_object_whole(self->readyTaskInfos.ptr)',
                        'self->inputRequests.len', '__CPROVER_object_whole(self->inputRequests.ptr)', 'self->taskInfosMutex.held', 'self->inputRequestsMutex.held',
                        'g_ri_a->inProgressInfo.pendingScanRecord->deferredScanRequests.len', '__CPROVER_object_whole(g_ri_a->inProgressInfo.pendingScanRecord->deferredScanRequests.ptr)',
                        ('g_ri_b->state == %sIsScanning' % S, 'g_ri_b->inProgressInfo.pendingScanRecord->deferredScanRequests.len'),
                        ('g_ri_b->state == %sIsScanning' % S, '__CPROVER_object_whole(g_ri_b->inProgressInfo.pendingScanRecord->deferredScanRequests.ptr)'),
                        ('(g_ri_b->state == %sInProgressWaiting || g_ri_b->state == %sInProgressComputing)' % (S, S), 'g_ri_b->inProgressInfo.pendingTaskInfo->deferredScanRequests.len'),
                        ('(g_ri_b->state == %sInProgressWaiting || g_ri_b->state == %sInProgressComputing)' % (S, S), '__CPROVER_object_whole(g_ri_b->inProgressInfo.pendingTaskInfo->deferredScanRequests.ptr)'),
                        'g_reports', 'g_reason', 'g_report_rule', 'g_report_input', 'g_created', 'g_new_taskinfo'],
            'ensures': [
                # an order-only dependency never makes the rule run
                ('P:C02', 'g_ri_a->result.dependencies.items.ptr[request.inputIndex].orderOnly ==> g_ri_a->state != %sNeedsToRun' % S),
                # the rule runs because of this dependency only if the dependency was recomputed after the rule was last built (strictly), and says so
                ('P:C01,P:C02', 'g_ri_a->state == %sNeedsToRun ==> (!g_ri_a->result.dependencies.items.ptr[request.inputIndex].orderOnly && g_ri_a->result.builtAt < (g_ri_a->result.dependencies.items.ptr[request.inputIndex].keyID._value == g_key_a ? g_ri_a : g_ri_b)->result.computedAt && g_reason == %sInputRebuilt && g_report_rule == g_ri_a->rule && g_report_input == (g_ri_a->result.dependencies.items.ptr[request.inputIndex].keyID._value == g_key_a ? g_ri_a : g_ri_b)->rule)' % (S, RR)),
                # the rule is declared up to date only after the dependency has been brought up to date in this epoch, and is not newer
                ('P:C01,P:C02', 'g_ri_a->state == %sDoesNotNeedToRun ==> ((g_ri_a->result.dependencies.items.ptr[request.inputIndex].keyID._value == g_key_a ? g_ri_a : g_ri_b)->state == %sComplete && (g_ri_a->result.dependencies.items.ptr[request.inputIndex].keyID._value == g_key_a ? g_ri_a : g_ri_b)->result.builtAt == self->currentEpoch && (g_ri_a->result.dependencies.items.ptr[request.inputIndex].orderOnly || g_ri_a->result.builtAt >= (g_ri_a->result.dependencies.items.ptr[request.inputIndex].keyID._value == g_key_a ? g_ri_a : g_ri_b)->result.computedAt))' % (S, S)),
                ('P:C01', 'g_ri_a->state == %sIsScanning || g_ri_a->state == %sNeedsToRun || g_ri_a->state == %sDoesNotNeedToRun' % (S, S, S)),
                # the scanned rule's own epochs are never touched by a scan
                ('P:C01', '(g_ri_a->result.dependencies.items.ptr[request.inputIndex].keyID._value == g_key_a ? g_ri_a : g_ri_b) != g_ri_a ==> g_ri_a->result.builtAt == OLD(g_ri_a->result.builtAt)'),
                ('P:C06', '!self->taskInfosMutex.held && !self->inputRequestsMutex.held'),
            ],
        }


def scanreq_variant(tag, bstate_req, bassigns):
    import copy
    d = copy.deepcopy(_SCANREQ_LAST)
    d['cname'] = 'BuildEngineImpl_processRuleScanRequest_' + tag
    d['unwindset'] = {'BuildEngineImpl_processRuleScanRequest_' + tag + '_wrapped_for_contract_checking.0': 2}
    d['requires'] = [r for r in d['requires'] if not r.startswith('(g_ri_b->state ==')] + bstate_req
    d['assigns'] = [x for x in d['assigns'] if not isinstance(x, tuple)] + bassigns
    d['prove'] = True
    if tag == 'last_scanning':
        # a deferred request is parked unchanged on the rule it waits for: same index, the looked-up input, and the
        # recorded order-only flag (the coherence a resumed request is required to have on entry is re-established on exit)
        def parked(rec):
            v = rec + '->deferredScanRequests'
            e = v + '.ptr[' + v + '.len - 1]'
            return ('(' + v + '.len == OLD(' + v + '.len) + 1 && ' + e + '.ruleInfo == g_ri_a && ' + e + '.inputIndex == request.inputIndex && ' +
                    e + '.inputRuleInfo == LOOK && (' + e + '.orderOnly != 0) == (OO != 0))')
        d['ensures'] = d['ensures'] + [('P:C01,P:C02,P:C06', 'g_ri_a->state == ' + S + 'IsScanning ==> (LOOK == g_ri_b ? ' + parked('OLD(' + _BSCAN + ')') + ' : ' +
                                        parked('OLD(g_ri_a->inProgressInfo.pendingScanRecord)') + ')')]
        d['ensures'] = [(e[0], e[1].replace('LOOK', _LOOK).replace('OO', _OO)) if isinstance(e, tuple) else e for e in d['ensures']]
    return d


_LOOK = '(g_ri_a->result.dependencies.items.ptr[request.inputIndex].keyID._value == g_key_a ? g_ri_a : g_ri_b)'
_OO = 'g_ri_a->result.dependencies.items.ptr[request.inputIndex].orderOnly'
_BSCAN = 'g_ri_b->inProgressInfo.pendingScanRecord'
_BTASK = 'g_ri_b->inProgressInfo.pendingTaskInfo'
_RSR = 'struct BuildEngineImpl_RuleScanRequest'
SCANREQ_VARIANTS = {
    # the other rule (b) is idle / already being scanned / has a task in progress when the step starts
    'BuildEngineImpl::processRuleScanRequest#last_idle': scanreq_variant(
        'last_idle', ['g_ri_b->state != ' + S + 'IsScanning && g_ri_b->state != ' + S + 'InProgressWaiting && g_ri_b->state != ' + S + 'InProgressComputing'], []),
    'BuildEngineImpl::processRuleScanRequest#last_scanning': scanreq_variant(
        'last_scanning',
        ['g_ri_b->state == ' + S + 'IsScanning', '__CPROVER_is_fresh(' + _BSCAN + ', sizeof(struct BuildEngineImpl_RuleScanRecord))',
         'VEC_OK(' + _BSCAN + '->deferredScanRequests, ' + _RSR + ') && ' + _BSCAN + '->deferredScanRequests.len < ' + _BSCAN + '->deferredScanRequests.cap'],
        [_BSCAN + '->deferredScanRequests.len', '__CPROVER_object_whole(' + _BSCAN + '->deferredScanRequests.ptr)']),
    'BuildEngineImpl::processRuleScanRequest#last_inprogress': scanreq_variant(
        'last_inprogress',
        ['g_ri_b->state == ' + S + 'InProgressWaiting || g_ri_b->state == ' + S + 'InProgressComputing', '__CPROVER_is_fresh(' + _BTASK + ', sizeof(struct BuildEngineImpl_TaskInfo))',
         'VEC_OK(' + _BTASK + '->deferredScanRequests, ' + _RSR + ') && ' + _BTASK + '->deferredScanRequests.len < ' + _BTASK + '->deferredScanRequests.cap'],
        [_BTASK + '->deferredScanRequests.len', '__CPROVER_object_whole(' + _BTASK + '->deferredScanRequests.ptr)']),
}

UNIT = {
    'name': 'engine',
    'source': 'lib/Core/BuildEngine.cpp',
    'dumps': ['BuildEngineImpl', 'core::Result'],
    'full_structs': ['Result', 'BuildEngineImpl::TaskInfo', 'BuildEngineImpl::RuleInfo', 'BuildEngineImpl::RuleScanRequest',
                     'BuildEngineImpl::TaskInputRequest', 'BuildEngineImpl::RuleScanRecord'],
    'types': {'KeyID': 'struct KeyID', 'DependencyKeyIDs::KeyIDAndFlags': 'struct KeyIDAndFlags', 'KeyIDAndFlags': 'struct KeyIDAndFlags',
              'ValueType': 'vbytes', 'std::vector<uint8_t>': 'vbytes', 'Epoch': 'uint64_t',
              'std::vector<RuleScanRequest>': 'vec_RuleScanRequest', 'vector<RuleScanRequest>': 'vec_RuleScanRequest',
              'std::vector<BuildEngineImpl::RuleScanRequest>': 'vec_RuleScanRequest', 'vector<BuildEngineImpl::RuleScanRequest>': 'vec_RuleScanRequest',
              'std::deque<TaskInfo *>': 'vec_TaskInfoPtr', 'deque<TaskInfo *>': 'vec_TaskInfoPtr', 'deque<BuildEngineImpl::TaskInfo *>': 'vec_TaskInfoPtr',
              'std::vector<TaskInfo *>': 'vec_TaskInfoPtr', 'vector<TaskInfo *>': 'vec_TaskInfoPtr', 'vector<BuildEngineImpl::TaskInfo *>': 'vec_TaskInfoPtr',
              'std::vector<TaskInputRequest>': 'vec_TaskInputRequest', 'vector<TaskInputRequest>': 'vec_TaskInputRequest', 'vector<BuildEngineImpl::TaskInputRequest>': 'vec_TaskInputRequest',
              'std::deque<TaskInputRequest>': 'vec_TaskInputRequest', 'deque<TaskInputRequest>': 'vec_TaskInputRequest', 'deque<BuildEngineImpl::TaskInputRequest>': 'vec_TaskInputRequest',
              'std::mutex': 'verif_mutex', 'mutex': 'verif_mutex', 'TaskInterface': 'struct TaskInterface',
              'std::condition_variable': 'verif_condvar', 'condition_variable': 'verif_condvar',
              'std::atomic<bool>': '_Bool', 'atomic<bool>': '_Bool', 'Twine': 'const char *',
              'basic::Clock::Timestamp': 'double', 'Clock::Timestamp': 'double'},
    'type_patterns': [(r'vector<(unsigned char|uint8_t)(, allocator<(unsigned char|uint8_t)>)?\s*>', 'vbytes')],
    'by_value': ['struct KeyID', 'struct KeyIDAndFlags', 'vbytes', 'struct CommandSignature', 'struct TaskInterface'],
    'predefined_structs': ['KeyID', 'KeyIDAndFlags', 'DependencyKeyIDs', 'CommandSignature', 'TaskInterface'],
    'struct_extra': {'Rule': '  struct BuildEngineImpl_RuleInfo *g_info;\n  _Bool g_valid;\n', 'Task': '  int g_tstate;\n'},
    'ref_fields': ['BuildEngineImpl::delegate', 'BuildEngineImpl::buildEngine'],
    'drop_if_cond': ['trace'],
    'drop_locals': [r'TracingEngineTaskCallback'],
    'vardecl_overrides': {
        # `auto result = taskInfos.emplace(task, TaskInfo(task)); auto taskInfo = &(result.first)->second;`
        ('BuildEngineImpl_demandRule', 'result'): {'must_contain': ['emplace', 'taskInfos', 'task'], 'emit': ''},
        ('BuildEngineImpl_demandRule', 'taskInfo'): {'must_contain': ['result', 'first', 'second'], 'type': 'BuildEngineImpl::TaskInfo *',
                                                       'emit': 'struct BuildEngineImpl_TaskInfo *taskInfo = verif_taskinfos_emplace(self, task);\n'},
    },
    'vec_types': {'vec_RuleScanRequest': 'struct BuildEngineImpl_RuleScanRequest', 'vec_TaskInfoPtr': 'struct BuildEngineImpl_TaskInfo *',
                  'vec_TaskInputRequest': 'struct BuildEngineImpl_TaskInputRequest'},
    'no_translate': ['cleanSingleUseDependencies', 'newRuleScanRecord', 'BuildEngineImpl::newRuleScanRecord', 'freeRuleScanRecord',
                     'getRuleInfoForKey', 'getTaskInfo', 'error'],
    'calls': {
        'm:DependencyKeyIDs::empty': 'DependencyKeyIDs_empty', 'm:DependencyKeyIDs::size': 'DependencyKeyIDs_size',
        'm:DependencyKeyIDs::clear': 'DependencyKeyIDs_clear', 'o:[]:DependencyKeyIDs': 'DependencyKeyIDs_index',
        'o:!=:CommandSignature': '($o->value != $0.value)', 'o:==:CommandSignature': '($o->value == $0.value)',
        'o:==:@vbytes': 'vbytes_equal', 'o:=:@vbytes': '(*$o = $0)', 'o:=:@_Bool': '(*$o = $0)',
        'fn:now': 'verif_clock_now', 'fn:move': '$0',
        'm:@vec_RuleScanRequest::push_back': ('vec_RuleScanRequest_push_back', 'v'),
        'm:@vec_TaskInfoPtr::push_back': ('vec_TaskInfoPtr_push_back', 'v'),
        'm:@vec_TaskInputRequest::push_back': ('vec_TaskInputRequest_push_back', 'v'),
        'range:@vec_RuleScanRequest': ('vec_RuleScanRequest_size', 'vec_RuleScanRequest_at'),
        'range:@vec_TaskInputRequest': ('vec_TaskInputRequest_size', 'vec_TaskInputRequest_at'),
        'm:@verif_mutex::lock': 'verif_mutex_lock', 'm:@verif_mutex::unlock': 'verif_mutex_unlock',
        'm:@verif_condvar::notify_one': 'verif_notify_one',
        'c:TaskInterface(void *, void *)': 'verif_ti_make',
        'c:Twine(const char *)': '$0',
        'o:=:atomic<bool>': '(*$o = $0)', 'o:=:std::atomic<bool>': '(*$o = $0)',
    },
    'prelude': '#include "models/base.h"\n#include "models/engine.h"\n',
    'after_structs': '#include "models/engine_after.h"\n#include "models/engine_models.h"\n',
    'stubs': {
        'DependencyKeyIDs_cleanSingleUseDependencies': {
            'params': 'struct DependencyKeyIDs *self', 'requires': ['__CPROVER_is_fresh(self, sizeof(*self))'],
            'assigns': ['self->items.len'], 'ensures': ['self->items.len <= OLD(self->items.len)']},
        'Rule_updateStatus': {'params': 'struct Rule *self, struct BuildEngine *engine, Rule_StatusKind status', 'assigns': []},
        'Rule_isResultValid': {'ret': '_Bool', 'params': 'struct Rule *self, struct BuildEngine *engine, vbytes value', 'assigns': [],
                               'ensures': ['(RESULT != 0) == (self->g_valid != 0)']},
        'BuildEngineDelegate_determinedRuleNeedsToRun': {
            'params': 'struct BuildEngineDelegate *self, struct Rule *ruleNeedingToRun, Rule_RunReason reason, struct Rule *inputRule',
            # the reason the engine reports is true of the rule's record at the moment of the report
            'requires': [('P:C02', 'reason == %sNeverBuilt ==> ruleNeedingToRun->g_info->result.builtAt == 0' % RR),
                         ('P:C02,P:C09', 'reason == %sSignatureChanged ==> (ruleNeedingToRun->g_info->result.builtAt != 0 && ruleNeedingToRun->signature.value != ruleNeedingToRun->g_info->result.signature.value)' % RR),
                         ('P:C02', 'reason == %sInvalidValue ==> (ruleNeedingToRun->g_info->result.builtAt != 0 && ruleNeedingToRun->signature.value == ruleNeedingToRun->g_info->result.signature.value && !ruleNeedingToRun->g_valid)' % RR),
                         ('P:C02', 'reason == %sInputRebuilt ==> (inputRule != 0 && ruleNeedingToRun->g_info->result.builtAt < inputRule->g_info->result.computedAt)' % RR),
                         ('P:C02', 'reason != %sForced && ruleNeedingToRun->g_info->state == %sNeedsToRun' % (RR, S))],
            'assigns': ['g_reports', 'g_reason', 'g_report_rule', 'g_report_input'],
            'ensures': ['g_reports == OLD(g_reports) + 1 && g_reason == reason && g_report_rule == ruleNeedingToRun && g_report_input == inputRule']},
        'BuildEngineDelegate_error': {'params': 'struct BuildEngineDelegate *self, const char *message', 'assigns': ['g_errors'], 'ensures': ['g_errors == 1']},
        'Rule_createTask': {
            'ret': 'struct Task *', 'params': 'struct Rule *self, struct BuildEngine *engine',
            # a task is created only for a rule that was found to need to run (and the rule then leaves that state)
            'requires': [('P:C02', 'self->g_info->state == %sNeedsToRun' % S)],
            'assigns': ['g_created'], 'ensures': ['g_created == OLD(g_created) + 1', '__CPROVER_is_fresh(RESULT, sizeof(struct Task))', 'RESULT->g_tstate == 0']},
        'Task_start': {
            'params': 'struct Task *self, struct TaskInterface ti',
            'requires': [('P:C06', 'self->g_tstate == 0 && ti.impl == (void *)g_engine && ti.ctx == (void *)self'),
                         ('P:C02', 'g_new_taskinfo->forRuleInfo->state == %sInProgressWaiting && g_new_taskinfo->forRuleInfo->result.dependencies.items.len == 0' % S)],
            'assigns': ['self->g_tstate'], 'ensures': ['self->g_tstate == 1']},
        'Task_providePriorValue': {
            'params': 'struct Task *self, struct TaskInterface ti, vbytes value',
            # the prior value is offered once, after start, and only if it is the value of the same rule definition
            'requires': [('P:C06', 'self->g_tstate == 1 && ti.impl == (void *)g_engine && ti.ctx == (void *)self'),
                         ('P:C06,P:C09', 'g_new_taskinfo->forRuleInfo->result.builtAt != 0 && g_new_taskinfo->forRuleInfo->rule->signature.value == g_new_taskinfo->forRuleInfo->result.signature.value'),
                         ('P:C06', 'value.ptr == g_new_taskinfo->forRuleInfo->result.value.ptr && value.len == g_new_taskinfo->forRuleInfo->result.value.len')],
            'assigns': ['self->g_tstate'], 'ensures': ['self->g_tstate == 2']},
        'BuildEngineImpl_freeRuleScanRecord': {'params': 'struct BuildEngineImpl *self, struct BuildEngineImpl_RuleScanRecord *r', 'assigns': []},
    },
    'functions': {
        'RuleInfo::isScanning': pred('self->state == %sIsScanning' % S),
        'RuleInfo::isInProgressWaiting': pred('self->state == %sInProgressWaiting' % S),
        'RuleInfo::isInProgressComputing': pred('self->state == %sInProgressComputing' % S),
        'RuleInfo::isInProgress': pred('self->state == %sInProgressWaiting || self->state == %sInProgressComputing' % (S, S)),
        # complete means: marked complete AND brought up to date in the current epoch
        'RuleInfo::isComplete': pred('self->state == %sComplete && self->result.builtAt == engine->currentEpoch' % S,
                                     ['__CPROVER_is_fresh(engine, sizeof(*engine))']),
        'RuleInfo::isScanned': pred('(self->state == %sComplete) ? (self->result.builtAt == engine->currentEpoch) : ((int)self->state > (int)%sIsScanning)' % (S, S),
                                    ['__CPROVER_is_fresh(engine, sizeof(*engine))', 'self->state >= 0 && self->state <= 6']),
        'RuleInfo::setComplete': {
            'requires': ['__CPROVER_is_fresh(self, sizeof(*self))', '__CPROVER_is_fresh(engine, sizeof(*engine))'],
            'assigns': ['self->state', 'self->result.builtAt', 'self->result.end'],
            # (c) builtAt is stamped with the current epoch exactly here; value and computedAt are untouched (frame)
            'ensures': [('P:C01', 'self->state == %sComplete && self->result.builtAt == engine->currentEpoch' % S)],
            'inline_in_callers': True},
        'RuleInfo::setCancelled': {
            'requires': ['__CPROVER_is_fresh(self, sizeof(*self))'], 'assigns': ['self->state'],
            'ensures': [('P:C05', 'self->state == %sIncomplete' % S)], 'inline_in_callers': True},
        'BuildEngineImpl::scanRule': {
            'requires': ENG + rule_ok('ruleInfo') + SCANQ + ['self->ruleInfosToScan.len < self->ruleInfosToScan.cap'],
            # the in-progress pointer is written only when a scan is started (conditional target: callers keep the pointer otherwise)
            'assigns': ['ruleInfo->state', 'ruleInfo->wasForced', ('(ruleInfo->state == %sIncomplete || ruleInfo->state == %sComplete)' % (S, S), 'ruleInfo->inProgressInfo'),
                        'ruleInfo->result.dependencies.items.len',
                        'self->ruleInfosToScan.len', '__CPROVER_object_whole(self->ruleInfosToScan.ptr)', 'g_reports', 'g_reason', 'g_report_rule', 'g_report_input'],
            'ensures': SCAN_ENS,
        },
        'BuildEngineImpl::demandRule': {
            'requires': ENG + rule_ok('ruleInfo') + READYQ + ['self->readyTaskInfos.len < self->readyTaskInfos.cap', '!self->taskInfosMutex.held',
                                                               # the rule has been scanned (asserted in the source; asserts are compiled out)
                                                               SCANNED],
            'assigns': ['ruleInfo->state', ('ruleInfo->state == %sNeedsToRun' % S, 'ruleInfo->inProgressInfo'), 'ruleInfo->result.builtAt', 'ruleInfo->result.end', 'ruleInfo->result.dependencies.items.len',
                        'self->readyTaskInfos.len', '__CPROVER_object_whole(self->readyTaskInfos.ptr)', 'self->taskInfosMutex.held',
                        'g_created', 'g_new_taskinfo'],
            'ensures': DEMAND_ENS,
        },
        'BuildEngineImpl::finishScanRequest': {
            'requires': ['__CPROVER_is_fresh(self, sizeof(*self))'] + SCANQ + ['VEC_OK(self->inputRequests, struct BuildEngineImpl_TaskInputRequest)',
                         '__CPROVER_is_fresh(inputRuleInfo, sizeof(*inputRuleInfo))', 'inputRuleInfo->state == %sIsScanning' % S,
                         '__CPROVER_is_fresh(inputRuleInfo->inProgressInfo.pendingScanRecord, sizeof(struct BuildEngineImpl_RuleScanRecord))',
                         'VEC_OK(inputRuleInfo->inProgressInfo.pendingScanRecord->deferredScanRequests, struct BuildEngineImpl_RuleScanRequest)',
                         'VEC_OK(inputRuleInfo->inProgressInfo.pendingScanRecord->pausedInputRequests, struct BuildEngineImpl_TaskInputRequest)',
                         'self->ruleInfosToScan.cap - self->ruleInfosToScan.len >= inputRuleInfo->inProgressInfo.pendingScanRecord->deferredScanRequests.len',
                         'self->inputRequests.cap - self->inputRequests.len >= inputRuleInfo->inProgressInfo.pendingScanRecord->pausedInputRequests.len',
                         '!self->inputRequestsMutex.held', 'g_k < inputRuleInfo->inProgressInfo.pendingScanRecord->deferredScanRequests.len'],
            'assigns': ['inputRuleInfo->state', 'inputRuleInfo->inProgressInfo', 'self->ruleInfosToScan.len', '__CPROVER_object_whole(self->ruleInfosToScan.ptr)',
                        'self->inputRequests.len', '__CPROVER_object_whole(self->inputRequests.ptr)', 'self->inputRequestsMutex.held'],
            'ensures': [
                ('P:C01,P:C02', 'inputRuleInfo->state == newState && inputRuleInfo->inProgressInfo.pendingScanRecord == 0'),
                # every scan request and input request parked on the rule is woken exactly once, in order (ghost index g_k)
                ('P:C06', 'self->ruleInfosToScan.len == OLD(self->ruleInfosToScan.len) + OLD(inputRuleInfo->inProgressInfo.pendingScanRecord->deferredScanRequests.len)'),
                ('P:C06', 'self->inputRequests.len == OLD(self->inputRequests.len) + OLD(inputRuleInfo->inProgressInfo.pendingScanRecord->pausedInputRequests.len)'),
                ('P:C06', 'self->ruleInfosToScan.ptr[OLD(self->ruleInfosToScan.len) + g_k].ruleInfo == OLD(inputRuleInfo->inProgressInfo.pendingScanRecord)->deferredScanRequests.ptr[g_k].ruleInfo && '
                          'self->ruleInfosToScan.ptr[OLD(self->ruleInfosToScan.len) + g_k].inputIndex == OLD(inputRuleInfo->inProgressInfo.pendingScanRecord)->deferredScanRequests.ptr[g_k].inputIndex'),
                ('P:C06', '!self->inputRequestsMutex.held'),
            ],
            'loops': {
                0: {'assigns': ['__i1', 'self->ruleInfosToScan.len', '__CPROVER_object_whole(self->ruleInfosToScan.ptr)'],
                    'invariant': ['__i1 <= __range1->len && self->ruleInfosToScan.len == __CPROVER_loop_entry(self->ruleInfosToScan.len) + __i1',
                                  'g_k < __i1 ==> (self->ruleInfosToScan.ptr[__CPROVER_loop_entry(self->ruleInfosToScan.len) + g_k].ruleInfo == __range1->ptr[g_k].ruleInfo && '
                                  'self->ruleInfosToScan.ptr[__CPROVER_loop_entry(self->ruleInfosToScan.len) + g_k].inputIndex == __range1->ptr[g_k].inputIndex)'],
                    'decreases': '__range1->len - __i1'},
                1: {'assigns': ['__i2', 'self->inputRequests.len', '__CPROVER_object_whole(self->inputRequests.ptr)'],
                    'invariant': ['__i2 <= __range2->len && self->inputRequests.len == __CPROVER_loop_entry(self->inputRequests.len) + __i2'],
                    'decreases': '__range2->len - __i2'},
            },
        },
        **SCANREQ_VARIANTS,
        'BuildEngineImpl::decrementTaskWaitCount': {
            'requires': ['__CPROVER_is_fresh(self, sizeof(*self))'] + READYQ + ['self->readyTaskInfos.len < self->readyTaskInfos.cap',
                         '__CPROVER_is_fresh(taskInfo, sizeof(*taskInfo))', 'taskInfo->waitCount >= 1'],
            'assigns': ['taskInfo->waitCount', 'self->readyTaskInfos.len', '__CPROVER_object_whole(self->readyTaskInfos.ptr)'],
            # the ready queue receives the task exactly when its last outstanding request is satisfied
            'ensures': [('P:C06', 'taskInfo->waitCount == OLD(taskInfo->waitCount) - 1'),
                        ('P:C06', '(taskInfo->waitCount == 0) ? (self->readyTaskInfos.len == OLD(self->readyTaskInfos.len) + 1 && self->readyTaskInfos.ptr[self->readyTaskInfos.len - 1] == taskInfo) '
                                  ': (self->readyTaskInfos.len == OLD(self->readyTaskInfos.len))')],
        },
        'BuildEngineImpl::taskIsComplete': {
            'requires': ['__CPROVER_is_fresh(self, sizeof(*self))', '__CPROVER_is_fresh(self->delegate, sizeof(*self->delegate))',
                         'VEC_OK(self->finishedTaskInfos, struct BuildEngineImpl_TaskInfo *) && self->finishedTaskInfos.len < self->finishedTaskInfos.cap',
                         '__CPROVER_is_fresh(g_taskinfo, sizeof(*g_taskinfo))'] + rule_ok('g_taskinfo->forRuleInfo') +
                        ['!self->finishedTaskInfosMutex.held && !self->taskInfosMutex.held', 'g_errors == 0 && g_notified == 0',
                         'value.len <= 8 && g_taskinfo->forRuleInfo->result.value.len <= 8',
                         '__CPROVER_is_fresh(value.ptr, 8)', '__CPROVER_is_fresh(g_taskinfo->forRuleInfo->result.value.ptr, 8)'],
            'assigns': ['g_taskinfo->forRuleInfo->result.signature', 'g_taskinfo->forRuleInfo->result.value', 'g_taskinfo->forRuleInfo->result.computedAt',
                        'self->finishedTaskInfos.len', '__CPROVER_object_whole(self->finishedTaskInfos.ptr)', 'self->finishedTaskInfosMutex.held',
                        'self->taskInfosMutex.held', 'self->buildCancelled', 'g_errors', 'g_notified'],
            'ensures': [
                # completion is accepted only from a rule that is computing; anything else cancels the build and changes no result
                ('P:C06', 'g_taskinfo->forRuleInfo->state != %sInProgressComputing ==> (g_errors == 1 && self->buildCancelled && '
                          'g_taskinfo->forRuleInfo->result.computedAt == OLD(g_taskinfo->forRuleInfo->result.computedAt) && self->finishedTaskInfos.len == OLD(self->finishedTaskInfos.len))' % S),
                # (b) computedAt moves to the current epoch exactly when the value changed or a change is forced
                ('P:C01,P:C02', 'g_taskinfo->forRuleInfo->state == %sInProgressComputing ==> '
                                '((forceChange || !g_values_equal) ? (g_taskinfo->forRuleInfo->result.computedAt == self->currentEpoch && g_taskinfo->forRuleInfo->result.value.ptr == value.ptr && g_taskinfo->forRuleInfo->result.value.len == value.len) '
                                ': (g_taskinfo->forRuleInfo->result.computedAt == OLD(g_taskinfo->forRuleInfo->result.computedAt) && g_taskinfo->forRuleInfo->result.value.ptr == OLD(g_taskinfo->forRuleInfo->result.value.ptr)))' % S),
                ('P:C01,P:C09', 'g_taskinfo->forRuleInfo->state == %sInProgressComputing ==> g_taskinfo->forRuleInfo->result.signature.value == g_taskinfo->forRuleInfo->rule->signature.value' % S),
                # the finished task is queued under its mutex and the engine loop is woken afterwards
                ('P:C06', 'g_taskinfo->forRuleInfo->state == %sInProgressComputing ==> (self->finishedTaskInfos.len == OLD(self->finishedTaskInfos.len) + 1 && '
                          'self->finishedTaskInfos.ptr[self->finishedTaskInfos.len - 1] == g_taskinfo && g_notified == 1)' % S),
                ('P:C06', '!self->finishedTaskInfosMutex.held && !self->taskInfosMutex.held'),
                # builtAt is not touched by a completion (it is stamped when the engine loop finishes the task)
                ('P:C01', 'g_taskinfo->forRuleInfo->result.builtAt == OLD(g_taskinfo->forRuleInfo->result.builtAt)'),
            ],
        },
    },
}


def _views(x):
    """contract text uses X->inProgressInfo.pendingScanRecord / .pendingTaskInfo; the union is lowered to one cell with typed views"""
    import re as _re
    if isinstance(x, str):
        x = _re.sub(r'([A-Za-z_][A-Za-z0-9_]*(?:->[A-Za-z_][A-Za-z0-9_]*)*)->inProgressInfo\.pendingScanRecord', r'PSR(\1)', x)
        x = _re.sub(r'([A-Za-z_][A-Za-z0-9_]*(?:->[A-Za-z_][A-Za-z0-9_]*)*)->inProgressInfo\.pendingTaskInfo', r'PTI(\1)', x)
        return x
    if isinstance(x, tuple):
        return tuple(_views(i) for i in x)
    if isinstance(x, list):
        return [_views(i) for i in x]
    if isinstance(x, dict):
        return {k: (_views(v) if k in ('requires', 'assigns', 'ensures', 'loops', 'invariant', 'functions', 'stubs') or isinstance(k, int) or '::' in str(k) or str(k).startswith(('BuildEngine', 'Rule', 'Task', 'Dependency')) else v) for k, v in x.items()}
    return x


UNIT = _views(UNIT)
