"""U-eng-*: BuildEngineImpl in lib/Core/BuildEngine.cpp (C01, C02, C05, C06, C09).

Ghost state (never written by translated code; only by the stubs that stand for virtual callees):
  Rule.g_info    back pointer from a client rule to the engine's record of it (data-structure invariant)
  Rule.g_valid   the (pure) answer Rule::isResultValid gives for the stored value
  Task.g_tstate  protocol automaton of the task: 0 new, 1 started, 2 prior value provided, 3 inputs available
  g_reports / g_reason / g_report_rule / g_report_input   what was last reported to the delegate
  g_created      number of tasks created
"""
S = 'BuildEngineImpl_RuleInfo_StateKind_'
RR = 'Rule_RunReason_'
RIT = 'struct BuildEngineImpl_RuleInfo'


def rule_ok(ri):
    return ['__CPROVER_is_fresh(%s, sizeof(*%s))' % (ri, ri), '__CPROVER_is_fresh(%s->rule, sizeof(*%s->rule))' % (ri, ri),
            '__CPROVER_pointer_in_range_dfcc(%s, %s->rule->g_info, %s)' % (ri, ri, ri),
            '%s->state >= 0 && %s->state <= 6' % (ri, ri),
            'VEC_OK(%s->result.dependencies.items, struct KeyIDAndFlags)' % ri]


ENG = ['__CPROVER_is_fresh(self, sizeof(*self))', '__CPROVER_is_fresh(self->delegate, sizeof(*self->delegate))',
       '__CPROVER_is_fresh(self->buildEngine, sizeof(*self->buildEngine))', 'g_engine == self']
SCANQ = ['VEC_OK(self->ruleInfosToScan, struct BuildEngineImpl_RuleScanRequest)']
READYQ = ['VEC_OK(self->readyTaskInfos, struct BuildEngineImpl_TaskInfo *)']


def pred(body, extra=()):
    return {'requires': ['__CPROVER_is_fresh(self, sizeof(*self))'] + list(extra), 'assigns': [],
            'ensures': [('P:C01,P:C02', '(RESULT != 0) == (%s)' % body)], 'inline_in_callers': True}


SCANNED = ('(ruleInfo->state == %sNeedsToRun || ruleInfo->state == %sDoesNotNeedToRun || ruleInfo->state == %sInProgressWaiting || '
           'ruleInfo->state == %sInProgressComputing || (ruleInfo->state == %sComplete && ruleInfo->result.builtAt == self->currentEpoch))' % (S, S, S, S, S))

# scanRule: the decision, shared by C01 / C02 / C09
SCAN_ENS = [
    ('P:C02', '(OLD(ruleInfo->state) == %sIsScanning) ==> (RESULT == 0 && ruleInfo->state == %sIsScanning && g_reports == OLD(g_reports))' % (S, S)),
    ('P:C02', '(OLD(ruleInfo->state) > %sIsScanning && !(OLD(ruleInfo->state) == %sComplete && ruleInfo->result.builtAt != self->currentEpoch)) ==> '
              '(RESULT != 0 && ruleInfo->state == OLD(ruleInfo->state) && g_reports == OLD(g_reports))' % (S, S)),
    ('P:C01,P:C02', '((OLD(ruleInfo->state) == %sIncomplete || (OLD(ruleInfo->state) == %sComplete && ruleInfo->result.builtAt != self->currentEpoch)) && ruleInfo->result.builtAt == 0) ==> '
                    '(RESULT != 0 && ruleInfo->state == %sNeedsToRun && g_reports == OLD(g_reports) + 1 && g_reason == %sNeverBuilt && g_report_rule == ruleInfo->rule)' % (S, S, S, RR)),
    ('P:C01,P:C02,P:C09', '((OLD(ruleInfo->state) == %sIncomplete || (OLD(ruleInfo->state) == %sComplete && ruleInfo->result.builtAt != self->currentEpoch)) && ruleInfo->result.builtAt != 0 && '
                          'ruleInfo->rule->signature.value != ruleInfo->result.signature.value) ==> '
                          '(RESULT != 0 && ruleInfo->state == %sNeedsToRun && g_reports == OLD(g_reports) + 1 && g_reason == %sSignatureChanged && g_report_rule == ruleInfo->rule)' % (S, S, S, RR)),
    ('P:C01,P:C02', '((OLD(ruleInfo->state) == %sIncomplete || (OLD(ruleInfo->state) == %sComplete && ruleInfo->result.builtAt != self->currentEpoch)) && ruleInfo->result.builtAt != 0 && '
                    'ruleInfo->rule->signature.value == ruleInfo->result.signature.value && !ruleInfo->rule->g_valid) ==> '
                    '(RESULT != 0 && ruleInfo->state == %sNeedsToRun && g_reports == OLD(g_reports) + 1 && g_reason == %sInvalidValue && g_report_rule == ruleInfo->rule)' % (S, S, S, RR)),
    # declared up to date without a dependency scan only when nothing is recorded to scan; nothing is reported
    ('P:C01,P:C02', '(ruleInfo->state == %sDoesNotNeedToRun && OLD(ruleInfo->state) != %sDoesNotNeedToRun) ==> '
                    '(ruleInfo->result.builtAt != 0 && ruleInfo->rule->signature.value == ruleInfo->result.signature.value && ruleInfo->rule->g_valid && '
                    'ruleInfo->result.dependencies.items.len == 0 && g_reports == OLD(g_reports))' % (S, S)),
    # otherwise a dependency scan starting at index 0 is queued
    ('P:C01', '(ruleInfo->state == %sIsScanning && OLD(ruleInfo->state) != %sIsScanning) ==> '
              '(RESULT == 0 && ruleInfo->result.builtAt != 0 && ruleInfo->rule->signature.value == ruleInfo->result.signature.value && ruleInfo->rule->g_valid && '
              'self->ruleInfosToScan.len == OLD(self->ruleInfosToScan.len) + 1 && g_reports == OLD(g_reports) && '
              'self->ruleInfosToScan.ptr[self->ruleInfosToScan.len - 1].ruleInfo == ruleInfo && self->ruleInfosToScan.ptr[self->ruleInfosToScan.len - 1].inputIndex == 0 && '
              'self->ruleInfosToScan.ptr[self->ruleInfosToScan.len - 1].inputRuleInfo == 0 && ruleInfo->result.dependencies.items.len != 0)' % (S, S)),
    ('P:C01', 'ruleInfo->state == OLD(ruleInfo->state) || ruleInfo->state == %sNeedsToRun || ruleInfo->state == %sDoesNotNeedToRun || ruleInfo->state == %sIsScanning' % (S, S, S)),
]

DEMAND_ENS = [
    ('P:C02', '(OLD(ruleInfo->state) == %sComplete || OLD(ruleInfo->state) == %sInProgressWaiting || OLD(ruleInfo->state) == %sInProgressComputing) ==> '
              '(ruleInfo->state == OLD(ruleInfo->state) && g_created == OLD(g_created) && ruleInfo->result.builtAt == OLD(ruleInfo->result.builtAt) && (RESULT != 0) == (OLD(ruleInfo->state) == %sComplete))' % (S, S, S, S)),
    # an up-to-date rule is completed without a task; builtAt is stamped, value / computedAt / dependencies are kept (frame)
    ('P:C01,P:C02', 'OLD(ruleInfo->state) == %sDoesNotNeedToRun ==> (RESULT != 0 && ruleInfo->state == %sComplete && ruleInfo->result.builtAt == self->currentEpoch && g_created == OLD(g_created) && '
                    'ruleInfo->result.dependencies.items.len == OLD(ruleInfo->result.dependencies.items.len))' % (S, S)),
    # a rule that needs to run gets exactly one task, waits, and its recorded dependencies start empty
    ('P:C01,P:C02,P:C06', 'OLD(ruleInfo->state) == %sNeedsToRun ==> (RESULT == 0 && ruleInfo->state == %sInProgressWaiting && g_created == OLD(g_created) + 1 && '
                          'ruleInfo->result.dependencies.items.len == 0 && ruleInfo->result.builtAt == OLD(ruleInfo->result.builtAt) && g_new_taskinfo->forRuleInfo == ruleInfo && '
                          'ruleInfo->inProgressInfo.pendingTaskInfo == g_new_taskinfo && g_new_taskinfo->task->g_tstate >= 1)' % (S, S)),
    # the prior value is offered exactly when one exists for the same rule definition
    ('P:C06,P:C09', 'OLD(ruleInfo->state) == %sNeedsToRun ==> ((g_new_taskinfo->task->g_tstate == 2) == (ruleInfo->result.builtAt != 0 && ruleInfo->rule->signature.value == ruleInfo->result.signature.value))' % S),
    # a task without outstanding requests is queued as ready exactly once
    ('P:C06', 'OLD(ruleInfo->state) == %sNeedsToRun ==> ((g_new_taskinfo->waitCount == 0) ? (self->readyTaskInfos.len == OLD(self->readyTaskInfos.len) + 1 && self->readyTaskInfos.ptr[self->readyTaskInfos.len - 1] == g_new_taskinfo) '
              ': self->readyTaskInfos.len == OLD(self->readyTaskInfos.len))' % S),
    ('P:C06', '!self->taskInfosMutex.held'),
    ('P:C01', 'OLD(ruleInfo->state) != %sNeedsToRun ==> (g_created == OLD(g_created) && self->readyTaskInfos.len == OLD(self->readyTaskInfos.len))' % S),
]

UNIT = {
    'name': 'engine',
    'source': 'lib/Core/BuildEngine.cpp',
    'dumps': ['BuildEngineImpl', 'core::Result'],
    'full_structs': ['Result', 'BuildEngineImpl::TaskInfo', 'BuildEngineImpl::RuleInfo', 'BuildEngineImpl::RuleScanRequest',
                     'BuildEngineImpl::TaskInputRequest', 'BuildEngineImpl::RuleScanRecord'],
    'types': {'KeyID': 'struct KeyID', 'DependencyKeyIDs::KeyIDAndFlags': 'struct KeyIDAndFlags', 'KeyIDAndFlags': 'struct KeyIDAndFlags',
              'ValueType': 'vbytes', 'std::vector<uint8_t>': 'vbytes', 'Epoch': 'uint64_t',
              'std::vector<RuleScanRequest>': 'vec_RuleScanRequest', 'vector<RuleScanRequest>': 'vec_RuleScanRequest',
              'std::vector<BuildEngineImpl::RuleScanRequest>': 'vec_RuleScanRequest', 'vector<BuildEngineImpl::RuleScanRequest>': 'vec_RuleScanRequest',
              'std::deque<TaskInfo *>': 'vec_TaskInfoPtr', 'deque<TaskInfo *>': 'vec_TaskInfoPtr', 'deque<BuildEngineImpl::TaskInfo *>': 'vec_TaskInfoPtr',
              'std::vector<TaskInfo *>': 'vec_TaskInfoPtr', 'vector<TaskInfo *>': 'vec_TaskInfoPtr', 'vector<BuildEngineImpl::TaskInfo *>': 'vec_TaskInfoPtr',
              'std::vector<TaskInputRequest>': 'vec_TaskInputRequest', 'vector<TaskInputRequest>': 'vec_TaskInputRequest', 'vector<BuildEngineImpl::TaskInputRequest>': 'vec_TaskInputRequest',
              'std::deque<TaskInputRequest>': 'vec_TaskInputRequest', 'deque<TaskInputRequest>': 'vec_TaskInputRequest', 'deque<BuildEngineImpl::TaskInputRequest>': 'vec_TaskInputRequest',
              'std::mutex': 'verif_mutex', 'mutex': 'verif_mutex', 'TaskInterface': 'struct TaskInterface',
              'std::condition_variable': 'verif_condvar', 'condition_variable': 'verif_condvar',
              'std::atomic<bool>': '_Bool', 'atomic<bool>': '_Bool', 'Twine': 'const char *',
              'basic::Clock::Timestamp': 'double', 'Clock::Timestamp': 'double'},
    'type_patterns': [(r'vector<(unsigned char|uint8_t)(, allocator<(unsigned char|uint8_t)>)?\s*>', 'vbytes')],
    'by_value': ['struct KeyID', 'struct KeyIDAndFlags', 'vbytes', 'struct CommandSignature', 'struct TaskInterface'],
    'predefined_structs': ['KeyID', 'KeyIDAndFlags', 'DependencyKeyIDs', 'CommandSignature', 'TaskInterface'],
    'struct_extra': {'Rule': '  struct BuildEngineImpl_RuleInfo *g_info;\n  _Bool g_valid;\n', 'Task': '  int g_tstate;\n'},
    'ref_fields': ['BuildEngineImpl::delegate', 'BuildEngineImpl::buildEngine'],
    'drop_if_cond': ['trace'],
    'drop_locals': [r'TracingEngineTaskCallback'],
    'vardecl_overrides': {
        # `auto result = taskInfos.emplace(task, TaskInfo(task)); auto taskInfo = &(result.first)->second;`
        ('BuildEngineImpl_demandRule', 'result'): {'must_contain': ['emplace', 'taskInfos', 'task'], 'emit': ''},
        ('BuildEngineImpl_demandRule', 'taskInfo'): {'must_contain': ['result', 'first', 'second'], 'type': 'BuildEngineImpl::TaskInfo *',
                                                       'emit': 'struct BuildEngineImpl_TaskInfo *taskInfo = verif_taskinfos_emplace(self, task);\n'},
    },
    'vec_types': {'vec_RuleScanRequest': 'struct BuildEngineImpl_RuleScanRequest', 'vec_TaskInfoPtr': 'struct BuildEngineImpl_TaskInfo *',
                  'vec_TaskInputRequest': 'struct BuildEngineImpl_TaskInputRequest'},
    'no_translate': ['cleanSingleUseDependencies', 'newRuleScanRecord', 'BuildEngineImpl::newRuleScanRecord', 'freeRuleScanRecord',
                     'getRuleInfoForKey', 'getTaskInfo', 'error'],
    'calls': {
        'm:DependencyKeyIDs::empty': 'DependencyKeyIDs_empty', 'm:DependencyKeyIDs::size': 'DependencyKeyIDs_size',
        'm:DependencyKeyIDs::clear': 'DependencyKeyIDs_clear', 'o:[]:DependencyKeyIDs': 'DependencyKeyIDs_index',
        'o:!=:CommandSignature': '($o->value != $0.value)', 'o:==:CommandSignature': '($o->value == $0.value)',
        'o:==:@vbytes': 'vbytes_equal', 'o:=:@vbytes': '(*$o = $0)', 'o:=:@_Bool': '(*$o = $0)',
        'fn:now': 'verif_clock_now', 'fn:move': '$0',
        'm:@vec_RuleScanRequest::push_back': ('vec_RuleScanRequest_push_back', 'v'),
        'm:@vec_TaskInfoPtr::push_back': ('vec_TaskInfoPtr_push_back', 'v'),
        'm:@vec_TaskInputRequest::push_back': ('vec_TaskInputRequest_push_back', 'v'),
        'range:vec_RuleScanRequest': ('vec_RuleScanRequest_size', 'vec_RuleScanRequest_at'),
        'range:vec_TaskInputRequest': ('vec_TaskInputRequest_size', 'vec_TaskInputRequest_at'),
        'm:@verif_mutex::lock': 'verif_mutex_lock', 'm:@verif_mutex::unlock': 'verif_mutex_unlock',
        'm:@verif_condvar::notify_one': 'verif_notify_one',
        'c:TaskInterface(void *, void *)': 'verif_ti_make',
        'c:Twine(const char *)': '$0',
        'o:=:atomic<bool>': '(*$o = $0)', 'o:=:std::atomic<bool>': '(*$o = $0)',
    },
    'prelude': '#include "models/base.h"\n#include "models/engine.h"\n',
    'after_structs': '#include "models/engine_after.h"\n',
    'stubs': {
        'DependencyKeyIDs_cleanSingleUseDependencies': {
            'params': 'struct DependencyKeyIDs *self', 'requires': ['__CPROVER_is_fresh(self, sizeof(*self))'],
            'assigns': ['self->items.len'], 'ensures': ['self->items.len <= OLD(self->items.len)']},
        'Rule_updateStatus': {'params': 'struct Rule *self, struct BuildEngine *engine, Rule_StatusKind status', 'assigns': []},
        'Rule_isResultValid': {'ret': '_Bool', 'params': 'struct Rule *self, struct BuildEngine *engine, vbytes value', 'assigns': [],
                               'ensures': ['(RESULT != 0) == (self->g_valid != 0)']},
        'BuildEngineDelegate_determinedRuleNeedsToRun': {
            'params': 'struct BuildEngineDelegate *self, struct Rule *ruleNeedingToRun, Rule_RunReason reason, struct Rule *inputRule',
            # the reason the engine reports is true of the rule's record at the moment of the report
            'requires': [('P:C02', 'reason == %sNeverBuilt ==> ruleNeedingToRun->g_info->result.builtAt == 0' % RR),
                         ('P:C02,P:C09', 'reason == %sSignatureChanged ==> (ruleNeedingToRun->g_info->result.builtAt != 0 && ruleNeedingToRun->signature.value != ruleNeedingToRun->g_info->result.signature.value)' % RR),
                         ('P:C02', 'reason == %sInvalidValue ==> (ruleNeedingToRun->g_info->result.builtAt != 0 && ruleNeedingToRun->signature.value == ruleNeedingToRun->g_info->result.signature.value && !ruleNeedingToRun->g_valid)' % RR),
                         ('P:C02', 'reason == %sInputRebuilt ==> (inputRule != 0 && ruleNeedingToRun->g_info->result.builtAt < inputRule->g_info->result.computedAt)' % RR),
                         ('P:C02', 'reason != %sForced && ruleNeedingToRun->g_info->state == %sNeedsToRun' % (RR, S))],
            'assigns': ['g_reports', 'g_reason', 'g_report_rule', 'g_report_input'],
            'ensures': ['g_reports == OLD(g_reports) + 1 && g_reason == reason && g_report_rule == ruleNeedingToRun && g_report_input == inputRule']},
        'BuildEngineDelegate_error': {'params': 'struct BuildEngineDelegate *self, const char *message', 'assigns': ['g_errors'], 'ensures': ['g_errors == 1']},
        'Rule_createTask': {
            'ret': 'struct Task *', 'params': 'struct Rule *self, struct BuildEngine *engine',
            # a task is created only for a rule that was found to need to run (and the rule then leaves that state)
            'requires': [('P:C02', 'self->g_info->state == %sNeedsToRun' % S)],
            'assigns': ['g_created'], 'ensures': ['g_created == OLD(g_created) + 1', '__CPROVER_is_fresh(RESULT, sizeof(struct Task))', 'RESULT->g_tstate == 0']},
        'Task_start': {
            'params': 'struct Task *self, struct TaskInterface ti',
            'requires': [('P:C06', 'self->g_tstate == 0 && ti.impl == (void *)g_engine && ti.ctx == (void *)self'),
                         ('P:C02', 'g_new_taskinfo->forRuleInfo->state == %sInProgressWaiting && g_new_taskinfo->forRuleInfo->result.dependencies.items.len == 0' % S)],
            'assigns': ['self->g_tstate'], 'ensures': ['self->g_tstate == 1']},
        'Task_providePriorValue': {
            'params': 'struct Task *self, struct TaskInterface ti, vbytes value',
            # the prior value is offered once, after start, and only if it is the value of the same rule definition
            'requires': [('P:C06', 'self->g_tstate == 1 && ti.impl == (void *)g_engine && ti.ctx == (void *)self'),
                         ('P:C06,P:C09', 'g_new_taskinfo->forRuleInfo->result.builtAt != 0 && g_new_taskinfo->forRuleInfo->rule->signature.value == g_new_taskinfo->forRuleInfo->result.signature.value'),
                         ('P:C06', 'value.ptr == g_new_taskinfo->forRuleInfo->result.value.ptr && value.len == g_new_taskinfo->forRuleInfo->result.value.len')],
            'assigns': ['self->g_tstate'], 'ensures': ['self->g_tstate == 2']},
        'BuildEngineImpl_newRuleScanRecord': {
            'ret': 'struct BuildEngineImpl_RuleScanRecord *', 'params': 'struct BuildEngineImpl *self',
            'assigns': [], 'ensures': ['__CPROVER_is_fresh(RESULT, sizeof(struct BuildEngineImpl_RuleScanRecord))']},
        'BuildEngineImpl_freeRuleScanRecord': {'params': 'struct BuildEngineImpl *self, struct BuildEngineImpl_RuleScanRecord *r', 'assigns': []},
    },
    'functions': {
        'RuleInfo::isScanning': pred('self->state == %sIsScanning' % S),
        'RuleInfo::isInProgressWaiting': pred('self->state == %sInProgressWaiting' % S),
        'RuleInfo::isInProgressComputing': pred('self->state == %sInProgressComputing' % S),
        'RuleInfo::isInProgress': pred('self->state == %sInProgressWaiting || self->state == %sInProgressComputing' % (S, S)),
        # complete means: marked complete AND brought up to date in the current epoch
        'RuleInfo::isComplete': pred('self->state == %sComplete && self->result.builtAt == engine->currentEpoch' % S,
                                     ['__CPROVER_is_fresh(engine, sizeof(*engine))']),
        'RuleInfo::isScanned': pred('(self->state == %sComplete) ? (self->result.builtAt == engine->currentEpoch) : ((int)self->state > (int)%sIsScanning)' % (S, S),
                                    ['__CPROVER_is_fresh(engine, sizeof(*engine))', 'self->state >= 0 && self->state <= 6']),
        'RuleInfo::setComplete': {
            'requires': ['__CPROVER_is_fresh(self, sizeof(*self))', '__CPROVER_is_fresh(engine, sizeof(*engine))'],
            'assigns': ['self->state', 'self->result.builtAt', 'self->result.end'],
            # (c) builtAt is stamped with the current epoch exactly here; value and computedAt are untouched (frame)
            'ensures': [('P:C01', 'self->state == %sComplete && self->result.builtAt == engine->currentEpoch' % S)],
            'inline_in_callers': True},
        'RuleInfo::setCancelled': {
            'requires': ['__CPROVER_is_fresh(self, sizeof(*self))'], 'assigns': ['self->state'],
            'ensures': [('P:C05', 'self->state == %sIncomplete' % S)], 'inline_in_callers': True},
        'BuildEngineImpl::scanRule': {
            'requires': ENG + rule_ok('ruleInfo') + SCANQ + ['self->ruleInfosToScan.len < self->ruleInfosToScan.cap'],
            'assigns': ['ruleInfo->state', 'ruleInfo->wasForced', 'ruleInfo->inProgressInfo', 'ruleInfo->result.dependencies.items.len',
                        'self->ruleInfosToScan.len', '__CPROVER_object_whole(self->ruleInfosToScan.ptr)', 'g_reports', 'g_reason', 'g_report_rule', 'g_report_input'],
            'ensures': SCAN_ENS,
        },
        'BuildEngineImpl::demandRule': {
            'requires': ENG + rule_ok('ruleInfo') + READYQ + ['self->readyTaskInfos.len < self->readyTaskInfos.cap', '!self->taskInfosMutex.held',
                                                               # the rule has been scanned (asserted in the source; asserts are compiled out)
                                                               SCANNED],
            'assigns': ['ruleInfo->state', 'ruleInfo->inProgressInfo', 'ruleInfo->result.builtAt', 'ruleInfo->result.end', 'ruleInfo->result.dependencies.items.len',
                        'self->readyTaskInfos.len', '__CPROVER_object_whole(self->readyTaskInfos.ptr)', 'self->taskInfosMutex.held',
                        'g_created', 'g_new_taskinfo'],
            'ensures': DEMAND_ENS,
        },
        'BuildEngineImpl::decrementTaskWaitCount': {
            'requires': ['__CPROVER_is_fresh(self, sizeof(*self))'] + READYQ + ['self->readyTaskInfos.len < self->readyTaskInfos.cap',
                         '__CPROVER_is_fresh(taskInfo, sizeof(*taskInfo))', 'taskInfo->waitCount >= 1'],
            'assigns': ['taskInfo->waitCount', 'self->readyTaskInfos.len', '__CPROVER_object_whole(self->readyTaskInfos.ptr)'],
            # the ready queue receives the task exactly when its last outstanding request is satisfied
            'ensures': [('P:C06', 'taskInfo->waitCount == OLD(taskInfo->waitCount) - 1'),
                        ('P:C06', '(taskInfo->waitCount == 0) ? (self->readyTaskInfos.len == OLD(self->readyTaskInfos.len) + 1 && self->readyTaskInfos.ptr[self->readyTaskInfos.len - 1] == taskInfo) '
                                  ': (self->readyTaskInfos.len == OLD(self->readyTaskInfos.len))')],
        },
        'BuildEngineImpl::taskIsComplete': {
            'requires': ['__CPROVER_is_fresh(self, sizeof(*self))', '__CPROVER_is_fresh(self->delegate, sizeof(*self->delegate))',
                         'VEC_OK(self->finishedTaskInfos, struct BuildEngineImpl_TaskInfo *) && self->finishedTaskInfos.len < self->finishedTaskInfos.cap',
                         '__CPROVER_is_fresh(g_taskinfo, sizeof(*g_taskinfo))'] + rule_ok('g_taskinfo->forRuleInfo') +
                        ['!self->finishedTaskInfosMutex.held && !self->taskInfosMutex.held', 'g_errors == 0 && g_notified == 0',
                         'value.len <= 8 && g_taskinfo->forRuleInfo->result.value.len <= 8',
                         '__CPROVER_is_fresh(value.ptr, 8)', '__CPROVER_is_fresh(g_taskinfo->forRuleInfo->result.value.ptr, 8)'],
            'assigns': ['g_taskinfo->forRuleInfo->result.signature', 'g_taskinfo->forRuleInfo->result.value', 'g_taskinfo->forRuleInfo->result.computedAt',
                        'self->finishedTaskInfos.len', '__CPROVER_object_whole(self->finishedTaskInfos.ptr)', 'self->finishedTaskInfosMutex.held',
                        'self->taskInfosMutex.held', 'self->buildCancelled', 'g_errors', 'g_notified'],
            'ensures': [
                # completion is accepted only from a rule that is computing; anything else cancels the build and changes no result
                ('P:C06', 'g_taskinfo->forRuleInfo->state != %sInProgressComputing ==> (g_errors == 1 && self->buildCancelled && '
                          'g_taskinfo->forRuleInfo->result.computedAt == OLD(g_taskinfo->forRuleInfo->result.computedAt) && self->finishedTaskInfos.len == OLD(self->finishedTaskInfos.len))' % S),
                # (b) computedAt moves to the current epoch exactly when the value changed or a change is forced
                ('P:C01,P:C02', 'g_taskinfo->forRuleInfo->state == %sInProgressComputing ==> '
                                '((forceChange || !g_values_equal) ? (g_taskinfo->forRuleInfo->result.computedAt == self->currentEpoch && g_taskinfo->forRuleInfo->result.value.ptr == value.ptr && g_taskinfo->forRuleInfo->result.value.len == value.len) '
                                ': (g_taskinfo->forRuleInfo->result.computedAt == OLD(g_taskinfo->forRuleInfo->result.computedAt) && g_taskinfo->forRuleInfo->result.value.ptr == OLD(g_taskinfo->forRuleInfo->result.value.ptr)))' % S),
                ('P:C01,P:C09', 'g_taskinfo->forRuleInfo->state == %sInProgressComputing ==> g_taskinfo->forRuleInfo->result.signature.value == g_taskinfo->forRuleInfo->rule->signature.value' % S),
                # the finished task is queued under its mutex and the engine loop is woken afterwards
                ('P:C06', 'g_taskinfo->forRuleInfo->state == %sInProgressComputing ==> (self->finishedTaskInfos.len == OLD(self->finishedTaskInfos.len) + 1 && '
                          'self->finishedTaskInfos.ptr[self->finishedTaskInfos.len - 1] == g_taskinfo && g_notified == 1)' % S),
                ('P:C06', '!self->finishedTaskInfosMutex.held && !self->taskInfosMutex.held'),
                # builtAt is not touched by a completion (it is stamped when the engine loop finishes the task)
                ('P:C01', 'g_taskinfo->forRuleInfo->result.builtAt == OLD(g_taskinfo->forRuleInfo->result.builtAt)'),
            ],
        },
    },
}
