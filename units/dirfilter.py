"""U-dir-filter: FilteredDirectoryContentsTask::getFilteredContents (lib/BuildSystem/BuildSystem.cpp) -- C12: which entries of a
directory make up its filtered listing."""


def _peel(n):
    while n.get('kind') in ('ImplicitCastExpr', 'ParenExpr', 'MaterializeTemporaryExpr', 'CXXBindTemporaryExpr', 'ExprWithCleanups') and n.get('inner'):
        n = n['inner'][0]
    return n


def _sort(tr, n, obj, args, argnodes):
    a = _peel(argnodes[0])
    while a.get('kind') == 'CXXConstructExpr' and len(a.get('inner', [])) == 1:
        a = _peel(a['inner'][0])
    if a.get('kind') == 'CXXMemberCallExpr' and a['inner'][0].get('name') == 'begin':
        tr.dropped.add('the comparison lambda of std::sort in getFilteredContents (plain operator< on strings)')
        return 'names_sort(%s)' % tr.addr(tr.expr(a['inner'][0]['inner'][0]))
    raise Exception('std::sort is not over a whole container')


def _dbegin(tr, n, obj, args, argnodes):
    return 'diter_begin(%s)' % tr.addr(tr.expr(argnodes[1]))


def _pstr_cstr(tr, n, obj, args, argnodes):
    return 'pstr_of_cstr(%s)' % tr.expr(argnodes[0])


EXCL = '((g_npat > 0 && g_match[g_k][0]) || (g_npat > 1 && g_match[g_k][1]) || (g_npat > 2 && g_match[g_k][2]))'
UNIT = {
    'name': 'dirfilter',
    'source': 'lib/BuildSystem/BuildSystem.cpp',
    'dumps': ['FilteredDirectoryContentsTask'],
    'types': {'StringRef': 'strref', 'std::string': 'pstr', 'string': 'pstr', 'basic_string<char>': 'pstr', 'std::error_code': 'struct errc', 'error_code': 'struct errc',
              'Twine': 'strref', 'llvm::Twine': 'strref'},
    'type_patterns': [(r'(std::)?vector<(std::)?(basic_string<char>|string).*>', 'vec_pstr'), (r'(std::)?vector<(llvm::)?StringRef.*>', 'vec_pat'),
                      (r'(llvm::)?(sys::)?(fs::)?directory_iterator', 'struct diter'), (r'(llvm::)?(sys::)?(fs::)?directory_entry', 'struct dentry')],
    'by_value': ['strref', 'pstr', 'struct errc', 'struct diter', 'vec_pat'],
    'predefined_structs': ['errc', 'diter', 'dentry'],
    'no_translate': ['getValues', 'increment', 'path', 'filename', 'filenameMatch', 'sort'],
    'globals': {'MATCH': '0'},
    'calls': {
        'm:StringList::getValues': 'verif_patterns', 'm:@struct diter::increment': ('diter_increment', 'p'), 'o:!=:@struct diter': '($o->i != $0.i)', 'o:->:@struct diter': 'diter_entry',
        'o:=:@struct diter': '(*$o = $0)', 'm:@struct dentry::path': 'dentry_path', 'fn:filename': 'path_filename($0)', 'fn:filenameMatch': 'verif_fnmatch',
        'm:@strref::data': '($o->ptr)', 'm:@pstr::c_str': '($o->ptr)', 'm:@vec_pstr::push_back': ('names_push', 'v'), 'fn:sort': _sort,
        'range:@vec_pat': ('vec_pat_size', 'vec_pat_at'), 'm:@struct errc::operator bool': '($o->v != 0)',
    },
    'call_patterns': [(r'c:(fs::)?directory_iterator\(.*error_code.*\)', _dbegin), (r'c:(fs::)?directory_iterator\(\)', 'diter_end'), (r'c:(fs::)?directory_iterator/0', 'diter_end'),
                      (r'c:(fs::)?directory_iterator\((const )?(llvm::)?(sys::)?(fs::)?directory_iterator &+\)', '$0'),
                      (r'c:(basic_string<char>|string|std::string)\(.*StringRef.*\)', 'pstr_of_ref'), (r'm:StringRef::operator .*string.*', 'pstr_of_ref(*$o)'), (r'm:@strref::operator .*', 'pstr_of_ref(*$o)'),
                      (r'c:StringRef\(const (std::)?(string|basic_string<char>) &\)', 'pstr_ref'), (r'c:Twine\(.*\)', '$0'), (r'c:(basic_string<char>|string|std::string)\(const char \*.*\)', _pstr_cstr),
                      (r'c:(basic_string<char>|string|std::string)\(const (basic_string<char>|string|std::string) &\)', '$0'), (r'c:error_code\(\)', 'errc_zero'), (r'c:error_code/0', 'errc_zero'),
                      (r'c:(std::)?error_code\((const )?(std::)?error_code &+\)', '$0')],
    'prelude': '#include "models/base.h"\n#include "models/vec.h"\n#include "models/dirfilter.h"\n',
    'after_structs': 'static inline vec_pat verif_patterns(const void *filters) { static strref pats[NP]; vec_pat v; pats[0].ptr = g_pats[0]; pats[1].ptr = g_pats[1]; pats[2].ptr = g_pats[2]; v.ptr = pats; v.len = g_npat; v.cap = NP; return v; }\n',
    'functions': {
        'FilteredDirectoryContentsTask::getFilteredContents': {
            'requires': ['__CPROVER_is_fresh(filters, 1)', '__CPROVER_is_fresh(filenames, sizeof(*filenames))', 'VEC_OKN(*filenames, pstr, 8) && filenames->len == 0',
                         'g_n <= NE && g_npat <= NP && g_k < NE', 'g_listed[0] == 0 && g_listed[1] == 0 && g_listed[2] == 0 && g_listed[3] == 0 && g_sorts == 0'],
            'assigns': ['filenames->len', '__CPROVER_object_whole(filenames->ptr)', '__CPROVER_object_whole(g_listed)', 'g_sorts'],
            'ensures': [
                # an entry the iteration reached is listed exactly once if no pattern matches its name, and not at all if one does -- independently of the other entries
                ('P:C12', '(g_k < g_n && !g_error_at[0] && !(g_k >= 1 && g_error_at[1]) && !(g_k >= 2 && g_error_at[2]) && !(g_k >= 3 && g_error_at[3])) ==> g_listed[g_k] == (%s ? 0 : 1)' % EXCL),
                ('P:C12', 'g_listed[g_k] <= 1'),
                # the listing is put in a canonical order (so that the same set of names always gives the same value)
                ('P:C12', 'g_sorts == 1'),
            ],
            'loops': {
                0: {'assigns': ['it', 'ec', 'filenames->len', '__CPROVER_object_whole(filenames->ptr)', '__CPROVER_object_whole(g_listed)'],
                    'invariant': ['it.i <= g_n && filenames->len <= it.i && (ec.v != 0 ==> it.i == g_n)',
                                  '(g_k < it.i && g_k < g_n && ec.v == 0) ==> g_listed[g_k] == (%s ? 0 : 1)' % EXCL,
                                  '(ec.v != 0 && g_k < g_n && !g_error_at[0] && !(g_k >= 1 && g_error_at[1]) && !(g_k >= 2 && g_error_at[2]) && !(g_k >= 3 && g_error_at[3])) ==> g_listed[g_k] == (%s ? 0 : 1)' % EXCL,
                                  '(g_k >= it.i && g_k < NE) ==> g_listed[g_k] == 0', 'g_listed[g_k] <= 1'],
                    },
                1: {'assigns': ['$i', 'excluded'],
                    'invariant': ['$i <= $range->len && $range->len == g_npat && it.i < g_n',
                                  '(excluded != 0) == (($i > 0 && g_match[it.i][0]) || ($i > 1 && g_match[it.i][1]) || ($i > 2 && g_match[it.i][2]))'],
                    'decreases': '$range->len - $i'},
            },
        },
    },
}
