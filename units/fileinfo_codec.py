"""U-fileinfo-codec: BinaryCodingTraits<FileChecksum>::encode / decode (include/llbuild/Basic/FileInfo.h) -- C15: the 32 checksum bytes of a file info are written
in order and read back in order, each byte as itself (0x00 bytes included), so a value carrying a checksum survives encode-then-decode."""
UNIT = {
    'name': 'fileinfo_codec',
    'source': 'lib/Basic/FileInfo.cpp',
    'dumps': ['BinaryCodingTraits', 'FileChecksum'],
    'types': {'StringRef': 'strref', 'BinaryEncoder': 'struct BinaryEncoder', 'basic::BinaryEncoder': 'struct BinaryEncoder', 'BinaryDecoder': 'struct BinaryDecoder', 'basic::BinaryDecoder': 'struct BinaryDecoder'},
    'by_value': ['strref'],
    'full_structs': ['FileChecksum'],
    'predefined_structs': ['BinaryEncoder', 'BinaryDecoder'],
    'no_translate': ['write', 'read', 'writeBytes', 'readBytes', 'strncpy', 'memcpy'],
    'calls': {'m:BinaryEncoder::write': 'enc_u8', 'm:BinaryDecoder::read': 'dec_u8($o, &$0)', 'm:BinaryEncoder::writeBytes': 'enc_bytes', 'm:BinaryDecoder::readBytes': 'dec_bytes($o, $0, &$1)', 'fn:strncpy': 'verif_strncpy', 'fn:memcpy': 'verif_memcpy_n',
              'c:StringRef(const char *, size_t)': 'strref_make', 'm:@strref::data': '($o->ptr)', 'm:@strref::size': '($o->len)'},
    'call_patterns': [(r'c:StringRef/0', 'strref_none'), (r'c:StringRef\(\)', 'strref_none')],
    'prelude': '#include "models/base.h"\n#include "models/filecodec.h"\nstatic inline strref strref_none(void) { strref r; r.ptr = 0; r.len = 0; return r; }\n',
    'functions': {
        'BinaryCodingTraits::encode': {
            'ptypes': ['const FileChecksum &', 'BinaryEncoder &'], 'cname': 'FileChecksum_encode',
            'requires': ['__CPROVER_is_fresh(value, sizeof(*value))', '__CPROVER_is_fresh(coder, 1)', 'g_out_n == 0', 'g_k < 32'],
            'assigns': ['g_out_n', '__CPROVER_object_whole(g_out)'],
            'ensures': [('P:C15', 'g_out_n == 32 && g_out[g_k] == value->bytes[g_k]')],
            'loops': {0: {'assigns': ['$loopvar', 'g_out_n', '__CPROVER_object_whole(g_out)'], 'invariant': ['$loopvar >= 0 && $loopvar <= 32 && g_out_n == (size_t)$loopvar && ((g_k < (size_t)$loopvar) ==> g_out[g_k] == value->bytes[g_k])'], 'decreases': '32 - $loopvar'}}},
        'BinaryCodingTraits::decode': {
            'ptypes': ['FileChecksum &', 'BinaryDecoder &'], 'cname': 'FileChecksum_decode',
            'requires': ['__CPROVER_is_fresh(value, sizeof(*value))', '__CPROVER_is_fresh(coder, 1)', 'g_in_pos == 0', 'g_k < 32'],
            'assigns': ['g_in_pos', '*value'],
            'ensures': [('P:C15', 'g_in_pos == 32 && value->bytes[g_k] == g_in[g_k]')],
            'loops': {0: {'assigns': ['$loopvar', 'g_in_pos', '*value'], 'invariant': ['$loopvar >= 0 && $loopvar <= 32 && g_in_pos == (size_t)$loopvar && ((g_k < (size_t)$loopvar) ==> value->bytes[g_k] == g_in[g_k])'], 'decreases': '32 - $loopvar'}}},
    },
}
