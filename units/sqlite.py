"""U-db-row / U-db-keys: SQLiteBuildDB::lookupRuleResult and getKeyIDForID (lib/Core/SQLiteBuildDB.cpp) -- C03.

SQLite is an assumed contract: a ghost row g_col_* stands for the selected row; the column order is PARSED from the
SELECT string literals of the current source on every run, so a swapped column in the SQL text or in the reading
code both break the field-by-field clause."""
import os
import re

REPO = os.environ.get('VERIF_REPO', '/repo')


def _cols(name):
    src = open(os.path.join(REPO, 'lib/Core/SQLiteBuildDB.cpp')).read()
    m = re.search(r'%s\s*=\s*\(\s*((?:"[^"]*"\s*)+)\)' % name, src)
    if not m:
        raise RuntimeError('SQL text of %s not found' % name)
    sql = ''.join(re.findall(r'"([^"]*)"', m.group(1)))
    sel = re.match(r'SELECT (.*?) FROM', sql).group(1)
    return [c.strip().split('.')[-1] for c in sel.split(',')]


def _table_cols():
    """column order of rule_results as created by open(): INSERT ... VALUES (?, ...) binds by position"""
    src = open(os.path.join(REPO, 'lib/Core/SQLiteBuildDB.cpp')).read()
    m = re.search(r'"CREATE TABLE rule_results \("((?:\s*"[^"]*")+)', src)
    body = ''.join(re.findall(r'"([^"]*)"', m.group(1)))
    cols = [c.strip().split()[0] for c in body.split(',') if c.strip() and not c.strip().startswith('FOREIGN')]
    ins = re.search(r'insertIntoRuleResultsStmtSQL\s*=\s*"([^"]*)"', src).group(1)
    if not re.match(r'INSERT OR REPLACE INTO rule_results VALUES \((\?, ){%d}\?\);' % (len(cols) - 1), ins):
        raise RuntimeError('INSERT statement of rule_results is not positional over %d columns: %s' % (len(cols), ins))
    return cols


try:
    FAST, SLOW = _cols('fastFindRuleResultStmtSQL'), _cols('findRuleResultStmtSQL')
    TAB = _table_cols()
except Exception as e:           # the runner reports this as an extraction failure (exit 2)
    FAST = SLOW = TAB = None
    _ERR = str(e)


def _idx(cols, name):
    return cols.index(name)


def row_clauses(cols, guard):
    c = lambda n: _idx(cols, n)
    return [
        ('P:C03,P:C02', '(RESULT && %s) ==> (result_out->builtAt == (uint64_t)g_col_i64[%d] && result_out->computedAt == (uint64_t)g_col_i64[%d])' % (guard, c('built_at'), c('computed_at'))),
        ('P:C03', '(RESULT && %s) ==> (result_out->signature.value == (uint64_t)g_col_i64[%d] && result_out->start == g_col_dbl[%d] && result_out->end == g_col_dbl[%d])' % (guard, c('signature'), c('start'), c('end'))),
        ('P:C03', '(RESULT && %s) ==> (result_out->value.len == (size_t)g_col_bytes[%d] && g_memcpy_src == g_col_blob[%d] && g_memcpy_n == (size_t)g_col_bytes[%d])' % (guard, c('value'), c('value'), c('value'))),
        ('P:C03', '(RESULT && %s) ==> (result_out->dependencies.items.len == (size_t)(g_col_bytes[%d] / 8) && g_dec_src == g_col_blob[%d])' % (guard, c('dependencies'), c('dependencies'))),
    ]


UNIT = {
    'name': 'sqlite',
    'source': 'lib/Core/SQLiteBuildDB.cpp',
    'dumps': ['SQLiteBuildDB', 'DBKeyID', 'core::Result'],
    'full_structs': ['Result'],
    'types': {'DependencyKeyIDs::KeyIDAndFlags': 'struct KeyIDAndFlags', 'KeyIDAndFlags': 'struct KeyIDAndFlags', 'std::string': 'vstr', 'string': 'vstr', 'basic_string<char>': 'vstr', 'StringRef': 'strref', 'KeyType': 'keyt', 'KeyID': 'struct KeyID',
              'ValueType': 'vbytes', 'std::vector<uint8_t>': 'vbytes', 'Epoch': 'uint64_t', 'std::mutex': 'verif_mutex', 'mutex': 'verif_mutex',
              'basic::Clock::Timestamp': 'double', 'Clock::Timestamp': 'double', 'sqlite3_stmt': 'struct sqlite3_stmt', 'sqlite3': 'struct sqlite3',
              'basic::BinaryDecoder': 'struct bdec', 'BinaryDecoder': 'struct bdec', 'basic::BinaryEncoder': 'struct benc', 'BinaryEncoder': 'struct benc', 'Twine': 'const char *'},
    'type_patterns': [(r'(llvm::)?DenseSet<(SQLiteBuildDB::)?DBKeyID.*>', 'struct dbidset'), (r'(std::)?pair<.*DenseSet.*DBKeyID.*, bool>', 'struct dbidins'), (r'(std::)?pair<.*DenseSetImpl.*, bool>', 'struct dbidins'), (r'vector<(unsigned char|uint8_t)(, allocator<(unsigned char|uint8_t)>)?\s*>', 'vbytes'),
                      (r'pair<KeyID, .*DBKeyID>', 'struct kv_kd'), (r'pair<DBKeyID, .*KeyID>', 'struct kv_dk'),
                      (r'(detail::)?DenseMapPair<KeyID, .*DBKeyID>', 'struct kv_kd'), (r'(detail::)?DenseMapPair<.*DBKeyID, .*KeyID>', 'struct kv_dk'),
                      (r'DenseMapIterator<KeyID, .*', 'struct kv_kd *'), (r'DenseMapIterator<.*DBKeyID, .*', 'struct kv_dk *'),
                      (r'DenseMap<KeyID, .*>::iterator', 'struct kv_kd *'), (r'DenseMap<.*DBKeyID, .*>::iterator', 'struct kv_dk *'),
                      (r'DenseMap<KeyID, .*', 'struct map_kd'), (r'DenseMap<.*DBKeyID, .*', 'struct map_dk')],
    'by_value': ['struct dbidins', 'struct KeyIDAndFlags', 'struct KeyID', 'vbytes', 'struct CommandSignature', 'strref', 'struct SQLiteBuildDB_DBKeyID', 'struct DBKeyID'],
    'by_pointer': ['vstr', 'keyt'],
    'predefined_structs': ['dbidset', 'dbidins', 'DBKeyID', 'KeyID', 'KeyIDAndFlags', 'DependencyKeyIDs', 'CommandSignature', 'bdec', 'benc', 'map_kd', 'map_dk', 'kv_kd', 'kv_dk', 'sqlite3_stmt', 'sqlite3'],
    'no_translate': ['open', 'getCurrentErrorMessage'],
    'range_by_value': True,
    'drop_if_mentions': [],
    'calls': {
        'fn:memcpy': 'verif_memcpy_rec', 'fn:move': '$0', 'm:@struct dbidset::insert': ('dbidset_insert', 'v'), 'm:SQLiteBuildDB::getKeyIDForID': 'verif_getKeyIDForID_abs', 'm:SQLiteBuildDB::getCurrentErrorMessage': 'vstr_errmsg',
        'm:@vbytes::resize': 'vbytes_resize', 'm:@vbytes::data': 'vbytes_data',
        'm:DependencyKeyIDs::resize': 'DependencyKeyIDs_resize', 'm:DependencyKeyIDs::set': ('DependencyKeyIDs_set', 'vvvv'),
        'm:@struct map_kd::find': ('map_kd_find', 'v'), 'm:@struct map_kd::end': 'map_kd_end',
        'm:@struct map_dk::find': ('map_dk_find', 'v'), 'm:@struct map_dk::end': 'map_dk_end',
        'o:[]:@struct map_dk': 'map_dk_slot', 'o:[]:@struct map_kd': 'map_kd_slot',
        'm:@keyt::data': 'keyt_data', 'm:@keyt::size': 'keyt_size', 'm:@vstr::empty': '($o->len == 0)',
        'c:StringRef(const char *, size_t)': 'strref_make', 'c:BinaryDecoder(StringRef)': 'bdec_make', 'm:@struct bdec::read': ('bdec_read_u64', 'p'),
        'c:CommandSignature(uint64_t)': 'sig_make', 'c:DBKeyID(uint64_t)': 'dbkeyid_make', 'c:DBKeyID()': 'dbkeyid_zero', 'c:DBKeyID/0': 'dbkeyid_zero', 'c:KeyID()': 'keyid_zero', 'c:KeyID/0': 'keyid_zero', 'c:KeyType(const char *, size_t)': 'keyt_make', 'c:KeyType(const char *)': 'keyt_cstr',
        'm:SQLiteBuildDB::getKeyID': 'verif_getKeyID_abs', 'range:@struct DependencyKeyIDs': ('verif_deps_size', 'verif_deps_at'),
        'm:@struct benc::write': ('benc_write_u64', 'v'), 'm:@struct benc::data': 'benc_data', 'm:@struct benc::size': 'benc_size', 'c:BinaryEncoder()': 'benc_make', 'c:BinaryEncoder/0': 'benc_make',
        'm:@vbytes::size': 'vbytes_size',
        'o:=:@vstr': 'vstr_assign', 'c:Twine(const char *)': '$0', 'c:Twine(int)': 'verif_twine_i', 'o:+:Twine': 'verif_twine_cat', 'm:Twine::str': 'vstr_msg',
    },
    'call_patterns': [
        (r'o:!=:DenseMapIterator.*', '(*$o != $0)'), (r'o:==:DenseMapIterator.*', '(*$o == $0)'), (r'fn:operator!=', '($0 != $1)'), (r'fn:operator==', '($0 == $1)'),
        (r'o:->:DenseMapIterator.*', '(*$o)'), (r'c:DenseMapIterator<.*', '$0'), (r'o:=:@struct KeyID', '(*$o = $0)'),
        (r'c:(basic_string<char>|string|std::string)\(.*\)', 'vstr_msg0'),
    ],
    'prelude': '#include "models/base.h"\n#include "models/engine.h"\n#include "models/sqlite.h"\n',
    'after_structs': '#include "models/sqlite_after.h"\n',
    'stubs': {
        'SQLiteBuildDB_open': {'ret': '_Bool', 'params': 'struct SQLiteBuildDB *self, vstr *error_out', 'assigns': [],
                               'requires': [('P:C03', 'self->dbMutex.held')], 'ensures': ['(RESULT != 0) == (g_open_ok != 0)']},
        'BuildDBDelegate_getKeyForID': {'ret': 'keyt', 'params': 'struct BuildDBDelegate *self, struct KeyID key', 'requires': [], 'assigns': [],
                                        'ensures': ['RESULT.ptr == g_key_text.ptr && RESULT.len == g_key_text.len']},
        'BuildDBDelegate_getKeyID': {'ret': 'struct KeyID', 'params': 'struct BuildDBDelegate *self, keyt *key',
                                     # the key handed to the engine is the stored text with its stored length (NUL-safe)
                                     'requires': [('P:C03', 'key->ptr == (const char *)g_col_blob[0] && key->len == (size_t)g_col_bytes[0]')],
                                     'assigns': [], 'ensures': ['RESULT._value == g_engine_key']},
    },
    'functions': {},
}

if FAST is not None:
    UNIT['functions'] = {
        'SQLiteBuildDB::getKeyIDForID': {
            'requires': ['__CPROVER_is_fresh(self, sizeof(*self))', '__CPROVER_is_fresh(self->delegate, sizeof(*self->delegate))',
                         '__CPROVER_is_fresh(error_out, sizeof(*error_out))', 'self->dbMutex.held', 'g_slots == 0 && g_errors == 0 && g_stepped == 0'],
            'assigns': ['*error_out', 'g_slots', 'g_slot_dk_key', 'g_slot_kd_key', 'g_dk_value', 'g_kd_value', 'g_errors', 'g_bound_stmt', '__CPROVER_object_whole(g_bind_i64)', 'g_stepped'],
            'ensures': [
                # a cached id is answered from the cache; otherwise the stored key text (with its stored byte length) is mapped by the engine
                ('P:C03', 'g_dk_hit ==> RESULT._value == g_dk_entry.second._value'),
                ('P:C03', '(!g_dk_hit && g_step_result == 100 && g_api_ok) ==> (RESULT._value == g_engine_key && g_slots == 2 && g_slot_dk_key == dbKeyID.value && g_dk_value._value == g_engine_key && '
                          'g_slot_kd_key._value == g_engine_key && g_kd_value.value == dbKeyID.value)'),
                ('P:C03', '(!g_dk_hit && (g_step_result != 100 || !g_api_ok)) ==> (g_errors >= 1 && g_slots == 0)'),
            ],
        },
        'SQLiteBuildDB::lookupRuleResult': {
            'requires': ['__CPROVER_is_fresh(self, sizeof(*self))', '__CPROVER_is_fresh(self->delegate, sizeof(*self->delegate))',
                         '__CPROVER_is_fresh(error_out, sizeof(*error_out))', '__CPROVER_is_fresh(result_out, sizeof(*result_out))', '__CPROVER_is_fresh(key, sizeof(*key))',
                         '__CPROVER_is_fresh(self->fastFindRuleResultStmt, 1) && __CPROVER_is_fresh(self->findRuleResultStmt, 1)',
                         '!self->dbMutex.held', 'g_slots == 0 && error_out->len == 0 && g_errors == 0 && g_stepped == 0',
                         'g_col_bytes[0] >= 0 && g_col_bytes[1] >= 0 && g_col_bytes[2] >= 0 && g_col_bytes[3] >= 0 && g_col_bytes[4] >= 0 && g_col_bytes[5] >= 0 && g_col_bytes[6] >= 0 && g_col_bytes[7] >= 0',
                         'g_col_bytes[%d] <= 4096 && g_col_bytes[%d] <= 4096 && g_col_bytes[%d] <= 4096 && g_col_bytes[%d] <= 4096' % (_idx(FAST, 'value'), _idx(FAST, 'dependencies'), _idx(SLOW, 'value'), _idx(SLOW, 'dependencies')), 'g_k < 512', ' && '.join('g_col_dbl[%d] == g_col_dbl[%d]' % (i, i) for i in range(9)),   # start/end times are not NaN
                         'VEC_OK(result_out->dependencies.items, struct KeyIDAndFlags) && result_out->dependencies.items.cap == 512'],
            'assigns': ['*error_out', 'result_out->value', 'result_out->builtAt', 'result_out->computedAt', 'result_out->start', 'result_out->end', 'result_out->signature',
                        'result_out->dependencies.items.len', '__CPROVER_object_whole(result_out->dependencies.items.ptr)',
                        'self->dbMutex.held', 'g_slots', 'g_slot_dk_key', 'g_slot_kd_key', 'g_dk_value', 'g_kd_value', 'g_errors', 'g_memcpy_src', 'g_memcpy_n', 'g_dec_src', 'g_dec_pos', 'g_bound_stmt',
                        '__CPROVER_object_whole(g_bind_i64)', 'g_stepped', 'g_text_stmt', 'g_text_ptr', 'g_text_len', 'g_text_binds'],
            'ensures': ([('P:C03', '!g_open_ok ==> !RESULT'), ('P:C03', '!self->dbMutex.held'),
                         ('P:C03', 'RESULT ==> g_bound_stmt == (g_kd_hit ? self->fastFindRuleResultStmt : self->findRuleResultStmt)')] +
                        row_clauses(FAST, 'g_kd_hit') + row_clauses(SLOW, '!g_kd_hit') +
                        # every dependency word is decoded to (engine key of id, order-only bit, single-use bit), in order (ghost index g_k)
                        [('P:C03', '(RESULT && g_k < result_out->dependencies.items.len) ==> (result_out->dependencies.items.ptr[g_k].keyID._value == g_dep_keys[g_k] && '
                                   '(result_out->dependencies.items.ptr[g_k].orderOnly != 0) == ((g_dep_words[g_k] & 1) != 0) && (result_out->dependencies.items.ptr[g_k].singleUse != 0) == (((g_dep_words[g_k] >> 1) & 1) != 0))'),
                         # the slow path caches the id mapping both ways
                         ('P:C03', '(RESULT && !g_kd_hit) ==> (g_slots == 2 && g_slot_dk_key == (uint64_t)g_col_i64[0] && g_dk_value._value == keyID._value && g_slot_kd_key._value == keyID._value && g_kd_value.value == (uint64_t)g_col_i64[0])')]),
            'replace': [],
            'loops': {0: {'assigns': ['i', 'g_dec_pos', 'g_errors', '__CPROVER_object_whole(result_out->dependencies.items.ptr)', '*error_out'],
                          'invariant': ['i >= 0 && i <= numDependencies && g_dec_pos == (size_t)i && result_out->dependencies.items.len == (size_t)numDependencies && error_out->len == 0 && self->dbMutex.held',
                                        '(g_k < (size_t)i) ==> (result_out->dependencies.items.ptr[g_k].keyID._value == g_dep_keys[g_k] && '
                                        '(result_out->dependencies.items.ptr[g_k].orderOnly != 0) == ((g_dep_words[g_k] & 1) != 0) && (result_out->dependencies.items.ptr[g_k].singleUse != 0) == (((g_dep_words[g_k] >> 1) & 1) != 0))'],
                          'decreases': 'numDependencies - i'}},
            'callee_as_stub': {'SQLiteBuildDB_getKeyIDForID': True},
        },
    }
    _b = lambda n: TAB.index(n) + 1      # bind index of a column (INSERT binds by position)
    DEPW = '(((g_dbkey_of[g_k]) << 2) + ((uint64_t)(ruleResult->dependencies.items.ptr[g_k].singleUse != 0) << 1) + (uint64_t)(ruleResult->dependencies.items.ptr[g_k].orderOnly != 0))'
    UNIT['functions']['SQLiteBuildDB::setRuleResult'] = {
        'solver': 'cadical',
        'requires': ['__CPROVER_is_fresh(self, sizeof(*self))', '__CPROVER_is_fresh(self->delegate, sizeof(*self->delegate))', '__CPROVER_is_fresh(error_out, sizeof(*error_out))',
                     '__CPROVER_is_fresh(ruleResult, sizeof(*ruleResult))', '__CPROVER_is_fresh(rule, 1)', '__CPROVER_is_fresh(self->insertIntoRuleResultsStmt, 1)',
                     'VEC_OK(ruleResult->dependencies.items, struct KeyIDAndFlags) && ruleResult->dependencies.items.cap <= 512',
                     '!self->dbMutex.held', 'error_out->len == 0 && g_errors == 0 && g_enc_n == 0 && g_getkey_calls == 0 && g_stepped == 0', 'g_k < 512',
                     'g_k < ruleResult->dependencies.items.len ==> (ruleResult->dependencies.items.ptr[g_k].singleUse <= 1 && ruleResult->dependencies.items.ptr[g_k].orderOnly <= 1)',
                     'ruleResult->start == ruleResult->start && ruleResult->end == ruleResult->end', 'g_execs == 0'],     # times are not NaN
        'assigns': ['g_execs', 'g_exec_sql', '*error_out', 'self->dbMutex.held', 'g_errors', 'g_bound_stmt', 'g_enc_n', '__CPROVER_object_whole(g_enc_words)', 'g_getkey_calls', 'g_getkey_last',
                    '__CPROVER_object_whole(g_bind_i64)', '__CPROVER_object_whole(g_bind_ptr)', '__CPROVER_object_whole(g_bind_bytes)', '__CPROVER_object_whole(g_bind_dbl)', 'g_stepped'],
        'ensures': [
            ('P:C03', '!g_open_ok ==> !RESULT'), ('P:C03', '!self->dbMutex.held'),
            # writing a result executes no statement of its own besides the prepared insert: in particular no END / BEGIN, so the build stays ONE transaction
            ('P:C04', 'g_execs == 0'),
            # success means the row was written by stepping the insert statement to completion
            ('P:C03,P:C04', 'RESULT ==> (g_stepped == 1 && g_bound_stmt == self->insertIntoRuleResultsStmt && g_step_result == 101)'),
            # every field of the result is bound to the column the table declares for it (the order lookupRuleResult reads by name)
            ('P:C03', 'RESULT ==> (g_bind_i64[%d] == (long long)g_dbkey_of_rule && g_bind_i64[%d] == (long long)ruleResult->signature.value)' % (_b('key_id'), _b('signature'))),
            ('P:C03,P:C02', 'RESULT ==> (g_bind_i64[%d] == (long long)ruleResult->builtAt && g_bind_i64[%d] == (long long)ruleResult->computedAt)' % (_b('built_at'), _b('computed_at'))),
            ('P:C03', 'RESULT ==> (g_bind_dbl[%d] == ruleResult->start && g_bind_dbl[%d] == ruleResult->end)' % (_b('start'), _b('end'))),
            ('P:C03', 'RESULT ==> (g_bind_ptr[%d] == (const void *)ruleResult->value.ptr && g_bind_bytes[%d] == (int)ruleResult->value.len)' % (_b('value'), _b('value'))),
            # the dependency blob is the word sequence (db id << 2 | single-use << 1 | order-only), one word per dependency, in order
            ('P:C03', 'RESULT ==> (g_bind_ptr[%d] == (const void *)g_enc_words && g_bind_bytes[%d] == (int)(8 * ruleResult->dependencies.items.len) && g_enc_n == ruleResult->dependencies.items.len)' % (_b('dependencies'), _b('dependencies'))),
            ('P:C03', '(RESULT && g_k < ruleResult->dependencies.items.len) ==> g_enc_words[g_k] == %s' % DEPW),
        ],
        'loops': {0: {'assigns': ['$i', 'g_enc_n', '__CPROVER_object_whole(g_enc_words)', 'g_getkey_calls', 'g_getkey_last', 'g_errors', '*error_out'],
                      'invariant': ['$i <= $range->items.len && g_enc_n == $i && error_out->len == 0 && self->dbMutex.held && g_getkey_calls == $i + 1',
                                    '(g_k < $i) ==> g_enc_words[g_k] == %s' % DEPW],
                      'decreases': '$range->items.len - $i'}},
    }

    OPEN = ['__CPROVER_is_fresh(self, sizeof(*self))', '__CPROVER_is_fresh(error_out, sizeof(*error_out))', 'self->db != 0 ==> __CPROVER_is_fresh(self->db, 1)', 'g_open_ok ==> self->db != 0',
            '!self->dbMutex.held', 'g_prepares == 0 && g_finalizes == 0 && g_execs == 0 && g_stepped == 0 && g_errors == 0 && error_out->len == 0']
    ADHOC = ['*error_out', 'self->dbMutex.held', 'g_errors', 'g_prepares', 'g_prepared_sql', 'g_finalizes', 'g_stepped', 'g_bound_stmt', '__CPROVER_object_whole(g_bind_i64)', 'g_execs', 'g_exec_sql']
    UNIT['functions']['SQLiteBuildDB::getCurrentEpoch'] = {
        'requires': OPEN + ['__CPROVER_is_fresh(success_out, sizeof(*success_out))', 'g_bound_stmt == &g_adhoc_stmt'],
        'assigns': ADHOC + ['*success_out'],
        'ensures': [
            # the epoch handed to the engine is the stored iteration (column 0 of the one row of info), read on the open connection
            ('P:C03,P:C04', '(*success_out != 0) ==> (g_open_ok && g_api_ok && g_step_result == 100 && RESULT == (uint64_t)g_col_i64[0] && LIT4(g_prepared_sql, 0, \'S\',\'E\',\'L\',\'E\') && LIT4(g_prepared_sql, 7, \'i\',\'t\',\'e\',\'r\'))'),
            ('P:C03', '(*success_out == 0) ==> (RESULT == 0 && (!g_open_ok || g_errors >= 1))'),
            ('P:C03', '(g_open_ok && g_api_ok && g_step_result == 100) ==> *success_out != 0'),
            # every prepared statement is finalized (a leaked statement keeps the database locked) and the mutex is released
            ('P:C03,P:C04', 'g_prepares <= 1 && ((g_prepares == 1 && g_api_ok) ? g_finalizes == 1 : g_finalizes == 0)'), ('P:C03', '!self->dbMutex.held'),
        ]}
    UNIT['functions']['SQLiteBuildDB::setCurrentIteration'] = {
        'requires': OPEN, 'assigns': ADHOC,
        'ensures': [
            # success means the UPDATE of the iteration column ran to completion with exactly the value given
            ('P:C04,P:C03,P:C01', 'RESULT ==> (g_open_ok && g_api_ok && g_stepped == 1 && g_step_result == 101 && g_bind_i64[1] == (long long)value && '
                                  'LIT4(g_prepared_sql, 0, \'U\',\'P\',\'D\',\'A\') && LIT4(g_prepared_sql, 16, \'i\',\'t\',\'e\',\'r\'))'),
            ('P:C04', '!RESULT ==> (!g_open_ok || g_errors >= 1)'),
            ('P:C04', '(g_open_ok && g_api_ok && g_step_result == 101) ==> RESULT'),
            ('P:C03', '!self->dbMutex.held'),
        ]}
    UNIT['functions']['SQLiteBuildDB::buildStarted'] = {
        'requires': OPEN, 'assigns': ADHOC,
        'ensures': [
            # a build runs inside one exclusive transaction: started only if BEGIN EXCLUSIVE succeeded on the open connection
            ('P:C04,P:C03', 'RESULT ==> (g_open_ok && g_execs == 1 && g_exec_ok && LIT4(g_exec_sql, 0, \'B\',\'E\',\'G\',\'I\') && LIT4(g_exec_sql, 6, \'E\',\'X\',\'C\',\'L\'))'),
            ('P:C04', '!RESULT ==> (!g_open_ok || g_errors >= 1)'), ('P:C04', '(g_open_ok && g_exec_ok) ==> RESULT'), ('P:C03', '!self->dbMutex.held'),
        ]}
    STM = ['findKeyIDForKeyStmt', 'findKeyNameForKeyIDStmt', 'findRuleResultStmt', 'fastFindRuleResultStmt', 'deleteFromKeysStmt', 'insertIntoKeysStmt', 'insertIntoRuleResultsStmt', 'getKeysWithResultStmt']
    UNIT['functions']['SQLiteBuildDB::buildComplete'] = {
        'requires': ['__CPROVER_is_fresh(self, sizeof(*self))', '__CPROVER_is_fresh(self->db, 1)', '!self->dbMutex.held', 'g_execs == 0 && g_finalizes == 0'],
        'assigns': ['self->dbMutex.held', 'g_execs', 'g_exec_sql', 'g_finalizes', 'self->db'] + ['self->%s' % x for x in STM],
        'ensures': [
            # the build's transaction is committed with END on the open connection ...
            ('P:C04', 'g_execs == 1 && LIT4(g_exec_sql, 0, \'E\',\'N\',\'D\',\';\')'),
            # ... and the connection is then closed (statements finalized, handles cleared) so that no lock on the file outlives the build
            ('P:C04,P:C03', 'self->db == 0 && g_finalizes == 8 && ' + ' && '.join('self->%s == 0' % x for x in STM)),
            ('P:C03', '!self->dbMutex.held')]}
    UNIT['functions']['SQLiteBuildDB::getKeyIDFromDB'] = {
        'requires': ['__CPROVER_is_fresh(self, sizeof(*self))', '__CPROVER_is_fresh(self->delegate, sizeof(*self->delegate))', '__CPROVER_is_fresh(error_out, sizeof(*error_out))', '__CPROVER_is_fresh(self->db, 1)',
                     '__CPROVER_is_fresh(self->findKeyIDForKeyStmt, 1) && __CPROVER_is_fresh(self->insertIntoKeysStmt, 1)', 'self->dbMutex.held', 'g_text_binds == 0 && g_stepped == 0 && g_errors == 0'],
        'assigns': ['*error_out', 'g_errors', 'g_bound_stmt', 'g_text_stmt', 'g_text_ptr', 'g_text_len', 'g_text_binds', 'g_stepped'],
        'ensures': [
            # the key is looked up / inserted by its text WITH its byte length (keys may contain NUL bytes)
            ('P:C03', '(g_text_binds >= 1) ==> (g_text_ptr == g_key_text.ptr && g_text_len == (int)g_key_text.len)'),
            # found: the stored id; not found: inserted and the new row id; any API failure: the zero id and an error
            ('P:C03', '(g_api_ok && g_step_result == 100) ==> (RESULT.value == (uint64_t)g_col_i64[0] && g_stepped == 1 && g_text_stmt == self->findKeyIDForKeyStmt)'),
            ('P:C03', '(g_api_ok && g_step_result != 100 && g_step_second == 101) ==> (RESULT.value == (uint64_t)g_last_rowid && g_stepped == 2 && g_text_stmt == self->insertIntoKeysStmt && g_text_binds == 2)'),
            ('P:C03', '(!g_api_ok || (g_step_result != 100 && g_step_second != 101)) ==> (RESULT.value == 0 && g_errors >= 1)'),
        ]}
    UNIT['functions']['SQLiteBuildDB::getKeyID'] = {
        'requires': UNIT['functions']['SQLiteBuildDB::getKeyIDFromDB']['requires'] + ['g_slots == 0'],
        'assigns': UNIT['functions']['SQLiteBuildDB::getKeyIDFromDB']['assigns'] + ['g_slots', 'g_slot_dk_key', 'g_slot_kd_key', 'g_dk_value', 'g_kd_value'],
        'ensures': [
            # a cached id is answered from the cache without touching the database
            ('P:C03', 'g_kd_hit ==> (RESULT.value == g_kd_entry.second.value && g_text_binds == 0 && g_slots == 0)'),
            # otherwise the database id is cached both ways -- unless the lookup failed (id 0 is never cached)
            ('P:C03', '(!g_kd_hit && RESULT.value != 0) ==> (g_slots == 2 && g_slot_kd_key._value == keyID._value && g_kd_value.value == RESULT.value && g_slot_dk_key == RESULT.value && g_dk_value._value == keyID._value)'),
            ('P:C03', '(!g_kd_hit && RESULT.value == 0) ==> g_slots == 0'),
        ]}
