"""U-eng-cycle: when the engine declares a dependency cycle and how it reports it (lib/Core/BuildEngine.cpp) -- C07 (trigger and
reporting only; the cycle search findCycle and the breaking heuristics breakCycle are assumed contracts)."""
import copy
from units import engine_cancel as _c

_b = copy.deepcopy(_c.UNIT)
UNIT = {k: v for k, v in _b.items() if k not in ('functions', 'stubs')}
UNIT['name'] = 'engine_cycle'
UNIT['no_translate'] = list(_b.get('no_translate', [])) + ['cancelRemainingTasks', 'findCycle', 'breakCycle', 'cycleDetected']
UNIT['type_patterns'] = list(_b.get('type_patterns', [])) + [(r'(std::)?vector<(core::)?Rule \*.*>', 'struct rulelist')]
UNIT['by_value'] = list(_b.get('by_value', [])) + ['struct rulelist']
UNIT['predefined_structs'] = list(_b.get('predefined_structs', [])) + ['rulelist']
UNIT['need_fields'] = _b['need_fields']
UNIT['prelude'] = _b['prelude'] + 'struct rulelist { const void *id; size_t len; };\nunsigned g_resolve_calls, g_cancel_calls, g_find_calls, g_break_calls, g_cycle_reports; _Bool g_resolve_answer, g_break_answer; const void *g_found_id, *g_reported_id, *g_break_id; _Bool g_locks_ok;\n'
UNIT['calls'] = dict(_b['calls'], **{
    'm:@vec_taskpair::empty': 'vec_taskpair_empty', 'm:@struct rulelist::empty': '($o->len == 0)',
    'm:BuildEngineDelegate::cycleDetected': 'verif_cycle_detected',
})
UNIT['after_structs'] = _b['after_structs'] + '''
static inline void verif_cycle_detected(void *delegate, struct rulelist l) { g_cycle_reports++; g_reported_id = l.id; }
'''
UNIT['stubs'] = {
    'BuildEngineImpl_cancelRemainingTasks': {'params': 'struct BuildEngineImpl *self', 'requires': [], 'assigns': ['g_cancel_calls'], 'ensures': ['g_cancel_calls == OLD(g_cancel_calls) + 1']},
    # the cycle search (120 lines over five hash containers): assumed to return a non-empty rule list describing a real cycle through the build key
    'BuildEngineImpl_findCycle': {'ret': 'struct rulelist', 'params': 'struct BuildEngineImpl *self, struct KeyType *buildKey',
                                  'requires': [('P:C07', 'self->taskInfosMutex.held && self->finishedTaskInfosMutex.held')], 'assigns': ['g_find_calls'],
                                  'ensures': ['g_find_calls == OLD(g_find_calls) + 1 && RESULT.id == g_found_id && RESULT.len > 0']},
    'BuildEngineImpl_breakCycle': {'ret': '_Bool', 'params': 'struct BuildEngineImpl *self, struct rulelist cycleList', 'requires': [], 'assigns': ['g_break_calls', 'g_break_id'],
                                   'ensures': ['g_break_calls == OLD(g_break_calls) + 1 && g_break_id == cycleList.id && (RESULT != 0) == (g_break_answer != 0)']},
}
UNIT['functions'] = {
    'BuildEngineImpl::resolveCycle': {
        'requires': ['__CPROVER_is_fresh(self, sizeof(*self))', '__CPROVER_is_fresh(self->delegate, 1)', '!self->taskInfosMutex.held && !self->finishedTaskInfosMutex.held',
                     'g_find_calls == 0 && g_break_calls == 0 && g_cycle_reports == 0'],
        'assigns': ['self->taskInfosMutex.held', 'self->finishedTaskInfosMutex.held', 'g_find_calls', 'g_break_calls', 'g_break_id', 'g_cycle_reports', 'g_reported_id'],
        'ensures': [
            # the cycle that is offered for breaking, and the cycle that is reported, is the one the search found; it is reported exactly when it could not be broken
            ('P:C07', 'g_find_calls == 1 && g_break_calls == 1 && g_break_id == g_found_id'),
            ('P:C07', '(RESULT != 0) == (g_break_answer != 0)'),
            ('P:C07', 'RESULT ? g_cycle_reports == 0 : (g_cycle_reports == 1 && g_reported_id == g_found_id)'),
            ('P:C07,P:C06', '!self->taskInfosMutex.held && !self->finishedTaskInfosMutex.held'),
        ],
    },
    # `if (!didWork) { if (!taskInfos.empty()) { if (resolveCycle(buildKey)) continue; else { cancelRemainingTasks(); return false; } } break; }`
    'BuildEngineImpl::executeTasks#stall': {
        'of': 'BuildEngineImpl::executeTasks', 'cname': 'BuildEngineImpl_executeTasks_stall_step',
        'segment': {'kind': 'IfStmt', 'mentions': ['didWork', 'resolveCycle', 'cancelRemainingTasks', 'taskInfos'], 'excludes': ['finishedTaskInfosCondition'], 'exits': True,
                    'preceded_by': ['didWork', 'numOutstandingUnfinishedTasks', 'finishedTaskInfosCondition']},
        'requires': ['__CPROVER_is_fresh(self, sizeof(*self))', '__CPROVER_is_fresh(didWork, sizeof(*didWork))', '__CPROVER_is_fresh(__seg_exit, sizeof(int))', '__CPROVER_is_fresh(__seg_retval, sizeof(_Bool))',
                     'VEC_OK(self->taskInfos, struct taskpair)', 'g_cancel_calls == 0',
                     '__CPROVER_is_fresh(self->delegate, 1)', '!self->taskInfosMutex.held && !self->finishedTaskInfosMutex.held', 'g_find_calls == 0 && g_break_calls == 0 && g_cycle_reports == 0',
                     # established by the blocking step that precedes it in the loop (U-eng-cancel, executeTasks#wait): outstanding work => didWork
                     '(self->numOutstandingUnfinishedTasks != 0) ==> (*didWork != 0)'],
        'assigns': ['*__seg_exit', '*__seg_retval', 'g_cancel_calls', 'self->taskInfosMutex.held', 'self->finishedTaskInfosMutex.held', 'g_find_calls', 'g_break_calls', 'g_break_id', 'g_cycle_reports', 'g_reported_id'],
        'ensures': [
            # never falsely: a cycle is looked for only when a whole round did nothing, no task is still computing, and tasks are nevertheless pending
            ('P:C07', '(g_find_calls != 0) ==> (*didWork == 0 && self->numOutstandingUnfinishedTasks == 0 && self->taskInfos.len != 0 && g_find_calls == 1)'),
            # always detected: the loop is never left as "finished" (break) while tasks are pending, and a stalled round always asks for the cycle
            ('P:C07', '(*__seg_exit == 3) ==> (*didWork == 0 && self->taskInfos.len == 0 && g_find_calls == 0)'),
            ('P:C07', '(*didWork == 0 && self->taskInfos.len != 0) ==> g_find_calls == 1'),
            # an unbreakable cycle fails the build (after draining), a broken one lets the loop go round again, a round that did work just continues
            ('P:C07,P:C05', '(g_find_calls == 1 && !g_break_answer) ==> (*__seg_exit == 1 && *__seg_retval == 0 && g_cancel_calls == 1)'),
            ('P:C07', '(g_find_calls == 1 && g_break_answer) ==> (*__seg_exit == 2 && g_cancel_calls == 0)'),
            ('P:C07', '(*didWork != 0) ==> (*__seg_exit == 0 && g_find_calls == 0 && g_cancel_calls == 0)'),
        ],
    },
}
UNIT = _c._e._views(UNIT)
