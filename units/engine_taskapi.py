"""U-eng-taskapi: TaskInterface::request / requestSingleUse / mustFollow as implemented by the engine (lib/Core/BuildEngine.cpp) -- C06."""
import copy
from units import engine_loop as _l

UNIT = copy.deepcopy({k: v for k, v in _l.UNIT.items() if k not in ('functions', 'stubs')})
UNIT['name'] = 'engine_taskapi'
UNIT['no_translate'] = list(_l.UNIT.get('no_translate', [])) + ['addTaskInputRequest']
UNIT['stubs'] = {
    'BuildEngineDelegate_error': _l.UNIT['stubs']['BuildEngineDelegate_error'],
    # addTaskInputRequest is proved in U-eng-loop; here only what it is called with matters
    'BuildEngineImpl_addTaskInputRequest': {'params': 'struct BuildEngineImpl *self, struct Task *task, struct KeyType *key, uintptr_t inputID, _Bool orderOnly, _Bool singleUse',
                                            'requires': [], 'assigns': ['g_add_calls', 'g_add_id', 'g_add_order_only', 'g_add_single_use', 'g_add_key'],
                                            'ensures': ['g_add_calls == OLD(g_add_calls) + 1 && g_add_id == inputID && (g_add_order_only != 0) == (orderOnly != 0) && (g_add_single_use != 0) == (singleUse != 0) && g_add_key == (const void *)key']},
}
UNIT['functions'] = eval('{' + _l.CALLERS + '}', {'S': _l.S})
UNIT['functions']['BuildEngineImpl::taskNeedsSingleUseInput'] = copy.deepcopy(UNIT['functions']['BuildEngineImpl::taskNeedsInput'])
UNIT['functions']['BuildEngineImpl::taskNeedsSingleUseInput']['ensures'] = [
    ('P:C06', '(inputID > (~(uintptr_t)0xFF)) ? (g_add_calls == 0 && g_errors == 1 && self->buildCancelled != 0) : (g_add_calls == 1 && g_add_id == inputID && !g_add_order_only && g_add_single_use && g_add_key == (const void *)key && g_errors == 0)')]
