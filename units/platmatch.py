"""U-plat-match: sys::filenameMatch (lib/Basic/PlatformUtility.cpp, POSIX branch) -- C12: "exclusion patterns hide exactly the matching names": the name is
matched against the pattern by fnmatch(3) with NO flags (case sensitive, `/` and leading `.` not special), pattern first and name second; 0 is a match,
FNM_NOMATCH no match, anything else an error."""
UNIT = {
    'name': 'platmatch',
    'source': 'lib/Basic/PlatformUtility.cpp',
    'dumps': ['filenameMatch', 'MATCH_RESULT'],
    'types': {'std::string': 'vstr', 'string': 'vstr', 'basic_string<char>': 'vstr'},
    'by_pointer': ['vstr'],
    'calls': {'m:@vstr::c_str': 'vstr_c_str', 'fn:fnmatch': 'verif_fnmatch'},
    'need_enums': ['sys::MATCH_RESULT'],
    'prelude': ('#include "models/base.h"\n'
                '/* fnmatch(3): the answer is a ghost; what it was asked is recorded */\n'
                'const char *g_fn_pattern, *g_fn_name; int g_fn_flags, g_fn_answer; unsigned g_fn_calls;\n'
                'static inline const char *vstr_c_str(const vstr *w) { return w->ptr; }\n'
                'static inline int verif_fnmatch(const char *pattern, const char *name, int flags) { g_fn_calls++; g_fn_pattern = pattern; g_fn_name = name; g_fn_flags = flags; return g_fn_answer; }\n'),
    'functions': {
        'filenameMatch': {
            'requires': ['__CPROVER_is_fresh(pattern, sizeof(*pattern))', '__CPROVER_is_fresh(filename, sizeof(*filename))', 'pattern->ptr != filename->ptr', 'g_fn_calls == 0'],
            'assigns': ['g_fn_calls', 'g_fn_pattern', 'g_fn_name', 'g_fn_flags'],
            'ensures': [
                ('P:C12', 'g_fn_calls == 1 && g_fn_pattern == pattern->ptr && g_fn_name == filename->ptr && g_fn_flags == 0'),
                ('P:C12', 'RESULT == (g_fn_answer == 0 ? sys_MATCH_RESULT_MATCH : g_fn_answer == 1 ? sys_MATCH_RESULT_NO_MATCH : sys_MATCH_RESULT_MATCH_ERROR)'),
            ]},
    },
}
