"""U-eng-canceldel: BuildEngineImpl::addCancellationDelegate / removeCancellationDelegate (lib/Core/BuildEngine.cpp) -- C05: a delegate that registers while the build is being
cancelled is never lost: the cancelled flag is read, and the delegate inserted, under executionQueueMutex -- the mutex cancelBuild holds while it walks the registered delegates
and sets the flag -- so either the walk sees the delegate or the delegate sees the flag and is told at once."""
import copy
from units import engine_build as _b

UNIT = copy.deepcopy({k: v for k, v in _b.UNIT.items() if k not in ('functions', 'stubs')})
UNIT['stubs'] = {}
UNIT['name'] = 'engine_canceldel'
UNIT['need_fields'] = dict(UNIT.get('need_fields', {}), **{'BuildEngineImpl': list(UNIT.get('need_fields', {}).get('BuildEngineImpl', [])) + ['executionQueue', 'executionQueueMutex', 'buildCancelled', 'cancellationDelegates']})
UNIT['calls'] = dict(_b.UNIT['calls'], **{
    'm:atomic<bool>::operator bool': 'verif_flag_read_locked', 'm:std::atomic<bool>::operator bool': 'verif_flag_read_locked', 'm:__atomic_base<bool>::operator bool': 'verif_flag_read_locked',
    'm:@vec_cdel::insert': ('verif_cdel_insert', 'v'), 'm:@vec_cdel::erase': ('verif_cdel_erase', 'v'),
})
UNIT['after_structs'] = _b.UNIT['after_structs'] + '''
static inline _Bool verif_flag_read_locked(const _Bool *flag) {
  __CPROVER_assert(g_engine->executionQueueMutex.held, "[P:C05] the cancelled flag is consulted for a registration only with executionQueueMutex held (cancelBuild sets it under that mutex after walking the delegates)");
  return *flag != 0; }
unsigned g_cd_inserts, g_cd_erases; const void *g_cd_last;
static inline void verif_cdel_insert(vec_cdel *s, struct CancellationDelegate *d) {
  __CPROVER_assert(g_engine->executionQueueMutex.held, "[P:C05] the delegate set is changed only with executionQueueMutex held"); g_cd_inserts++; g_cd_last = d; }
static inline void verif_cdel_erase(vec_cdel *s, struct CancellationDelegate *d) {
  __CPROVER_assert(g_engine->executionQueueMutex.held, "[P:C05] the delegate set is changed only with executionQueueMutex held"); g_cd_erases++; g_cd_last = d; }
'''
UNIT['functions'] = {
    'BuildEngineImpl::addCancellationDelegate': {
        'requires': ['__CPROVER_is_fresh(self, sizeof(*self))', 'g_engine == self', '!self->executionQueueMutex.held', '__CPROVER_is_fresh(del, 1)', 'g_cd_notified == 0 && g_cd_inserts == 0'],
        'assigns': ['self->executionQueueMutex.held', 'g_cd_notified', 'g_cd_inserts', 'g_cd_last'],
        'ensures': [('P:C05', 'self->buildCancelled ? (g_cd_notified == 1 && g_cd_inserts == 0) : (g_cd_notified == 0 && g_cd_inserts == 1 && g_cd_last == (const void *)del)'),
                    ('P:C05,P:C06', '!self->executionQueueMutex.held')]},
    'BuildEngineImpl::removeCancellationDelegate': {
        'requires': ['__CPROVER_is_fresh(self, sizeof(*self))', 'g_engine == self', '!self->executionQueueMutex.held', '__CPROVER_is_fresh(del, 1)', 'g_cd_erases == 0'],
        'assigns': ['self->executionQueueMutex.held', 'g_cd_erases', 'g_cd_last'],
        'ensures': [('P:C05', 'g_cd_erases == 1 && g_cd_last == (const void *)del'), ('P:C05,P:C06', '!self->executionQueueMutex.held')]},
}
