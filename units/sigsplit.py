"""U-sig-split (BOUNDED, relational): ExternalCommand::getSignature and ShellCommand::getSignature run on two definitions that differ only in
where a list ends (a node moved from the inputs to the outputs; a word moved from the arguments to the deps paths).  The fed
sequences must differ -- otherwise the two definitions have the same signature for every hash function.  Plain cbmc, fixed small list
shapes, symbolic names.  Never counted as proved."""


def _combine(tr, n, obj, args, argnodes):
    t = tr.ntype(argnodes[0])
    base = t.base.replace('const ', '').strip()
    e = tr.expr(argnodes[0])
    if base in ('strref',):
        return '(*feed_str(%s, (%s).ptr))' % (obj, e)
    if base in ('vstr',):
        return '(*feed_str(%s, (%s).ptr))' % (obj, e if t.ptr == 0 and not t.ref else '*' + e if False else e)
    return '(*feed_int(%s, (uint64_t)(%s)))' % (obj, e)


UNIT = {
    'name': 'sigsplit',
    'source': 'lib/BuildSystem/ExternalCommand.cpp',
    'dumps': ['ExternalCommand::getSignature', 'buildsystem::ExternalCommand', 'buildsystem::Command'],
    'types': {'StringRef': 'strref', 'std::string': 'vstr', 'string': 'vstr', 'basic_string<char>': 'vstr',
              'CommandSignature': 'struct CommandSignature', 'basic::CommandSignature': 'struct CommandSignature'},
    'type_patterns': [(r'(std::)?vector<StringRef.*>', 'vec_strref'), (r'SmallVector<(std::)?(string|basic_string<char>), 1>', 'vec_vstr'),
                      (r'(std::)?vector<pair<StringRef, StringRef>.*>', 'vec_pair'), (r'SmallVector<(std::)?pair<StringRef, StringRef>, \d+>', 'vec_pair'), (r'(std::)?pair<StringRef, StringRef>', 'struct strpair'),
                      (r'(std::)?vector<(BuildNode|buildsystem::BuildNode) \*.*>', 'vec_node'), (r'(std::)?atomic<(basic::)?CommandSignature>', 'struct CommandSignature'),
                      (r'(buildsystem::)?BuildNode', 'struct nnode')],
    'by_value': ['strref', 'struct CommandSignature', 'vstr'],
    'predefined_structs': ['CommandSignature', 'strpair', 'nnode'],
    'no_translate': ['combine', 'getName', 'isNull', 'CommandSignature::combine'],
    'calls': {
        'm:@struct CommandSignature::isNull': '($o->value == 0)', 'm:@struct CommandSignature::operator basic::CommandSignature': '(*$o)',
        'm:@vstr::empty': '($o->len == 0)', 'm:@vstr::c_str': '((const char *)$o->ptr)', 'm:@vstr::data': '((const char *)$o->ptr)',
        'm:@vec_strref::size': 'vec_strref_size', 'm:@vec_vstr::size': 'vec_vstr_size', 'm:@vec_pair::size': 'vec_pair_size', 'm:@vec_node::size': 'vec_node_size',
        'range:@vec_strref': ('vec_strref_size', 'vec_strref_at'), 'range:@vec_vstr': ('vec_vstr_size', 'vec_vstr_at'),
        'range:@vec_pair': ('vec_pair_size', 'vec_pair_at'), 'range:@vec_node': ('vec_node_size', 'vec_node_at'),
        'c:CommandSignature(uint64_t)': 'sig_make', 'c:CommandSignature(StringRef)': 'sig_of_name',
        'o:=:@struct CommandSignature': '(*$o = $0)', 'm:@struct nnode::getName': '($o->name)', 'm:Node::getName': '($o->name)', 'm:BuildNode::getName': '($o->name)',
        'm:Command::getName': '($o->name)', 'm:ExternalCommand::getName': '($o->__base.name)',
    },
    'struct_extra': {'Command': '  strref name;\n'},
    'call_patterns': [(r'm:.*CommandSignature.*::combine', _combine), (r'm:atomic<.*>::operator .*', '(*$o)'), (r'o:=:atomic<.*>', '(*$o = $0)'),
                      (r'c:CommandSignature\(const (basic::)?CommandSignature &\)', '$0'), (r'c:atomic<.*', '$0'), (r'c:StringRef\(const (std::)?(string|basic_string<char>) &\)', 'vstr_str(&$0)')],
    'prelude': '#include "models/base.h"\n#include "models/vec.h"\n#include "models/strmodel.h"\n#include "models/sigsplit.h"\n',
    'functions': {
        'ExternalCommand::getSignature': {
            'bounded': 'two definitions with three nodes a, b, c: inputs [a, b] / outputs [c] against inputs [a] / outputs [b, c]; symbolic names and flags; loops unwound 4 times',
            'unwind': {'quick': 26, 'thorough': 26},
            'plain_harness': '''
  struct nnode a, b, c; struct nnode *l1[3]; struct nnode *l2[3];
  __CPROVER_assume(a.name.ptr != b.name.ptr && b.name.ptr != c.name.ptr && a.name.ptr != c.name.ptr);
  struct ExternalCommand x, y; y = x;                       /* same name, same flags */
  l1[0] = &a; l1[1] = &b; l1[2] = &c;
  x.__base.inputs.ptr = &l1[0]; x.__base.inputs.len = 2; x.__base.inputs.cap = 2; x.__base.outputs.ptr = &l1[2]; x.__base.outputs.len = 1; x.__base.outputs.cap = 1;
  y.__base.inputs.ptr = &l1[0]; y.__base.inputs.len = 1; y.__base.inputs.cap = 1; y.__base.outputs.ptr = &l1[1]; y.__base.outputs.len = 2; y.__base.outputs.cap = 2;
  g_n[0] = 0; g_n[1] = 0;
  g_run = 0; ExternalCommand_getSignature(&x);
  g_run = 1; ExternalCommand_getSignature(&y);
  __CPROVER_assert(!logs_equal(), "[P:C09] moving a node from the inputs to the outputs changes what is fed into the signature (the two definitions differ)");
''',
        },
    },
}
