"""U-eng-pool: the scan record pool of the engine -- BuildEngineImpl::newRuleScanRecord / freeRuleScanRecord (lib/Core/BuildEngine.cpp).
The engine units assume that newRuleScanRecord() hands out an empty record; here that is proved from the pool invariant
"every record on the free list is empty", which freeRuleScanRecord establishes (C06: a recycled record must not replay
another rule's paused input requests or deferred scan requests)."""
import copy
from units import engine as _e

_b = copy.deepcopy(_e.UNIT)
UNIT = {k: v for k, v in _b.items() if k not in ('functions', 'stubs', 'vardecl_overrides', 'no_translate', 'after_structs')}
UNIT['name'] = 'engine_pool'
UNIT['no_translate'] = []
UNIT['types'] = dict(_b['types'], **{'std::vector<RuleScanRecord *>': 'vec_RecordPtr', 'vector<RuleScanRecord *>': 'vec_RecordPtr',
                                     'std::vector<BuildEngineImpl::RuleScanRecord *>': 'vec_RecordPtr', 'vector<BuildEngineImpl::RuleScanRecord *>': 'vec_RecordPtr'})
UNIT['vec_types'] = dict(_b['vec_types'], vec_RecordPtr='struct BuildEngineImpl_RuleScanRecord *')
UNIT['calls'] = dict(_b['calls'], **{
    'm:@vec_RecordPtr::empty': 'vec_RecordPtr_empty', 'm:@vec_RecordPtr::size': 'vec_RecordPtr_size', 'm:@vec_RecordPtr::back': 'vec_RecordPtr_back',
    'm:@vec_RecordPtr::pop_back': 'vec_RecordPtr_pop_back', 'm:@vec_RecordPtr::push_back': ('vec_RecordPtr_push_back', 'v'),
    'm:@vec_TaskInputRequest::clear': 'vec_TaskInputRequest_clear', 'm:@vec_RuleScanRequest::clear': 'vec_RuleScanRequest_clear',
    'new[]:@struct BuildEngineImpl_RuleScanRecord': 'verif_new_records',
})
UNIT['after_structs'] = '''size_t g_k; struct BuildEngineImpl_RuleScanRecord *g_block; size_t g_block_n;
#define REC_EMPTY(r) ((r)->pausedInputRequests.len == 0 && (r)->deferredScanRequests.len == 0)
'''
REC = 'struct BuildEngineImpl_RuleScanRecord'
NB = 3     # records of the current block that are still unused and named individually in the precondition
UNIT['stubs'] = {
    # operator new[] of RuleScanRecord: default-constructed records hold two empty vectors (libstdc++ std::vector(): assumed)
    'verif_new_records': {'ret': REC + ' *', 'params': 'size_t n',
                          'requires': ['n > 0 && n <= 4096'], 'assigns': ['g_block', 'g_block_n'],
                          'ensures': ['__CPROVER_is_fresh(__CPROVER_return_value, n * sizeof(%s))' % REC, 'g_block == __CPROVER_return_value && g_block_n == n',
                                      'REC_EMPTY(&__CPROVER_return_value[0])']},
}
POOL = ['__CPROVER_is_fresh(self, sizeof(*self))', 'VEC_OK(self->freeRuleScanRecords, %s *)' % REC, 'VEC_OK(self->ruleScanRecordBlocks, %s *)' % REC]
UNIT['functions'] = {
    'BuildEngineImpl::freeRuleScanRecord': {
        'requires': POOL + ['__CPROVER_is_fresh(scanRecord, sizeof(*scanRecord))', 'self->freeRuleScanRecords.len < self->freeRuleScanRecords.cap',
                            'self->maximumFreeRuleScanRecords == 8096', 'g_k < self->freeRuleScanRecords.cap'],
        'assigns': ['self->freeRuleScanRecords.len', '__CPROVER_object_whole(self->freeRuleScanRecords.ptr)', 'scanRecord->pausedInputRequests.len', 'scanRecord->deferredScanRequests.len'],
        'ensures': [
            # a record that enters the free list is empty (nothing of the rule that used it is left to be replayed)
            ('P:C06', 'self->freeRuleScanRecords.len == OLD(self->freeRuleScanRecords.len) + 1 ==> (self->freeRuleScanRecords.ptr[OLD(self->freeRuleScanRecords.len)] == scanRecord && REC_EMPTY(scanRecord))'),
            'self->freeRuleScanRecords.len == OLD(self->freeRuleScanRecords.len) || self->freeRuleScanRecords.len == OLD(self->freeRuleScanRecords.len) + 1',
            '(g_k < OLD(self->freeRuleScanRecords.len)) ==> self->freeRuleScanRecords.ptr[g_k] == OLD(self->freeRuleScanRecords.ptr[g_k])',
        ],
    },
    'BuildEngineImpl::newRuleScanRecord': {
        'requires': POOL + [
            # pool invariant: the record on top of the free list is empty (established by freeRuleScanRecord for every pushed record)
            'self->freeRuleScanRecords.len > 0 ==> (__CPROVER_is_fresh(self->freeRuleScanRecords.ptr[self->freeRuleScanRecords.len - 1], sizeof(%s)) && REC_EMPTY(self->freeRuleScanRecords.ptr[self->freeRuleScanRecords.len - 1]))' % REC,
            # the unused tail of the current block holds default-constructed (empty) records
            '__CPROVER_is_fresh(g_block, %d * sizeof(%s))' % (NB, REC), 'g_block_n == %d' % NB,
            '__CPROVER_pointer_in_range_dfcc(g_block, self->currentBlockPos, g_block + %d) && self->currentBlockEnd == g_block + %d' % (NB, NB),
            '__CPROVER_POINTER_OFFSET(self->currentBlockPos) %% sizeof(%s) == 0' % REC] +
            ['REC_EMPTY(&g_block[%d])' % i for i in range(NB)] +
            ['self->ruleScanRecordBlocks.len < self->ruleScanRecordBlocks.cap', 'self->numScanRecordsPerBlock == 4096'],
        'assigns': ['self->freeRuleScanRecords.len', 'self->currentBlockPos', 'self->currentBlockEnd', 'self->ruleScanRecordBlocks.len',
                    '__CPROVER_object_whole(self->ruleScanRecordBlocks.ptr)', 'g_block', 'g_block_n'],
        'ensures': [
            ('P:C06', 'REC_EMPTY(__CPROVER_return_value)'),
            # taken from the free list (and removed from it) or the next unused record of the block (and the block advances)
            ('P:C06', '(OLD(self->freeRuleScanRecords.len) > 0) ==> (self->freeRuleScanRecords.len == OLD(self->freeRuleScanRecords.len) - 1 && self->currentBlockPos == OLD(self->currentBlockPos))'),
            ('P:C06', '(OLD(self->freeRuleScanRecords.len) == 0) ==> (self->freeRuleScanRecords.len == 0 && self->currentBlockPos == __CPROVER_return_value + 1)'),
        ],
        'replace': ['verif_new_records'],
    },
}
