"""U-proc-output: captureExecutedProcessOutput (lib/Basic/Subprocess.cpp, POSIX branch) -- C16 ("its output is fully collected"): the loop that drains a child's output
pipe after the child has released its lane.  Every chunk that is read is handed to the delegate -- the same buffer, exactly the number of bytes read -- before the next read;
the loop is left, and the pipe closed, only after the end of the output (a read of zero bytes) or a read error (reported once): a short read is NOT the end of the output."""


def _had_error(tr, n, obj, args, argnodes):
    tr.dropped.add('processHadError(ctx, handle, <message>): the message text (Twine concatenation) is not translated')
    return 'po_had_error(%s)' % obj


UNIT = {
    'name': 'procoutput',
    'source': 'lib/Basic/Subprocess.cpp',
    'dumps': ['captureExecutedProcessOutput'],
    'types': {'llbuild_pid_t': 'int', 'ProcessHandle': 'struct ProcessHandle', 'ssize_t': 'long', 'StringRef': 'strref'},
    'by_value': ['struct ProcessHandle'],
    'struct_extra': {'ManagedDescriptor': '  _Bool closed;\n'},
    'no_translate': ['close', 'processHadError', 'processHadOutput', 'strerror', '__errno_location', 'Read', 'unsafeDescriptor'],
    'calls': {
        'fn:__errno_location': 'po_errno', 'm:ManagedDescriptor::close': 'po_close($o)', 'm:ManagedDescriptor::unsafeDescriptor': 'po_fd($o)',
        'm:ProcessDelegate::processHadError': _had_error, 'm:ProcessDelegate::processHadOutput': 'po_had_output_impl(($2).ptr, ($2).len)',
        'fn:Read': 'po_read', 'c:StringRef(const char *, size_t)': 'strref_make',
    },
    'prelude': '#include "models/base.h"\n#include "models/procoutput.h"\n',
    'after_structs': ('static inline void po_close(struct ManagedDescriptor *fd) {\n'
                      '  __CPROVER_assert(!g_pending && (g_eof || g_read_failed), "[P:C16] the output pipe is closed only after the end of the output (a read of zero bytes) or a read error: a short read is not the end");\n'
                      '  fd->closed = 1; g_closes++; }\n'),
    'functions': {
        'captureExecutedProcessOutput': {
            'requires': ['__CPROVER_is_fresh(delegate, sizeof(*delegate))', '__CPROVER_is_fresh(outputPipe, sizeof(*outputPipe))', '!outputPipe->closed',
                         'g_reads == 0 && g_chunks == 0 && g_errors == 0 && !g_pending && !g_eof && !g_read_failed && g_closes == 0'],
            'assigns': ['g_reads', 'g_chunks', 'g_errors', 'g_pending', 'g_eof', 'g_read_failed', 'g_last_read', 'g_last_buf', 'g_errno', 'g_closes', 'outputPipe->closed'],
            'ensures': [
                # the pipe is closed, once, and only after the end of the output or a read error was seen
                ('P:C16', 'outputPipe->closed && g_closes == 1 && (g_eof || g_read_failed)'),
                # every chunk read was delivered (one delivery per successful non-empty read), a read error is reported exactly once
                ('P:C16', '!g_pending && g_chunks + (g_eof ? 1 : 0) + (g_read_failed ? 1 : 0) == g_reads'),
                ('P:C16', 'g_errors == (g_read_failed ? 1 : 0)'),
            ],
            'loops': {0: {'assigns': ['g_reads', 'g_chunks', 'g_errors', 'g_pending', 'g_eof', 'g_read_failed', 'g_last_read', 'g_last_buf', 'g_errno'],
                          'invariant': ['!g_pending && !g_eof && !g_read_failed && g_errors == 0 && g_chunks == g_reads && g_closes == 0 && !outputPipe->closed']}},
        },
    },
}
