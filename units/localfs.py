"""U-local-fs: LocalFileSystem::createSymlink (lib/Basic/FileSystem.cpp) -- C08 / C10: the symlink tool relies on a FAILED creation to remove a stale entry and try again
(SymlinkCommand::executeExternalCommand); so the file system reports success exactly when symlink(2) created the link -- one call, with the contents and the link path in
that order -- and never for a link that was already there."""
UNIT = {
    'name': 'localfs',
    'source': 'lib/Basic/FileSystem.cpp',
    'dumps': ['LocalFileSystem'],
    'types': {'std::string': 'vstr', 'string': 'vstr', 'basic_string<char>': 'vstr'},
    'by_pointer': ['vstr'],
    'no_translate': ['symlink', '__errno_location'],
    'calls': {'fn:symlink': 'lf_symlink', 'm:@vstr::c_str': 'lf_c_str', 'fn:__errno_location': 'lf_errno'},
    'prelude': ('#include "models/base.h"\n#include "models/strmodel.h"\n'
                'int g_errno, g_symlink_rc; unsigned g_symlinks; const char *g_sl_contents, *g_sl_path; int nondet_int(void);\n'
                'static inline int *lf_errno(void) { return &g_errno; }\n'
                'static inline const char *lf_c_str(const vstr *s) { return s->ptr; }\n'
                '/* symlink(2): 0 when the link was created, -1 with errno set (EEXIST = 17 among others) otherwise */\n'
                'static inline int lf_symlink(const char *contents, const char *path) { g_symlinks++; g_sl_contents = contents; g_sl_path = path;\n'
                '  g_symlink_rc = nondet_int(); __CPROVER_assume(g_symlink_rc == 0 || g_symlink_rc == -1); if (g_symlink_rc != 0) g_errno = nondet_int(); return g_symlink_rc; }\n'),
    'functions': {
        'LocalFileSystem::createSymlink': {
            'requires': ['__CPROVER_is_fresh(self, sizeof(*self))', '__CPROVER_is_fresh(src, sizeof(*src))', '__CPROVER_is_fresh(target, sizeof(*target))', 'g_symlinks == 0'],
            'assigns': ['g_symlinks', 'g_sl_contents', 'g_sl_path', 'g_symlink_rc', 'g_errno'],
            'ensures': [('P:C08,P:C10', 'g_symlinks == 1 && g_sl_contents == src->ptr && g_sl_path == target->ptr'),
                        ('P:C08,P:C10', '(RESULT != 0) == (g_symlink_rc == 0)')],
        },
    },
}
