"""U-capi-cb: the callback half of the C API (products/libllbuild/Core-C-API.cpp) -- C20: what the engine hands to a CAPITask / CAPIRule
reaches the client's C function unchanged (contexts, task interface, input id, value bytes with their length, status)."""
import copy
from units import capi as _c

UNIT = copy.deepcopy({k: v for k, v in _c.UNIT.items() if k not in ('functions', 'stubs')})
UNIT['name'] = 'capi_cb'
UNIT['dumps'] = ['Rule::StatusKind', 'CAPITask', 'CAPIBuildEngineDelegate', 'llb_data_t_', 'llb_task_interface_t_', 'llb_task_delegate_t_', 'llb_rule_t_', 'llb_buildengine_delegate_t_']
UNIT['types'] = dict(_c.UNIT['types'], **{'TaskInterface': 'struct TaskInterface', 'core::TaskInterface': 'struct TaskInterface', 'llb_rule_status_kind_t': 'int'})
UNIT['by_value'] = list(_c.UNIT['by_value']) + ['struct TaskInterface', 'struct llb_task_interface_t', 'struct llb_data_t']
UNIT['no_translate'] = ['delegate']
UNIT['need_fields'] = {'llb_rule_t_': ['context', 'create_task', 'update_status', 'is_result_valid']}
UNIT['calls'] = dict(_c.UNIT['calls'], **{
    'm:TaskInterface::delegate': 'cb_ti_delegate', 'm:@struct TaskInterface::delegate': 'cb_ti_delegate',
    'fp:start': 'cb_start', 'fp:provide_value': 'cb_provide_value', 'fp:inputs_available': 'cb_inputs_available', 'fp:create_task': 'cb_create_task',
    'fp:is_result_valid': 'cb_is_result_valid', 'fp:update_status': 'cb_update_status', 'fp:cycle_detected': 'cb_cycle_detected',
    'm:@struct datavec::reserve': 'datavec_reserve', 'm:@struct datavec::push_back': ('datavec_push', 'v'), 'm:@struct datavec::data': 'datavec_data', 'm:@struct datavec::size': 'datavec_size',
    'range:@struct rulevec': ('rulevec_size', 'rulevec_at'), 'm:@struct rulevec::size': 'rulevec_size', 'm:@keyt::size': 'keyt_size_v', 'm:@keyt::data': 'keyt_data_v',
})
UNIT['type_patterns'] = list(_c.UNIT.get('type_patterns', [])) + [(r'(std::)?vector<llb_data_t.*>', 'struct datavec'), (r'(std::)?vector<(core::)?Rule \*.*>', 'struct rulevec')]
UNIT['predefined_structs'] = list(_c.UNIT.get('predefined_structs', [])) + ['datavec', 'rulevec']
UNIT['call_patterns'] = [(r'c:(basic_string<char>|string|std::string|KeyType)\(const (std::)?(basic_string<char>|string|KeyType).*&\)', 'keyt_copy_local'), (r'c:(std::)?vector<llb_data_t.*>/0', 'datavec_new'), (r'c:(std::)?vector<llb_data_t.*>\(\)', 'datavec_new')] + list(_c.UNIT.get('call_patterns', [])) + [(r'c:llb_task_interface_t(_)?\(const llb_task_interface_t_ &\)', '$0'), (r'c:llb_data_t(_)?\(const llb_data_t_ &\)', '$0')]
UNIT['prelude'] = _c.UNIT['prelude'] + '#include "models/capi_cb.h"\n'
UNIT['after_structs'] = '''
#include "models/capi_cycle.h"
static inline void cb_start(void *ctx, void *ectx, struct llb_task_interface_t ti) { g_cb_calls++; g_cb_ctx = ctx; g_cb_engine_ctx = ectx; g_cb_ti_impl = ti.impl; g_cb_ti_ctx = ti.ctx; }
static inline void cb_inputs_available(void *ctx, void *ectx, struct llb_task_interface_t ti) { g_cb_calls++; g_cb_ctx = ctx; g_cb_engine_ctx = ectx; g_cb_ti_impl = ti.impl; g_cb_ti_ctx = ti.ctx; }
static inline void cb_provide_value(void *ctx, void *ectx, struct llb_task_interface_t ti, uintptr_t id, const struct llb_data_t *v) { g_cb_calls++; g_cb_ctx = ctx; g_cb_engine_ctx = ectx; g_cb_ti_impl = ti.impl; g_cb_ti_ctx = ti.ctx; g_cb_id = id; g_cb_len = v->length; g_cb_data = v->data; }
static inline void *cb_create_task(void *ctx, void *ectx) { g_cb_calls++; g_cb_ctx = ctx; g_cb_engine_ctx = ectx; return g_cb_task; }
static inline _Bool cb_is_result_valid(void *ctx, void *ectx, const void *rule, const struct llb_data_t *v) { g_cb_calls++; g_cb_ctx = ctx; g_cb_engine_ctx = ectx; g_cb_rule = rule; g_cb_len = v->length; g_cb_data = v->data; return g_cb_answer; }
static inline void cb_cycle_detected(void *ctx, struct llb_data_t *keys, uint64_t n) { g_cb_calls++; g_cb_ctx = ctx; g_cyc_n = n; g_cyc_keys = keys; }
static inline void cb_update_status(void *ctx, void *ectx, int status) { g_cb_calls++; g_cb_ctx = ctx; g_cb_engine_ctx = ectx; g_cb_status = status; }
'''
SELF = ['__CPROVER_is_fresh(self, sizeof(*self))', '__CPROVER_is_fresh(g_delegate, sizeof(*g_delegate))', 'g_cb_calls == 0']
A = ['g_cb_calls', 'g_cb_ctx', 'g_cb_engine_ctx', 'g_cb_ti_impl', 'g_cb_ti_ctx', 'g_cb_id', 'g_cb_len', 'g_cb_data', 'g_cb_status', 'g_cb_rule']
TASK_OK = 'g_cb_calls == 1 && g_cb_ctx == self->cAPIDelegate.context && g_cb_engine_ctx == g_delegate->cAPIDelegate.context && g_cb_ti_impl == ti.impl && g_cb_ti_ctx == ti.ctx'
UNIT['functions'] = {
    'CAPITask::start': {'requires': SELF, 'assigns': A, 'ensures': [('P:C20', TASK_OK)]},
    'CAPITask::inputsAvailable': {'requires': SELF, 'assigns': A, 'ensures': [('P:C20', TASK_OK)]},
    'CAPITask::provideValue': {'requires': SELF, 'assigns': A,
                               # the value reaches the client with its byte length (values may contain NUL bytes) under the input id the engine was given
                               'ensures': [('P:C20', TASK_OK + ' && g_cb_id == inputID && g_cb_len == value.len && g_cb_data == (const void *)value.ptr')]},
    'CAPIRule::createTask': {'requires': ['__CPROVER_is_fresh(self, sizeof(*self))', 'g_cb_calls == 0'], 'assigns': A,
                             'ensures': [('P:C20', 'g_cb_calls == 1 && g_cb_ctx == self->rule.context && g_cb_engine_ctx == self->engineContext && RESULT == (struct Task *)g_cb_task')]},
    'CAPIRule::isResultValid': {'requires': ['__CPROVER_is_fresh(self, sizeof(*self))', 'g_cb_calls == 0'], 'assigns': A,
                                # without a client callback every stored result is valid; with one the client decides, seeing the value bytes with their length
                                'ensures': [('P:C20', 'self->rule.is_result_valid == 0 ? (RESULT && g_cb_calls == 0) : (g_cb_calls == 1 && (RESULT != 0) == (g_cb_answer != 0) && g_cb_ctx == self->rule.context && '
                                                      'g_cb_engine_ctx == self->engineContext && g_cb_rule == (const void *)&self->rule && g_cb_len == value.len && g_cb_data == (const void *)value.ptr)')]},
    'CAPIRule::updateStatus': {'requires': ['__CPROVER_is_fresh(self, sizeof(*self))', 'g_cb_calls == 0'], 'assigns': A,
                               'ensures': [('P:C20', 'self->rule.update_status == 0 ? g_cb_calls == 0 : (g_cb_calls == 1 && g_cb_ctx == self->rule.context && g_cb_engine_ctx == self->engineContext && g_cb_status == (int)status)')]},
    # the keys of the cycle reach the client as (length, pointer) pairs that point INTO the rules' own keys (alive as long as the rules), in order, NUL-safe
    'CAPIBuildEngineDelegate::cycleDetected': {
        'requires': ['__CPROVER_is_fresh(self, sizeof(*self))', '__CPROVER_is_fresh(items, sizeof(*items))', '__CPROVER_is_fresh(items->ptr, NR * sizeof(struct Rule *)) && items->len <= NR',
                     ' && '.join('__CPROVER_is_fresh(items->ptr[%d], sizeof(struct Rule))' % k for k in range(3)), 'g_cb_calls == 0 && g_key_copies == 0', 'g_k < items->len'],
        'assigns': ['g_cb_calls', 'g_cb_ctx', 'g_cyc_n', 'g_cyc_keys', 'g_key_copies', 'g_datavec_len', '__CPROVER_object_whole(g_datavec_buf)'],
        'ensures': [('P:C20', 'g_cb_calls == 1 && g_cb_ctx == self->cAPIDelegate.context && g_cyc_n == items->len && g_cyc_keys == g_datavec_buf'),
                    ('P:C20', 'g_datavec_buf[g_k].length == items->ptr[g_k]->key.len && g_datavec_buf[g_k].data == (const uint8_t *)items->ptr[g_k]->key.ptr')],
        'loops': {0: {'assigns': ['$i', 'g_datavec_len', '__CPROVER_object_whole(g_datavec_buf)', 'g_key_copies'],
                      'invariant': ['$i <= $range->len && g_datavec_len == $i && ((g_k < $i) ==> (g_datavec_buf[g_k].length == items->ptr[g_k]->key.len && g_datavec_buf[g_k].data == (const uint8_t *)items->ptr[g_k]->key.ptr))'],
                      'decreases': '$range->len - $i'}},
    },
}
