"""U-ninja-eval: ManifestLoaderImpl::evalString (lib/Ninja/ManifestLoader.cpp) -- C17 ($-escapes, ${var}, $var, line continuations) and
C19 (no byte outside the string is read, every loop terminates)."""


def _piece(tr, n, obj, args, argnodes):
    """result << StringRef(p, n) / result << char(c)"""
    rhs = argnodes[0]
    t = tr.ntype(rhs)
    if t.base.replace('const ', '').strip() == 'char' and t.ptr == 0:
        return 'ev_char(%s, %s)' % (obj, tr.expr(rhs))
    e = tr.expr(rhs)
    return 'ev_piece(%s, (%s).ptr, (%s).len)' % (obj, e, e)


def _lookup(tr, n, obj, args, argnodes):
    e = tr.expr(argnodes[1])
    return 'ev_lookup(%s, %s, (%s).ptr, (%s).len, %s)' % (obj, tr.expr(argnodes[0]), e, e, tr.addr(tr.expr(argnodes[2])))


def _error(tr, n, obj, args, argnodes):
    tr.dropped.add('the message text passed to the error callback of evalString')
    return 'ev_error(%s)' % obj


OFF = '__CPROVER_POINTER_OFFSET'
SAMEB = lambda p: '__CPROVER_same_object(%s, g_begin)' % p
INP = ''
IDC = lambda c: '((%s >= 97 && %s <= 122) || (%s >= 65 && %s <= 90) || (%s >= 48 && %s <= 57) || %s == 95 || %s == 46 || %s == 45)' % ((c,) * 9)
SIDC = lambda c: '((%s >= 97 && %s <= 122) || (%s >= 65 && %s <= 90) || (%s >= 48 && %s <= 57) || %s == 95 || %s == 45)' % ((c,) * 8)

BASE_REQ = ['__CPROVER_is_fresh(pos, sizeof(*pos))', '__CPROVER_is_fresh(end, sizeof(*end))', '__CPROVER_is_fresh(g_begin, g_len)', 'g_len <= ((size_t)1 << 31) && g_len >= 1', 'g_end == g_begin + g_len', '*end == g_end',
            '__CPROVER_pointer_in_range_dfcc(g_begin, *pos, g_end)', 'g_lookups == 0 && g_errors == 0 && g_chars == 0 && g_pieces == 0']
INR = SAMEB('*pos') + ' && ' + OFF + '(*pos) <= g_len'
SEG = lambda name, kind, mentions, excludes=(), **kw: {'of': 'ManifestLoaderImpl::evalString', 'cname': 'ManifestLoaderImpl_evalString_' + name, 'nparams': 5,
                                                        'segment': dict({'kind': kind, 'mentions': list(mentions), 'excludes': list(excludes), 'exits': True}, **kw)}
SEGS = {
    # `for (; pos != end; ++pos) if (*pos == '$') break;` -- the literal run up to the next '$'
    'ManifestLoaderImpl::evalString#run': dict(SEG('run', 'ForStmt', ['pos', 'end']),
        requires=BASE_REQ + ['__CPROVER_is_fresh(__seg_exit, sizeof(int))'], assigns=['*__seg_exit', '*pos'],
        ensures=[('P:C19', INR + ' && ' + OFF + '(*pos) >= ' + OFF + '(OLD(*pos))'),
                 ('P:C17', '(g_k < ' + OFF + '(*pos) - ' + OFF + '(OLD(*pos))) ==> g_begin[' + OFF + '(OLD(*pos)) + g_k] != 36'),
                 ('P:C17', OFF + '(*pos) == g_len || **pos == 36')],
        loops={0: {'assigns': ['*pos'], 'invariant': [INR + ' && *end == g_end && ' + OFF + '(*pos) >= ' + OFF + '(__CPROVER_loop_entry(*pos))',
                                                      '(g_k < ' + OFF + '(*pos) - ' + OFF + '(__CPROVER_loop_entry(*pos))) ==> g_begin[' + OFF + '(__CPROVER_loop_entry(*pos)) + g_k] != 36'],
                   'decreases': 'g_len - ' + OFF + '(*pos)'}}),
    # `if (pos != pieceStart) result << StringRef(pieceStart, pos - pieceStart);`
    'ManifestLoaderImpl::evalString#piece': dict(SEG('piece', 'IfStmt', ['pieceStart', 'result', 'pos'], ['lookup', 'error', 'varStart', 'end']),
        requires=[r for r in BASE_REQ if 'end' not in r.replace('g_end', '')] + ['__CPROVER_is_fresh(__seg_exit, sizeof(int))', '__CPROVER_is_fresh(result, 1)', '__CPROVER_is_fresh(pieceStart, sizeof(*pieceStart))',
                  '__CPROVER_pointer_in_range_dfcc(g_begin, *pieceStart, *pos)',
                  # what the run step before it established
                  '(g_k < ' + OFF + '(*pos) - ' + OFF + '(*pieceStart)) ==> g_begin[' + OFF + '(*pieceStart) + g_k] != 36', OFF + '(*pos) == g_len || **pos == 36'],
        assigns=['*__seg_exit', 'g_pieces'],
        ensures=[('P:C17', 'g_pieces == ((*pos != *pieceStart) ? 1 : 0) && *__seg_exit == 0')]),
    # `++pos; if (pos == end) { error(...); break; }` -- a '$' as the last character
    'ManifestLoaderImpl::evalString#atend': dict(SEG('atend', 'IfStmt', ['pos', 'end', 'error'], ['varStart', 'lookup', 'isspace', 'pieceStart', 'c'], nth=0, of_n=2),
        requires=BASE_REQ + ['__CPROVER_is_fresh(__seg_exit, sizeof(int))', '__CPROVER_is_fresh(error, 1)'], assigns=['*__seg_exit', 'g_errors'],
        ensures=[('P:C17,P:C19', '(*pos == *end) ? (*__seg_exit == 3 && g_errors == 1) : (*__seg_exit == 0 && g_errors == 0)')]),
    # `$` + newline: the newline and all following white space are skipped
    'ManifestLoaderImpl::evalString#cont': dict(SEG('cont', 'IfStmt', ['isspace', 'pos', 'c']),
        requires=BASE_REQ + ['__CPROVER_is_fresh(__seg_exit, sizeof(int))', '__CPROVER_is_fresh(c, sizeof(*c))', OFF + '(*pos) < g_len && *c == **pos'], assigns=['*__seg_exit', '*pos'],
        ensures=[('P:C19', INR), ('P:C17', '(*c == 10) ? (*__seg_exit == 2 && ' + OFF + '(*pos) > ' + OFF + '(OLD(*pos))) : (*__seg_exit == 0 && *pos == OLD(*pos))'),
                 ('P:C17', '(*c == 10 && ' + OFF + '(*pos) < g_len) ==> !(**pos == 32 || (**pos >= 9 && **pos <= 13))')],
        loops={0: {'assigns': ['*pos'], 'invariant': [INR + ' && *end == g_end && ' + OFF + '(*pos) > ' + OFF + '(__CPROVER_loop_entry(*pos)) - 1'], 'decreases': 'g_len - ' + OFF + '(*pos)'}}),
    # `$ `, `$:`, `$$`: the character itself
    'ManifestLoaderImpl::evalString#esc': dict(SEG('esc', 'IfStmt', ['result', 'c', 'pos'], ['isspace', 'lookup', 'error', 'pieceStart', 'varStart', 'isSimpleIdentifierChar']),
        requires=[r for r in BASE_REQ if 'end' not in r.replace('g_end', '')] + ['__CPROVER_is_fresh(__seg_exit, sizeof(int))', '__CPROVER_is_fresh(c, sizeof(*c))', '__CPROVER_is_fresh(result, 1)', OFF + '(*pos) < g_len && *c == **pos'], assigns=['*__seg_exit', '*pos', 'g_chars'],
        ensures=[('P:C17', '(*c == 32 || *c == 58 || *c == 36) ? (*__seg_exit == 2 && g_chars == 1 && ' + OFF + '(*pos) == ' + OFF + '(OLD(*pos)) + 1) : (*__seg_exit == 0 && g_chars == 0 && *pos == OLD(*pos))'), ('P:C19', INR)]),
    # `${name}`
    'ManifestLoaderImpl::evalString#braced': dict(SEG('braced', 'IfStmt', ['varStart', 'isValid', 'lookup', 'isIdentifierChar']),
        requires=BASE_REQ + ['__CPROVER_is_fresh(__seg_exit, sizeof(int))', '__CPROVER_is_fresh(c, sizeof(*c))', '__CPROVER_is_fresh(result, 1)', '__CPROVER_is_fresh(lookup, 1) && __CPROVER_is_fresh(error, 1)',
                             '__CPROVER_is_fresh(userContext, sizeof(*userContext))', OFF + '(*pos) >= 1 && ' + OFF + '(*pos) < g_len && *c == **pos && (*pos)[-1] == 36'],
        assigns=['*__seg_exit', '*pos', 'g_lookups', 'g_errors'],
        ensures=[('P:C19', INR), ('P:C17', '(*c == 123) ? (*__seg_exit == 2 && g_lookups + g_errors == 1 && ' + OFF + '(*pos) > ' + OFF + '(OLD(*pos))) : (*__seg_exit == 0 && *pos == OLD(*pos) && g_lookups == 0 && g_errors == 0)')],
        loops={0: {'assigns': ['*pos', 'isValid', 'g_lookups', 'g_errors'],
                   'invariant': [INR + ' && *end == g_end && ' + SAMEB('varStart') + ' && ' + OFF + '(varStart) <= ' + OFF + '(*pos) && ' + OFF + '(varStart) >= 2 && varStart[-1] == 123 && varStart[-2] == 36 && g_errors == 0 && g_lookups == 0',
                                 '(isValid && g_k < ' + OFF + '(*pos) - ' + OFF + '(varStart)) ==> ' + IDC('varStart[g_k]')],
                   'decreases': 'g_len - ' + OFF + '(*pos)'}}),
    # `$name`
    'ManifestLoaderImpl::evalString#simple': dict(SEG('simple', 'IfStmt', ['varStart', 'isSimpleIdentifierChar', 'lookup'], ['isValid']),
        requires=BASE_REQ + ['__CPROVER_is_fresh(__seg_exit, sizeof(int))', '__CPROVER_is_fresh(c, sizeof(*c))', '__CPROVER_is_fresh(result, 1)', '__CPROVER_is_fresh(lookup, 1)',
                             '__CPROVER_is_fresh(userContext, sizeof(*userContext))', OFF + '(*pos) >= 1 && ' + OFF + '(*pos) < g_len && *c == **pos && (*pos)[-1] == 36'],
        assigns=['*__seg_exit', '*pos', 'g_lookups'],
        ensures=[('P:C19', INR), ('P:C17', SIDC('*c') + ' ? (*__seg_exit == 2 && g_lookups == 1 && ' + OFF + '(*pos) > ' + OFF + '(OLD(*pos))) : (*__seg_exit == 0 && *pos == OLD(*pos) && g_lookups == 0)')],
        loops={0: {'assigns': ['*pos'], 'invariant': [INR + ' && *end == g_end && ' + SAMEB('varStart') + ' && ' + OFF + '(varStart) < ' + OFF + '(*pos) && ' + OFF + '(varStart) >= 1 && varStart[-1] == 36',
                                                      '(g_k < ' + OFF + '(*pos) - ' + OFF + '(varStart)) ==> ' + SIDC('varStart[g_k]')], 'decreases': 'g_len - ' + OFF + '(*pos)'}}),
}
for _v in SEGS.values():
    _v['solver'] = 'cadical'
UNIT = {
    'name': 'ninja_eval',
    'source': 'lib/Ninja/ManifestLoader.cpp',
    'dumps': ['ManifestLoaderImpl::evalString', 'Lexer::isIdentifierChar', 'Lexer::isSimpleIdentifierChar'],
    'types': {'StringRef': 'strref', 'raw_ostream': 'struct ostream', 'llvm::raw_ostream': 'struct ostream'},
    'type_patterns': [(r'(std::)?function<void \(void \*, (llvm::)?StringRef, (llvm::)?raw_ostream &\)>', 'struct lookupfn'), (r'(std::)?function<void \(const (std::)?(string|basic_string<char>) &\)>', 'struct errorfn')],
    'by_value': ['strref'],
    'predefined_structs': ['ostream', 'lookupfn', 'errorfn'],
    'calls': {
        'o:<<:raw_ostream': _piece, 'o:<<:@struct ostream': _piece, 'o:():@struct lookupfn': _lookup, 'o:():@struct errorfn': _error,
        'm:@strref::begin': '($o->ptr)', 'm:@strref::end': '($o->ptr + $o->len)', 'fn:isspace': 'verif_isspace', 'c:StringRef(const char *, size_t)': 'strref_make',
    },
    'prelude': '#include "models/base.h"\n#include "models/ninja_eval.h"\n',
    'functions': SEGS,
}
