"""U-ninja-valid: buildInputIsResultValid / buildCommandIsResultValid / selectCompositeIsResultValid
(lib/Commands/NinjaBuildCommand.cpp) -- C18, validity predicates only."""
KIND = 'BuildValue_BuildValueKind_'
SUCC = 'g_value.kind == %sSuccessfulCommand' % KIND
HASH_EQ = 'g_value.commandHash.value == g_cmd_hash'
OUT_OK = '(!g_current[g_k].missing && g_stored[g_k].id == g_current[g_k].id && !g_stored[g_k].missing)'
CMD = ['__CPROVER_is_fresh(command, sizeof(*command))', '__CPROVER_is_fresh(valueData, sizeof(*valueData))',
       '__CPROVER_is_fresh(command->outputs.ptr, 8 * sizeof(struct Node *)) && command->outputs.len <= 8 && command->outputs.cap == 8',
       ' && '.join('__CPROVER_is_fresh(command->outputs.ptr[%d], sizeof(struct Node))' % i for i in range(8)),
       ' && '.join('command->outputs.ptr[%d]->g_idx == %d' % (i, i) for i in range(8)), 'g_k < command->outputs.len',
       'g_value.kind <= 4']

UNIT = {
    'name': 'ninja_valid',
    'source': 'lib/Commands/NinjaBuildCommand.cpp',
    'dumps': ['buildInputIsResultValid', 'buildCommandIsResultValid', 'selectCompositeIsResultValid', 'BuildValue::BuildValueKind', 'BuildValue::is', 'BuildValue::getCommandHash'],
    'types': {'StringRef': 'strref', 'FileInfo': 'struct FileInfo', 'basic::FileInfo': 'struct FileInfo', 'core::ValueType': 'vbytes', 'ValueType': 'vbytes',
              'std::string': 'vstr', 'string': 'vstr', 'basic_string<char>': 'vstr', 'CommandSignature': 'struct CommandSignature', 'basic::CommandSignature': 'struct CommandSignature',
              'BuildValue': 'struct BuildValue'},
    'type_patterns': [(r'(std::)?vector<(ninja::)?Node \*.*>', 'vec_node'), (r'vector<(unsigned char|uint8_t)(, allocator<(unsigned char|uint8_t)>)?\s*>', 'vbytes')],
    'by_value': ['strref', 'struct FileInfo', 'struct CommandSignature', 'struct BuildValue'], 'by_pointer': ['vstr', 'vbytes'],
    'predefined_structs': ['FileInfo', 'CommandSignature', 'BuildValue'],
    'vec_types': {'vec_node': 'struct Node *'},
    'struct_extra': {'Node': '  size_t g_idx;\n', 'Command': '  vec_node outputs;\n  _Bool g_generator;\n'},
    'no_translate': ['fromValue', 'getInfoForPath', 'getOutputInfo', 'getNthOutputInfo', 'getCanonicalPath', 'getCommandString', 'hasGeneratorFlag', 'getOutputs'],
    'calls': {
        'fn:fromValue': 'verif_from_value', 'fn:getInfoForPath': 'verif_info_for_path',
        'm:Command::hasGeneratorFlag': '($o->g_generator != 0)', 'm:Command::getOutputs': '($o->outputs)', 'm:Command::getCommandString': 'verif_cmd_string',
        'm:Node::getCanonicalPath': 'verif_node_path',
        'm:@vec_node::size': 'vec_node_size', 'o:[]:@vec_node': '$o->ptr[$0]',
        'm:@struct BuildValue::getOutputInfo': 'verif_output_info0', 'm:@struct BuildValue::getNthOutputInfo': 'verif_stored_info',
        'm:@struct BuildValue::getCommandHash': '($o->commandHash)',
        'm:@struct FileInfo::isMissing': '($o->missing != 0)', 'o:!=:@struct FileInfo': 'verif_info_ne', 'o:==:@struct FileInfo': 'verif_info_eq',
        'c:CommandSignature(StringRef)': 'verif_sig_of', 'c:CommandSignature(const std::string &)': 'verif_sig_of_s', 'c:CommandSignature(const string &)': 'verif_sig_of_s',
        'o:!=:@struct CommandSignature': '($o->value != $0.value)',
        'c:StringRef(const std::string &)': 'verif_sref', 'c:StringRef(const string &)': 'verif_sref',
    },
    'call_patterns': [(r'c:BuildValue\(.*BuildValue &&\)', '$0'), (r'c:BuildValue/1', '$0')],
    'prelude': '#include "models/base.h"\n#include "models/vec.h"\n#include "models/ninja_valid.h"\n',
    'after_structs': '#include "models/ninja_valid_after.h"\n',
    'functions': {
        'buildCommandIsResultValid': {
            'requires': CMD, 'assigns': ['g_path_idx'],
            'ensures': [
                # a failed or skipped stored result is never valid (retried next time)
                ('P:C18', '!(%s) ==> !RESULT' % SUCC),
                # a changed command line re-runs its command (generator commands excepted)
                ('P:C18', '(!command->g_generator && !(%s)) ==> !RESULT' % HASH_EQ),
                # valid only if every output exists and still has the recorded file information
                ('P:C18', 'RESULT ==> %s' % OUT_OK),
                ('P:C18', '(%s && (command->g_generator || %s) && command->outputs.len == 0) ==> RESULT' % (SUCC, HASH_EQ))],
            'loops': {0: {'assigns': ['i', 'g_path_idx'], 'invariant': ['i <= e && e == (unsigned)command->outputs.len', '(g_k < (size_t)i) ==> %s' % OUT_OK], 'decreases': 'e - i'}},
        },
        'selectCompositeIsResultValid': {
            'requires': ['__CPROVER_is_fresh(command, sizeof(*command))', '__CPROVER_is_fresh(valueData, sizeof(*valueData))', 'g_value.kind <= 4'], 'assigns': [],
            'ensures': [('P:C18', '(RESULT != 0) == (%s && %s)' % (SUCC, HASH_EQ))]},
        'buildInputIsResultValid': {
            'requires': ['__CPROVER_is_fresh(node, sizeof(*node))', '__CPROVER_is_fresh(valueData, sizeof(*valueData))', 'node->g_idx == 0', 'g_value.kind <= 4'], 'assigns': ['g_path_idx'],
            # an input is up to date exactly when it was recorded as existing, still exists, and its file information is unchanged
            'ensures': [('P:C18', '(RESULT != 0) == (g_value.kind == %sExistingInput && !g_current[0].missing && g_stored[0].id == g_current[0].id && !g_stored[0].missing)' % KIND)]},
    },
}
