"""U-capi-db: the record handed out by the database half of the C API (products/libllbuild/BuildDB-C-API.cpp, mapResult) -- C20: every field of a stored rule result reaches
the C client in the field of that name: value, signature, computed_at, built_at, start, end, the dependency array and its count.  The statement that builds the record is
verified as a segment (the dependency-mapping loop before it is not under contract)."""
UNIT = {
    'name': 'capi_db',
    'source': 'products/libllbuild/BuildDB-C-API.cpp',
    'dumps': ['mapResult', 'core::Result', 'llb_database_result_t_', 'llb_data_t_'],
    'types': {'std::vector<uint8_t>': 'vbytes', 'vector<uint8_t>': 'vbytes', 'ValueType': 'vbytes', 'core::ValueType': 'vbytes', 'Epoch': 'uint64_t', 'basic::Clock::Timestamp': 'double', 'Clock::Timestamp': 'double',
              'DependencyKeyIDs': 'struct DependencyKeyIDs', 'core::DependencyKeyIDs': 'struct DependencyKeyIDs', 'CommandSignature': 'struct CommandSignature', 'basic::CommandSignature': 'struct CommandSignature'},
    'type_patterns': [(r'llb_build_key_t \*\s*_Nonnull', 'void *'), (r'llb_build_key_t \*\s*_Nonnull\s*\*\s*_Nullable', 'void **'), (r'llb_build_key_t', 'void'), (r'vector<(unsigned char|uint8_t)(, allocator<(unsigned char|uint8_t)>)?\s*>', 'vbytes')],
    'by_value': ['vbytes', 'struct CommandSignature', 'struct llb_data_t', 'struct llb_database_result_t'],
    'full_structs': ['Result', 'llb_database_result_t_', 'llb_data_t_'],
    'predefined_structs': ['DependencyKeyIDs', 'CommandSignature'],
    'no_translate': ['mapData'],
    'calls': {'fn:mapData': 'verif_map_data'},
    'call_patterns': [(r'c:(std::)?vector<(unsigned char|uint8_t).*>\(const .*&\)', '$0')],
    'prelude': ('#include "models/base.h"\n'
                'typedef struct vbytes { uint8_t *ptr; size_t len; } vbytes;\nstruct DependencyKeyIDs { size_t n; }; struct CommandSignature { uint64_t value; };\n'),
    'after_structs': ('/* mapData: a malloc\'ed copy of the value bytes with their length (not under contract) */\n'
                      'uint8_t g_copy_marker;\n'
                      'static inline struct llb_data_t verif_map_data(vbytes v) { struct llb_data_t d; d.length = v.len; d.data = &g_copy_marker; return d; }\n'),
    'functions': {
        'mapResult#record': {
            'of': 'mapResult', 'cname': 'mapResult_record_step',
            'segment': {'kind': 'ReturnStmt', 'mentions': ['mapData', 'computedAt', 'builtAt', 'deps', 'count'], 'exits': True},
            'requires': ['__CPROVER_is_fresh(result, sizeof(*result))', '__CPROVER_is_fresh(__seg_exit, sizeof(int))', '__CPROVER_is_fresh(__seg_retval, sizeof(*__seg_retval))', '__CPROVER_is_fresh(deps, sizeof(*deps))',
                         '__CPROVER_is_fresh(count, sizeof(*count))', 'result->start == result->start && result->end == result->end'],
            'assigns': ['*__seg_exit', '*__seg_retval'],
            'ensures': [('P:C20', '__seg_retval->value.length == result->value.len && __seg_retval->signature == result->signature.value'),
                        ('P:C20', '__seg_retval->computed_at == result->computedAt && __seg_retval->built_at == result->builtAt'),
                        ('P:C20', '__seg_retval->start == result->start && __seg_retval->end == result->end'),
                        ('P:C20', '__seg_retval->dependencies == *deps && __seg_retval->dependencies_count == (uint32_t)*count')]},
    },
}
