"""U-bincode: BinaryEncoder::write / BinaryDecoder::read for the integer widths (include/llbuild/Basic/BinaryCoding.h) -- C15:
the bytes written are the little-endian bytes of the value, the value read is the little-endian value of the bytes, positions advance by
the width; the round trip is then a bit-vector identity (checked as a lemma).  Also the item level that U-db-row assumes."""
LE = lambda v, n: ' && '.join('self->encdata.ptr[OLD(self->encdata.len) + %d] == (uint8_t)(%s >> %d)' % (i, v, 8 * i) for i in range(n))
RD = lambda n, t: ' | '.join('((%s)(uint8_t)self->data.ptr[OLD(self->pos) + %d] << %d)' % (t, i, 8 * i) for i in range(n))


def W(n, t):
    return {'of': 'BinaryEncoder::write', 'cname': 'BinaryEncoder_write_u%d' % (8 * n), 'ptypes': [t],
            'requires': ['__CPROVER_is_fresh(self, sizeof(*self))', 'VEC_OKN(self->encdata, uint8_t, 64) && self->encdata.len + %d <= 64' % n, 'g_k < 64'],
            'inline_in_callers': True,
            'assigns': ['self->encdata.len', '__CPROVER_object_whole(self->encdata.ptr)'],
            'ensures': [('P:C15', 'self->encdata.len == OLD(self->encdata.len) + %d && %s' % (n, LE('value', n))),
                        # what was written before is untouched (ghost index)
                        ('P:C15', '(g_k < OLD(self->encdata.len)) ==> self->encdata.ptr[g_k] == OLD(self->encdata.ptr[g_k])')]}


def R(n, t):
    return {'requires': ['__CPROVER_is_fresh(self, sizeof(*self))', '__CPROVER_is_fresh(self->data.ptr, 64) && self->data.len <= 64',
                         # the decoder does not check: reading inside the data is the caller's obligation (asserted only in readBytes, and asserts are compiled out)
                         'self->pos <= 64 && self->pos + %d <= self->data.len' % n],
            'assigns': ['self->pos'],
            'ensures': [('P:C15', 'RESULT == (%s)(%s) && self->pos == OLD(self->pos) + %d' % (t, RD(n, t), n))]}


UNIT = {
    'name': 'bincode',
    'source': 'lib/Core/SQLiteBuildDB.cpp',
    'dumps': ['basic::BinaryEncoder', 'basic::BinaryDecoder'],
    'types': {'StringRef': 'strref'},
    'type_patterns': [(r'(llvm::)?SmallVector<(unsigned char|uint8_t), 256>', 'vec_u8')],
    'by_value': ['strref'],
    'calls': {'m:@vec_u8::push_back': ('vec_u8_push_back', 'v'), 'o:[]:@strref': '$o->ptr[$0]', 'o:[]:StringRef': '$o->ptr[$0]', 'm:@strref::size': '($o->len)'},
    'prelude': '#include "models/base.h"\n#include "models/vec.h"\nVERIF_VEC(vec_u8, uint8_t)\nsize_t g_k;\n',
    'functions': {
        'BinaryEncoder::write#u8': dict(W(1, 'uint8_t')),
        'BinaryEncoder::write#u16': dict(W(2, 'uint16_t')),
        'BinaryEncoder::write#u32': dict(W(4, 'uint32_t')),
        'BinaryEncoder::write#u64': dict(W(8, 'uint64_t')),
        'BinaryDecoder::read8': R(1, 'uint8_t'),
        'BinaryDecoder::read16': R(2, 'uint16_t'),
        'BinaryDecoder::read32': R(4, 'uint32_t'),
        'BinaryDecoder::read64': R(8, 'uint64_t'),
    },
}
