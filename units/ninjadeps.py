"""U-ninja-deps: the depfile callback of the Ninja build command (lib/Commands/NinjaBuildCommand.cpp) -- C18.
buildCommand()::NinjaCommandTask::processDiscoveredDependencies()::DepsActions::actOnRuleDependency: the dependency recorded
with the engine is the UNESCAPED word, normalised against the working directory."""
UNIT = {
    'name': 'ninjadeps',
    'source': 'lib/Commands/NinjaBuildCommand.cpp',
    'dumps': ['DepsActions'],
    'types': {'StringRef': 'strref', 'TaskInterface': 'struct TaskInterface', 'core::TaskInterface': 'struct TaskInterface', 'Twine': 'strref', 'llvm::Twine': 'strref',
              'KeyType': 'struct keydata', 'core::KeyType': 'struct keydata'},
    'type_patterns': [(r'(llvm::)?SmallString<\d+>', 'struct pathbuf'), (r'(llvm::)?SmallVectorImpl<char>', 'struct pathbuf')],
    'by_value': ['strref', 'struct TaskInterface', 'struct keydata'],
    'predefined_structs': ['TaskInterface', 'keydata', 'pathbuf'],
    'no_translate': ['normalize_path', 'discoveredDependency'],
    'prelude': '#include "models/base.h"\n#include "models/strmodel.h"\n#include "models/shelldeps.h"\n',
    'calls': {
        'fn:normalize_path': 'ndeps_normalize($0, $1)', 'm:Manifest::normalize_path': 'ndeps_normalize($0, $1)',
        'm:TaskInterface::discoveredDependency': 'ndeps_discovered', 'm:@struct TaskInterface::discoveredDependency': 'ndeps_discovered',
    },
    'call_patterns': [(r'c:SmallString<\d+>\(StringRef\)', 'deps_pathbuf_from'), (r'm:SmallString<\d+>::operator StringRef', 'ndeps_str_of_pathbuf'),
                      (r'm:@struct pathbuf::operator StringRef', 'ndeps_str_of_pathbuf'), (r'c:(basic_string<char>|KeyType|string)\(.*StringRef.*\)', 'ndeps_key_of'),
                      (r'm:StringRef::operator .*string.*', 'ndeps_key_of_p'), (r'm:@strref::operator .*', 'ndeps_key_of_p')],
    'functions': {
        'DepsActions::actOnRuleDependency': {
            'requires': ['__CPROVER_is_fresh(self, sizeof(*self))', 'g_dd == 0 && !g_normalized', 'dependency.ptr != unescapedWord.ptr && unescapedWord.ptr != 0 && dependency.ptr != 0'],
            'assigns': ['g_dd', 'g_dd_key', 'g_normalized', 'g_norm_src', 'g_norm_wd'],
            'ensures': [
                # the path handed to normalize_path is the unescaped word, relative to the task's working directory
                ('P:C18', 'g_normalized && g_norm_src == unescapedWord.ptr && g_norm_wd == self->workingDirectory.ptr'),
                # recorded exactly once when normalisation succeeds (the normalised text), not at all when it fails
                ('P:C18', 'g_norm_ok ? (g_dd == 1 && g_dd_key == (const char *)&g_joined) : (g_dd == 0)'),
            ],
        },
    },
}
