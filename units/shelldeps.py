"""U-shell-deps: the depfile callbacks of ShellCommand (lib/BuildSystem/ShellCommand.cpp) -- C11.
ShellCommand::processMakefileDiscoveredDependencies()::DepsActions::actOnRuleDependency: which spelling of a discovered
dependency becomes the node key the engine records."""
UNIT = {
    'name': 'shelldeps',
    'source': 'lib/BuildSystem/ShellCommand.cpp',
    'dumps': ['DepsActions', 'buildsystem::ShellCommand'],
    'types': {'StringRef': 'strref', 'TaskInterface': 'struct TaskInterface', 'core::TaskInterface': 'struct TaskInterface', 'std::string': 'vstr', 'string': 'vstr',
              'Twine': 'strref', 'llvm::Twine': 'strref', 'BuildKey': 'struct bkey', 'KeyType': 'struct keydata'},
    'type_patterns': [(r'(llvm::)?SmallString<\d+>', 'struct pathbuf'), (r'(llvm::)?SmallVectorImpl<char>', 'struct pathbuf')],
    'by_value': ['strref', 'struct TaskInterface', 'struct bkey', 'struct keydata', 'struct pathbuf'],
    'predefined_structs': ['TaskInterface', 'bkey', 'keydata', 'pathbuf'],
    'no_translate': ['is_absolute', 'append', 'make_absolute', 'makeNode', 'toData', 'discoveredDependency', 'getDelegate', 'commandFoundDiscoveredDependency'],
    'prelude': '#include "models/base.h"\n#include "models/strmodel.h"\n#include "models/shelldeps.h"\n',
    'calls': {
        'fn:is_absolute': 'deps_is_absolute($0)', 'fn:append': 'deps_path_append(&$0, $1)', 'fn:make_absolute': 'deps_make_absolute(&$0)',
        'm:BuildKey::makeNode': 'deps_make_node', 'fn:makeNode': 'deps_make_node', 'm:@struct bkey::toData': 'deps_to_data',
        'm:TaskInterface::discoveredDependency': 'deps_discovered', 'm:@struct TaskInterface::discoveredDependency': 'deps_discovered',
        'm:BuildSystem::getDelegate': 'deps_delegate', 'm:BuildSystemDelegate::commandFoundDiscoveredDependency': 'deps_found',
    },
    'call_patterns': [(r'c:StringRef\(const (std::)?(string|basic_string<char>) &\)', 'deps_str_of_string'), (r'c:Twine\(.*\)', '$0'),
                      (r'c:SmallString<\d+>\(StringRef\)', 'deps_pathbuf_from'), (r'c:StringRef\(.*SmallString.*\)', 'deps_str_of_pathbuf'),
                      (r'm:SmallString<\d+>::operator StringRef', 'deps_str_of_pathbuf'), (r'm:@struct pathbuf::operator StringRef', 'deps_str_of_pathbuf')],
    'functions': {
        # dependency-info style: an input record is recorded with the engine under exactly its path; missing / output records never are
        'DepsActions::actOnInput': {
            'requires': ['__CPROVER_is_fresh(self, sizeof(*self))', '__CPROVER_is_fresh(self->system, 1)', 'g_dd == 0 && g_found == 0'],
            'assigns': ['g_dd', 'g_found', 'g_dd_key', 'g_found_path'],
            'ensures': [('P:C11', 'g_dd == 1 && g_dd_key == path.ptr && g_found == 1 && g_found_path == path.ptr')]},
        'DepsActions::actOnMissing': {
            'requires': ['__CPROVER_is_fresh(self, sizeof(*self))', '__CPROVER_is_fresh(self->system, 1)', 'g_dd == 0 && g_found == 0'],
            'assigns': ['g_found', 'g_found_path'], 'ensures': [('P:C11', 'g_dd == 0')]},
        'DepsActions::actOnOutput': {
            'requires': ['__CPROVER_is_fresh(self, sizeof(*self))', '__CPROVER_is_fresh(self->system, 1)', 'g_dd == 0 && g_found == 0'],
            'assigns': ['g_found', 'g_found_path'], 'ensures': [('P:C11', 'g_dd == 0')]},
        'DepsActions::actOnRuleDependency': {
            'requires': ['__CPROVER_is_fresh(self, sizeof(*self))', '__CPROVER_is_fresh(self->command, sizeof(*self->command))', '__CPROVER_is_fresh(self->system, 1)',
                         'g_dd == 0 && g_found == 0', 'dependency.ptr != unescapedWord.ptr && unescapedWord.ptr != 0 && dependency.ptr != 0'],
            'assigns': ['g_dd', 'g_found', 'g_dd_key', 'g_found_path', 'g_abs_query', 'g_append_src', 'g_append_base', 'g_made_absolute'],
            'ensures': [
                # exactly one dependency is recorded with the engine, and the same path is reported to the delegate
                ('P:C11', 'g_dd == 1 && g_found == 1 && g_found_path == g_dd_key'),
                # the path is the UNESCAPED word: as is when absolute, otherwise joined to the command's working directory and made absolute
                ('P:C11', 'g_abs_query == unescapedWord.ptr'),
                ('P:C11', 'g_word_is_absolute ==> g_dd_key == unescapedWord.ptr'),
                ('P:C11', '!g_word_is_absolute ==> (g_dd_key == (const char *)&g_joined && g_append_src == unescapedWord.ptr && g_append_base == self->command->workingDirectory.ptr && g_made_absolute)'),
            ],
        },
    },
}
