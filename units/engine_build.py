"""U-eng-build: BuildEngineImpl::build / resetForBuild / isCancelled (C01 epochs, C03 lock, C04 commit points, C05 failure return)."""
import copy
from units import engine as _e

_b = copy.deepcopy(_e.UNIT)
S = _e.S

UNIT = {k: v for k, v in _b.items() if k not in ('functions', 'stubs', 'vardecl_overrides')}
UNIT['name'] = 'engine_build'
UNIT['types'] = dict(_b['types'], **{'std::string': 'vstr', 'string': 'vstr', 'basic_string<char>': 'vstr', 'KeyType': 'keyt'})
UNIT['by_value'] = _b['by_value'] + ['keyt']
UNIT['by_pointer'] = ['vstr']
UNIT['drop_if_mentions'] = ['trace', 'traceFile']
UNIT['drop_defers_mentioning'] = ['ruleScanRecordBlocks', 'trace']
UNIT['no_translate'] = _b['no_translate'] + ['executeTasks', 'getRuleInfoForKey']
UNIT['calls'] = dict(_b['calls'], **{
    'm:atomic<bool>::exchange': ('verif_exchange', 'v'), 'm:std::atomic<bool>::exchange': ('verif_exchange', 'v'),
    'm:atomic<bool>::operator bool': '(*$o != 0)', 'm:std::atomic<bool>::operator bool': '(*$o != 0)',
    'c:Twine(const std::string &)': 'vstr_c_str', 'c:Twine(const string &)': 'vstr_c_str',
})
UNIT['call_patterns'] = [
    (r'c:(basic_string<char>|string|std::string)\(\)', 'vstr_new'), (r'c:(basic_string<char>|string|std::string)/0', 'vstr_new'),
    (r'o:=:unique_ptr<.*>', '(*$o = $0)'), (r'm:unique_ptr<.*>::reset', ('verif_queue_reset', '')),
]
UNIT['type_patterns'] = list(_b.get('type_patterns', [])) + [(r'(llvm::)?DenseSet<(core::)?CancellationDelegate \*.*>', 'vec_cdel')]
UNIT['vec_types'] = dict(_b['vec_types'], vec_cdel='struct CancellationDelegate *')
UNIT['calls'].update({'range:@vec_cdel': ('vec_cdel_size', 'vec_cdel_at'), 'm:CancellationDelegate::buildCancelled': 'verif_cd_notify', 'm:ExecutionQueue::cancelAllJobs': 'verif_cancel_all'})
UNIT['after_structs'] = '#include "models/engine_after.h"\n#include "models/engine_build.h"\n'
DB = 'self->db != 0'
UNIT['stubs'] = {
    'BuildEngineDelegate_error': {'params': 'struct BuildEngineDelegate *self, const char *message', 'assigns': ['g_errors'], 'ensures': ['g_errors == OLD(g_errors) + 1']},
    'BuildDB_buildStarted': {
        'ret': '_Bool', 'params': 'struct BuildDB *self, vstr *error_out',
        'requires': [('P:C03,P:C04', '!g_txn_open && self == g_engine->db')],
        'assigns': ['g_txn_open', 'g_started_calls'],
        # BEGIN EXCLUSIVE either succeeds (a transaction is open) or fails (none is)
        'ensures': ['(RESULT != 0) == (g_txn_open != 0) && g_started_calls == OLD(g_started_calls) + 1']},
    'BuildDB_buildComplete': {
        'params': 'struct BuildDB *self',
        # every commit point is consistent: if the build may have stored results stamped with the new epoch, that epoch has been
        # handed to the database in the same transaction before the commit
        'requires': [('P:C04', 'g_txn_open'), ('P:C04,P:C01,P:C05,P:C03', 'g_exec_calls != 0 ==> (g_iter_calls == 1 && g_iter_value == g_engine->currentEpoch)')],
        'assigns': ['g_txn_open'], 'ensures': ['!g_txn_open']},
    'BuildDB_setCurrentIteration': {
        'ret': '_Bool', 'params': 'struct BuildDB *self, uint64_t value, vstr *error_out',
        'requires': [('P:C04', 'g_txn_open && self == g_engine->db'), ('P:C01,P:C04,P:C03', 'value == g_engine->currentEpoch && g_exec_calls == 1')],
        'assigns': ['g_iter_calls', 'g_iter_value'], 'ensures': ['g_iter_calls == OLD(g_iter_calls) + 1 && g_iter_value == value', '(RESULT != 0) == (g_iter_ok != 0)']},
    'BuildEngineDelegate_createExecutionQueue': {
        'ret': 'struct ExecutionQueue *', 'params': 'struct BuildEngineDelegate *self', 'assigns': [],
        'ensures': ['__CPROVER_is_fresh(RESULT, sizeof(struct ExecutionQueue))']},
    'BuildEngineImpl_executeTasks': {
        'ret': '_Bool', 'params': 'struct BuildEngineImpl *self, keyt buildKey',
        # work happens only inside an open transaction (when a database is attached), in a strictly new epoch, with a queue, once
        'requires': [('P:C03,P:C04', 'self->db != 0 ==> g_txn_open'), ('P:C01', 'self->currentEpoch == g_epoch0 + 1 && g_exec_calls == 0'),
                     ('P:C05', 'self->executionQueue != 0 && !self->executionQueueMutex.held')],
        'assigns': ['g_exec_calls'], 'ensures': ['g_exec_calls == 1 && (RESULT != 0) == (g_exec_success != 0)']},
}
UNIT['functions'] = {
    # cancelBuild (any thread): the cancellation delegates hear of it once, the flag is set, and the execution queue is told to cancel its jobs WHILE the
    # queue mutex is held -- build() releases the queue under the same mutex, so the queue cannot be torn down under a running cancelAllJobs
    'BuildEngineImpl::cancelBuild': {
        'requires': ['__CPROVER_is_fresh(self, sizeof(*self))', 'g_engine == self', '!self->executionQueueMutex.held', 'self->executionQueue == 0 || __CPROVER_is_fresh(self->executionQueue, sizeof(struct ExecutionQueue))',
                     'VEC_OKN(self->cancellationDelegates, struct CancellationDelegate *, 2)', 'g_cd_notified == 0 && g_cancel_all == 0'],
        'assigns': ['self->executionQueueMutex.held', 'self->buildCancelled', 'g_cd_notified', 'g_cancel_all'],
        'ensures': [('P:C05', 'self->buildCancelled'), ('P:C05', 'g_cancel_all == (self->executionQueue != 0 ? 1u : 0u)'),
                    ('P:C05', 'g_cd_notified == (OLD(self->buildCancelled) ? 0u : (unsigned)self->cancellationDelegates.len)'),
                    ('P:C05,P:C06', '!self->executionQueueMutex.held')],
        'loops': {0: {'assigns': ['$i', 'g_cd_notified'], 'invariant': ['$i <= $range->len && g_cd_notified == $i'], 'decreases': '$range->len - $i'}},
    },
    'BuildEngineImpl::build': {
        'requires': ['__CPROVER_is_fresh(self, sizeof(*self))', '__CPROVER_is_fresh(self->delegate, sizeof(*self->delegate))', 'g_engine == self',
                     'self->db == 0 || __CPROVER_is_fresh(self->db, sizeof(*self->db))',
                     '__CPROVER_is_fresh(g_ri_a, sizeof(*g_ri_a))',
                     'g_epoch0 == self->currentEpoch && self->currentEpoch < UINT64_MAX', '!g_txn_open && g_exec_calls == 0 && g_iter_calls == 0 && g_errors == 0 && g_started_calls == 0',
                     '!self->buildEngineMutex.held && !self->executionQueueMutex.held'],
        'statics_value_initialised': True,
        'assigns': ['self->buildRunning', 'self->buildEngineMutex.held', 'self->executionQueueMutex.held', 'self->executionQueue', 'self->currentEpoch',
                    'g_txn_open', 'g_exec_calls', 'g_iter_calls', 'g_iter_value', 'g_errors', 'g_started_calls'],
        'ensures': [
            # (a) the epoch is advanced exactly once on every path that runs tasks, and not at all otherwise
            ('P:C01,P:C04', 'self->currentEpoch == OLD(self->currentEpoch) + (g_exec_calls != 0 ? 1 : 0)'),
            # a busy engine, a failed BEGIN EXCLUSIVE or an already cancelled build runs nothing
            ('P:C03,P:C05', '(OLD(self->buildRunning) || OLD(self->buildCancelled) || (OLD(self->db) != 0 && g_started_calls == 1 && !g_exec_calls && g_errors != 0)) ==> g_exec_calls == 0'),
            ('P:C03', 'OLD(self->buildRunning) ==> (g_started_calls == 0 && g_errors == 1)'),
            # the transaction bracket: whatever was begun is ended, nothing is left open
            ('P:C04', '!g_txn_open'),
            # a failed or cancelled build returns the empty value; a successful one the value of the requested rule
            ('P:C05', '(g_exec_calls == 0 || !g_exec_success) ==> RESULT->len == 0'),
            ('P:C01', '(g_exec_calls == 1 && g_exec_success && (OLD(self->db) == 0 || g_iter_ok)) ==> RESULT == &g_ri_a->result.value'),
            # the execution queue is released on every path, locks are released, the engine is not left busy
            ('P:C05', '!OLD(self->buildRunning) ==> (self->executionQueue == 0 || (OLD(self->buildCancelled) && self->executionQueue == OLD(self->executionQueue)) || g_started_calls == 1 && g_exec_calls == 0)'),
            ('P:C05,P:C06', '!self->buildEngineMutex.held && !self->executionQueueMutex.held'),
            ('P:C05', '!OLD(self->buildRunning) ==> !self->buildRunning'),
        ],
    },
    'BuildEngineImpl::resetForBuild': {
        'requires': ['__CPROVER_is_fresh(self, sizeof(*self))', '!self->executionQueueMutex.held'],
        'assigns': ['self->buildCancelled', 'self->executionQueueMutex.held'],
        'ensures': [('P:C05', '!self->buildCancelled && !self->executionQueueMutex.held')]},
    'BuildEngineImpl::isCancelled': {
        'requires': ['__CPROVER_is_fresh(self, sizeof(*self))'], 'assigns': [],
        'ensures': [('P:C05', '(RESULT != 0) == (self->buildCancelled != 0)')]},
}
UNIT = _e._views(UNIT)
