"""U-prefix: llbuild::buildsystem::pathIsPrefixedByPath (lib/BuildSystem/BuildSystem.cpp) -- C14.

BOUNDED stand-in: std::string is modelled concretely with an 8-byte buffer, the library loops (mismatch, substr,
==, find) are unwound, and the result is compared with the component-wise spec taken from the property statement
for ALL strings of length <= 6 over all byte values.  Never counted as proved."""

SPEC = 'verif_spec_prefixed(&path, &prefixPath)'

UNIT = {
    'name': 'prefix',
    'source': 'lib/BuildSystem/BuildSystem.cpp',
    'dumps': ['pathIsPrefixedByPath'],
    'types': {'std::string': 'sstr', 'string': 'sstr', 'basic_string<char>': 'sstr'},
    'type_patterns': [(r'__normal_iterator<(const )?char \*, (std::)?(basic_string<char>|string)\s*>', 'char *'),
                      (r'(std::)?(basic_string<char>|string)::(const_)?iterator', 'char *'),
                      (r'pair<.*>', 'struct cpair')],
    'by_value': ['sstr', 'struct cpair'],
    'by_pointer': [],
    'predefined_structs': ['cpair'],
    'calls': {
        'fn:getPathSeparators': 'verif_path_separators',
        'm:@sstr::length': 'sstr_length', 'm:@sstr::size': 'sstr_length', 'm:@sstr::substr': ('sstr_substr', 'vv'), 'm:@sstr::find': ('sstr_find_char', 'v'),
        'm:@sstr::begin': '($o->b)', 'm:@sstr::end': '($o->b + $o->len)', 'm:@sstr::compare': ('sstr_compare', 'vvp'),
        'm:@sstr::empty': '($o->len == 0)', 'm:@sstr::back': '($o->b[$o->len - 1])',
        'o:[]:@sstr': '$o->b[$0]', 'o:==:@sstr': 'sstr_equal',
        'fn:mismatch': ('verif_mismatch', 'vvv'),
        'fn:operator==': '($0 == $1)', 'fn:operator!=': '($0 != $1)',
    },
    'call_patterns': [
        (r'o:==:__normal_iterator<.*>', '(*$o == $0)'), (r'o:!=:__normal_iterator<.*>', '(*$o != $0)'),
        (r'o:\*:__normal_iterator<.*>', '(**$o)'), (r'o:\+\+:__normal_iterator<.*>', '((*$o)++)'),
        (r'c:(basic_string<char>|string|std::string)\(const (basic_string<char>|string|std::string) &\)', '$0'),
        (r'c:(basic_string<char>|string|std::string)\((basic_string<char>|string|std::string) &&\).*', '$0'),
    ],
    'globals': {'npos': '((size_t)-1)'},
    'prelude': '#include "models/base.h"\n#include "models/prefix.h"\n',
    'functions': {
        'pathIsPrefixedByPath': {
            'bounded': 'strings of length <= 6, all byte values; library loops unwound 9 times with unwinding assertions',
            'no_loop_contracts': True, 'unwind': 9,
            'requires': ['path.len <= 6 && prefixPath.len <= 6'],
            'assigns': [],
            # result <=> path equals the root, or continues it after a separator; one trailing separator of the root is ignored
            'ensures': [('P:C14', '(RESULT != 0) == (%s != 0)' % SPEC)],
        },
    },
}
