"""U-eng-findcycle: the search half of BuildEngineImpl::findCycle (lib/Core/BuildEngine.cpp) -- C07: the list handed to breakCycle /
cycleDetected starts at the requested rule, every consecutive pair is a wait-for edge of the graph the search was given, its last rule
repeats an earlier one, and the rules before the last are pairwise distinct.  One iteration of the depth-first loop is verified as a
step (a segment) against the invariant that ties the explicit stack, the path list and the on-path set together."""
SD = 5          # depth of the stack: a simple path over NN = 4 rules plus the repeated rule


def st(k, f):
    return 'stack->ptr[%d].%s' % (k, f)


def cl(k):
    return 'cycleList->ptr[%d]' % k


def conj(xs):
    xs = [x for x in xs if x]
    return '(' + ' && '.join(xs) + ')' if xs else '1'


N, M = 'stack->len', 'cycleList->len'
PREDS_LEN = lambda node: '(g_npred[IDX(%s)])' % node
# (B) the path list is the stack without an unvisited top
SHAPE = '((%s + 1 == %s && stack->ptr[%s - 1].predecessorIndex == 0) || (%s == %s && stack->ptr[%s - 1].predecessorIndex >= 1))' % (M, N, N, M, N, N)
# (C) the path list names the rules of the stack, in order
MIRROR = conj(['(%s > %d ==> %s == %s)' % (M, k, cl(k), st(k, 'node')) for k in range(SD)])
# (D) every stack entry below the top was reached from the entry beneath it through the edge that entry is at; indices stay inside the lists
EDGES = conj(['(%s > %d ==> (%s >= 1 && %s <= %s && %s == g_pred[IDX(%s)][%s - 1]))' % (N, k + 1, st(k, 'predecessorIndex'), st(k, 'predecessorIndex'), PREDS_LEN(st(k, 'node')), st(k + 1, 'node'), st(k, 'node'), st(k, 'predecessorIndex'))
              for k in range(SD - 1)])
TOPIDX = conj(['(%s == %d ==> %s <= %s)' % (N, k + 1, st(k, 'predecessorIndex'), PREDS_LEN(st(k, 'node'))) for k in range(SD)])
NODES = conj(['(%s > %d ==> ISNODE(%s))' % (N, k, st(k, 'node')) for k in range(SD)])
ROOT = '(%s == g_root)' % st(0, 'node')
# (F) the on-path set is exactly the set of rules on the path list, which are pairwise distinct
SETEQ = conj(['(cycleItems->in[%d] == (%s))' % (i, ' || '.join('(%s > %d && %s == g_node[%d])' % (M, k, cl(k), i) for k in range(SD))) for i in range(4)])
DISTINCT = conj(['(%s > %d ==> %s != %s)' % (M, b, cl(a), cl(b)) for b in range(SD) for a in range(b)])
GRAPH = conj(['g_node[%d] != 0' % i for i in range(4)] + ['g_node[%d] != g_node[%d]' % (a, b) for b in range(4) for a in range(b)] +
             ['g_npred[%d] <= NP && (g_npred[%d] > %d ==> ISNODE(g_pred[%d][%d]))' % (i, i, j, i, j) for i in range(4) for j in range(3)] + ['ISNODE(g_root)'])
INV = [NODES, SHAPE, MIRROR, EDGES, TOPIDX, ROOT, SETEQ, DISTINCT]
# what the property says about the list that is returned when the search stops at a repeated rule
CYCLE_EDGES = conj(['(%s > %d ==> WAITS_FOR(%s, %s))' % (M, k + 1, cl(k), cl(k + 1)) for k in range(SD - 1)])
REPEATS = '(' + ' || '.join('(%s > %d && %s == cycleList->ptr[%s - 1])' % (M, k + 1, cl(k), M) for k in range(SD - 1)) + ')'
DISTINCT_BUT_LAST = conj(['(%s > %d ==> %s != %s)' % (M, b + 1, cl(a), cl(b)) for b in range(SD) for a in range(b)])

UNIT = {
    'name': 'engine_findcycle',
    'source': 'lib/Core/BuildEngine.cpp',
    'dumps': ['BuildEngineImpl'],
    'types': {},
    'type_patterns': [(r'.*unordered_map<.*Rule \*, .*vector<.*Rule \*.*>>::mapped_type', 'vec_rulep'), (r'(std::)?vector<(core::)?Rule \*.*>', 'vec_rulep'), (r'(std::)?vector<(struct )?WorkItem.*>', 'vec_work'), (r'(std::)?unordered_set<(core::)?Rule \*.*>', 'struct ruleset'),
                      (r'(std::)?unordered_map<(core::)?Rule \*, (std::)?vector<(core::)?Rule \*.*>', 'struct predmap'), (r'(std::)?pair<.*_Node_iterator<.*Rule \*.*, bool>', 'struct insres'),
                      (r'(llbuild::)?(core::)?Rule', 'struct Rule')],
    'by_value': ['struct insres'],
    'predefined_structs': ['Rule', 'ruleset', 'predmap', 'insres'],
    'vec_types': {'vec_work': 'struct WorkItem'},
    'synthetic_structs': {'WorkItem': [('node', 'struct Rule *'), ('predecessorIndex', 'unsigned')]},
    'calls': {
        'o:[]:@struct predmap': ('pg_lookup', 'v'), 'm:@struct ruleset::insert': ('ruleset_insert', 'v'), 'm:@struct ruleset::erase': ('ruleset_erase', 'v'),
        'm:@vec_rulep::push_back': ('vec_rulep_push_back', 'v'), 'm:@vec_rulep::pop_back': 'vec_rulep_pop_back_checked', 'm:@vec_rulep::size': 'vec_rulep_size', 'o:[]:@vec_rulep': '($o->ptr[$0])',
        'm:@vec_work::back': 'vec_work_back', 'm:@vec_work::pop_back': 'vec_work_pop_back_checked', 'm:@vec_work::empty': 'vec_work_empty', 'm:@vec_work::emplace_back': ('vec_work_push_back', 'v'),
    },
    'call_patterns': [(r'c:WorkItem\(.*Rule \*\)', 'workitem_new'), (r'c:WorkItem\((const )?WorkItem &+\)', '$0')],
    'prelude': '#include "models/base.h"\n#include "models/vec.h"\n#include "models/findcycle.h"\nstruct Rule *g_root;\n',
    'after_structs': ('/* WorkItem(Rule*): the constructor of the local class stores the node; the in-class initialiser sets predecessorIndex = 0 */\n'
                      'static inline struct WorkItem workitem_new(struct Rule *node) { struct WorkItem w; w.node = node; w.predecessorIndex = 0; return w; }\n'
                      'static inline void vec_rulep_pop_back_checked(vec_rulep *v) { __CPROVER_assert(v->len > 0, "pop_back of a non-empty path list"); v->len = v->len - 1; }\n'
                      'static inline void vec_work_pop_back_checked(vec_work *v) { __CPROVER_assert(v->len > 0, "pop_back of a non-empty stack"); v->len = v->len - 1; }\n'),
    'functions': {
        'BuildEngineImpl::findCycle#visit': {
            'of': 'BuildEngineImpl::findCycle', 'cname': 'BuildEngineImpl_findCycle_visit_step',
            'segment': {'kind': 'CompoundStmt', 'mentions': ['predecessorIndex', 'cycleItems', 'cycleList', 'stack', 'predecessorGraph'], 'exits': True}, 'timeout': {'quick': 1500, 'thorough': 3000},
            'requires': ['__CPROVER_is_fresh(stack, sizeof(*stack))', '__CPROVER_is_fresh(cycleList, sizeof(*cycleList))', '__CPROVER_is_fresh(cycleItems, sizeof(*cycleItems))', '__CPROVER_is_fresh(predecessorGraph, 1)',
                         '__CPROVER_is_fresh(__seg_exit, sizeof(int))', 'VEC_OKN(*stack, struct WorkItem, %d)' % (SD + 1), 'VEC_OKN(*cycleList, struct Rule *, %d)' % (SD + 1),
                         GRAPH, '%s >= 1 && %s <= %d' % (N, N, SD)] + INV + [
                         ],
            'assigns': ['g_view', '*__seg_exit', 'stack->len', '__CPROVER_object_whole(stack->ptr)', 'cycleList->len', '__CPROVER_object_whole(cycleList->ptr)', '__CPROVER_object_whole(cycleItems)'],
            'ensures': [
                # the search goes on: the invariant holds again, or the stack is empty (no cycle through the requested rule)
                ('P:C07', '(*__seg_exit != 3 && %s >= 1) ==> %s' % (N, conj(INV))),
                ('P:C07', '(*__seg_exit != 3 && %s == 0) ==> %s == 0' % (N, M)),
                # the search stops: the list starts at the requested rule, consecutive rules are wait-for edges, the last rule repeats an earlier one
                ('P:C07', '(*__seg_exit == 3) ==> (%s >= 2 && %s == g_root)' % (M, cl(0))),
                ('P:C07', '(*__seg_exit == 3) ==> %s' % CYCLE_EDGES),
                ('P:C07', '(*__seg_exit == 3) ==> %s' % REPEATS),
                ('P:C07', '(*__seg_exit == 3) ==> %s' % DISTINCT_BUT_LAST),
                # never falsely: it stops only at a rule that is already on the path
                ('P:C07', '(*__seg_exit == 3) ==> %s <= %d' % (M, SD)),
            ],
        },
    },
}
