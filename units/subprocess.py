"""U-proc-status: cleanUpExecutedProcess (lib/Basic/Subprocess.cpp, POSIX branch) -- C10 (and the "every process accounted for" half of C16)."""
PS = 'ProcessStatus_'


def _had_error(tr, n, obj, args, argnodes):
    tr.dropped.add('processHadError(ctx, handle, <message>): the message text (Twine concatenation) is not translated')
    return 'verif_had_error(%s)' % obj

UNIT = {
    'name': 'subprocess',
    'source': 'lib/Basic/Subprocess.cpp',
    'dumps': ['cleanUpExecutedProcess', 'basic::ProcessResult', 'basic::ProcessStatus'],
    'types': {'ProcessCompletionFn': 'struct completion', 'llbuild_pid_t': 'int', 'ProcessHandle': 'struct ProcessHandle', 'struct rusage': 'struct rusage',
              'rusage': 'struct rusage', '__time_t': 'long', '__suseconds_t': 'long'},
    'by_value': ['struct ProcessHandle', 'struct ProcessResult'],
    'full_structs': ['ProcessResult'],
    'predefined_structs': ['rusage', 'timeval'],
    'struct_extra': {'ManagedDescriptor': '  _Bool closed;\n'},
    'no_translate': ['wait4', 'close', 'remove', 'processHadError', 'processFinished', 'strerror', '__errno_location'],
    'calls': {
        'fn:wait4': 'verif_wait4', 'fn:__errno_location': 'verif_errno',
        'm:ManagedDescriptor::close': 'verif_fd_close($o)', 'm:ProcessGroup::remove': 'verif_pgrp_remove($o, $0)',
        'm:ProcessDelegate::processHadError': _had_error, 'm:ProcessDelegate::processFinished': ('verif_process_finished', 'vvp'),
        'o:():@struct completion': ('verif_completion', 'p'),
    },
    'prelude': '#include "models/base.h"\n#include "models/subprocess.h"\n',
    'after_structs': '#include "models/subprocess_after.h"\n',
    'functions': {
        'cleanUpExecutedProcess': {
            'requires': ['__CPROVER_is_fresh(delegate, sizeof(*delegate))', '__CPROVER_is_fresh(pgrp, sizeof(*pgrp))', '__CPROVER_is_fresh(completionFn, sizeof(*completionFn))',
                         '__CPROVER_is_fresh(releaseFd, sizeof(*releaseFd))', 'g_completions == 0 && g_finished == 0 && g_waits == 0 && !g_reaped && g_removed == 0'],
            'assigns': ['g_completions', 'g_finished', 'g_waits', 'g_reaped', 'g_removed', 'g_status_word', 'g_wait_result', 'g_errno', 'g_completion_result', 'g_finished_result',
                        'g_errors', 'releaseFd->closed'],
            'ensures': [
                # exactly one completion and one processFinished per process, carrying the same result
                ('P:C10,P:C16', 'g_completions == 1 && g_finished == 1 && g_completion_result.status == g_finished_result.status && g_completion_result.exitCode == g_finished_result.exitCode'),
                # success is reported only for a process that was reaped and whose wait status word is 0 (normal exit with code 0):
                # a signal-terminated, stopped or non-zero exit never counts as success
                ('P:C10,P:C16', '(g_completion_result.status == %sSucceeded) ==> (g_reaped && g_status_word == 0)' % PS),
                ('P:C10,P:C16', '(g_reaped && g_status_word == 0) ==> g_completion_result.status == %sSucceeded' % PS),
                # killed by SIGINT / SIGKILL (how the engine cancels) is reported as cancelled, everything else that is not success as failed
                ('P:C10,P:C16', '(g_reaped && (g_status_word & 0x7f) != 0 && (g_status_word & 0x7f) != 0x7f && ((g_status_word & 0x7f) == 2 || (g_status_word & 0x7f) == 9)) ==> g_completion_result.status == %sCancelled' % PS),
                ('P:C10,P:C16', '(!g_reaped) ==> g_completion_result.status == %sFailed' % PS),
                # an interrupted wait (EINTR = 4) is retried: the process is given up, unreaped, only for another reason
                ('P:C16,P:C10', '(!g_reaped) ==> g_errno != 4'),
                ('P:C10,P:C16', 'g_reaped ==> g_completion_result.exitCode == g_status_word'),
                # the release descriptor is closed only after the wait, the pid leaves the process group only once reaped or given up
                'releaseFd->closed != 0 && g_removed <= 1',
            ],
            'loops': {0: {'assigns': ['result', 'exitCode', 'usage', 'g_waits', 'g_reaped', 'g_status_word', 'g_wait_result', 'g_errno'],
                          'invariant': ['g_waits == 1', '(result == -1) == !g_reaped', 'g_reaped ==> exitCode == g_status_word', 'result == g_wait_result']}},
        },
    },
}
