"""U-prefix-lcp: llbuild::buildsystem::pathIsPrefixedByPath (lib/BuildSystem/BuildSystem.cpp) -- C14, UNBOUNDED.

The function itself is loop-free; its loops live in std::mismatch, std::string::substr/operator== and find.  Those
get assumed contracts (models/prefix_lcp.h) phrased over one ghost value, the length L of the longest common prefix of
the two argument strings, which the precondition pins down: L <= both lengths, the bytes at L differ when L is inside
both, and the bytes below L agree (instantiated at the one index the argument needs: the last byte of the root).
Strings are fresh buffers of symbolic length up to 4096 bytes over all byte values."""

SPEC = 'verif_spec_prefixed(&path, &prefixPath)'

UNIT = {
    'name': 'prefix_lcp',
    'source': 'lib/BuildSystem/BuildSystem.cpp',
    'dumps': ['pathIsPrefixedByPath'],
    'types': {'std::string': 'sstr', 'string': 'sstr', 'basic_string<char>': 'sstr'},
    'type_patterns': [(r'__normal_iterator<(const )?char \*, (std::)?(basic_string<char>|string)\s*>', 'char *'),
                      (r'(std::)?(basic_string<char>|string)::(const_)?iterator', 'char *'),
                      (r'pair<.*>', 'struct cpair')],
    'by_value': ['sstr', 'struct cpair'],
    'by_pointer': [],
    'predefined_structs': ['cpair'],
    'calls': {
        'fn:getPathSeparators': 'verif_path_separators',
        'm:@sstr::length': 'sstr_length', 'm:@sstr::size': 'sstr_length', 'm:@sstr::substr': ('sstr_substr', 'vv'), 'm:@sstr::find': ('sstr_find_char', 'v'),
        'm:@sstr::begin': '($o->b)', 'm:@sstr::end': '($o->b + $o->len)', 'm:@sstr::compare': ('sstr_compare', 'vvp'),
        'm:@sstr::empty': '($o->len == 0)', 'm:@sstr::back': '($o->b[$o->len - 1])',
        'o:[]:@sstr': '$o->b[$0]', 'o:==:@sstr': 'sstr_equal',
        'fn:mismatch': ('verif_mismatch', 'vvv'),
        'fn:operator==': '($0 == $1)', 'fn:operator!=': '($0 != $1)',
    },
    'call_patterns': [
        (r'o:==:__normal_iterator<.*>', '(*$o == $0)'), (r'o:!=:__normal_iterator<.*>', '(*$o != $0)'),
        (r'o:\*:__normal_iterator<.*>', '(**$o)'), (r'o:\+\+:__normal_iterator<.*>', '((*$o)++)'),
        (r'c:(basic_string<char>|string|std::string)\(const (basic_string<char>|string|std::string) &\)', '$0'),
        (r'c:(basic_string<char>|string|std::string)\((basic_string<char>|string|std::string) &&\).*', '$0'),
    ],
    'globals': {'npos': '((size_t)-1)'},
    'prelude': '#include "models/base.h"\n#include "models/prefix_lcp.h"\n',
    'functions': {
        'pathIsPrefixedByPath': {
            'requires': ['path.len <= 4096 && prefixPath.len <= 4096',
                         '__CPROVER_is_fresh(path.b, path.len + 1)', '__CPROVER_is_fresh(prefixPath.b, prefixPath.len + 1)',
                         'verif_gp == path.b && verif_gplen == path.len && verif_gr == prefixPath.b && verif_grlen == prefixPath.len',
                         # L is the length of the longest common prefix
                         'verif_L <= path.len && verif_L <= prefixPath.len',
                         '(verif_L < path.len && verif_L < prefixPath.len) ==> path.b[verif_L] != prefixPath.b[verif_L]',
                         '(prefixPath.len > 0 && prefixPath.len - 1 < verif_L) ==> path.b[prefixPath.len - 1] == prefixPath.b[prefixPath.len - 1]'],
            'assigns': [],
            # result <=> path equals the root, or continues it after a separator; one trailing separator of the root is ignored
            'ensures': [('P:C14', '(RESULT != 0) == (%s != 0)' % SPEC)],
        },
    },
}
