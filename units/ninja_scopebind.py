"""U-ninja-scopebind: ninja::Scope::lookupBinding (include/llbuild/Ninja/Manifest.h) -- C17: the innermost scope that binds a name wins WHATEVER the value is (an empty
binding in a subninja file shadows the enclosing file's binding); a name the scope does not bind is looked up in the parent scope, once, under the same name; without a
parent the answer is the empty string.  The string map is the one-entry ghost of U-ninja-scope (hit / entry); the call on the parent scope is the recorder used there."""
import copy
from units import ninja_scope as _b

UNIT = copy.deepcopy({k: v for k, v in _b.UNIT.items() if k not in ('functions', 'stubs')})
UNIT['name'] = 'ninja_scopebind'
UNIT['dumps'] = ['Scope']
UNIT['no_translate'] = [x for x in UNIT['no_translate'] if x != 'lookupBinding']
UNIT['struct_extra'] = {}
UNIT['need_fields'] = {'Scope': ['parent', 'entries']}
UNIT['calls'] = dict(UNIT['calls'], **{'c:StringRef(const char *)': 'scope_lit_ref'})
UNIT['prelude'] = UNIT['prelude'] + ('/* StringRef("<literal>"): the text of the literal */\n'
                                      'static inline strref scope_lit_ref(const char *lit) { strref r; r.ptr = lit; r.len = (lit[0] == 0) ? 0 : 1; return r; }\n')
UNIT['after_structs'] = ''
UNIT['functions'] = {
    'Scope::lookupBinding': {
        'requires': ['__CPROVER_is_fresh(self, sizeof(*self))', 'g_scope_lookups == 0', 'name.ptr != 0'],
        'assigns': ['g_scope_lookups', 'g_scope_name', 'g_scope_obj'],
        'ensures': [
            ('P:C17', 'self->entries.hit ==> (RESULT.ptr == self->entries.entry.second.ptr && RESULT.len == self->entries.entry.second.len && g_scope_lookups == 0)'),
            ('P:C17', '(!self->entries.hit && self->parent != 0) ==> (g_scope_lookups == 1 && g_scope_obj == (const void *)self->parent && g_scope_name == name.ptr && RESULT.ptr == &g_scope_value)'),
            ('P:C17', '(!self->entries.hit && self->parent == 0) ==> (RESULT.len == 0 && g_scope_lookups == 0)'),
        ],
    },
}
