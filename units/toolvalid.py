"""U-tool-valid: MkdirCommand::isResultValid / SymlinkCommand::isResultValid (lib/BuildSystem/BuildSystem.cpp) -- C10: the stored result of a built-in tool command that
was not a success is never valid (the command is retried), C08: a successful mkdir result is valid only while the directory exists as a directory, a symlink result only
while the link's own status is the recorded one."""
K = 'BuildValue_Kind_'
SUCC = '(value->kind == %sSuccessfulCommand || value->kind == %sSuccessfulCommandWithOutputSignature)' % (K, K)
UNIT = {
    'name': 'toolvalid',
    'source': 'lib/BuildSystem/BuildSystem.cpp',
    'dumps': ['MkdirCommand', 'SymlinkCommand', 'buildsystem::ExternalCommand', 'buildsystem::Command', 'BuildValue::Kind', 'buildsystem::BuildValue', 'BuildNode::NodeType'],
    'types': {'std::string': 'strref', 'string': 'strref', 'basic_string<char>': 'strref', 'StringRef': 'strref', 'basic::FileInfo': 'struct FileInfo', 'FileInfo': 'struct FileInfo', 'BuildValue::FileInfo': 'struct FileInfo', 'buildsystem::BuildValue::FileInfo': 'struct FileInfo'},
    'type_patterns': [(r'(std::)?vector<(BuildNode|buildsystem::BuildNode) \*.*>', 'vec_node')],
    'by_value': ['strref', 'struct FileInfo'],
    'predefined_structs': ['FileInfo'],
    'vec_types': {'vec_node': 'struct BuildNode *'},
    'struct_extra': {'BuildNode': '  size_t g_idx;\n', 'FileSystem': ''},
    'need_fields': {'BuildValue': ['kind', 'numOutputInfos']},
    'no_translate': ['BuildNode::getLinkInfo', 'getFileInfo', 'getLinkInfo', 'getOutputInfo', 'getFileSystem', 'BuildNode::getFileInfo', 'getActualOutputPath', 'isDirectory'],
    'calls': {
        'm:@vec_node::size': 'vec_node_size', 'm:@vec_node::empty': 'vec_node_empty', 'o:[]:@vec_node': '$o->ptr[$0]',
        'm:BuildValue::getOutputInfo': 'tv_stored_info', 'm:BuildNode::getFileInfo': 'tv_current_info', 'm:FileSystem::getLinkInfo': 'tv_link_info', 'm:BuildNode::getLinkInfo': 'tv_node_link_info',
        'm:@struct FileInfo::isMissing': '($o->missing != 0)', 'm:@struct FileInfo::isDirectory': '($o->is_dir != 0)', 'o:==:@struct FileInfo': 'tv_info_eq', 'm:BuildSystem::getFileSystem': 'tv_fs',
        'm:SymlinkCommand::getActualOutputPath': 'tv_actual_path', 'm:@strref::empty': '($o->len == 0)', 'm:StringRef::empty': '($o->len == 0)',
    },
    'call_patterns': [(r'c:(basic_string<char>|string|std::string)\(.*StringRef.*\)', '$0'), (r'm:StringRef::operator .*', 'tv_ref_id'), (r'm:@strref::operator .*', 'tv_ref_id'), (r'c:(basic::)?FileInfo\((const )?(basic::)?FileInfo &+\)', '$0')],
    'prelude': ('#include "models/base.h"\n#include "models/vec.h"\n'
                '/* file infos: an abstract identity, a missing bit and "is a directory" */\n'
                'struct FileInfo { uint64_t id; _Bool missing; _Bool is_dir; };\n'
                'struct FileInfo g_stored0, g_current0, g_link0; unsigned g_link_queries, g_file_queries; const char *g_link_path; strref g_actual_path;\n'),
    'after_structs': ('static inline struct FileInfo *tv_stored_info(const struct BuildValue *v) { return &g_stored0; }\n'
                      'static inline struct FileInfo tv_current_info(const struct BuildNode *n, struct FileSystem *fs) { g_file_queries++; return g_current0; }\n'
                      'static inline struct FileInfo tv_link_info(struct FileSystem *fs, strref path) { g_link_queries++; g_link_path = path.ptr; return g_link0; }\n'
                      '/* BuildNode::getLinkInfo: the link status of the path the NODE is named after */\nstatic inline struct FileInfo tv_node_link_info(const struct BuildNode *n, struct FileSystem *fs) { g_link_queries++; g_link_path = (const char *)n; return g_link0; }\n'
                      'static inline _Bool tv_info_eq(const struct FileInfo *a, struct FileInfo b) { return a->id == b.id && (a->missing != 0) == (b.missing != 0); }\n'
                      'static inline struct FileSystem *tv_fs(struct BuildSystem *s) { static struct FileSystem f; return &f; }\n'
                      'static inline strref tv_actual_path(void *self) { return g_actual_path; }\n'
                      'static inline strref tv_ref_id(const strref *r) { return *r; }\n'),
    'functions': {
        'MkdirCommand::isResultValid': {
            'requires': ['__CPROVER_is_fresh(self, sizeof(*self))', '__CPROVER_is_fresh(value, sizeof(*value))', '__CPROVER_is_fresh(system, 1)',
                         '__CPROVER_is_fresh(self->__base.__base.outputs.ptr, 2 * sizeof(struct BuildNode *)) && self->__base.__base.outputs.len >= 1 && self->__base.__base.outputs.len <= 2 && self->__base.__base.outputs.cap == 2',
                         '__CPROVER_is_fresh(self->__base.__base.outputs.ptr[0], sizeof(struct BuildNode))', 'value->kind >= 0 && value->kind <= 20'],
            'assigns': ['g_file_queries'],
            'ensures': [('P:C10,P:C08', '!%s ==> !RESULT' % SUCC),
                        ('P:C08', '(RESULT != 0) == (%s && !g_current0.missing && g_current0.is_dir)' % SUCC)]},
        'SymlinkCommand::isResultValid': {
            'requires': ['__CPROVER_is_fresh(self, sizeof(*self))', '__CPROVER_is_fresh(value, sizeof(*value))', '__CPROVER_is_fresh(system, 1)',
                         'self->__base.outputs.len <= 2', 'value->kind >= 0 && value->kind <= 20', 'g_link_queries == 0', 'g_actual_path.ptr != 0'],
            'assigns': ['g_link_queries', 'g_link_path'],
            'ensures': [('P:C10,P:C08', '!%s ==> !RESULT' % SUCC),
                        # valid only if the LINK itself (not what it points to) still has the recorded status
                        ('P:C08,P:C13', 'RESULT ==> (g_link_queries == 1 && g_link_path == g_actual_path.ptr && !g_link0.missing && g_link0.id == g_stored0.id && value->numOutputInfos == 1)')]},
    },
}
