"""U-dir-contents: DirectoryContentsTask::getContents (lib/BuildSystem/BuildSystem.cpp) -- C12: which entries of a directory make up its (unfiltered) listing: every entry
the iteration reaches is listed exactly once, EXCEPT a symbolic link whose resolved target is a prefix of the listed path itself (a link back to a parent directory, left
out so that the tree walk ends) -- a link that merely points somewhere beneath the listed directory is an entry like any other.  Built on the models of U-dir-filter."""
import copy
from units import dirfilter as _b

SKIP = '(g_is_link[g_k] && g_resolve_ok[g_k] && g_dir_under_target[g_k])'
OKPATH = '(g_k < g_n && !g_error_at[0] && !(g_k >= 1 && g_error_at[1]) && !(g_k >= 2 && g_error_at[2]) && !(g_k >= 3 && g_error_at[3]))'
UNIT = copy.deepcopy({k: v for k, v in _b.UNIT.items() if k not in ('functions', 'stubs')})
UNIT['name'] = 'dircontents'
UNIT['dumps'] = ['DirectoryContentsTask']
UNIT['no_translate'] = UNIT['no_translate'] + ['status', 'is_symlink_file', 'real_path', 'startswith']
UNIT['type_patterns'] = UNIT['type_patterns'] + [(r'(llvm::)?SmallString<\d+>', 'strref'), (r'(llvm::)?SmallVectorImpl<char>', 'strref'), (r'(llvm::)?ErrorOr<.*>', 'size_t'), (r'.*basic_file_status', 'size_t')]
UNIT['calls'] = dict(UNIT['calls'], **{
    'm:@struct dentry::status': 'dentry_status', 'fn:is_symlink_file': 'verif_is_link($0)', 'fn:real_path': 'verif_real_path($0, &$1)',
    'm:@strref::startswith': ('verif_startswith', 'v'), 'm:StringRef::startswith': ('verif_startswith', 'v'),
})
UNIT['call_patterns'] = [(r'c:(fs::)?directory_iterator\(.*error_code.*bool\)', _b._dbegin), (r'o:\*:.*ErrorOr<.*', '(*$o)'), (r'o:\*:@size_t', '(*$o)'), (r'c:(llvm::)?SmallString<\d+>(/0|\(\))', 'strref_none'),
                         (r'm:(llvm::)?SmallString<\d+>::operator StringRef', '(*$o)'), (r'm:@strref::operator StringRef', '(*$o)'), (r'c:StringRef\(const (llvm::)?SmallString.*\)', '$0'),
                         (r'c:(llvm::)?Twine\(const (llvm::)?SmallString.*\)', '$0')] + UNIT['call_patterns']
UNIT['prelude'] = UNIT['prelude'] + '#include "models/dircontents.h"\n'
UNIT['after_structs'] = ''
UNIT['functions'] = {
    'DirectoryContentsTask::getContents': {
        'requires': ['__CPROVER_is_fresh(filenames, sizeof(*filenames))', 'VEC_OKN(*filenames, pstr, 8) && filenames->len == 0', 'path.ptr == &g_dir_path',
                     'g_n <= NE && g_k < NE', 'g_listed[0] == 0 && g_listed[1] == 0 && g_listed[2] == 0 && g_listed[3] == 0 && g_sorts == 0'],
        'assigns': ['filenames->len', '__CPROVER_object_whole(filenames->ptr)', '__CPROVER_object_whole(g_listed)', 'g_sorts'],
        'ensures': [
            ('P:C12', '%s ==> g_listed[g_k] == (%s ? 0 : 1)' % (OKPATH, SKIP)),
            ('P:C12', 'g_listed[g_k] <= 1'),
            ('P:C12', 'g_sorts == 1'),
        ],
        'loops': {
            0: {'assigns': ['it', 'ec', 'filenames->len', '__CPROVER_object_whole(filenames->ptr)', '__CPROVER_object_whole(g_listed)'],
                'invariant': ['it.i <= g_n && filenames->len <= it.i && (ec.v != 0 ==> it.i == g_n)',
                              '(g_k < it.i && g_k < g_n && ec.v == 0) ==> g_listed[g_k] == (%s ? 0 : 1)' % SKIP,
                              '(ec.v != 0 && %s) ==> g_listed[g_k] == (%s ? 0 : 1)' % (OKPATH, SKIP),
                              '(g_k >= it.i && g_k < NE) ==> g_listed[g_k] == 0', 'g_listed[g_k] <= 1'],
                },
        },
    },
}
