"""U-fs-wrappers: DeviceAgnosticFileSystem / ChecksumOnlyFileSystem in include/llbuild/Basic/FileSystem.h (C13)."""
R = 'RESULT'
INNER_TIME = '%s.modTime.seconds == g_inner.modTime.seconds && %s.modTime.nanoseconds == g_inner.modTime.nanoseconds' % (R, R)
CK_INNER = '%s.checksum.bytes[g_k] == g_inner.checksum.bytes[g_k]' % R
PRE = ['__CPROVER_is_fresh(self, sizeof(*self))', '__CPROVER_is_fresh(self->impl, sizeof(*self->impl))',
       '__CPROVER_is_fresh(path, sizeof(*path))', 'g_path == path', 'g_k < 32', 'g_info_calls == 0 && g_ck_calls == 0']
ASG = ['g_info_calls', 'g_ck_calls', 'g_used_link']


def wrap(link, checksum_only):
    ens = [('P:C13', 'g_info_calls == 1 && (g_used_link != 0) == %d' % link),
           ('P:C13', '%s.device == 0 && %s.inode == 0' % (R, R)),
           ('P:C13', '%s.size == g_inner.size && %s.mode == g_inner.mode' % (R, R))]
    if checksum_only:
        ens.append(('P:C13', '%s.modTime.seconds == 0 && %s.modTime.nanoseconds == 0' % (R, R)))
        if not link:
            ens.append(('P:C13', 'g_ck_calls == 1 && %s.checksum.bytes[g_k] == g_inner_ck.bytes[g_k]' % R))
    else:
        ens.append(('P:C13', INNER_TIME))
        ens.append(('P:C13', CK_INNER))
    if link and checksum_only:
        # the checksum of a symbolic link is the digest of its TARGET text (what readlink returned for this path), all zero for anything else
        ens.append(('P:C13', 'g_rl_path == path->ptr'))
        ens.append(('P:C13', '(g_rl_len != -1) ==> (g_hash_calls == 1 && g_hash_src == g_rl_buf)'))
        # ... the WHOLE target: every byte readlink returned is hashed, none more (two targets that differ in any byte digest differently)
        ens.append(('P:C13', '(g_rl_len != -1) ==> g_hash_len == (size_t)g_rl_len'))
        ens.append(('P:C13', '(g_rl_len == -1) ==> (g_hash_calls == 0 && %s.checksum.bytes[g_k] == 0)' % R))
    return {'requires': PRE + (['g_hash_calls == 0'] if (link and checksum_only) else []),
            'assigns': ASG + (['g_hash_calls', 'g_rl_buf', 'g_rl_path', 'g_rl_len', 'g_hash_src', 'g_hash_len'] if (link and checksum_only) else []), 'ensures': ens}


UNIT = {
    'name': 'fswrap',
    'source': 'lib/Basic/FileSystem.cpp',
    'dumps': ['DeviceAgnosticFileSystem', 'ChecksumOnlyFileSystem', 'FileInfo', 'FileChecksum', 'FileTimestamp'],
    'types': {'std::string': 'vstr', 'string': 'vstr', 'basic_string<char>': 'vstr', 'StringRef': 'strref',
              'PlatformSpecificHasher': 'struct FileChecksumHasherMD5'},
    'by_value': ['strref'], 'by_pointer': ['vstr'],
    'full_structs': ['FileInfo', 'FileTimestamp', 'FileChecksum'],
    'no_translate': ['readPathStringAndDigest', 'FileChecksumHasher::readPathStringAndDigest'],
    'calls': {
        'm:@vstr::c_str': 'vstr_c_str', 'fn:readlink': 'verif_readlink',
        'c:FileChecksumHasherMD5(const std::string &)': 'verif_hasher_new', 'c:PlatformSpecificHasher(const std::string &)': 'verif_hasher_new',
        'c:FileChecksumHasherMD5(const string &)': 'verif_hasher_new', 'c:PlatformSpecificHasher(const string &)': 'verif_hasher_new',
    },
    'call_patterns': [
        (r'c:(basic_string<char>|string|std::string)\(const char \*, const (std::)?allocator<char> &\)', ('vstr_cstr', 'v')),
        (r'c:(basic_string<char>|string|std::string)\(const char \*, .*size_type, const (std::)?allocator<char> &\)', ('vstr_cstrn', 'vv')),
    ],
    'prelude': '#include "models/base.h"\n#include "models/fswrap.h"\n',
    'after_structs': '#include "models/fswrap_after.h"\n',
    'stubs': {
        'FileChecksumHasher_readPathStringAndDigest': {
            'params': 'struct FileChecksumHasher *self, struct FileChecksum *result',
            'requires': ['__CPROVER_is_fresh(result, sizeof(*result))'], 'assigns': ['*result', 'g_hash_calls'],
            'ensures': ['g_hash_calls == OLD(g_hash_calls) + 1']},
    },
    'functions': {
        'DeviceAgnosticFileSystem::getFileInfo': wrap(0, False),
        'DeviceAgnosticFileSystem::getLinkInfo': wrap(1, False),
        'ChecksumOnlyFileSystem::getFileInfo': wrap(0, True),
        'ChecksumOnlyFileSystem::getLinkInfo': wrap(1, True),
    },
}
