"""U-sig-fields: ShellCommand::getSignature / ExternalCommand::getSignature (C09): what is fed into the signature hash chain.

hash_combine is an assumed (uninterpreted) function; what is checked is the *feeding*: every value that reaches
CommandSignature::combine(bool) through an implicit narrowing conversion must be 0 or 1 (otherwise two different
definitions feed the same item), the explicit signature replaces the field walk, a null chain value is replaced by 1."""
SELF = ['__CPROVER_is_fresh(self, sizeof(*self))']
UNIT = {
    'name': 'signature',
    'source': 'lib/BuildSystem/ShellCommand.cpp',
    'dumps': ['ShellCommand::getSignature', 'ExternalCommand::getSignature', 'ShellCommand::DepsStyle'],
    'types': {'StringRef': 'strref', 'std::string': 'vstr', 'string': 'vstr', 'basic_string<char>': 'vstr',
              'CommandSignature': 'struct CommandSignature', 'basic::CommandSignature': 'struct CommandSignature'},
    'type_patterns': [(r'(std::)?vector<StringRef.*>', 'vec_strref'), (r'SmallVector<(std::)?(string|basic_string<char>), 1>', 'vec_vstr'),
                      (r'(std::)?vector<pair<StringRef, StringRef>.*>', 'vec_pair'), (r'SmallVector<(std::)?pair<StringRef, StringRef>, \d+>', 'vec_pair'), (r'(std::)?pair<StringRef, StringRef>', 'struct strpair'),
                      (r'(std::)?vector<(BuildNode|buildsystem::BuildNode) \*.*>', 'vec_node'), (r'(std::)?atomic<(basic::)?CommandSignature>', 'struct CommandSignature')],
    'by_value': ['strref', 'struct CommandSignature'], 'by_pointer': ['vstr'],
    'predefined_structs': ['CommandSignature', 'strpair'],
    'bool_narrowing_obligation': {'tag': 'P:C09', 'callees': ['combine']},
    'no_translate': ['combine', 'getName', 'isNull', 'CommandSignature::combine'],
    'calls': {
        'm:@struct CommandSignature::isNull': '($o->value == 0)', 'm:@struct CommandSignature::operator basic::CommandSignature': '(*$o)',
        'm:@vstr::empty': '($o->len == 0)', 'm:@vstr::c_str': '((const char *)$o->ptr)', 'm:@vstr::data': '((const char *)$o->ptr)',
        'm:@vec_strref::size': 'vec_strref_size', 'm:@vec_vstr::size': 'vec_vstr_size', 'm:@vec_pair::size': 'vec_pair_size', 'm:@vec_node::size': 'vec_node_size',
        'range:@vec_strref': ('vec_strref_size', 'vec_strref_at'), 'range:@vec_vstr': ('vec_vstr_size', 'vec_vstr_at'),
        'range:@vec_pair': ('vec_pair_size', 'vec_pair_at'), 'range:@vec_node': ('vec_node_size', 'vec_node_at'),
        'c:CommandSignature(uint64_t)': 'sig_make', 'c:CommandSignature(StringRef)': 'sig_of_name',
        'o:=:@struct CommandSignature': '(*$o = $0)',
        'm:ExternalCommand::getSignature': 'ExternalCommand_getSignature_abs',
    },
    'call_patterns': [(r'm:.*CommandSignature.*::combine', 'SIG_COMBINE'), (r'm:atomic<.*>::operator .*', '(*$o)'), (r'o:=:atomic<.*>', '(*$o = $0)'),
                      (r'c:CommandSignature\(const (basic::)?CommandSignature &\)', '$0'), (r'c:atomic<.*', '$0')],
    'prelude': '#include "models/base.h"\n#include "models/vec.h"\n#include "models/signature.h"\n',
    'functions': {
        'ShellCommand::getSignature': {
            'requires': SELF + ['VEC_OK(self->args, strref)', 'VEC_OK(self->env, struct strpair)', 'VEC_OK(self->depsPaths, vstr)',
                                # type invariants of the fields that are fed as integers
                                'self->depsStyle >= 0 && self->depsStyle <= 3', 'self->inheritEnv <= 1 && self->canSafelyInterrupt <= 1', 'g_items == 0'],
            'assigns': ['self->cachedSignature', 'g_items', 'g_chain'],
            'ensures': [('P:C09', 'RESULT.value != 0'),                                          # the null signature is never handed out
                        ('P:C09', 'OLD(self->cachedSignature.value) != 0 ==> (RESULT.value == OLD(self->cachedSignature.value) && g_items == 0)'),
                        ('P:C09', '(OLD(self->cachedSignature.value) == 0 && self->signatureData.len != 0) ==> g_items == 1'),   # explicit signature replaces the walk
                        # every argument, both halves of every environment entry, every deps path, the three list lengths and the three scalars are fed, once each
                        ('P:C09', '(OLD(self->cachedSignature.value) == 0 && self->signatureData.len == 0) ==> g_items == self->args.len + 2 * self->env.len + self->depsPaths.len + 3 + 3'),   # + the three list lengths
                        ('P:C09', 'self->cachedSignature.value == RESULT.value')],
            'loops': {0: {'assigns': ['__i1', 'code', 'g_items', 'g_chain'], 'invariant': ['__i1 <= __range1->len && g_items == 1 + __i1'], 'decreases': '__range1->len - __i1'},
                      1: {'assigns': ['__i2', 'code', 'g_items', 'g_chain'], 'invariant': ['__i2 <= __range2->len && g_items == 2 + self->args.len + 2 * __i2'], 'decreases': '__range2->len - __i2'},
                      2: {'assigns': ['__i3', 'code', 'g_items', 'g_chain'], 'invariant': ['__i3 <= __range3->len && g_items == 3 + self->args.len + 2 * self->env.len + __i3'], 'decreases': '__range3->len - __i3'}},
        },
    },
}
