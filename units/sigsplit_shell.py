"""U-sig-split-shell (BOUNDED, relational; see units/sigsplit.py): ExternalCommand::getSignature and ShellCommand::getSignature run on two definitions that differ only in
where a list ends (a node moved from the inputs to the outputs; a word moved from the arguments to the deps paths).  The fed
sequences must differ -- otherwise the two definitions have the same signature for every hash function.  Plain cbmc, fixed small list
shapes, symbolic names.  Never counted as proved."""


def _combine(tr, n, obj, args, argnodes):
    t = tr.ntype(argnodes[0])
    base = t.base.replace('const ', '').strip()
    e = tr.expr(argnodes[0])
    if base in ('strref',):
        return '(*feed_str(%s, (%s).ptr))' % (obj, e)
    if base in ('vstr',):
        return '(*feed_str(%s, (%s).ptr))' % (obj, e if t.ptr == 0 and not t.ref else '*' + e if False else e)
    return '(*feed_int(%s, (uint64_t)(%s)))' % (obj, e)


UNIT = {
    'name': 'sigsplit_shell',
    'source': 'lib/BuildSystem/ShellCommand.cpp',
    'dumps': ['ShellCommand::getSignature', 'ShellCommand::DepsStyle'],
    'types': {'StringRef': 'strref', 'std::string': 'vstr', 'string': 'vstr', 'basic_string<char>': 'vstr',
              'CommandSignature': 'struct CommandSignature', 'basic::CommandSignature': 'struct CommandSignature'},
    'type_patterns': [(r'(std::)?vector<StringRef.*>', 'vec_strref'), (r'SmallVector<(std::)?(string|basic_string<char>), 1>', 'vec_vstr'),
                      (r'(std::)?vector<pair<StringRef, StringRef>.*>', 'vec_pair'), (r'SmallVector<(std::)?pair<StringRef, StringRef>, \d+>', 'vec_pair'), (r'(std::)?pair<StringRef, StringRef>', 'struct strpair'),
                      (r'(std::)?vector<(BuildNode|buildsystem::BuildNode) \*.*>', 'vec_node'), (r'(std::)?atomic<(basic::)?CommandSignature>', 'struct CommandSignature'),
                      (r'(buildsystem::)?BuildNode', 'struct nnode')],
    'by_value': ['strref', 'struct CommandSignature', 'vstr'],
    'predefined_structs': ['CommandSignature', 'strpair', 'nnode'],
    'no_translate': ['combine', 'getName', 'isNull', 'CommandSignature::combine', 'getSignature'],
    'after_structs': 'static inline struct CommandSignature ext_sig_abs(void *self) { struct CommandSignature s; s.value = 7; return s; }\n',
    'calls': {
        'm:@struct CommandSignature::isNull': '($o->value == 0)', 'm:@struct CommandSignature::operator basic::CommandSignature': '(*$o)',
        'm:@vstr::empty': '($o->len == 0)', 'm:@vstr::c_str': '((const char *)$o->ptr)', 'm:@vstr::data': '((const char *)$o->ptr)',
        'm:@vec_strref::size': 'vec_strref_size', 'm:@vec_vstr::size': 'vec_vstr_size', 'm:@vec_pair::size': 'vec_pair_size', 'm:@vec_node::size': 'vec_node_size',
        'range:@vec_strref': ('vec_strref_size', 'vec_strref_at'), 'range:@vec_vstr': ('vec_vstr_size', 'vec_vstr_at'),
        'range:@vec_pair': ('vec_pair_size', 'vec_pair_at'), 'range:@vec_node': ('vec_node_size', 'vec_node_at'),
        'c:CommandSignature(uint64_t)': 'sig_make', 'c:CommandSignature(StringRef)': 'sig_of_name',
        'o:=:@struct CommandSignature': '(*$o = $0)', 'm:@struct nnode::getName': '($o->name)', 'm:Node::getName': '($o->name)', 'm:BuildNode::getName': '($o->name)',
        'm:Command::getName': '($o->name)', 'm:ExternalCommand::getName': '($o->__base.name)', 'm:ExternalCommand::getSignature': 'ext_sig_abs',
    },
    'struct_extra': {'Command': '  strref name;\n'},
    'call_patterns': [(r'm:.*CommandSignature.*::combine', _combine), (r'm:atomic<.*>::operator .*', '(*$o)'), (r'o:=:atomic<.*>', '(*$o = $0)'),
                      (r'c:CommandSignature\(const (basic::)?CommandSignature &\)', '$0'), (r'c:atomic<.*', '$0'), (r'c:StringRef\(const (std::)?(string|basic_string<char>) &\)', 'vstr_str(&$0)')],
    'prelude': '#include "models/base.h"\n#include "models/vec.h"\n#include "models/strmodel.h"\n#include "models/sigsplit.h"\n',
    'functions': {
        'ShellCommand::getSignature': {
            'bounded': 'two definitions: arguments [t, d] without deps paths against arguments [t] with deps path d; same environment and scalars; loops unwound 4 times',
            'unwind': {'quick': 26, 'thorough': 26},
            'plain_harness': '''
  char t, d; strref w[2]; vstr dp[1];
  w[0].ptr = &t; w[0].len = 1; w[1].ptr = &d; w[1].len = 1; dp[0].ptr = &d; dp[0].len = 1; dp[0].cap = 1;
  struct ShellCommand x; __CPROVER_assume(x.cachedSignature.value == 0 && x.signatureData.len == 0 && x.env.len == 0);
  struct ShellCommand y; y = x;
  x.args.ptr = w; x.args.len = 2; x.args.cap = 2; x.depsPaths.ptr = dp; x.depsPaths.len = 0; x.depsPaths.cap = 1;
  y.args.ptr = w; y.args.len = 1; y.args.cap = 2; y.depsPaths.ptr = dp; y.depsPaths.len = 1; y.depsPaths.cap = 1;
  g_n[0] = 0; g_n[1] = 0;
  g_run = 0; ShellCommand_getSignature(&x);
  g_run = 1; ShellCommand_getSignature(&y);
  __CPROVER_assert(!logs_equal(), "[P:C09] moving a word from the argument list to the deps paths changes what is fed into the signature (the command line differs)");
''',
        },
    },
}
