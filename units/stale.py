"""U-stale: StaleFileRemovalCommand::execute (lib/BuildSystem/BuildSystem.cpp) -- C14.
Paths are opaque; pathIsPrefixedByPath is a ghost relation here (U-prefix decides that function); computeFilesToDelete
(std::set / std::set_difference over the two lists) is an assumed contract: filesToDelete = prior list minus expected list."""


def _drop_msg(fn):
    def b(tr, n, obj, args, argnodes):
        tr.dropped.add('message text passed to the delegate (%s) is not translated' % fn)
        return '%s(%s)' % (fn, obj)
    return b


REMOVE_OK = ('(self->roots.len == 0 || (g_abs[g_k] && ((self->roots.len > 0 && g_pre[g_k][0]) || (self->roots.len > 1 && g_pre[g_k][1]) || (self->roots.len > 2 && g_pre[g_k][2]))))')
UNIT = {
    'name': 'stale',
    'source': 'lib/BuildSystem/BuildSystem.cpp',
    'dumps': ['StaleFileRemovalCommand'],
    'types': {'std::string': 'pstr', 'string': 'pstr', 'basic_string<char>': 'pstr', 'BuildValue': 'struct bvalue', 'ResultFn': 'struct resultfn', 'Command::ResultFn': 'struct resultfn',
              'TaskInterface': 'struct TaskInterface', 'core::TaskInterface': 'struct TaskInterface', 'ProcessStatus': 'int', 'basic::ProcessStatus': 'int'},
    'type_patterns': [(r'(llvm::)?ArrayRef<(std::)?(basic_string<char>|string).*>', 'vec_pstr'), (r'(std::)?vector<(std::)?(basic_string<char>|string).*>', 'vec_pstr'), (r'(std::)?function<void \(.*BuildValue.*\)>', 'struct resultfn')],
    'by_value': ['vec_pstr', 'pstr', 'struct bvalue', 'struct TaskInterface', 'struct resultfn'],
    'predefined_structs': ['bvalue', 'resultfn', 'TaskInterface'],
    'vec_types': {},
    'no_translate': ['computeFilesToDelete', 'getDelegate', 'getBuildSystem', 'getFileSystem', 'pathIsPrefixedByPath', 'isStaleFileRemoval', 'makeStaleFileRemoval', 'strerror'],
    'need_fields': {'StaleFileRemovalCommand': ['expectedOutputs', 'filesToDelete', 'roots', 'hasPriorResult', 'priorValue', 'computedFilesToDelete']},
    'calls': {
        'range:@vec_pstr': ('vec_pstr_size', 'vec_pstr_at'), 'm:@vec_pstr::size': 'vec_pstr_size', 'm:@vec_pstr::empty': 'vec_pstr_empty',
        'o:[]:@pstr': 'stale_first_char($o)', 'm:@pstr::find': ('stale_sep_find', 'v'), 'fn:pathIsPrefixedByPath': ('stale_prefixed', 'vv'),
        'm:BuildSystem::getDelegate': 'stale_delegate', 'fn:getBuildSystem': '((void *)0)', 'm:*::getFileSystem': '((void *)0)',
        'm:BuildSystemDelegate::commandStarted': 'stale_started', 'm:BuildSystemDelegate::commandFinished': 'stale_finished',
        'm:BuildSystemDelegate::commandHadWarning': _drop_msg('stale_warning'), 'm:BuildSystemDelegate::commandHadNote': _drop_msg('stale_note'),
        'm:FileSystem::remove': 'stale_fs_remove($0)', 'm:@struct bvalue::isStaleFileRemoval': '($o->kind == 1)',
        'm:BuildValue::makeStaleFileRemoval': 'stale_make_value', 'fn:makeStaleFileRemoval': 'stale_make_value',
        'o:():@struct resultfn': 'stale_result($o, $0)', 'fn:__errno_location': 'verif_errno', 'fn:move': '$0',
    },
    'call_patterns': [(r'c:ArrayRef<.*>\(.*\)', '$0'), (r'c:(basic_string<char>|string|std::string)\(const (basic_string<char>|string|std::string) &\)', '$0')],
    'globals': {'npos': '((size_t)-1)'},
    'prelude': '#include "models/base.h"\n#include "models/vec.h"\n#include "models/stale.h"\n',
    'after_structs': '#include "models/stale_after.h"\n',
    'stubs': {
        # std::set / std::set_difference: assumed -- fills filesToDelete once with (prior list minus expected list)
        'StaleFileRemovalCommand_computeFilesToDelete': {'params': 'struct StaleFileRemovalCommand *self', 'requires': [], 'assigns': ['self->computedFilesToDelete'],
                                                         'ensures': ['self->computedFilesToDelete != 0']},
    },
    'functions': {
        'StaleFileRemovalCommand::execute': {
            'requires': ['__CPROVER_is_fresh(self, sizeof(*self))', 'g_self == self', '__CPROVER_is_fresh(system, 1)',
                         '__CPROVER_is_fresh(self->filesToDelete.ptr, NF * sizeof(pstr)) && self->filesToDelete.len <= NF && self->filesToDelete.cap == NF',
                         '__CPROVER_is_fresh(self->roots.ptr, NR * sizeof(pstr)) && self->roots.len <= NR && self->roots.cap == NR',
                         'VEC_OK(self->expectedOutputs, pstr)'] +
                        ['__CPROVER_is_fresh(self->filesToDelete.ptr[%d].ptr, 1)' % i for i in range(4)] + ['__CPROVER_is_fresh(self->roots.ptr[%d].ptr, 1)' % i for i in range(3)] +
                        ['g_started == 0 && g_finished == 0 && g_results == 0 && g_removes == 0 && !g_rm_k && !g_rm_other', 'g_k < NF'],
            'assigns': ['g_started', 'g_finished', 'g_results', 'g_warnings', 'g_notes', 'g_removes', 'g_rm_k', 'g_rm_other', 'g_result_from', 'g_result_kind', 'g_finish_status', 'g_errno',
                        'self->computedFilesToDelete'],
            'ensures': [
                # exactly one result, and it records the CURRENT expected-output list (what the next run will compare against), on every path
                ('P:C14', 'g_results == 1 && g_result_kind == 1 && g_result_from == (const void *)self->expectedOutputs.ptr'),
                ('P:C14', 'g_started == 1 && g_finished == 1'),
                # without a prior stale-file-removal result nothing is removed
                ('P:C14', '(!self->hasPriorResult || self->priorValue.kind != 1) ==> g_removes == 0'),
                # nothing but elements of filesToDelete (prior minus expected) is ever passed to remove()
                ('P:C14', '!g_rm_other'),
                # the k-th stale file is removed if and only if no roots are configured, or it is absolute and lies under one of the roots
                ('P:C14', '(self->hasPriorResult && self->priorValue.kind == 1 && g_k < self->filesToDelete.len) ==> ((g_rm_k != 0) == (%s != 0))' % REMOVE_OK),
            ],
            'loops': {
                0: {'assigns': ['$i', 'g_warnings', 'g_notes', 'g_removes', 'g_rm_k', 'g_rm_other', 'g_errno'],
                    'invariant': ['$i <= $range->len && g_started == 1 && g_finished == 0 && g_results == 0 && !g_rm_other',
                                  '(g_k < $i) ==> ((g_rm_k != 0) == (%s != 0))' % REMOVE_OK, '(g_k >= $i) ==> !g_rm_k'],
                    'decreases': '$range->len - $i'},
                1: {'assigns': ['$i', 'isLocatedUnderRootPath'],
                    'invariant': ['$i <= $range->len && self->roots.len > 0',
                                  '(isLocatedUnderRootPath != 0) == (($i > 0 && g_pre[IDX(fileToDelete)][0]) || ($i > 1 && g_pre[IDX(fileToDelete)][1]) || ($i > 2 && g_pre[IDX(fileToDelete)][2]))'],
                    'decreases': '$range->len - $i'},
            },
        },
    },
}
