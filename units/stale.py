"""U-stale: StaleFileRemovalCommand::execute (lib/BuildSystem/BuildSystem.cpp) -- C14.
Paths are opaque; pathIsPrefixedByPath is a ghost relation here (U-prefix decides that function); computeFilesToDelete
(std::set / std::set_difference over the two lists) is an assumed contract: filesToDelete = prior list minus expected list."""


def _drop_msg(fn):
    def b(tr, n, obj, args, argnodes):
        tr.dropped.add('message text passed to the delegate (%s) is not translated' % fn)
        return '%s(%s)' % (fn, obj)
    return b


def _peel(n):
    while n.get('kind') in ('ImplicitCastExpr', 'ParenExpr', 'MaterializeTemporaryExpr', 'CXXBindTemporaryExpr', 'ExprWithCleanups') and n.get('inner'):
        n = n['inner'][0]
    while n.get('kind') == 'CXXConstructExpr' and len(n.get('inner', [])) == 1:
        n = _peel(n['inner'][0])
    return n


def _container(tr, node):
    n = _peel(node)
    if n.get('kind') == 'CXXMemberCallExpr' and n['inner'][0].get('kind') == 'MemberExpr' and n['inner'][0].get('name') in ('begin', 'end', 'cbegin', 'cend'):
        return n['inner'][0]['inner'][0]
    raise Exception('iterator expression is not x.begin() / x.end()')


def _src_of(tr, cnode):
    t = tr.ntype(cnode)
    e = tr.expr(cnode)
    if t.base == 'struct plist':
        return '(%s).src' % e
    if t.base == 'vec_pstr':
        return '(const void *)(%s).ptr' % e
    raise Exception('range over %s' % t.c())


def _coll_ctor(is_set):
    def b(tr, n, obj, args, argnodes):
        a, z = _container(tr, argnodes[0]), _container(tr, argnodes[1])
        if tr.expr(a) != tr.expr(z):
            raise Exception('range constructor over two different containers')
        return 'coll_make(%s, %d)' % (_src_of(tr, a), is_set)
    return b


def _sort(tr, n, obj, args, argnodes):
    a = _container(tr, argnodes[0])
    return 'coll_sort(%s)' % tr.addr(tr.expr(a))


def _setdiff(tr, n, obj, args, argnodes):
    a, b = _container(tr, argnodes[0]), _container(tr, argnodes[2])
    out = _peel(argnodes[4])
    if out.get('kind') != 'CallExpr' or 'back_inserter' not in str(out['inner'][0]):
        raise Exception('set_difference output is not a back_inserter')
    ea, eb, eo = tr.expr(a), tr.expr(b), tr.addr(tr.expr(out['inner'][1]))
    return 'verif_set_difference((%s).src, (%s).uniq && (%s).sorted, (%s).src, (%s).uniq && (%s).sorted, %s)' % (ea, ea, ea, eb, eb, eb, eo)


REMOVE_OK = ('(self->roots.len == 0 || (g_abs[g_k] && ((self->roots.len > 0 && g_pre[g_k][0]) || (self->roots.len > 1 && g_pre[g_k][1]) || (self->roots.len > 2 && g_pre[g_k][2]))))')
UNIT = {
    'name': 'stale',
    'source': 'lib/BuildSystem/BuildSystem.cpp',
    'dumps': ['StaleFileRemovalCommand'],
    'types': {'std::string': 'pstr', 'string': 'pstr', 'basic_string<char>': 'pstr', 'BuildValue': 'struct bvalue', 'ResultFn': 'struct resultfn', 'Command::ResultFn': 'struct resultfn',
              'TaskInterface': 'struct TaskInterface', 'core::TaskInterface': 'struct TaskInterface', 'ProcessStatus': 'int', 'basic::ProcessStatus': 'int'},
    'type_patterns': [(r'(std::)?set<(std::)?(basic_string<char>|string).*>', 'vec_pstr'), (r'(std::)?vector<(llvm::)?StringRef.*>', 'struct plist'), (r'(llvm::)?ArrayRef<(std::)?(basic_string<char>|string).*>', 'vec_pstr'), (r'(std::)?vector<(std::)?(basic_string<char>|string).*>', 'vec_pstr'), (r'(std::)?function<void \(.*BuildValue.*\)>', 'struct resultfn')],
    'by_value': ['struct plist', 'vec_pstr', 'pstr', 'struct bvalue', 'struct TaskInterface', 'struct resultfn'],
    'predefined_structs': ['bvalue', 'resultfn', 'TaskInterface', 'plist'],
    'vec_types': {},
    'no_translate': ['set_difference', 'sort', 'getStaleFileList', 'getDelegate', 'getBuildSystem', 'getFileSystem', 'pathIsPrefixedByPath', 'isStaleFileRemoval', 'makeStaleFileRemoval', 'strerror'],
    'need_fields': {'StaleFileRemovalCommand': ['expectedOutputs', 'filesToDelete', 'roots', 'hasPriorResult', 'priorValue', 'computedFilesToDelete']},
    'calls': {
        'range:@vec_pstr': ('vec_pstr_size', 'vec_pstr_at'), 'm:@vec_pstr::clear': 'vec_pstr_clear', 'm:@vec_pstr::size': 'vec_pstr_size', 'm:@vec_pstr::empty': 'vec_pstr_empty',
        'o:[]:@pstr': 'stale_first_char($o)', 'm:@pstr::find': ('stale_sep_find', 'v'), 'fn:pathIsPrefixedByPath': ('stale_prefixed', 'vv'),
        'm:BuildSystem::getDelegate': 'stale_delegate', 'fn:getBuildSystem': '((void *)0)', 'm:*::getFileSystem': '((void *)0)',
        'm:BuildSystemDelegate::commandStarted': 'stale_started', 'm:BuildSystemDelegate::commandFinished': 'stale_finished',
        'm:BuildSystemDelegate::commandHadWarning': _drop_msg('stale_warning'), 'm:BuildSystemDelegate::commandHadNote': _drop_msg('stale_note'),
        'm:FileSystem::remove': 'stale_fs_remove($0)', 'm:@struct bvalue::isStaleFileRemoval': '($o->kind == 1)',
        'm:BuildValue::makeStaleFileRemoval': 'stale_make_value', 'fn:makeStaleFileRemoval': 'stale_make_value',
        'm:@struct bvalue::getStaleFileList': 'stale_prior_list', 'fn:set_difference': _setdiff, 'fn:sort': _sort,
        'o:():@struct resultfn': 'stale_result($o, $0)', 'fn:__errno_location': 'verif_errno', 'fn:move': '$0',
    },
    'call_patterns': [(r'c:set<.*>\(.*iterator.*\)', _coll_ctor(1)), (r'c:vector<(std::)?(basic_string<char>|string).*>\(.*iterator.*\)', _coll_ctor(0)),
                      (r'c:(std::)?vector<(llvm::)?StringRef.*>\(.*\)', '$0'), (r'c:ArrayRef<.*>\(.*\)', '$0'), (r'c:(basic_string<char>|string|std::string)\(const (basic_string<char>|string|std::string) &\)', '$0')],
    'globals': {'npos': '((size_t)-1)'},
    'prelude': '#include "models/base.h"\n#include "models/vec.h"\n#include "models/stale.h"\n',
    'after_structs': '#include "models/stale_after.h"\n',
    'stubs': {},
    'functions': {
        'StaleFileRemovalCommand::start': {
            'requires': ['__CPROVER_is_fresh(self, sizeof(*self))'],
            'assigns': ['self->computedFilesToDelete', 'self->filesToDelete.len', 'self->hasPriorResult'],
            # the command object outlives a build when the build system instance is reused: what is stale is decided anew in every build,
            # from the prior value provided in THAT build (a list computed in an earlier build names files that are no longer stale)
            'ensures': [('P:C14', '!self->computedFilesToDelete && self->filesToDelete.len == 0 && !self->hasPriorResult')],
        },
        'StaleFileRemovalCommand::computeFilesToDelete': {
            'requires': ['__CPROVER_is_fresh(self, sizeof(*self))', 'g_diffs == 0'],
            'assigns': ['self->computedFilesToDelete', 'g_diffs', 'g_diff_a', 'g_diff_b', 'g_diff_out'],
            'ensures': [
                # computed once: filesToDelete := (set of the paths the previous successful run recorded) minus (set of the paths expected now)
                ('P:C14', 'OLD(self->computedFilesToDelete) ? (g_diffs == 0) : (g_diffs == 1 && g_diff_a == (const void *)&g_prior_list_marker && g_diff_b == (const void *)self->expectedOutputs.ptr && g_diff_out == (const void *)&self->filesToDelete)'),
                ('P:C14', 'self->computedFilesToDelete != 0'),
            ],
        },
        'StaleFileRemovalCommand::execute': {
            'requires': ['__CPROVER_is_fresh(self, sizeof(*self))', 'g_self == self', '__CPROVER_is_fresh(system, 1)',
                         '__CPROVER_is_fresh(self->filesToDelete.ptr, NF * sizeof(pstr)) && self->filesToDelete.len <= NF && self->filesToDelete.cap == NF',
                         '__CPROVER_is_fresh(self->roots.ptr, NR * sizeof(pstr)) && self->roots.len <= NR && self->roots.cap == NR',
                         'VEC_OK(self->expectedOutputs, pstr)'] +
                        ['__CPROVER_is_fresh(self->filesToDelete.ptr[%d].ptr, 1)' % i for i in range(4)] + ['__CPROVER_is_fresh(self->roots.ptr[%d].ptr, 1)' % i for i in range(3)] +
                        ['g_started == 0 && g_finished == 0 && g_results == 0 && g_removes == 0 && !g_rm_k && !g_rm_other && g_diffs == 0', 'g_k < NF'],
            'assigns': ['g_started', 'g_finished', 'g_results', 'g_warnings', 'g_notes', 'g_removes', 'g_rm_k', 'g_rm_other', 'g_result_from', 'g_result_kind', 'g_finish_status', 'g_errno',
                        'self->computedFilesToDelete', 'g_diffs', 'g_diff_a', 'g_diff_b', 'g_diff_out'],
            'ensures': [
                # exactly one result, and it records the CURRENT expected-output list (what the next run will compare against), on every path
                ('P:C14', 'g_results == 1 && g_result_kind == 1 && g_result_from == (const void *)self->expectedOutputs.ptr'),
                ('P:C14', 'g_started == 1 && g_finished == 1'),
                # without a prior stale-file-removal result nothing is removed
                ('P:C14', '(!self->hasPriorResult || self->priorValue.kind != 1) ==> g_removes == 0'),
                # nothing but elements of filesToDelete (prior minus expected) is ever passed to remove()
                ('P:C14', '!g_rm_other'),
                # the k-th stale file is removed if and only if no roots are configured, or it is absolute and lies under one of the roots
                ('P:C14', '(self->hasPriorResult && self->priorValue.kind == 1 && g_k < self->filesToDelete.len) ==> ((g_rm_k != 0) == (%s != 0))' % REMOVE_OK),
            ],
            'loops': {
                0: {'assigns': ['$i', 'g_warnings', 'g_notes', 'g_removes', 'g_rm_k', 'g_rm_other', 'g_errno'],
                    'invariant': ['$i <= $range->len && g_started == 1 && g_finished == 0 && g_results == 0 && !g_rm_other',
                                  '(g_k < $i) ==> ((g_rm_k != 0) == (%s != 0))' % REMOVE_OK, '(g_k >= $i) ==> !g_rm_k'],
                    'decreases': '$range->len - $i'},
                1: {'assigns': ['$i', 'isLocatedUnderRootPath'],
                    'invariant': ['$i <= $range->len && self->roots.len > 0',
                                  '(isLocatedUnderRootPath != 0) == (($i > 0 && g_pre[IDX(fileToDelete)][0]) || ($i > 1 && g_pre[IDX(fileToDelete)][1]) || ($i > 2 && g_pre[IDX(fileToDelete)][2]))'],
                    'decreases': '$range->len - $i'},
            },
        },
    },
}
