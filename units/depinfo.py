"""U-depinfo: lib/Core/DependencyInfoParser.cpp (C19 safety/termination, C11 record fidelity)."""
OFF = '__CPROVER_POINTER_OFFSET'

SPAN = '__CPROVER_same_object(operand.ptr, g_buf) && %s(operand.ptr) >= 1 && %s(operand.ptr) + operand.len < g_len' % (OFF, OFF)
# the record is reported with exactly its bytes: preceded by its opcode, followed by its terminator, non-empty,
# and it starts where the previous record ended (nothing skipped, nothing reported twice, order kept)
REC = 'operand.len >= 1 && operand.ptr[operand.len] == 0 && (unsigned char)operand.ptr[-1] == %s && (!g_err ==> (size_t)%s(operand.ptr) - 1 == g_next)'


def act(op):
    return {
        'params': 'struct DependencyInfoParser_ParseActions *self, strref operand',
        'requires': [('P:C19', SPAN), ('P:C11', REC % (op, OFF))],
        'assigns': ['g_next', 'g_evt'],
        'ensures': ['g_next == (size_t)%s(operand.ptr) + operand.len + 1' % OFF, 'g_evt == 1'],
    }


UNIT = {
    'name': 'depinfo',
    'source': 'lib/Core/DependencyInfoParser.cpp',
    'dumps': ['DependencyInfoParser', 'Opcode'],
    'types': {'StringRef': 'strref'},
    'by_value': ['strref'],
    'ref_fields': ['DependencyInfoParser::actions'],
    'calls': {
        'm:StringRef::data': 'strref_data', 'm:StringRef::size': 'strref_size', 'm:StringRef::empty': 'strref_empty',
        'm:StringRef::begin': 'strref_data', 'm:StringRef::end': '($o->ptr + $o->len)',
        'm:StringRef::endswith': 'strref_endswith1',
        'o:[]:StringRef': '$o->ptr[$0]',
        'c:StringRef(const char *, size_t)': 'strref_make',
    },
    'prelude': '#include "models/base.h"\n#include "models/depinfo.h"\n',
    'functions': {
        'DependencyInfoParser::parse': {
            'requires': ['g_len <= (size_t)1 << 40', '__CPROVER_is_fresh(g_buf, g_len)',
                         '__CPROVER_is_fresh(self, sizeof(*self))',
                         '__CPROVER_is_fresh(self->actions, sizeof(*self->actions))',
                         'self->data.ptr == g_buf && self->data.len == g_len', 'g_next == 0', '!g_err && !g_evt'],
            'assigns': ['g_err', 'g_next', 'g_evt'],
            'ensures': [
                # a malformed file is rejected through the error callback and nothing is reported from it
                ('P:C11', '(g_len == 0 || g_buf[g_len - 1] != 0 || g_buf[0] != 0) ==> (g_err && !g_evt)'),
                # without an error every record of the file has been reported (the reports tile the buffer)
                ('P:C11', '!g_err ==> g_next == g_len'),
            ],
            'loops': {
                0: {'assigns': ['cur', 'g_err', 'g_next', 'g_evt'],
                    'invariant': ['__CPROVER_same_object(cur, end) && %s(cur) <= %s(end)' % (OFF, OFF),
                                  '!g_err ==> g_next == (size_t)%s(cur)' % OFF],
                    'decreases': '%s(end) - %s(cur)' % (OFF, OFF)},
                1: {'assigns': ['cur'],
                    'invariant': ['__CPROVER_same_object(cur, end) && %s(cur) < %s(end) && %s(cur) >= %s(operandStart)' % (OFF, OFF, OFF, OFF)],
                    'decreases': '%s(end) - %s(cur)' % (OFF, OFF)},
            },
        },
    },
    'stubs': {
        'DependencyInfoParser_ParseActions_error': {
            'params': 'struct DependencyInfoParser_ParseActions *self, const char *message, uint64_t position',
            'requires': [('P:C19', 'position <= g_len')],
            'assigns': ['g_err'], 'ensures': ['g_err == 1'],
        },
        'DependencyInfoParser_ParseActions_actOnVersion': act('0x00'),
        'DependencyInfoParser_ParseActions_actOnInput': act('0x10'),
        'DependencyInfoParser_ParseActions_actOnMissing': act('0x11'),
        'DependencyInfoParser_ParseActions_actOnOutput': act('0x40'),
    },
}
