"""U-proc-group: ProcessGroup::signalAll (lib/Basic/Subprocess.cpp) -- C05 / C16: on cancellation every running child is signalled: an interrupt is withheld only
from processes that cannot be interrupted safely, the kill that follows the grace period reaches every process; each process group is signalled once, under the
group's mutex."""
NP = 3
PR = 'self->processes.ptr[%d]'
WANT = lambda k: '!(signal == 2 && !%s.second.canSafelyInterrupt)' % (PR % k)


def cnt(upto):
    return '(' + ' + '.join(['0u'] + ['((%d < %s && %s) ? 1u : 0u)' % (k, upto, WANT(k)) for k in range(NP)]) + ')'


def sent(k, lim):
    return '((%d < %s) ==> (g_sent[%d] == (%s ? 1 : 0) && (g_sent[%d] ==> g_sent_sig[%d] == signal)))' % (k, lim, k, WANT(k), k, k)


UNIT = {
    'name': 'procgroup',
    'source': 'lib/Basic/Subprocess.cpp',
    'dumps': ['basic::ProcessGroup', 'basic::ProcessInfo'],
    'types': {'llbuild_pid_t': 'int', 'std::mutex': 'verif_mutex', 'mutex': 'verif_mutex', 'std::condition_variable': 'char', 'condition_variable': 'char'},
    'type_patterns': [(r'(std::)?unordered_map<(llbuild_pid_t|int), (basic::)?ProcessInfo.*>', 'vec_procpair'), (r'(std::)?pair<const (llbuild_pid_t|int), (basic::)?ProcessInfo>', 'struct procpair')],
    'vec_types': {'vec_procpair': 'struct procpair'},
    'synthetic_structs': {'procpair': [('first', 'int'), ('second', 'struct ProcessInfo')]},
    'full_structs': ['ProcessInfo'],
    'need_fields': {'ProcessGroup': ['processes', 'mutex']},
    'no_translate': ['kill'],
    'calls': {'range:@vec_procpair': ('vec_procpair_size', 'vec_procpair_at'), 'fn:kill': 'verif_kill', 'm:@verif_mutex::lock': 'verif_mutex_lock', 'm:@verif_mutex::unlock': 'verif_mutex_unlock'},
    'prelude': ('#include "models/base.h"\n#include "models/vec.h"\n'
                'typedef struct verif_mutex { _Bool held; } verif_mutex;\n'
                'static inline void verif_mutex_lock(verif_mutex *m) { __CPROVER_assert(!m->held, "[P:C16] a mutex is not locked twice by the same thread"); m->held = 1; }\n'
                'static inline void verif_mutex_unlock(verif_mutex *m) { __CPROVER_assert(m->held, "[P:C16] a mutex is unlocked only while held"); m->held = 0; }\n'
                '#define NP 3\nint g_pid[NP]; _Bool g_sent[NP]; int g_sent_sig[NP]; unsigned g_kills; _Bool g_group_locked;\n'
                '/* kill(2) with a negative pid: the process GROUP of that process */\n'
                'static inline int verif_kill(int pid, int sig) {\n'
                '  __CPROVER_assert(pid < 0, "[P:C05,P:C16] the whole process group is signalled (negative pid)");\n'
                '  int k = (-pid == g_pid[0]) ? 0 : (-pid == g_pid[1]) ? 1 : (-pid == g_pid[2]) ? 2 : NP;\n'
                '  __CPROVER_assert(k < NP, "[P:C16] only processes of the group are signalled");\n'
                '  __CPROVER_assert(!g_sent[k], "[P:C16] a process group is signalled once");\n'
                '  g_sent[k] = 1; g_sent_sig[k] = sig; g_kills++; return 0; }\n'),
    'functions': {
        'ProcessGroup::signalAll': {
            'requires': ['__CPROVER_is_fresh(self, sizeof(*self))', 'VEC_OKN(self->processes, struct procpair, NP)', '!self->mutex.held',
                         ' && '.join('self->processes.ptr[%d].first == g_pid[%d] && g_pid[%d] > 0' % (k, k, k) for k in range(NP)), 'g_pid[0] != g_pid[1] && g_pid[0] != g_pid[2] && g_pid[1] != g_pid[2]',
                         'g_kills == 0 && !g_sent[0] && !g_sent[1] && !g_sent[2]'],
            'assigns': ['self->mutex.held', 'g_kills', '__CPROVER_object_whole(g_sent)', '__CPROVER_object_whole(g_sent_sig)'],
            'ensures': [('P:C05,P:C16', ' && '.join(sent(k, 'self->processes.len') for k in range(NP))),
                        ('P:C05,P:C16', 'g_kills == %s' % cnt('self->processes.len')),
                        ('P:C16', '!self->mutex.held')],
            'loops': {0: {'assigns': ['$i', 'g_kills', '__CPROVER_object_whole(g_sent)', '__CPROVER_object_whole(g_sent_sig)'],
                          'invariant': ['$i <= $range->len && self->mutex.held && g_kills == %s && ' % cnt('$i') + ' && '.join(sent(k, '$i') for k in range(NP)) + ' && ' +
                                        ' && '.join('((%d >= $i) ==> !g_sent[%d])' % (k, k) for k in range(NP))],
                          'decreases': '$range->len - $i'}},
        },
    },
}
