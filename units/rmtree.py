"""U-rm-tree: _remove_all_r (lib/Basic/FileSystem.cpp), the recursive walk behind LocalFileSystem::remove -- C14: "a directory together with everything beneath it": when it
reports success for a directory, EVERY entry the directory iterator yielded (whatever its name) has been removed through a recursive call and then the directory itself;
links are not followed; the first error stops the walk and is returned.  Proved by induction on the depth: recursive calls are assumed to meet the same contract."""
MONO = ' && '.join('(OLD(g_removed[%d]) ==> g_removed[%d])' % (k, k) for k in range(4))
ENT = ' && '.join('((%d < g_nentries) ==> g_removed[%d])' % (k, k) for k in range(3))
UNIT = {
    'name': 'rmtree',
    'source': 'lib/Basic/FileSystem.cpp',
    'dumps': ['_remove_all_r', 'file_type'],
    'types': {'std::string': 'vstr', 'string': 'vstr', 'basic_string<char>': 'vstr', 'StringRef': 'strref', 'Twine': 'strref', 'llvm::Twine': 'strref', 'file_status': 'struct file_status', 'llvm::sys::fs::file_status': 'struct file_status', 'directory_iterator': 'struct diriter', 'llvm::sys::fs::directory_iterator': 'struct diriter', 'fs::directory_iterator': 'struct diriter', 'fs::file_status': 'struct file_status'},
    'type_patterns': [(r'(std::)?error_code', 'int'), (r'(llvm::sys::)?(fs::)?file_type', 'int')],
    'by_value': ['strref', 'struct diriter'], 'by_pointer': ['vstr'],
    'predefined_structs': ['file_status', 'diriter'],
    'no_translate': ['link_status', 'remove', 'filename'],
    'need_enums': ['file_type'],
    'calls': {
        'fn:link_status': 'verif_link_status($0, $1)', 'fn:remove': 'verif_fs_remove', 'fn:filename': 'path_filename($0)', 'm:@strref::startswith': 'name_startswith', 'm:StringRef::startswith': 'name_startswith',
        'm:@struct diriter::increment': 'diriter_increment($o, &$0)', 'o:!=:@struct diriter': 'diriter_ne', 'o:->:@struct diriter': '($o)', 'm:directory_entry::path': 'diriter_path', 'm:@struct diriter::path': 'diriter_path',
        'm:@struct file_status::type': '($o->ty)', 'm:@int::operator bool': '(*$o != 0)', 'm:error_code::operator bool': '(*$o != 0)',
    },
    'call_patterns': [(r'c:StringRef\(const char \*\)', '$0'), (r'm:.*directory_entry::path', '(*diriter_path((const struct diriter *)$o))'), (r'c:(llvm::)?Twine\(const (llvm::)?StringRef &\)', '$0'), (r'c:(llvm::)?Twine\(const (std::)?(string|basic_string<char>) &\)', 'rm_ref_of_string'), (r'c:(llvm::sys::)?(fs::)?directory_iterator\(const .*Twine.*\)', 'diriter_open($0, &$1, $2)'),
                      (r'c:(llvm::sys::)?(fs::)?directory_iterator/0', 'diriter_end'), (r'c:(llvm::sys::)?(fs::)?directory_iterator\(\)', 'diriter_end'), (r'c:(std::)?error_code/0', 'ec_none'), (r'c:(std::)?error_code\(\)', 'ec_none'),
                      (r'c:(llvm::sys::)?(fs::)?file_status/0', 'fstatus_new'), (r'c:(llvm::sys::)?(fs::)?file_status\(\)', 'fstatus_new'), (r'c:StringRef\(const (std::)?(string|basic_string<char>) &\)', 'rm_ref_of_string'),
                      (r'c:(std::)?error_code\((const )?(std::)?error_code &+\)', '$0'), (r'c:(llvm::sys::)?(fs::)?directory_iterator\((const )?.*directory_iterator &+\)', '$0')],
    'prelude': '#include "models/base.h"\n#include "models/rmtree.h"\nstatic inline int ec_none(void) { return 0; }\nstatic inline struct file_status fstatus_new(void) { struct file_status s; s.ty = 0; return s; }\nstatic inline strref rm_ref_of_string(const vstr *s) { strref r; r.ptr = s->ptr; r.len = s->len; return r; }\n',
    'functions': {
        '_remove_all_r': {
            'recursive': True,
            'requires': ['__CPROVER_is_fresh(count, sizeof(*count))', 'PIDX(path.ptr) < NPATH', 'g_nentries <= NE', 'g_paths[0] != 0 && g_paths[1] != 0 && g_paths[2] != 0 && g_paths[3] != 0',
                         'g_paths[0] != g_paths[1] && g_paths[0] != g_paths[2] && g_paths[0] != g_paths[3] && g_paths[1] != g_paths[2] && g_paths[1] != g_paths[3] && g_paths[2] != g_paths[3]'],
            'assigns': ['*count', '__CPROVER_object_whole(g_removed)', '__CPROVER_object_whole(g_entry_str)'],
            'ensures': [
                # success means this path is gone; nothing that was removed comes back
                ('P:C14', '(RESULT == 0) ==> g_removed[PIDX(path.ptr)]'), ('P:C14', MONO),
                # a directory (the one whose entries the model lists): success means every entry it had was removed first
                ('P:C14', '(RESULT == 0 && ft == file_type_directory_file && path.ptr == g_paths[NE]) ==> (%s)' % ENT),
            ],
            'loops': {0: {'assigns': ['i', 'ec', '*count', '__CPROVER_object_whole(g_removed)', '__CPROVER_object_whole(g_entry_str)'],
                          'invariant': ['i.pos <= g_nentries && i.at_end == (i.pos >= g_nentries) && ' + ' && '.join('((%d < i.pos) ==> g_removed[%d])' % (k, k) for k in range(3)) + ' && ' +
                                        ' && '.join('(__CPROVER_loop_entry(g_removed[%d]) ==> g_removed[%d])' % (k, k) for k in range(4))],
                          'decreases': 'g_nentries - i.pos'}},
        },
    },
}
