"""U-dir-input: DirectoryInputNodeTask (lib/BuildSystem/BuildSystem.cpp) -- C12: a directory-tree input is the tree signature of its directory (with the node's
exclusion patterns); when the node must be scanned after other paths, those are requested first under input ids 1, 2, ... (0 is reserved for the signature),
the signature is requested exactly when the last of them has arrived, and the task's value is the signature it was given."""


def _lit(tr, n, obj, args, argnodes):
    return None


UNIT = {
    'name': 'dirinput',
    'source': 'lib/BuildSystem/BuildSystem.cpp',
    'dumps': ['DirectoryInputNodeTask', 'buildsystem::BuildNode'],
    'types': {'StringRef': 'strref', 'TaskInterface': 'struct TaskInterface', 'core::TaskInterface': 'struct TaskInterface', 'ValueType': 'vbytes', 'core::ValueType': 'vbytes', 'KeyType': 'bkey', 'core::KeyType': 'bkey', 'BuildKey': 'bkey'},
    'type_patterns': [(r'(std::)?vector<(llvm::)?StringRef.*>', 'vec_paths'), (r'(std::)?vector<(unsigned char|uint8_t).*>', 'vbytes'), (r'(basic::)?StringList', 'struct StringList')],
    'by_value': ['strref', 'struct TaskInterface', 'vbytes', 'bkey'],
    'predefined_structs': ['TaskInterface', 'StringList'],
    'ref_fields': ['DirectoryInputNodeTask::node'],
    'need_fields': {'DirectoryInputNodeTask': ['node', 'directorySignature', 'totalBlockingDeps', 'finishedBlockingDeps'], 'BuildNode': ['mustScanAfterPaths', 'exclusionPatterns']},
    'struct_extra': {'BuildNode': '  strref g_name;\n'},
    'no_translate': ['contentExclusionPatterns', 'getMustScanAfterPaths', 'request', 'complete', 'makeNode', 'makeDirectoryTreeSignature', 'toData', 'fromData', 'getName', 'endswith', 'substr'],
    'calls': {
        'm:TaskInterface::request': 'ti_request', 'm:@struct TaskInterface::request': 'ti_request', 'm:TaskInterface::complete': 'ti_complete($o, $0, 0)', 'm:@struct TaskInterface::complete': 'ti_complete($o, $0, 0)',
        'fn:makeNode': 'key_node', 'm:BuildKey::makeNode': 'key_node', 'fn:makeDirectoryTreeSignature': 'key_treesig', 'm:BuildKey::makeDirectoryTreeSignature': 'key_treesig', 'm:BuildNode::contentExclusionPatterns': '($o->exclusionPatterns)', 'm:BuildNode::getMustScanAfterPaths': '($o->mustScanAfterPaths)', 'm:@bkey::toData': '(*$o)',
        'range:@vec_paths': ('vec_paths_size', 'vec_paths_at'), 'm:Node::getName': '($o->g_name)', 'm:BuildNode::getName': '($o->g_name)',
        'm:@strref::endswith': 'name_endswith', 'm:StringRef::endswith': 'name_endswith', 'o:!=:StringRef': 'name_ne_root', 'o:!=:@strref': 'name_ne_root', 'fn:operator!=': 'name_ne_root',
        'm:@strref::substr': 'name_substr', 'm:StringRef::substr': 'name_substr', 'm:@strref::size': '($o->len)', 'm:StringRef::size': '($o->len)',
        'o:=:@vbytes': '(*$o = $0)', 'o:=:StringRef': '(*$o = $0)', 'o:=:@strref': '(*$o = $0)', 'fn:fromData': '0', 'm:BuildValue::fromData': '0',
    },
    'call_patterns': [(r'c:StringRef\(const char \*\)', '$0'), (r'c:(core::)?ValueType\(const .*&\)', '$0'), (r'c:(std::)?vector<(unsigned char|uint8_t).*>\(const .*&\)', '$0'), (r'c:StringRef\(const StringRef &\)', '$0')],
    'drop_locals': [r'BuildValue'],
    'prelude': '#include "models/base.h"\n#include "models/vec.h"\nstruct StringList { char _e; };\n#include "models/dirinput.h"\n',
    'functions': {
        'DirectoryInputNodeTask::performUnblockedRequest': {
            'requires': ['__CPROVER_is_fresh(self, sizeof(*self))', '__CPROVER_is_fresh(self->node, sizeof(*self->node))', 'g_nreq == 0', 'self->node->g_name.len >= 1'],
            'assigns': ['g_nreq', '__CPROVER_object_whole(g_req_kind)', '__CPROVER_object_whole(g_req_path)', '__CPROVER_object_whole(g_req_id)', '__CPROVER_object_whole(g_req_filters)'],
            # the tree signature of the node's directory (trailing slash dropped, except for "/"), with the node's exclusion patterns, under input id 0
            'ensures': [('P:C12', 'g_nreq == 1 && g_req_kind[0] == K_TreeSig && g_req_id[0] == 0 && g_req_path[0] == self->node->g_name.ptr && g_req_filters[0] == (const void *)&self->node->exclusionPatterns')]},
        'DirectoryInputNodeTask::start': {
            'requires': ['__CPROVER_is_fresh(self, sizeof(*self))', '__CPROVER_is_fresh(self->node, sizeof(*self->node))', 'g_nreq == 0', 'self->node->g_name.len >= 1', 'self->totalBlockingDeps == 0',
                         'VEC_OKN(self->node->mustScanAfterPaths, strref, 3)', 'g_k < self->node->mustScanAfterPaths.len'],
            'assigns': ['g_nreq', '__CPROVER_object_whole(g_req_kind)', '__CPROVER_object_whole(g_req_path)', '__CPROVER_object_whole(g_req_id)', '__CPROVER_object_whole(g_req_filters)', 'self->totalBlockingDeps'],
            'ensures': [
                # every must-scan-after path is requested as a node, in order, under ids 1, 2, ... -- id 0 stays reserved for the tree signature
                ('P:C12', '(self->node->mustScanAfterPaths.len > 0) ==> (g_nreq == self->node->mustScanAfterPaths.len && g_req_kind[g_k] == K_Node && g_req_path[g_k] == self->node->mustScanAfterPaths.ptr[g_k].ptr && g_req_id[g_k] == g_k + 1)'),
                ('P:C12', 'self->totalBlockingDeps == (int)self->node->mustScanAfterPaths.len'),
                # without such paths the signature is requested at once
                ('P:C12', '(self->node->mustScanAfterPaths.len == 0) ==> (g_nreq == 1 && g_req_kind[0] == K_TreeSig && g_req_id[0] == 0 && g_req_path[0] == self->node->g_name.ptr)')],
            'loops': {0: {'assigns': ['$i', 'g_nreq', '__CPROVER_object_whole(g_req_kind)', '__CPROVER_object_whole(g_req_path)', '__CPROVER_object_whole(g_req_id)', '__CPROVER_object_whole(g_req_filters)', 'self->totalBlockingDeps'],
                          'invariant': ['$i <= $range->len && g_nreq == $i && self->totalBlockingDeps == (int)$i && ((g_k < $i) ==> (g_req_kind[g_k] == K_Node && g_req_path[g_k] == self->node->mustScanAfterPaths.ptr[g_k].ptr && g_req_id[g_k] == g_k + 1))'],
                          'decreases': '$range->len - $i'}}},
        'DirectoryInputNodeTask::provideValue': {
            'requires': ['__CPROVER_is_fresh(self, sizeof(*self))', '__CPROVER_is_fresh(self->node, sizeof(*self->node))', 'g_nreq == 0', 'self->node->g_name.len >= 1',
                         'self->totalBlockingDeps >= 0 && self->totalBlockingDeps <= 3 && self->finishedBlockingDeps >= 0 && self->finishedBlockingDeps <= self->totalBlockingDeps'],
            'assigns': ['g_nreq', '__CPROVER_object_whole(g_req_kind)', '__CPROVER_object_whole(g_req_path)', '__CPROVER_object_whole(g_req_id)', '__CPROVER_object_whole(g_req_filters)', 'self->directorySignature', 'self->finishedBlockingDeps'],
            'ensures': [
                # input 0 is the signature: it becomes the task's value; any other input is one of the awaited paths: the signature is requested when the last one arrives
                ('P:C12', '(inputID == 0) ==> (self->directorySignature.id == valueData.id && g_nreq == 0 && self->finishedBlockingDeps == OLD(self->finishedBlockingDeps))'),
                ('P:C12', '(inputID != 0) ==> (self->finishedBlockingDeps == OLD(self->finishedBlockingDeps) + 1 && self->directorySignature.id == OLD(self->directorySignature.id) && '
                          '(self->finishedBlockingDeps == self->totalBlockingDeps ? (g_nreq == 1 && g_req_kind[0] == K_TreeSig && g_req_id[0] == 0) : g_nreq == 0))')]},
        'DirectoryInputNodeTask::inputsAvailable': {
            'requires': ['__CPROVER_is_fresh(self, sizeof(*self))', 'g_completes == 0'], 'assigns': ['g_completes', 'g_complete_id'],
            'ensures': [('P:C12', 'g_completes == 1 && g_complete_id == self->directorySignature.id')]},
    },
}
