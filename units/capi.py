"""U-capi: products/libllbuild/Core-C-API.cpp (C20: every parameter of every call is forwarded)."""

TI = 'struct TaskInterface *self'
SAME_TI = 'self->impl == g_impl && self->ctx == g_ctx'
KEY_OK = 'key.len == g_key->length && key.ptr == (const char *)g_key->data'      # NUL-safe: explicit length, same bytes
ONCE = ['g_calls == OLD(g_calls) + 1']

PRE = ['__CPROVER_is_fresh(key, sizeof(*key))', 'g_key == key', 'g_impl == ti.impl && g_ctx == ti.ctx', 'g_calls == 0']


def fwd(extra_req=(), extra_pre=()):
    return {'requires': PRE + list(extra_pre), 'assigns': ['g_calls'],
            'ensures': [('P:C20', 'g_calls == 1')]}


UNIT = {
    'name': 'capi',
    'source': 'products/libllbuild/Core-C-API.cpp',
    'dumps': ['llb_buildengine_build', 'llb_buildengine_attach_db', 'CAPIBuildEngine', 'CAPITask',
              'llb_buildengine_task_needs_input', 'llb_buildengine_task_must_follow',
              'llb_buildengine_task_discovered_dependency', 'llb_buildengine_task_is_complete', 'llb_data_t_',
              'llb_task_interface_t_'],
    'types': {'std::string': 'vstr', 'string': 'vstr', 'basic_string<char>': 'vstr', 'StringRef': 'strref', 'KeyType': 'keyt', 'std::vector<uint8_t>': 'vbytes', 'vector<uint8_t>': 'vbytes', 'ValueType': 'vbytes',
              'vector<unsigned char>': 'vbytes'},
    'by_value': ['keyt', 'vbytes', 'strref'], 'by_pointer': ['vstr'],
    'auto_translate': False,
    'calls': {
        'c:KeyType(const char *, size_t)': 'keyt_make',
        'c:KeyType(const char *)': 'keyt_cstr',
        'fn:move': '$0', 'fn:strdup': 'verif_strdup',
        'm:@vstr::c_str': 'vstr_c_str',
        'c:StringRef(const std::string &)': 'vstr_str', 'c:StringRef(const string &)': 'vstr_str',
        'fn:memcpy': 'verif_memcpy',
        'm:@vbytes::data': 'vbytes_data', 'm:@vbytes::size': 'vbytes_size',
        'm:@keyt::data': 'keyt_data', 'm:@keyt::size': 'keyt_size',
    },
    'call_patterns': [
        (r'c:(basic_string<char>|string|std::string)\(const char \*, .*size_type.*\)', ('vstr_view', 'vv')),
        (r'c:(basic_string<char>|string|std::string)\(\)', 'vstr_new'),
        (r'c:(basic_string<char>|string|std::string)/0', 'vstr_new'),
        (r'c:(std::)?vector<(unsigned char|uint8_t)>\(.*size_type.*\)', ('vbytes_new', 'v')),
        (r'c:(std::)?vector<(unsigned char|uint8_t)>/2', ('vbytes_new', 'v')),
        (r'c:(std::)?vector<(unsigned char|uint8_t)>\(\)', 'vbytes_empty'), (r'c:(std::)?vector<(unsigned char|uint8_t)>/0', 'vbytes_empty'), (r'c:ValueType\(\)', 'vbytes_empty'), (r'c:ValueType/0', 'vbytes_empty'),
    ],
    'struct_extra': {'TaskInterface': '  void *impl;\n  void *ctx;\n', 'llb_task_interface_t': '  void *impl;\n  void *ctx;\n'},
    'prelude': '#include "models/base.h"\nstruct llb_data_t;\n#include "models/capi.h"\n',
    'functions': {
        'llb_buildengine_build': {
            'requires': ['__CPROVER_is_fresh(key, sizeof(*key))', 'g_key == key', '__CPROVER_is_fresh(result_out, sizeof(*result_out))',
                         '__CPROVER_is_fresh(engine_p, sizeof(struct CAPIBuildEngine))',
                         '__CPROVER_is_fresh(((struct CAPIBuildEngine *)engine_p)->engine, sizeof(struct BuildEngine))',
                         'g_calls == 0'],
            'assigns': ['g_calls', '*result_out'],
            # the span handed back is the engine's value
            'ensures': [('P:C20', 'g_calls == 1 && result_out->length == g_engine_result.len && result_out->data == g_engine_result.ptr')],
        },
        'llb_buildengine_attach_db': {
            'requires': ['__CPROVER_is_fresh(path, sizeof(*path))', 'g_key == path', '__CPROVER_is_fresh(error_out, sizeof(*error_out))',
                         '__CPROVER_is_fresh(engine_p, sizeof(struct CAPIBuildEngine))',
                         '__CPROVER_is_fresh(((struct CAPIBuildEngine *)engine_p)->engine, sizeof(struct BuildEngine))',
                         'g_calls == 0 && g_attach == 0', 'g_schema == schema_version'],
            'assigns': ['g_calls', 'g_attach', '*error_out', 'g_db_ok'],
            # the database is created exactly once with the caller's parameters; it is attached iff it was created,
            # and the result is the engine's answer
            'ensures': [('P:C20', 'g_calls == 1'), ('P:C20', 'g_attach == (g_db_ok ? 1 : 0)'),
                        ('P:C20', '(RESULT != 0) == (g_db_ok && g_attach_result)')],   # (_Bool statics are 8-bit nondet in cbmc: compare truth values)
        },
        'llb_buildengine_task_needs_input': fwd(extra_pre=['g_input_id == input_id']),
        'llb_buildengine_task_must_follow': fwd(),
        'llb_buildengine_task_discovered_dependency': fwd(),
        'llb_buildengine_task_is_complete': {
            'requires': ['__CPROVER_is_fresh(value, sizeof(*value))', 'value->length <= 4096',
                         '__CPROVER_is_fresh(value->data, value->length)', 'g_key == value',
                         'g_impl == ti.impl && g_ctx == ti.ctx', 'g_calls == 0', 'g_force == force_change'],
            'assigns': ['g_calls'],
            'ensures': [('P:C20', 'g_calls == 1')],
        },
    },
    'models': '''
struct BuildDB g_db; _Bool g_db_ok; unsigned g_attach; _Bool g_attach_result;
_Bool nondet_bool(void);
struct BuildDB *createSQLiteBuildDB(strref path, uint32_t clientSchemaVersion, _Bool recreateUnmatchedVersion, vstr *error_out) {
  __CPROVER_assert(path.len == g_key->length && path.ptr == (const char *)g_key->data, "[P:C20] attach_db: path bytes and explicit length forwarded");
  __CPROVER_assert(clientSchemaVersion == g_schema, "[P:C20] attach_db: schema_version forwarded as the client schema version");
  __CPROVER_assert(recreateUnmatchedVersion == 1, "[P:C20] attach_db: a database of another version is recreated (recreateUnmatchedVersion == true)");
  g_calls++;
  g_db_ok = nondet_bool();
  return g_db_ok ? &g_db : 0;
}
_Bool BuildEngine_attachDB(struct BuildEngine *self, struct BuildDB *db, vstr *error_out) {
  __CPROVER_assert(db == &g_db, "[P:C20] attach_db: the database that was just created is the one attached");
  g_attach++;
  return g_attach_result;
}
char *verif_strdup(const char *s) { char *r; return r; }
''' + '''
vbytes g_engine_result;
vbytes *BuildEngine_build(struct BuildEngine *self, keyt key) {
  __CPROVER_assert(key.len == g_key->length && key.ptr == (const char *)g_key->data, "[P:C20] build: key bytes and explicit length forwarded");
  g_calls++;
  return &g_engine_result;
}
''',
    'stubs': {
        'TaskInterface_request': {
            'params': TI + ', keyt key, uintptr_t inputID',
            'requires': [('P:C20', SAME_TI), ('P:C20', KEY_OK), ('P:C20', 'inputID == g_input_id')],
            'assigns': ['g_calls'], 'ensures': ONCE},
        'TaskInterface_mustFollow': {
            'params': TI + ', keyt key',
            'requires': [('P:C20', SAME_TI), ('P:C20', KEY_OK)],
            'assigns': ['g_calls'], 'ensures': ONCE},
        'TaskInterface_discoveredDependency': {
            'params': TI + ', keyt key',
            'requires': [('P:C20', SAME_TI), ('P:C20', KEY_OK)],
            'assigns': ['g_calls'], 'ensures': ONCE},
        'TaskInterface_complete': {
            'params': TI + ', vbytes value, _Bool forceChange',
            'requires': [('P:C20', SAME_TI),
                         ('P:C20', 'value.len == g_key->length && (g_k < value.len ==> value.ptr[g_k] == g_key->data[g_k])'),
                         ('P:C20', 'forceChange == g_force')],
            'assigns': ['g_calls'], 'ensures': ONCE},
        'verif_memcpy': {
            'ret': 'void *', 'params': 'void *dst, const void *src, size_t n',
            'requires': ['n == 0 || (__CPROVER_w_ok(dst, n) && __CPROVER_r_ok(src, n))'],
            'assigns': ['__CPROVER_object_upto(dst, n)'],
            'ensures': ['g_k < n ==> ((const uint8_t *)dst)[g_k] == ((const uint8_t *)src)[g_k]'],
        },
    },
}
