"""U-deps: include/llbuild/Core/DependencyKeyIDs.h -- the real container behind the engine's abstract dependency list (C01, C03).

The engine units model DependencyKeyIDs as a sequence of (key, orderOnly, singleUse) items; here the real two-vector
representation (keys, flags) is checked against that view: flag packing round trip, parallel lengths, clear() empties both."""
def _erase(tr, n, obj, args, argnodes):
    """v.erase(v.begin() + index): the index is the right operand of the iterator addition"""
    def find(x):
        if isinstance(x, dict):
            if x.get('kind') == 'CXXOperatorCallExpr':
                return x
            for c in x.get('inner', []):
                r = find(c)
                if r is not None:
                    return r
        return None
    op = find({'inner': argnodes})
    if op is None:
        raise Exception('erase: expected begin() + index')
    t = tr.ntype(n['inner'][0]['inner'][0]) if False else None
    fn = 'vec_u8_erase_at' if 'flags' in obj else 'vec_keyid_erase_at'
    return '%s(%s, %s)' % (fn, obj, tr.expr(op['inner'][-1]))


# after the call the list is the old list without its single-use entries, in order, keys and flags still paired
def _kept(k):
    return ('((%d < g_n0 && !SU0(%d)) ==> (self->keys.ptr[CNT(0, %d)]._value == g_k0[%d] && self->flags.ptr[CNT(0, %d)] == g_f0[%d]))' % (k, k, k, k, k, k))


def _tail(k):
    # loop invariant: the entries of the old list from position i on that are kept sit behind the untouched prefix [0, i)
    return ('((%d < g_n0 && %d >= $loopvar && !SU0(%d)) ==> (self->keys.ptr[$loopvar + CNT($loopvar, %d)]._value == g_k0[%d] && self->flags.ptr[$loopvar + CNT($loopvar, %d)] == g_f0[%d]))' % (k, k, k, k, k, k, k))


def _head(k):
    return '((%d < $loopvar) ==> (self->keys.ptr[%d]._value == g_k0[%d] && self->flags.ptr[%d] == g_f0[%d]))' % (k, k, k, k, k)


V = ['__CPROVER_is_fresh(self, sizeof(*self))', 'VEC_OK(self->keys, struct KeyID)', 'VEC_OK(self->flags, uint8_t)', 'self->keys.len == self->flags.len']
UNIT = {
    'name': 'depids',
    'source': 'lib/Core/BuildEngine.cpp',
    'dumps': ['DependencyKeyIDs'],
    'types': {'KeyID': 'struct KeyID', 'DependencyKeyIDs::KeyIDAndFlags': 'struct KeyIDAndFlags', 'KeyIDAndFlags': 'struct KeyIDAndFlags'},
    'type_patterns': [(r'__normal_iterator<(const )?KeyID \*.*', 'struct KeyID *'), (r'__normal_iterator<(const )?(unsigned char|uint8_t) \*.*', 'uint8_t *'), (r'(std::)?vector<KeyID.*>::(const_)?iterator', 'struct KeyID *'), (r'(std::)?vector<(unsigned char|uint8_t).*>::(const_)?iterator', 'uint8_t *'), (r'(std::)?vector<KeyID.*>', 'vec_keyid'), (r'(std::)?vector<(unsigned char|uint8_t).*>', 'vec_u8')],
    'by_value': ['struct KeyID', 'struct KeyIDAndFlags'],
    'predefined_structs': ['KeyID', 'KeyIDAndFlags'],
    'calls': {
        'm:@vec_keyid::clear': 'vec_keyid_clear', 'm:@vec_u8::clear': 'vec_u8_clear', 'm:@vec_keyid::size': 'vec_keyid_size', 'm:@vec_keyid::empty': 'vec_keyid_empty',
        'm:@vec_keyid::push_back': ('vec_keyid_push_back', 'v'), 'm:@vec_u8::push_back': ('vec_u8_push_back', 'v'),
        'o:[]:@vec_keyid': '$o->ptr[$0]', 'o:[]:@vec_u8': '$o->ptr[$0]', 'm:@vec_keyid::erase': _erase, 'm:@vec_u8::erase': _erase, 'm:@vec_keyid::resize': 'vec_keyid_resize', 'm:@vec_u8::resize': 'vec_u8_resize', 'o:=:@struct KeyID': '(*$o = $0)', 'o:=:KeyID': '(*$o = $0)', 'm:@vec_keyid::insert': 'vec_keyid_insert', 'm:@vec_u8::insert': 'vec_u8_insert',
        'm:@vec_keyid::begin': '($o->ptr)', 'm:@vec_keyid::end': '($o->ptr + $o->len)', 'm:@vec_u8::begin': '($o->ptr)', 'm:@vec_u8::end': '($o->ptr + $o->len)',
    },
    'call_patterns': [(r'c:__normal_iterator<.*', '$0')],
    'prelude': '#include "models/base.h"\n#include "models/vec.h"\n#include "models/depids.h"\n',
    'functions': {
        'DependencyKeyIDs::clear': {
            'requires': V, 'assigns': ['self->keys.len', 'self->flags.len'],
            # both parallel vectors are emptied: no flag of an earlier run can pair with a key of the next one
            'ensures': [('P:C01', 'self->keys.len == 0 && self->flags.len == 0')]},
        'DependencyKeyIDs::push_back': {
            'requires': V + ['self->keys.len < self->keys.cap && self->flags.len < self->flags.cap', 'orderOnlyFlag <= 1 && singleUseFlag <= 1'],
            'assigns': ['self->keys.len', 'self->flags.len', '__CPROVER_object_whole(self->keys.ptr)', '__CPROVER_object_whole(self->flags.ptr)'],
            'ensures': [('P:C01,P:C03,P:C02', 'self->keys.len == OLD(self->keys.len) + 1 && self->flags.len == self->keys.len && self->keys.ptr[self->keys.len - 1]._value == id._value && '
                                        '(self->flags.ptr[self->flags.len - 1] & 1) == orderOnlyFlag && ((self->flags.ptr[self->flags.len - 1] >> 1) & 1) == singleUseFlag')]},
        'DependencyKeyIDs::set': {
            'requires': V + ['n < self->keys.len', 'orderOnlyFlag <= 1 && singleUseFlag <= 1'],
            'assigns': ['__CPROVER_object_whole(self->keys.ptr)', '__CPROVER_object_whole(self->flags.ptr)'],
            'ensures': [('P:C01,P:C03,P:C02', 'self->keys.ptr[n]._value == id._value && (self->flags.ptr[n] & 1) == orderOnlyFlag && ((self->flags.ptr[n] >> 1) & 1) == singleUseFlag')]},
        'DependencyKeyIDs::operator[]': {
            'cname': 'DependencyKeyIDs_index', 'requires': V + ['n < self->keys.len'], 'assigns': [],
            'ensures': [('P:C01,P:C03,P:C02', 'RESULT.keyID._value == self->keys.ptr[n]._value && (RESULT.orderOnly != 0) == ((self->flags.ptr[n] & 1) != 0) && (RESULT.singleUse != 0) == (((self->flags.ptr[n] >> 1) & 1) != 0)')]},
        'DependencyKeyIDs::cleanSingleUseDependencies': {
            'refute_unwind': 6,
            'requires': ['__CPROVER_is_fresh(self, sizeof(*self))', 'VEC_OKN(self->keys, struct KeyID, ND)', 'VEC_OKN(self->flags, uint8_t, ND)', 'self->keys.len == self->flags.len', 'g_n0 == self->keys.len',
                         ' && '.join('(%d < g_n0 ==> (g_k0[%d] == self->keys.ptr[%d]._value && g_f0[%d] == self->flags.ptr[%d]))' % (k, k, k, k, k) for k in range(4))],
            'assigns': ['self->keys.len', 'self->flags.len', '__CPROVER_object_whole(self->keys.ptr)', '__CPROVER_object_whole(self->flags.ptr)'],
            'ensures': [('P:C01,P:C07', 'self->keys.len == CNT(0, ND) && self->flags.len == self->keys.len')] + [('P:C01,P:C07', _kept(k)) for k in range(4)],
            'loops': {0: {'assigns': ['$loopvar', 'self->keys.len', 'self->flags.len', '__CPROVER_object_whole(self->keys.ptr)', '__CPROVER_object_whole(self->flags.ptr)'],
                          'invariant': ['$loopvar >= 0 && (size_t)$loopvar <= g_n0 && self->keys.len == (size_t)$loopvar + CNT($loopvar, ND) && self->flags.len == self->keys.len && ' + ' && '.join(_head(k) for k in range(4)) + ' && ' + ' && '.join(_tail(k) for k in range(4))],
                          'decreases': '$loopvar'}},
        },
        'DependencyKeyIDs::append': {
            'requires': ['__CPROVER_is_fresh(self, sizeof(*self))', 'VEC_OKN(self->keys, struct KeyID, ND)', 'VEC_OKN(self->flags, uint8_t, ND)', 'self->keys.len == self->flags.len && self->keys.len <= 2',
                         '__CPROVER_is_fresh(rhs, sizeof(*rhs))', 'VEC_OKN(rhs->keys, struct KeyID, 2)', 'VEC_OKN(rhs->flags, uint8_t, 2)', 'rhs->keys.len == rhs->flags.len',
                         'g_n0 == self->keys.len', ' && '.join('(%d < g_n0 ==> (g_k0[%d] == self->keys.ptr[%d]._value && g_f0[%d] == self->flags.ptr[%d]))' % (k, k, k, k, k) for k in range(2))],
            'assigns': ['self->keys.len', 'self->flags.len', '__CPROVER_object_whole(self->keys.ptr)', '__CPROVER_object_whole(self->flags.ptr)'],
            # the appended tuples follow the old ones, each key still paired with ITS flags (order-only / single-use)
            'ensures': [('P:C01,P:C11', 'self->keys.len == g_n0 + rhs->keys.len && self->flags.len == self->keys.len'),
                        ('P:C01,P:C11', ' && '.join('(%d < g_n0 ==> (self->keys.ptr[%d]._value == g_k0[%d] && self->flags.ptr[%d] == g_f0[%d]))' % (k, k, k, k, k) for k in range(2))),
                        ('P:C01,P:C11', ' && '.join('(%d < rhs->keys.len ==> (self->keys.ptr[g_n0 + %d]._value == rhs->keys.ptr[%d]._value && self->flags.ptr[g_n0 + %d] == rhs->flags.ptr[%d]))' % (k, k, k, k, k) for k in range(2)))]},
        'DependencyKeyIDs::size': {'requires': V, 'assigns': [], 'ensures': [('P:C01', 'RESULT == self->keys.len')]},
        'DependencyKeyIDs::empty': {'requires': V, 'assigns': [], 'ensures': [('P:C01', '(RESULT != 0) == (self->keys.len == 0)')]},
    },
}
