"""U-buildfile: the attribute loops of BuildFileImpl::parseCommandsMapping (lib/BuildSystem/BuildFile.cpp), as segments -- C19: a YAML node is
down-cast (static_cast) to ScalarNode / MappingNode / SequenceNode only after its kind was tested, whatever the document looks like; every
entry of the wrong shape is reported as an error and skipped."""


def _err(tr, n, obj, args, argnodes):
    tr.dropped.add('the message text passed to BuildFileImpl::error')
    return 'bf_error(%s, %s)' % (obj, tr.expr(argnodes[0]))


def _push_pair(tr, n, obj, args, argnodes):
    tr.dropped.add('the (key, value) strings pushed onto the attribute list: only that one pair is added')
    return 'bf_push_pair(%s)' % obj


def _push_str(tr, n, obj, args, argnodes):
    return 'bf_push_str(%s, %s)' % (obj, tr.expr(argnodes[0]))


def _configure(tr, n, obj, args, argnodes):
    """command->configureAttribute(context, attribute, <scalar | list | pair list>): the third argument's shape is recorded"""
    names = []

    def walk(x):
        if isinstance(x, dict):
            r = x.get('referencedDecl')
            if isinstance(r, dict) and r.get('name'):
                names.append(r['name'])
            for c in x.get('inner', []):
                walk(c)
    walk(argnodes[2])
    txt = str(argnodes[2].get('type', {}))
    if 'values' in names:
        return 'bf_configure(%s, values.n, %d)' % (obj, 2 if 'pair' in txt else 1)
    return 'bf_configure(%s, 0, 0)' % obj


def _loaded(tr, n, obj, args, argnodes):
    return 'bf_loaded_target(%s)' % obj


def _map_slot(tr, n, obj, args, argnodes):
    return '(*bf_target_slot(%s))' % obj


def _cfg_nodes(tr, n, obj, args, argnodes):
    return 'bf_configure_nodes(%s)' % obj


def _cfg_desc(tr, n, obj, args, argnodes):
    return 'bf_configure_desc(%s, %s)' % (obj, tr.expr(argnodes[1]))


def _cmd_slot(tr, n, obj, args, argnodes):
    return '(*bf_cmd_slot(%s))' % obj


def _str_eq(tr, n, obj, args, argnodes):
    return '(nondet_unsigned() != 0)'


def _str_eq2(tr, n, obj, args, argnodes):
    return '(nondet_unsigned() != 0)'


def _push_prop(tr, n, obj, args, argnodes):
    return '(g_props++)'


def _cfg_client(tr, n, obj, args, argnodes):
    return '(nondet_unsigned() != 0)'


KIND = lambda k: '((struct ynode *)$p)->kind == %d' % k
UNIT = {
    'name': 'buildfile',
    'source': 'lib/BuildSystem/BuildFile.cpp',
    'dumps': ['BuildFileImpl::parseClientMapping', 'BuildFileImpl::parseRootNode', 'BuildFileImpl::parseCommandsMapping', 'BuildFileImpl::parseToolsMapping', 'BuildFileImpl::parseNodesMapping', 'BuildFileImpl::parseTargetsMapping'],
    'types': {'StringRef': 'strref', 'std::string': 'pstr', 'string': 'pstr', 'basic_string<char>': 'pstr',
              'llvm::yaml::Node': 'struct ynode', 'yaml::Node': 'struct ynode', 'Node': 'struct ynode', 'llvm::yaml::ScalarNode': 'struct yscalar', 'yaml::ScalarNode': 'struct yscalar', 'ScalarNode': 'struct yscalar',
              'llvm::yaml::MappingNode': 'struct ymap', 'yaml::MappingNode': 'struct ymap', 'MappingNode': 'struct ymap', 'llvm::yaml::SequenceNode': 'struct yseq', 'yaml::SequenceNode': 'struct yseq', 'SequenceNode': 'struct yseq',
              'llvm::yaml::KeyValueNode': 'struct ykv', 'yaml::KeyValueNode': 'struct ykv', 'KeyValueNode': 'struct ykv'},
    'type_patterns': [(r'(std::)?vector<(std::)?pair<(std::)?(basic_string<char>|string), (std::)?(basic_string<char>|string)>.*>', 'struct pairvec'), (r'property_list_type', 'struct pairvec'), (r'(BuildFileDelegate::)?property_list_type', 'struct pairvec'), (r'(llvm::)?StringMap<(std::)?unique_ptr<(buildsystem::)?Command.*', 'struct cmap'), (r'(std::)?vector<(buildsystem::)?Command \*.*>', 'struct cmdvec'), (r'(llvm::)?(yaml::)?basic_collection_iterator<.*MappingNode.*>', 'struct yiter'), (r'(llvm::)?(yaml::)?MappingNode::iterator', 'struct yiter'), (r'(llvm::)?StringMap<(std::)?unique_ptr<(buildsystem::)?Target.*', 'struct tmap'), (r'(std::)?vector<(buildsystem::)?Node \*.*>', 'struct nodevec'), (r'(std::)?vector<(std::)?pair<(std::)?(basic_string<char>|string), .*>', 'struct pairvec'), (r'(std::)?vector<(std::)?(basic_string<char>|string).*>', 'struct strvec')],
    'by_value': ['strref', 'pstr', 'struct yiter'],
    'predefined_structs': ['proplist', 'cmap', 'cmdvec', 'yiter', 'ynode', 'ykv', 'yscalar', 'ymap', 'yseq', 'pairvec', 'strvec', 'tmap', 'nodevec'],
    'downcast_obligation': {'ScalarNode': KIND(1), 'MappingNode': KIND(4), 'SequenceNode': KIND(5)}, 'downcast_tag': 'P:C19',
    'globals': {'NK_Null': '0', 'NK_Scalar': '1', 'NK_BlockScalar': '2', 'NK_KeyValue': '3', 'NK_Mapping': '4', 'NK_Sequence': '5', 'NK_Alias': '6'},
    'no_translate': ['configureClient', 'getAsInteger', 'createCommand', 'configureInputs', 'configureOutputs', 'configureDescription', 'getProducers', 'loadedCommand', 'count', 'nodeIsScalarString', 'parseClientMapping', 'parseDefaultTarget', 'begin', 'end', 'getOrCreateTool', 'getNodes', 'getOrCreateNode', 'loadedTarget', 'error', 'stringFromScalarNode', 'make_pair', 'getType', 'getKey', 'getValue', 'getContext', 'configureAttribute'],
    'calls': {
        'range:@struct ymap': ('ymap_size', 'ymap_at'), 'range:@struct yseq': ('yseq_size', 'yseq_at'),
        'm:@struct ykv::getKey': '($o->key)', 'm:@struct ykv::getValue': '($o->value)', 'm:@struct ynode::getType': '($o->kind)',
        'm:BuildFileImpl::getContext': 'bf_context', 'm:Command::configureAttribute': _configure, 'm:*::configureAttribute': _configure,
        'o:==:@pstr': _str_eq, 'fn:operator==': _str_eq2, 'o:=:@pstr': '(*$o = $0)', 'm:StringRef::getAsInteger': 'bf_get_int', 'm:@struct proplist::push_back': _push_prop,
        'm:BuildFileDelegate::configureClient': _cfg_client,
        'm:@struct cmap::count': 'bf_cmd_count($0)', 'm:Tool::createCommand': 'bf_new_command', 'm:Command::configureInputs': _cfg_nodes, 'm:Command::configureOutputs': _cfg_nodes, 'm:Command::configureDescription': _cfg_desc,
        'm:*::getProducers': 'bf_producers', 'm:@struct cmdvec::push_back': 'bf_cmdvec_push($o)', 'm:BuildFileDelegate::loadedCommand': _loaded, 'o:[]:@struct cmap': _cmd_slot, 'm:@struct nodevec::size': '($o->n)',
        'm:@struct ymap::begin': 'yit_begin', 'm:@struct ymap::end': 'yit_end', 'o:->:@struct yiter': 'yit_entry', 'o:*:@struct yiter': 'yit_entry', 'o:++:@struct yiter': 'yit_next', 'o:!=:@struct yiter': 'yit_ne', 'o:==:@struct yiter': 'yit_eq',
        'm:BuildFileImpl::nodeIsScalarString': 'bf_is_scalar_string', 'm:BuildFileImpl::parseClientMapping': 'bf_section', 'm:BuildFileImpl::parseToolsMapping': 'bf_section', 'm:BuildFileImpl::parseTargetsMapping': 'bf_section',
        'm:BuildFileImpl::parseNodesMapping': 'bf_section', 'm:BuildFileImpl::parseCommandsMapping': 'bf_section', 'm:BuildFileImpl::parseDefaultTarget': 'bf_section_scalar',
        'm:BuildFileImpl::getOrCreateTool': 'bf_tool_for', 'fn:move': '$0', 'fn:make_unique': 'bf_new_target', 'm:Target::getNodes': 'bf_target_nodes', 'm:BuildFileImpl::getOrCreateNode': 'bf_node_for', 'm:BuildFileDelegate::loadedTarget': _loaded, 'o:[]:@struct tmap': _map_slot,
        'm:@struct nodevec::push_back': ('bf_nodevec_push', 'v'),
        'm:BuildFileImpl::error': _err, 'm:BuildFileImpl::stringFromScalarNode': 'bf_string_of', 'm:@struct pairvec::push_back': _push_pair, 'm:@struct strvec::push_back': _push_str,
    },
    'call_patterns': [(r'c:StringRef\(const char \*\)', '$0'), (r'c:(std::)?vector<(std::)?pair<.*property.*/0', 'proplist_new'), (r'c:(basic_string<char>|string|std::string)/0', 'pstr_new'), (r'c:(basic_string<char>|string|std::string)\(\)', 'pstr_new'), (r'c:StringRef\(const (std::)?(string|basic_string<char>) &\)', 'bf_ref'), (r'c:(std::)?vector<(std::)?pair<.*>/0', 'pairvec_new'), (r'c:(std::)?vector<(std::)?pair<.*>\(\)', 'pairvec_new'), (r'c:(std::)?vector<(buildsystem::)?Node \*.*>/0', 'nodevec_new'), (r'c:(std::)?vector<(buildsystem::)?Node \*.*>\(\)', 'nodevec_new'), (r'c:(std::)?vector<.*>/0', 'strvec_new'), (r'c:(std::)?vector<.*>\(\)', 'strvec_new'),
                      (r'c:(basic_string<char>|string|std::string)\((const )?(basic_string<char>|string|std::string) &+\)', '$0')],
    'prelude': '#include "models/base.h"\n#include "models/buildfile.h"\n',
    'functions': {
        'BuildFileImpl::parseClientMapping': {
            'requires': ['__CPROVER_is_fresh(self, sizeof(*self))', 'IN_POOL(map)', 'g_errors == 0'],
            'assigns': ['g_errors', 'g_strings', '__CPROVER_object_whole(g_kv)', 'self->performOwnershipAnalysis'],
            # a client section with a non-scalar key or value is rejected as a whole
            'ensures': [('P:C19', '(RESULT != 0) ==> g_errors <= 4')],
            'loops': {0: {'assigns': ['$i', 'g_errors', 'g_strings', '__CPROVER_object_whole(g_kv)', 'self->performOwnershipAnalysis', 'properties.n', 'name', 'version'], 'invariant': ['$i <= ($range->len % 4) && g_errors <= $i'], 'decreases': '($range->len % 4) - $i'}},
        },
        'BuildFileImpl::parseCommandsMapping': {
            'requires': ['__CPROVER_is_fresh(self, 1)', 'IN_POOL(map)'],
            'assigns': ['g_errors', 'g_strings', 'g_configures', 'g_configure_kind', 'g_configure_n', '__CPROVER_object_whole(g_kv)', 'g_tools', 'g_cmds', 'g_cmd_slot', 'g_target_nodes'],
            'ensures': [('P:C19', '1')],
            'loops': {0: {'assigns': ['$i', 'g_errors', 'g_strings', 'g_configures', 'g_configure_kind', 'g_configure_n', '__CPROVER_object_whole(g_kv)', 'g_tools', 'g_cmds', 'g_cmd_slot', 'g_target_nodes'], 'invariant': ['$i <= ($range->len % 4)'], 'decreases': '($range->len % 4) - $i'}, 1: {'assigns': ['it.i'], 'invariant': ['it.m == attrs && it.i <= (attrs->len % 4)'], 'decreases': '(attrs->len % 4) - it.i'}, 2: {'assigns': ['it.i'], 'invariant': ['it.m == attrs && it.i <= (attrs->len % 4)'], 'decreases': '(attrs->len % 4) - it.i'}, 3: {'assigns': ['it.i', 'g_errors', 'g_strings', 'g_configures', 'g_configure_kind', 'g_configure_n', '__CPROVER_object_whole(g_kv)', 'g_tools', 'g_cmds', 'g_cmd_slot', 'g_target_nodes'], 'invariant': ['it.m == attrs && it.i <= (attrs->len % 4)'], 'decreases': '(attrs->len % 4) - it.i'}, 4: {'assigns': ['$i', 'nodes.n', 'g_errors', 'g_strings', 'g_target_nodes'], 'invariant': ['$i <= ($range->len % 4)'], 'decreases': '($range->len % 4) - $i'}, 5: {'assigns': ['$i', 'nodes.n', 'g_errors', 'g_strings', 'g_target_nodes'], 'invariant': ['$i <= ($range->len % 4)'], 'decreases': '($range->len % 4) - $i'}, 6: {'assigns': ['$i', 'values.n', 'g_errors', 'g_strings', '__CPROVER_object_whole(g_kv)'], 'invariant': ['$i <= ($range->len % 4)'], 'decreases': '($range->len % 4) - $i'}, 7: {'assigns': ['$i', 'values.n', 'g_errors', 'g_strings'], 'invariant': ['$i <= ($range->len % 4)'], 'decreases': '($range->len % 4) - $i'}},
        },
        'BuildFileImpl::parseNodesMapping': {
            'requires': ['__CPROVER_is_fresh(self, 1)', 'IN_POOL(map)'],
            'assigns': ['g_errors', 'g_strings', 'g_configures', 'g_configure_kind', 'g_configure_n', '__CPROVER_object_whole(g_kv)', 'g_tools'],
            'ensures': [('P:C19', '1')],
            'loops': {0: {'assigns': ['$i', 'g_errors', 'g_strings', 'g_configures', 'g_configure_kind', 'g_configure_n', '__CPROVER_object_whole(g_kv)', 'g_tools'], 'invariant': ['$i <= ($range->len % 4)'], 'decreases': '($range->len % 4) - $i'}, 1: {'assigns': ['$i', 'g_errors', 'g_strings', 'g_configures', 'g_configure_kind', 'g_configure_n', '__CPROVER_object_whole(g_kv)'], 'invariant': ['$i <= ($range->len % 4)'], 'decreases': '($range->len % 4) - $i'}, 2: {'assigns': ['$i', 'values.n', 'g_errors', 'g_strings', '__CPROVER_object_whole(g_kv)'], 'invariant': ['$i <= ($range->len % 4)'], 'decreases': '($range->len % 4) - $i'}, 3: {'assigns': ['$i', 'values.n', 'g_errors', 'g_strings'], 'invariant': ['$i <= ($range->len % 4)'], 'decreases': '($range->len % 4) - $i'}},
        },
        # the top level: every iterator is dereferenced only before the end, every section value is down-cast only after its kind test
        'BuildFileImpl::parseRootNode': {
            'requires': ['__CPROVER_is_fresh(self, 1)', 'IN_POOL(node)', 'g_errors == 0 && g_sections == 0 && !g_section_failed'],
            'assigns': ['g_errors', 'g_strings', 'g_sections', 'g_section_failed', '__CPROVER_object_whole(g_kv)'],
            'ensures': [('P:C19', '(RESULT == 0) ==> g_errors >= 1 || g_section_failed'),
                        ('P:C19', 'node->kind != 4 ==> (RESULT == 0 && g_sections == 0)')],
        },
        # whole function: whatever the 'tools' mapping looks like, every static_cast is preceded by the matching kind test
        'BuildFileImpl::parseToolsMapping': {
            'requires': ['__CPROVER_is_fresh(self, 1)', 'IN_POOL(map)'],
            'assigns': ['g_errors', 'g_strings', 'g_configures', 'g_configure_kind', 'g_configure_n', '__CPROVER_object_whole(g_kv)', 'g_tools'],
            'ensures': [('P:C19', '1')],
            'loops': {0: {'assigns': ['$i', 'g_errors', 'g_strings', 'g_configures', 'g_configure_kind', 'g_configure_n', '__CPROVER_object_whole(g_kv)', 'g_tools'], 'invariant': ['$i <= ($range->len % 4)'], 'decreases': '($range->len % 4) - $i'}, 1: {'assigns': ['$i', 'g_errors', 'g_strings', 'g_configures', 'g_configure_kind', 'g_configure_n', '__CPROVER_object_whole(g_kv)'], 'invariant': ['$i <= ($range->len % 4)'], 'decreases': '($range->len % 4) - $i'}, 2: {'assigns': ['$i', 'values.n', 'g_errors', 'g_strings', '__CPROVER_object_whole(g_kv)'], 'invariant': ['$i <= ($range->len % 4)'], 'decreases': '($range->len % 4) - $i'}, 3: {'assigns': ['$i', 'values.n', 'g_errors', 'g_strings'], 'invariant': ['$i <= ($range->len % 4)'], 'decreases': '($range->len % 4) - $i'}},
        },
        'BuildFileImpl::parseTargetsMapping': {
            'requires': ['__CPROVER_is_fresh(self, 1)', 'IN_POOL(map)', 'g_errors == 0 && g_strings == 0 && g_targets == 0'],
            'assigns': ['g_errors', 'g_strings', 'g_targets', 'g_target_nodes', 'g_target_slot', '__CPROVER_object_whole(g_kv)'],
            'ensures': [('P:C19', 'RESULT != 0'),
                        # every entry of the wrong shape is reported and skipped, every other entry becomes one target
                        ('P:C19', 'g_targets <= (map->len % 4) && (g_errors == 0 ==> g_targets == (map->len % 4))')],
            'loops': {0: {'assigns': ['$i', 'g_errors', 'g_strings', 'g_targets', 'g_target_nodes', 'g_target_slot', '__CPROVER_object_whole(g_kv)'], 'invariant': ['$i <= ($range->len % 4) && g_targets <= $i && g_errors <= 4 * $i && (g_errors == 0 ==> g_targets == $i)'], 'decreases': '($range->len % 4) - $i'},
                      1: {'assigns': ['$i', 'g_errors', 'g_strings', 'g_target_nodes'], 'invariant': ['$i <= ($range->len % 4) && g_errors >= __CPROVER_loop_entry(g_errors) && g_errors <= __CPROVER_loop_entry(g_errors) + $i'], 'decreases': '($range->len % 4) - $i'}},
        },
        # `if (value is a mapping) {...pairs...} else if (value is a sequence) {...strings...} else {...scalar...}` of the generic attribute case
        'BuildFileImpl::parseCommandsMapping#attr': {
            'of': 'BuildFileImpl::parseCommandsMapping', 'cname': 'BuildFileImpl_parseCommandsMapping_attr_step',
            'segment': {'kind': 'IfStmt', 'mentions': ['NK_Mapping', 'NK_Sequence', 'make_pair', 'configureAttribute', 'attribute'], 'excludes': ['nodeIsScalarString'], 'exits': True},
            'requires': ['__CPROVER_is_fresh(self, 1)', '__CPROVER_is_fresh(__seg_exit, sizeof(int))', '__CPROVER_is_fresh(__seg_retval, sizeof(_Bool))', '__CPROVER_is_fresh(value, sizeof(*value))', '__CPROVER_is_fresh(key, sizeof(*key))',
                         '__CPROVER_is_fresh(command, sizeof(*command))', 'IN_POOL(*value)', 'g_errors == 0 && g_strings == 0 && g_configures == 0'],
            'assigns': ['*__seg_exit', '*__seg_retval', 'g_errors', 'g_strings', 'g_configures', 'g_configure_kind', 'g_configure_n', '__CPROVER_object_whole(g_kv)'],
            'ensures': [
                # whatever the document looks like: the attribute is configured at most once, from a list whose entries all passed their kind test,
                # and a refused attribute ends loading with failure
                ('P:C19', 'g_configures <= 1 && (g_configures == 1 ==> g_configure_kind == ((*value)->kind == 4 ? 2 : (*value)->kind == 5 ? 1 : 0))'),
                ('P:C19', '((*value)->kind == 4 && g_configures == 1) ==> (g_errors + g_configure_n == (((struct ymap *)*value)->len % 4) && g_strings == 2 * g_configure_n)'),
                ('P:C19', '((*value)->kind == 5 && g_configures == 1) ==> (g_errors + g_configure_n == (((struct yseq *)*value)->len % 4) && g_strings == g_configure_n)'),
                ('P:C19', '(*__seg_exit == 1) ==> (*__seg_retval == 0 && g_configures == 1 && !g_configure_answer)'),
                ('P:C19', '((*value)->kind != 4 && (*value)->kind != 5 && (*value)->kind != 1) ==> (g_errors == 1 && g_configures == 0 && *__seg_exit == 2)'),
            ],
            'loops': {0: {'assigns': ['$i', 'values.n', 'g_errors', 'g_strings', '__CPROVER_object_whole(g_kv)'],
                          'invariant': ['$i <= ($range->len % 4) && g_errors + values.n == $i && g_strings == 2 * values.n && values.n <= $i'],
                          'decreases': '($range->len % 4) - $i'},
                      1: {'assigns': ['$i', 'values.n', 'g_errors', 'g_strings'],
                          'invariant': ['$i <= ($range->len % 4) && g_errors + values.n == $i && g_strings == values.n && values.n <= $i'],
                          'decreases': '($range->len % 4) - $i'}},
        },
    },
}
import copy as _copy
_A = UNIT['functions']['BuildFileImpl::parseCommandsMapping#attr']
for _fn, _var in (('parseToolsMapping', 'tool'), ('parseNodesMapping', 'node')):
    _v = _copy.deepcopy(_A)
    _v['of'] = 'BuildFileImpl::' + _fn
    _v['cname'] = 'BuildFileImpl_%s_attr_step' % _fn
    _v['requires'] = [r.replace('__CPROVER_is_fresh(command, sizeof(*command))', '__CPROVER_is_fresh(%s, sizeof(*%s))' % (_var, _var)) for r in _v['requires']]
    UNIT['functions']['BuildFileImpl::%s#attr' % _fn] = _v
