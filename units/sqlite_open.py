"""U-db-open: SQLiteBuildDB::open (lib/Core/SQLiteBuildDB.cpp) -- C03 (a database is interpreted only when schema and client
version both match, otherwise rejected or recreated completely), C04 (schema creation is one transaction, journaling is
never weakened)."""


def _names(n, acc):
    if isinstance(n, dict):
        r = n.get('referencedDecl')
        if isinstance(r, dict) and r.get('name'):
            acc.add(r['name'])
        for c in n.get('inner', []):
            _names(c, acc)
    return acc


def _assign_error(tr, n, obj, args, argnodes):
    """`*error_out = <std::string expression>`: the right-hand side is not translated; if it reads cError that read is kept."""
    nm = _names({'inner': argnodes}, set())
    tr.dropped.add('the message text assigned to *error_out is not translated (only that an error is reported, and whether it reads cError)')
    if 'cError' in nm:
        return 'verif_error_from(%s, cError)' % obj
    return 'verif_error(%s)' % obj


import os
import re
_src = open(os.path.join(os.environ.get('VERIF_REPO', '/repo'), 'lib/Core/SQLiteBuildDB.cpp')).read()
_m = re.search(r'static const int currentSchemaVersion = (\d+);', _src)
SCHEMA_VERSION = _m.group(1) if _m else None      # the literal of the current source (a positive constant)

def _key_type():
    """offset and length of the declared type of key_names.key inside the CREATE TABLE literal of the current source"""
    m = re.search(r'"(CREATE TABLE key_names \()"((?:\s*"[^"]*")+)', _src)
    lit = m.group(1) + ''.join(re.findall(r'"([^"]*)"', m.group(2)))
    k = re.search(r'[(,]\s*key\s+', lit)
    off = k.end()
    tok = re.match(r'[A-Za-z_ ]*?(?=\s+(UNIQUE|PRIMARY|NOT|DEFAULT|CHECK|COLLATE|REFERENCES)|[,)])', lit[off:]).group(0)
    return off, len(tok)


try:
    KEY_OFF, KEY_LEN = _key_type()
except Exception:
    KEY_OFF = KEY_LEN = None
STMTS = ['findKeyIDForKey', 'findKeyNameForKeyID', 'insertIntoKeys', 'insertIntoRuleResults', 'deleteFromKeys', 'findRuleResult', 'fastFindRuleResult', 'getKeysWithResult']
MATCH = '(g_row_seen && g_db_version == g_current_schema_version && g_db_client == self->clientSchemaVersion)'
UNIT = {
    'name': 'sqlite_open',
    'source': 'lib/Core/SQLiteBuildDB.cpp',
    'dumps': ['SQLiteBuildDB'],
    'types': {'std::string': 'vstr', 'string': 'vstr', 'basic_string<char>': 'vstr', 'sqlite3_stmt': 'struct sqlite3_stmt', 'sqlite3': 'struct sqlite3',
              'std::mutex': 'verif_mutex', 'mutex': 'verif_mutex'},
    'by_pointer': ['vstr'],
    'predefined_structs': ['sqlite3_stmt', 'sqlite3'],
    'no_translate': ['getCurrentErrorMessage', 'unlink', 'sqlite3_mprintf'],
    'globals': dict({'currentSchemaVersion': 'g_current_schema_version'}, **{s + 'StmtSQL': 'SQL_' + s for s in STMTS}),
    'vardecl_overrides': {('SQLiteBuildDB_open', 'sqliteConfigureResult'): {
        'must_contain': ['sqlite3_config'], 'emit': 'int sqliteConfigureResult = verif_sqlite3_config();\n', 'type': 'int'}},
    'calls': {
        'o:=:@vstr': _assign_error, 'm:@vstr::c_str': 'vstr_c_str', 'fn:unlink': 'verif_unlink', 'fn:__errno_location': 'verif_errno',
        'fn:sqlite3_mprintf': 'verif_mprintf',
    },
    'prelude': '#include "models/base.h"\n#include "models/strmodel.h"\n' + ('#define KEY_TYPE_OFF %s\n#define KEY_TYPE_KEEPS_BYTES(s) (%s)\n' % (
        KEY_OFF, ' || '.join(['0'] + ['HAS4(s, %d, %s)' % (KEY_OFF + o, w) for o in range(max((KEY_LEN or 0) - 3, 0)) for w in ("'C','H','A','R'", "'C','L','O','B'", "'T','E','X','T'", "'B','L','O','B'")])
        + (' || 1' if KEY_LEN == 0 else ''))) + '#include "models/sqlite_open.h"\n',
    'functions': {
        'SQLiteBuildDB::open': {
            'requires': ['__CPROVER_is_fresh(self, sizeof(*self))', '__CPROVER_is_fresh(error_out, sizeof(*error_out))',
                         'g_opens == 0 && g_closes == 0 && g_unlinks == 0 && g_seq == 0 && !g_row_seen && !g_schema_failed && g_errors == 0',
                         'self->db != 0 ==> __CPROVER_is_fresh(self->db, sizeof(struct sqlite3))', 'g_handle == self->db', 'g_current_schema_version == %s' % SCHEMA_VERSION],
            'assigns': ['*error_out', 'self->db', 'g_opens', 'g_closes', 'g_unlinks', 'g_seq', 'g_row_seen', 'g_schema_failed', 'g_errors', 'g_handle', 'g_errno', 'g_unlink_ok',
                        ] + ['self->%sStmt' % s for s in STMTS],
            'ensures': [
                # already open: nothing is done
                ('P:C03', '(OLD(self->db) != 0) ==> (RESULT && g_opens == 0 && g_unlinks == 0 && g_seq == 0 && self->db == OLD(self->db))'),
                # success: the connection is open and every statement was prepared on it from its own SQL text
                ('P:C03', '(OLD(self->db) == 0 && RESULT) ==> (self->db != 0 && self->db == g_handle && ' + ' && '.join('self->%sStmt == STMT_OF(SQL_%s)' % (s, s) for s in STMTS) + ')'),
                # an existing database is interpreted only if BOTH its schema version and its client version are the expected ones;
                # otherwise it was deleted and the schema recreated completely (BEGIN .. END all succeeded in order)
                ('P:C03', '(OLD(self->db) == 0 && RESULT) ==> ((%s && g_unlinks == 0 && g_seq == 0) || (!%s && g_unlinks == 1 && g_seq == 7))' % (MATCH, MATCH)),
                # nothing is deleted unless the versions do not match and the client allowed recreation
                ('P:C03,P:C04', '(g_unlinks != 0) ==> (!%s && self->recreateOnUnmatchedVersion != 0 && g_unlinks == 1)' % MATCH),
                ('P:C03', '(OLD(self->db) == 0 && !%s && !self->recreateOnUnmatchedVersion) ==> (!RESULT || g_opens == 0)' % MATCH),
                # a failed schema creation closes the connection (the next open() starts over) and is reported
                ('P:C04', '(g_schema_failed) ==> (!RESULT && self->db == 0 && g_handle == 0)'),
                ('P:C03', '!RESULT ==> g_errors >= 1'),
                # a connection that could not be brought up completely is not kept: the next open() starts over with the version check
                # instead of finding a handle and taking the database for open
                ('P:C03', '(OLD(self->db) == 0 && !RESULT) ==> (self->db == 0 && g_handle == 0)'),
                # no connection is leaked: the member is the open handle
                ('P:C03', 'self->db == g_handle || !RESULT'),
            ],
        },
    },
}
