"""U-key: include/llbuild/BuildSystem/BuildKey.h -- kind tags and the accessors of the length-prefixed key shape (C15)."""
K = 'BuildKey_Kind_'
TAGS = {'Command': 'C', 'DirectoryContents': 'D', 'FilteredDirectoryContents': 'd', 'Node': 'N', 'Stat': 'I',
        'DirectoryTreeSignature': 'S', 'DirectoryTreeStructureSignature': 's', 'Target': 'T', 'CustomTask': 'X'}
assert len(set(TAGS.values())) == len(TAGS)          # kind tags of distinct kinds never collide (checked on the spec table itself)

KEY = ['__CPROVER_is_fresh(self, sizeof(*self))', 'g_len >= 5 && g_len <= 0xffffffffu', '__CPROVER_is_fresh(g_buf, g_len)',
       '__CPROVER_pointer_in_range_dfcc(g_buf, self->key.ptr, g_buf) && self->key.len == g_len',
       # a well-formed length-prefixed key: 1 tag byte, a little-endian 32-bit name length n, n name bytes, then the payload
       '(size_t)5 + NAMELEN <= g_len']
NAMELEN = '((uint32_t)(uint8_t)g_buf[1] | ((uint32_t)(uint8_t)g_buf[2] << 8) | ((uint32_t)(uint8_t)g_buf[3] << 16) | ((uint32_t)(uint8_t)g_buf[4] << 24))'
KEY = [k.replace('NAMELEN', NAMELEN) for k in KEY]


def name_acc():
    return {'requires': KEY, 'assigns': [],
            # the name is delimited by its length prefix (any byte value, including NUL and bytes >= 0x80 in the length)
            'ensures': [('P:C15', 'RESULT.ptr == g_buf + 5 && RESULT.len == (size_t)%s' % NAMELEN)]}


def data_acc():
    return {'requires': KEY, 'assigns': [],
            'ensures': [('P:C15', 'RESULT.ptr == g_buf + 5 + %s && RESULT.len == g_len - 5 - (size_t)%s' % (NAMELEN, NAMELEN))]}


def simple_acc():
    return {'requires': ['__CPROVER_is_fresh(self, sizeof(*self))', 'g_len >= 1 && g_len <= ((size_t)1 << 33)', '__CPROVER_is_fresh(g_buf, g_len)',
                         '__CPROVER_pointer_in_range_dfcc(g_buf, self->key.ptr, g_buf) && self->key.len == g_len'], 'assigns': [],
            'ensures': [('P:C15', 'RESULT.ptr == g_buf + 1 && RESULT.len == g_len - 1')]}


UNIT = {
    'name': 'buildkey',
    'source': 'lib/BuildSystem/BuildKey.cpp',
    'dumps': ['BuildKey'],
    'types': {'StringRef': 'strref', 'KeyType': 'keyt', 'core::KeyType': 'keyt', 'std::string': 'keyt', 'string': 'keyt', 'basic_string<char>': 'keyt'},
    'by_value': ['strref'], 'by_pointer': ['keyt'],
    'calls': {'m:@keyt::data': 'keyt_data', 'm:@keyt::size': 'keyt_size', 'fn:memcpy': 'verif_memcpy4',
              'c:StringRef(const char *, size_t)': 'strref_make', 'c:StringRef(const char *)': 'strref_cstr_any',
              'm:@keyt::reserve': 'keyt_reserve', 'm:@keyt::push_back': ('keyt_push_back', 'v'), 'm:@keyt::append': 'keyt_append', 'o:=:@keyt': 'keyt_assign($o, $0)',
              'm:@strref::begin': '($o->ptr)', 'm:@strref::end': '($o->ptr + $o->len)', 'm:@strref::size': '($o->len)'},
    'call_patterns': [(r'c:(basic_string<char>|string|std::string|KeyType)\(const (std::)?(basic_string<char>|string|KeyType).*&\)', 'keyt_copy'), (r'c:(basic_string<char>|string|std::string|KeyType)\(\)', 'keyt_new'), (r'c:(basic_string<char>|string|std::string|KeyType)/0', 'keyt_new'),
                      (r'c:(basic_string<char>|string|std::string|KeyType)\(const char \*.*\)', ('keyt_cstr_any', 'v')), (r'o:=:(std::)?(basic_string<char>|string)', 'keyt_assign($o, $0)')],
    'prelude': '#include "models/base.h"\n#include "models/buildkey.h"\n',
    'functions': dict({
        'BuildKey::kindForIdentifier': {
            'requires': [], 'assigns': [],
            'ensures': [('P:C15', 'RESULT == %s%s ? identifier == %d : 1' % (K, k, ord(t))) for k, t in TAGS.items()] +
                       [('P:C15', 'identifier == %d ==> RESULT == %s%s' % (ord(t), K, k)) for k, t in TAGS.items()] +
                       [('P:C15', '(%s) ==> RESULT == %sUnknown' % (' && '.join('identifier != %d' % ord(t) for t in TAGS.values()), K))],
            'inline_in_callers': True},
        'BuildKey::identifierForKind': {
            'requires': ['kind >= 0 && kind <= 9'], 'assigns': [],
            'ensures': [('P:C15', 'kind == %s%s ==> RESULT == %d' % (K, k, ord(t))) for k, t in TAGS.items()],
            'inline_in_callers': True},
        'BuildKey::getKind': {
            'requires': ['__CPROVER_is_fresh(self, sizeof(*self))', 'g_len >= 1 && g_len <= 4096', '__CPROVER_is_fresh(g_buf, g_len)',
                         '__CPROVER_pointer_in_range_dfcc(g_buf, self->key.ptr, g_buf) && self->key.len == g_len'], 'assigns': [],
            'ensures': [('P:C15', 'g_buf[0] == %d ==> RESULT == %s%s' % (ord(t), K, k)) for k, t in TAGS.items()]},
        # BuildKey(kind code, name): the key is the tag byte followed by ALL bytes of the name (its length taken from the StringRef, not from a terminator)
        'BuildKey::BuildKey': {
            'nparams': 2, 'cname': 'BuildKey_ctor_tag_name',
            'requires': ['__CPROVER_is_fresh(self, sizeof(*self))', 'str.len <= ((size_t)1 << 32)', '__CPROVER_is_fresh(str.ptr, str.len + 1)', 'g_pieces == 0'],
            'assigns': ['self->key', 'g_pieces', 'g_piece_char', 'g_piece_char_pos', 'g_piece_ptr', 'g_piece_len', 'g_piece_pos'],
            'ensures': [('P:C15', 'self->key.ptr == &g_built_marker && self->key.len == 1 + str.len'),
                        ('P:C15', 'g_pieces == 2 && g_piece_char == kindCode && g_piece_char_pos == 0 && g_piece_ptr == str.ptr && g_piece_len == str.len && g_piece_pos == 1')]},
        'BuildKey::getCustomTaskName': name_acc(), 'BuildKey::getDirectoryTreeSignaturePath': name_acc(), 'BuildKey::getFilteredDirectoryPath': name_acc(),
        'BuildKey::getCustomTaskData': data_acc(), 'BuildKey::getContentExclusionPatterns': data_acc(),
        'BuildKey::getCommandName': simple_acc(), 'BuildKey::getNodeName': simple_acc(), 'BuildKey::getDirectoryPath': simple_acc(),
        'BuildKey::getStatName': simple_acc(), 'BuildKey::getTargetName': simple_acc(),
    }),
}
