"""U-eng-cancel: BuildEngineImpl::cancelRemainingTasks (lib/Core/BuildEngine.cpp) -- C05 (and the wait handshake of C06)."""
import copy
from units import engine as _e



def _cond_wait(tr, n, obj, args, argnodes):
    """condition_variable::wait(lock) / wait(lock, pred).  The predicate form is `while (!pred()) wait(lock);`: modelled for
    partial correctness as one wait after which the predicate holds (the predicate must be a lambda with a single return)."""
    lock = tr.expr(argnodes[0])
    if len(argnodes) == 1:
        return 'verif_cond_wait(%s, %s)' % (obj, lock)

    def find(x, kind):
        if isinstance(x, dict):
            if x.get('kind') == kind:
                return x
            for c in x.get('inner', []):
                r = find(c, kind)
                if r is not None:
                    return r
        return None
    lam = find(argnodes[1], 'LambdaExpr')
    body = [c for c in (lam or {}).get('inner', []) if c.get('kind') == 'CompoundStmt']
    if not body or len(body[-1].get('inner', [])) != 1 or body[-1]['inner'][0].get('kind') != 'ReturnStmt':
        raise Exception('condition wait predicate is not a single-return lambda')
    e = tr.expr(body[-1]['inner'][0]['inner'][0])
    return '({ if (!(%s)) { verif_cond_wait(%s, %s); __CPROVER_assume(%s); } })' % (e, obj, lock, e)


_b = copy.deepcopy(_e.UNIT)
S = _e.S
NT, NR = 4, 4            # at most 4 tasks and 4 rules in the two hash maps (each element a separate object; the loops are closed by invariants)
UNIT = {k: v for k, v in _b.items() if k not in ('functions', 'stubs', 'vardecl_overrides', 'no_translate')}
UNIT['name'] = 'engine_cancel'
UNIT['no_translate'] = ['wait', 'clear']
UNIT['drop_locals'] = _b.get('drop_locals', []) + [r'TracingEngineQueueItemEvent']
UNIT['full_structs'] = _b['full_structs']
UNIT['type_patterns'] = _b.get('type_patterns', []) + [
    (r'(std::)?unordered_map<Task \*, (BuildEngineImpl::)?TaskInfo.*>', 'vec_taskpair'), (r'(std::)?unordered_map<KeyID, (BuildEngineImpl::)?RuleInfo.*>', 'vec_rulepair'),
    (r'(std::)?pair<Task \*const, (BuildEngineImpl::)?TaskInfo>', 'struct taskpair'), (r'(std::)?pair<const KeyID, (BuildEngineImpl::)?RuleInfo>', 'struct rulepair'),
    (r'(std::)?unique_lock<(std::)?mutex>', 'verif_mutex *')]
UNIT['vec_types'] = dict(_b['vec_types'], vec_taskpair='struct taskpair', vec_rulepair='struct rulepair')
UNIT['synthetic_structs'] = {'taskpair': [('first', 'struct Task *'), ('second', 'struct BuildEngineImpl_TaskInfo')],
                             'rulepair': [('first', 'struct KeyID'), ('second', 'struct BuildEngineImpl_RuleInfo')]}
UNIT['calls'] = dict(_b['calls'], **{
    'range:@vec_taskpair': ('vec_taskpair_size', 'vec_taskpair_at'), 'range:@vec_rulepair': ('vec_rulepair_size', 'vec_rulepair_at'),
    'm:@vec_TaskInfoPtr::empty': 'vec_TaskInfoPtr_empty', 'm:@vec_TaskInfoPtr::size': 'vec_TaskInfoPtr_size', 'm:@vec_TaskInfoPtr::clear': 'vec_TaskInfoPtr_clear',
    'm:@vec_RuleScanRequest::clear': 'vec_RuleScanRequest_clear', 'm:@vec_TaskInputRequest::clear': 'vec_TaskInputRequest_clear',
    'm:@vec_taskpair::clear': 'vec_taskpair_clear_locked',
    'm:@verif_condvar::wait': _cond_wait,
})
UNIT['need_fields'] = {'BuildEngineImpl': ['ruleInfosToScan', 'inputRequests', 'finishedInputRequests', 'readyTaskInfos', 'finishedTaskInfos', 'taskInfos', 'ruleInfos',
                                           'numOutstandingUnfinishedTasks', 'finishedTaskInfosMutex', 'taskInfosMutex', 'inputRequestsMutex']}
UNIT['after_structs'] = '#include "models/engine_after.h"\n#include "models/engine_cancel.h"\n'
T = 'self->taskInfos.ptr[%d]'
R = 'self->ruleInfos.ptr[%d]'
QUEUES = ['ruleInfosToScan', 'inputRequests', 'finishedInputRequests', 'readyTaskInfos', 'finishedTaskInfos']
UNIT['stubs'] = {
    'BuildDB_setRuleResult': {'ret': '_Bool', 'params': 'struct BuildDB *self',
                              'requires': [('P:C05', '0 /* results of drained tasks are never persisted */')], 'assigns': []},
}
UNIT['functions'] = {
    'BuildEngineImpl::cancelRemainingTasks': {
        'requires': ['__CPROVER_is_fresh(self, sizeof(*self))', 'g_engine == self',
                     'VEC_OK(self->ruleInfosToScan, struct BuildEngineImpl_RuleScanRequest)', 'VEC_OK(self->inputRequests, struct BuildEngineImpl_TaskInputRequest)',
                     'VEC_OK(self->finishedInputRequests, struct BuildEngineImpl_TaskInputRequest)', 'VEC_OK(self->readyTaskInfos, struct BuildEngineImpl_TaskInfo *)',
                     'VEC_OK(self->finishedTaskInfos, struct BuildEngineImpl_TaskInfo *)',
                     '__CPROVER_is_fresh(self->taskInfos.ptr, %d * sizeof(struct taskpair)) && self->taskInfos.len <= %d && self->taskInfos.cap == %d' % (NT, NT, NT),
                     '__CPROVER_is_fresh(self->ruleInfos.ptr, %d * sizeof(struct rulepair)) && self->ruleInfos.len <= %d && self->ruleInfos.cap == %d' % (NR, NR, NR)] +
                    # every registered task belongs to a rule record that is in progress on it (data-structure invariant of the engine)
                    ['__CPROVER_is_fresh(%s.second.forRuleInfo, sizeof(struct BuildEngineImpl_RuleInfo))' % (T % i) for i in range(NT)] +
                    ['(%s.second.forRuleInfo->state == %sInProgressWaiting || %s.second.forRuleInfo->state == %sInProgressComputing)' % (T % i, S, T % i, S) for i in range(NT)] +
                    ['%s.second.state >= 0 && %s.second.state <= 6' % (R % i, R % i) for i in range(NR)] +
                    ['self->finishedTaskInfos.len <= self->numOutstandingUnfinishedTasks', 'self->numOutstandingUnfinishedTasks == self->finishedTaskInfos.len + g_running', '!self->finishedTaskInfosMutex.held && !self->taskInfosMutex.held && !self->inputRequestsMutex.held', 'g_k < %d' % NT, 'g_waits == 0'],
        'assigns': ['self->numOutstandingUnfinishedTasks', 'self->finishedTaskInfosMutex.held', 'self->taskInfosMutex.held', 'self->inputRequestsMutex.held', 'self->taskInfos.len', 'g_waits', 'g_running'] +
                   ['self->%s.len' % q for q in QUEUES] + ['__CPROVER_object_whole(self->finishedTaskInfos.ptr)'] +
                   ['%s.second.forRuleInfo->state' % (T % i) for i in range(NT)] + ['%s.second.forRuleInfo->inProgressInfo' % (T % i) for i in range(NT)] +
                   ['%s.second.forRuleInfo->result.builtAt' % (T % i) for i in range(NT)] + ['%s.second.state' % (R % i) for i in range(NR)],
        'ensures': [
            # nothing is outstanding, every work queue and the task table are empty
            ('P:C05', 'self->numOutstandingUnfinishedTasks == 0 && self->taskInfos.len == 0 && ' + ' && '.join('self->%s.len == 0' % q for q in QUEUES)),
            # every rule that had a task is left incomplete with no pending task; its epochs and value are not touched (frame)
            ('P:C05', 'g_k < OLD(self->taskInfos.len) ==> (self->taskInfos.ptr[g_k].second.forRuleInfo->state == %sIncomplete && PTI(self->taskInfos.ptr[g_k].second.forRuleInfo) == 0)' % S),
            # ... and is not trusted by the next scan: its dependency list was reset when the task was created and its value may have been
            # replaced by a task reporting during the drain, so the record must read as never built (scanRule: builtAt == 0 ==> NeedsToRun)
            ('P:C05', 'g_k < OLD(self->taskInfos.len) ==> self->taskInfos.ptr[g_k].second.forRuleInfo->result.builtAt == 0'),
            # every rule that was being scanned is left incomplete
            ('P:C05', '(g_k < self->ruleInfos.len && OLD(self->ruleInfos.ptr[g_k].second.state) == %sIsScanning) ==> self->ruleInfos.ptr[g_k].second.state == %sIncomplete' % (S, S)),
            ('P:C05', '(g_k < self->ruleInfos.len && OLD(self->ruleInfos.ptr[g_k].second.state) != %sIsScanning) ==> self->ruleInfos.ptr[g_k].second.state == OLD(self->ruleInfos.ptr[g_k].second.state)' % S),
            ('P:C05,P:C06', '!self->finishedTaskInfosMutex.held && !self->taskInfosMutex.held && !self->inputRequestsMutex.held'),
            # no completion is lost or counted twice by the drain: it returns exactly when every outstanding task has reported
            ('P:C06,P:C05', 'g_running == 0'),
        ],
        'loops': {
            # the drain loop: partial correctness only (its termination depends on other threads reporting: liveness, not decided)
            0: {'assigns': ['self->numOutstandingUnfinishedTasks', 'self->finishedTaskInfos.len', '__CPROVER_object_whole(self->finishedTaskInfos.ptr)', 'self->finishedTaskInfosMutex.held', 'g_waits', 'g_running'],
                # the counter always equals the completions queued plus the tasks still running, however the completions are batched
                'invariant': ['self->numOutstandingUnfinishedTasks == self->finishedTaskInfos.len + g_running', 'self->finishedTaskInfos.len <= self->numOutstandingUnfinishedTasks && self->finishedTaskInfos.len <= self->finishedTaskInfos.cap && !self->finishedTaskInfosMutex.held']},
            1: {'assigns': ['__i1'] + ['%s.second.forRuleInfo->state' % (T % i) for i in range(NT)] + ['%s.second.forRuleInfo->inProgressInfo' % (T % i) for i in range(NT)] +
                           ['%s.second.forRuleInfo->result.builtAt' % (T % i) for i in range(NT)],
                'invariant': ['__i1 <= __range1->len && self->taskInfosMutex.held',
                              '(g_k < __i1) ==> self->taskInfos.ptr[g_k].second.forRuleInfo->result.builtAt == 0',
                              '(g_k < __i1) ==> (self->taskInfos.ptr[g_k].second.forRuleInfo->state == %sIncomplete && PTI(self->taskInfos.ptr[g_k].second.forRuleInfo) == 0)' % S],
                'decreases': '__range1->len - __i1'},
            2: {'assigns': ['__i2'] + ['%s.second.state' % (R % i) for i in range(NR)],
                'invariant': ['__i2 <= __range2->len && self->taskInfosMutex.held',
                              '(g_k < __i2) ==> (self->ruleInfos.ptr[g_k].second.state == ((__CPROVER_loop_entry(self->ruleInfos.ptr[g_k].second.state) == %sIsScanning) ? %sIncomplete : __CPROVER_loop_entry(self->ruleInfos.ptr[g_k].second.state)))' % (S, S),
                              '(g_k >= __i2 && g_k < %d) ==> self->ruleInfos.ptr[g_k].second.state == __CPROVER_loop_entry(self->ruleInfos.ptr[g_k].second.state)' % NR],
                'decreases': '__range2->len - __i2'},
        },
    },
}
# the blocking step of the engine loop: `if (!didWork && numOutstandingUnfinishedTasks != 0) { lock; if (empty) wait; didWork = true; }`
UNIT['functions']['BuildEngineImpl::executeTasks#wait'] = {
    'of': 'BuildEngineImpl::executeTasks', 'cname': 'BuildEngineImpl_executeTasks_wait_step',
    'segment': {'kind': 'IfStmt', 'mentions': ['didWork', 'numOutstandingUnfinishedTasks', 'finishedTaskInfosCondition']},
    'requires': ['__CPROVER_is_fresh(self, sizeof(*self))', 'g_engine == self', '__CPROVER_is_fresh(didWork, sizeof(*didWork))',
                 'VEC_OK(self->finishedTaskInfos, struct BuildEngineImpl_TaskInfo *)', '!self->finishedTaskInfosMutex.held', 'g_waits == 0'],
    'assigns': ['*didWork', 'self->finishedTaskInfosMutex.held', 'self->finishedTaskInfos.len', 'g_waits', 'g_running'],
    'ensures': [
        # with computing tasks outstanding and nothing else done, the loop goes round again after blocking (or after finding
        # completions already queued): a task that is still computing is never mistaken for a dependency cycle
        ('P:C06,P:C05,P:C07', '(!(OLD(*didWork) != 0) && OLD(self->numOutstandingUnfinishedTasks) != 0) ==> (*didWork != 0)'),
        # it blocks only when nothing was done in this round and a completion is still owed (otherwise nobody would wake it)
        ('P:C06', '(g_waits != 0) ==> (!(OLD(*didWork) != 0) && OLD(self->numOutstandingUnfinishedTasks) != 0 && g_waits == 1)'),
        # a completion that is already queued is never slept on
        ('P:C06', '(OLD(self->finishedTaskInfos.len) != 0) ==> g_waits == 0'),
        ('P:C06', '!self->finishedTaskInfosMutex.held'),
        '(OLD(*didWork) != 0) ==> (*didWork != 0)',
    ],
}
UNIT = _e._views(UNIT)
