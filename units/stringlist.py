"""U-string-list: basic::StringList (include/llbuild/Basic/StringList.h) -- C15: the list built from one string is that string's bytes followed by its terminator, and the
encoded size COUNTS the terminator (the same bytes an array-built list of that one string has); encode writes the size and then exactly that many content bytes.  getValues() reads the
contents as consecutive terminated items that cover the contents exactly (no item and no trailing empty string is dropped).  (The decoding constructor and the array-built
constructor are not under contract.)"""
UNIT = {
    'name': 'stringlist',
    'source': 'lib/BuildSystem/BuildKey.cpp',
    'dumps': ['basic::StringList'],
    'types': {'StringRef': 'strref', 'BinaryEncoder': 'struct BinaryEncoder', 'basic::BinaryEncoder': 'struct BinaryEncoder', 'BinaryDecoder': 'struct BinaryDecoder', 'basic::BinaryDecoder': 'struct BinaryDecoder'},
    'by_value': ['strref', 'struct slvec'],
    'type_patterns': [(r'(std::)?vector<(llvm::)?StringRef.*>', 'struct slvec')],
    'predefined_structs': ['BinaryEncoder', 'BinaryDecoder', 'slvec'],
    'need_fields': {'StringList': ['contents', 'size']},
    'no_translate': ['write', 'read', 'writeBytes', 'readBytes', 'memcpy', 'find'],
    'calls': {'m:BinaryEncoder::write': 'sl_write_u64', 'm:BinaryDecoder::read': 'sl_read_u64($o, &$0)', 'm:BinaryEncoder::writeBytes': 'sl_write_bytes', 'm:BinaryDecoder::readBytes': 'sl_read_bytes($o, $0, &$1)',
              'fn:memcpy': 'sl_memcpy', 'c:StringRef(const char *)': 'sl_item_at', 'm:@struct slvec::push_back': 'sl_push', 'new[]:@char': 'sl_new_chars', 'c:StringRef(const char *, size_t)': 'strref_make', 'm:@strref::data': '($o->ptr)', 'm:@strref::size': '($o->len)', 'm:StringRef::size': '($o->len)', 'm:StringRef::data': '($o->ptr)'},
    'call_patterns': [(r'c:StringRef/0', 'strref_none'), (r'c:StringRef\(\)', 'strref_none')],
    'prelude': ('#include "models/base.h"\n#include <stdlib.h>\n'
                'struct BinaryEncoder { char _e; }; struct BinaryDecoder { char _e; };\n'
                'static inline strref strref_none(void) { strref r; r.ptr = 0; r.len = 0; return r; }\n'
                '/* the coder as an item log, memcpy as a recorder (the copy itself is byte-wise: assumed), new char[n] as an allocation of n bytes */\n'
                'uint64_t g_w_size, g_r_size; const char *g_w_ptr; size_t g_w_len; unsigned g_w_items, g_r_items; size_t g_r_len; char g_r_bytes;\n'
                'void *g_cpy_dst; const void *g_cpy_src; size_t g_cpy_n; unsigned g_copies; size_t g_alloc_n; char *g_alloc_ptr;\n'
                'static inline void sl_write_u64(struct BinaryEncoder *c, uint64_t v) { g_w_items++; g_w_size = v; }\n'
                'static inline void sl_write_bytes(struct BinaryEncoder *c, strref b) { g_w_items++; g_w_ptr = b.ptr; g_w_len = b.len; }\n'
                'static inline void sl_read_u64(struct BinaryDecoder *c, uint64_t *v) { g_r_items++; *v = g_r_size; }\n'
                'static inline void sl_read_bytes(struct BinaryDecoder *c, size_t n, strref *out) { g_r_items++; g_r_len = n; out->ptr = &g_r_bytes; out->len = n; }\n'
                'static inline void *sl_memcpy(void *d, const void *s, size_t n) { g_copies++; g_cpy_dst = d; g_cpy_src = s; g_cpy_n = n; return d; }\n'
                '/* getValues: StringRef(const char *) reads one terminated item; the ghost cursor g_next is where the next item must start */\n'
                'struct slvec { unsigned n; }; const char *g_contents; uint64_t g_size, g_next; unsigned g_items, g_pushed; size_t nondet_size(void);\n'
                'static inline strref sl_item_at(const char *p) { strref r; size_t n = nondet_size();\n'
                '  __CPROVER_assert(p == g_contents + g_next, "[P:C15] each item is read where the previous one (and its terminator) ended");\n'
                '  __CPROVER_assume(n < g_size - g_next); /* StringList invariant: the contents end with a terminator, so an item started inside them ends inside them */\n'
                '  g_items++; g_next += n + 1; r.ptr = p; r.len = n; return r; }\n'
                'static inline void sl_push(struct slvec *v, strref x) { __CPROVER_assert(g_pushed + 1 == g_items, "[P:C15] every item read is listed once, in order"); g_pushed++; v->n++; }\n'
                'static inline char *sl_new_chars(size_t n) { g_alloc_n = n; g_alloc_ptr = malloc(n); __CPROVER_assume(g_alloc_ptr != 0); return g_alloc_ptr; }\n'),
    'functions': {
        'StringList::StringList': {
            'ptypes': ['StringRef'], 'cname': 'StringList_from_one_string',
            'requires': ['__CPROVER_is_fresh(self, sizeof(*self))', 'value.len <= 4096', 'g_copies == 0'],
            'assigns': ['self->size', 'self->contents', 'g_copies', 'g_cpy_dst', 'g_cpy_src', 'g_cpy_n', 'g_alloc_n', 'g_alloc_ptr'],
            'ensures': [('P:C15', 'self->size == value.len + 1 && g_alloc_n == self->size && self->contents == g_alloc_ptr'),
                        ('P:C15', 'g_copies == 1 && g_cpy_dst == (void *)self->contents && g_cpy_src == (const void *)value.ptr && g_cpy_n == value.len'),
                        ('P:C15', 'self->contents[value.len] == 0')]},
        'StringList::getValues': {
            'requires': ['__CPROVER_is_fresh(self, sizeof(*self))', 'self->size <= 4096', '__CPROVER_is_fresh(self->contents, 4097)',
                         'g_contents == self->contents && g_size == self->size && g_next == 0 && g_items == 0 && g_pushed == 0'],
            'assigns': ['g_next', 'g_items', 'g_pushed'],
            # the items read cover the contents exactly: nothing is left unread (a trailing empty string included), nothing is read twice
            'ensures': [('P:C15', 'g_next == self->size && g_pushed == g_items')],
            'loops': {0: {'assigns': ['i', 'g_next', 'g_items', 'g_pushed', 'result.n'], 'invariant': ['i == g_next && i <= self->size && g_pushed == g_items'], 'decreases': 'self->size - i'}}},
        'StringList::encode': {
            'requires': ['__CPROVER_is_fresh(self, sizeof(*self))', '__CPROVER_is_fresh(coder, 1)', 'g_w_items == 0'],
            'assigns': ['g_w_items', 'g_w_size', 'g_w_ptr', 'g_w_len'],
            'ensures': [('P:C15', 'g_w_items == 2 && g_w_size == self->size && g_w_ptr == self->contents && g_w_len == self->size')]},
    },
}
