"""U-shell-esc: basic::appendShellEscapedString (lib/Basic/ShellUtility.cpp) -- C17 "a shell-quoted path passed through /bin/sh yields
the original path".  BOUNDED stand-in: all non-empty inputs of length <= 3 over all byte values except NUL; the output is parsed by
an executable model of POSIX sh word syntax (single quotes, backslash, unquoted safe characters; '#' or '~' at the start of a word are
NOT safe) and must yield exactly the input.  Never counted as proved."""
UNIT = {
    'name': 'shellesc',
    'source': 'lib/Basic/ShellUtility.cpp',
    'dumps': ['appendShellEscapedString'],
    'types': {'StringRef': 'strref', 'std::string': 'vstr', 'string': 'vstr', 'basic_string<char>': 'vstr', 'llvm::raw_ostream': 'struct raw_ostream', 'raw_ostream': 'struct raw_ostream'},
    'by_value': ['strref'], 'by_pointer': ['vstr'],
    'globals': {'npos': '((size_t)-1)'},
    'calls': {
        'm:StringRef::find_first_not_of': ('strref_find_first_not_of', 'v'), 'm:StringRef::find_first_of': ('strref_find_first_of', 'vv'),
        'm:StringRef::slice': ('strref_slice', 'vv'), 'm:StringRef::size': 'strref_size', 'o:[]:StringRef': '$o->ptr[$0]',
        'c:StringRef(const std::string &)': 'strref_make($0, sizeof($0) - 1)', 'c:StringRef(const string &)': 'strref_make($0, sizeof($0) - 1)', 'c:StringRef(const char *)': 'strref_make($0, sizeof($0) - 1)',
        'o:<<:raw_ostream': 'verif_out_any',
    },
    'call_patterns': [(r'c:(basic_string<char>|string|std::string)\(const char \*.*\)', ('vstr_lit1($0, sizeof($0) - 1)', 'v')), (r'fn:operator<<', 'verif_out_any')],
    'prelude': '#include "models/base.h"\n#include "models/shellesc.h"\n',
    'functions': {
        'appendShellEscapedString': {
            'bounded': 'non-empty inputs of length <= 4 (quick) / 6 (thorough), all byte values except NUL; every loop unwound with unwinding assertions',
            'unwind': {'quick': 36, 'thorough': 36},
            'plain_harness': '''
  char in[6]; size_t n; struct raw_ostream os;
  __CPROVER_assume(n >= 1 && n <= VERIF_SHELL_MAXLEN);
  for (size_t i = 0; i < 6; i++) __CPROVER_assume(i >= n || in[i] != 0);
  strref s; s.ptr = in; s.len = n;
  g_outlen = 0;
  appendShellEscapedString(&os, s);
  __CPROVER_assert(verif_sh_yields(s), "[P:C17] the escaped string, read by sh, is exactly one word equal to the original path");
''',
        },
    },
}
