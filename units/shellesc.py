"""U-shell-esc: basic::appendShellEscapedString (lib/Basic/ShellUtility.cpp) -- C17 "a shell-quoted path passed through /bin/sh yields
the original path".  BOUNDED stand-in: all non-empty inputs of length <= 3 over all byte values except NUL; the output is parsed by
an executable model of POSIX sh word syntax (single quotes, backslash, unquoted safe characters; '#' or '~' at the start of a word are
NOT safe) and must yield exactly the input.  Never counted as proved."""
UNIT = {
    'name': 'shellesc',
    'source': 'lib/Basic/ShellUtility.cpp',
    'dumps': ['appendShellEscapedString'],
    'types': {'StringRef': 'strref', 'std::string': 'vstr', 'string': 'vstr', 'basic_string<char>': 'vstr', 'llvm::raw_ostream': 'struct raw_ostream', 'raw_ostream': 'struct raw_ostream'},
    'by_value': ['strref'], 'by_pointer': ['vstr'],
    'globals': {'npos': '((size_t)-1)'},
    'calls': {
        'm:StringRef::find_first_not_of': ('strref_find_first_not_of', 'v'), 'm:StringRef::find_first_of': ('strref_find_first_of', 'vv'),
        'm:StringRef::slice': ('strref_slice', 'vv'), 'm:StringRef::size': 'strref_size', 'o:[]:StringRef': '$o->ptr[$0]',
        'c:StringRef(const std::string &)': 'strref_of_lit', 'c:StringRef(const string &)': 'strref_of_lit', 'c:StringRef(const char *)': 'strref_of_lit',
        'o:<<:raw_ostream': 'verif_out_any',
    },
    'call_patterns': [(r'c:(basic_string<char>|string|std::string)\(const char \*.*\)', ('vstr_lit', 'v')), (r'fn:operator<<', 'verif_out_any')],
    'prelude': '#include "models/base.h"\n#include "models/shellesc.h"\n',
    'functions': {
        'appendShellEscapedString': {
            'bounded': 'non-empty inputs of length <= 3, all byte values except NUL; all loops unwound (80) with unwinding assertions',
            'no_loop_contracts': True, 'unwind': 80,
            'requires': ['__CPROVER_is_fresh(os, sizeof(*os))', 'string.len >= 1 && string.len <= 3', '__CPROVER_is_fresh(string.ptr, 3)',
                         'string.ptr[0] != 0 && (string.len < 2 || string.ptr[1] != 0) && (string.len < 3 || string.ptr[2] != 0)', 'g_outlen == 0'],
            'assigns': ['g_outlen', '__CPROVER_object_whole(g_out)'],
            'ensures': [('P:C17', 'verif_sh_yields(string)')],
        },
    },
}
