"""U-fileinfo: include/llbuild/Basic/FileInfo.h, lib/Basic/FileInfo.cpp, FileSystem.h wrappers (C13)."""

BYTES_EQ = ' && '.join('self->checksum.bytes[%d] == rhs->checksum.bytes[%d]' % (i, i) for i in range(32))
CK_EQ = ' && '.join('self->bytes[%d] == rhs->bytes[%d]' % (i, i) for i in range(32))
TWO = ['__CPROVER_is_fresh(self, sizeof(*self))', '__CPROVER_is_fresh(rhs, sizeof(*rhs))']
R = 'RESULT'
ZERO6 = '%s.device == 0 && %s.inode == 0 && %s.mode == 0 && %s.size == 0 && %s.modTime.seconds == 0 && %s.modTime.nanoseconds == 0' % ((R,) * 6)

UNIT = {
    'name': 'fileinfo',
    'source': 'lib/Basic/FileInfo.cpp',
    'dumps': ['FileInfo', 'FileTimestamp', 'FileChecksum', 'FileChecksumHasher', 'FileChecksumHasherMD5', 'stat', 'timespec'],
    'types': {'MD5::MD5Result': 'struct md5result', 'llvm::MD5::MD5Result': 'struct md5result', 'std::array<uint8_t, 16>': 'md5bytes', 'array<uint8_t, 16>': 'md5bytes',
              'array<unsigned char, 16>': 'md5bytes', 'FILE': 'struct verif_FILE', 'PlatformSpecificHasher': 'struct FileChecksumHasherMD5',
              'std::string': 'vstr', 'string': 'vstr', 'basic_string<char>': 'vstr', 'StringRef': 'strref'},
    'by_value': ['strref'], 'by_pointer': ['vstr'],
    'full_structs': ['FileInfo', 'FileTimestamp', 'FileChecksum'],
    # fields of the system records that the contract of getInfoForPath talks about, also when changed code no longer reads them
    'need_fields': {'stat': ['st_dev', 'st_ino', 'st_mode', 'st_size', 'st_mtim'], 'timespec': ['tv_sec', 'tv_nsec']},
    'auto_translate': True,
    'calls': {
        'fn:memcmp': 'verif_memcmp32', 'fn:memset': '__builtin_memset',
        'fn:stat': 'verif_stat', 'fn:lstat': 'verif_lstat',
        'm:@vstr::c_str': 'vstr_c_str',
        'm:@md5bytes::begin': '($o->e)', 'm:@md5bytes::end': '($o->e + 16)',
        'fn:copy': 'verif_copy16',
        'fn:fopen': 'verif_fopen', 'fn:fread': 'verif_fread', 'fn:fclose': 'verif_fclose',
        'c:StringRef(const char *, size_t)': 'strref_make',
        'c:FileChecksumHasherMD5(const std::string &)': 'verif_hasher_new', 'c:PlatformSpecificHasher(const std::string &)': 'verif_hasher_new',
        'c:FileChecksumHasherMD5(const string &)': 'verif_hasher_new', 'c:PlatformSpecificHasher(const string &)': 'verif_hasher_new',
    },
    'ref_fields': ['FileChecksumHasher::path'],
    'predefined_structs': ['md5result', 'verif_FILE'],
    'prelude': '#include "models/base.h"\n#include "models/fileinfo.h"\n',
    'after_structs': '#include "models/fileinfo_stat.h"\n',
    'stubs': {
        'MD5_final': {'params': 'struct MD5 *self, struct md5result *out',
                      'requires': ['__CPROVER_is_fresh(out, sizeof(*out))'], 'assigns': ['*out'], 'ensures': ['out->g_final == 1']},
        'MD5_update': {'params': 'struct MD5 *self, strref data',
                       'requires': [('P:C13', 'data.ptr == (const char *)g_upd_buf && data.len == g_upd_len')], 'assigns': ['g_md5_updates'],
                       'ensures': ['g_md5_updates == OLD(g_md5_updates) + 1']},
        'FileChecksumHasher_update': {'params': 'struct FileChecksumHasher *self, const uint8_t *buffer, size_t bytesRead',
                       # every chunk read from the file is fed to the digest, completely and once
                       'requires': [('P:C13', 'bytesRead == g_last_read && bytesRead > 0 && g_fed + bytesRead == g_fpos')],
                       'assigns': ['g_fed'], 'ensures': ['g_fed == OLD(g_fed) + bytesRead']},
        'FileChecksumHasher_finalize': {'params': 'struct FileChecksumHasher *self',
                       'requires': [('P:C13', 'g_fed == g_fsize && g_fpos == g_fsize && !g_finalized')],
                       'assigns': ['g_finalized'], 'ensures': ['g_finalized == 1']},
    },
    'functions': {
        'FileChecksumHasherMD5::finalize': {
            'requires': ['__CPROVER_is_fresh(self, sizeof(*self))'], 'assigns': ['self->output'],
            # the digest that copy() hands out is the finalised digest of what was fed
            'ensures': [('P:C13', 'self->output.g_final == 1')]},
        'FileChecksumHasherMD5::copy': {
            'requires': ['__CPROVER_is_fresh(self, sizeof(*self))', '__CPROVER_is_fresh(outputBuffer, 32)', 'g_j < 16'],
            'assigns': ['__CPROVER_object_upto(outputBuffer, 16)'],
            'ensures': [('P:C13', 'outputBuffer[g_j] == self->output.Bytes.e[g_j]')]},
        'FileChecksumHasherMD5::update': {
            'requires': ['__CPROVER_is_fresh(self, sizeof(*self))', 'g_upd_buf == buffer && g_upd_len == bytesRead', 'g_md5_updates == 0'],
            'assigns': ['g_md5_updates'], 'ensures': [('P:C13', 'g_md5_updates == 1')]},
        'FileChecksumHasher::readAndDigest': {
            'requires': ['__CPROVER_is_fresh(self, sizeof(*self))', '__CPROVER_is_fresh(self->path, sizeof(vstr))',
                         'g_fed == 0 && g_fpos == 0 && !g_finalized'],
            'assigns': ['self->file', 'g_fed', 'g_fpos', 'g_finalized', 'g_last_read'],
            'ensures': [('P:C13', '(RESULT != 0) == (g_file_ok != 0)'),
                        ('P:C13', 'RESULT ==> (g_finalized && g_fed == g_fsize)'),
                        ('P:C13', '!RESULT ==> (!g_finalized && g_fed == 0)')],
            'loops': {0: {'assigns': ['bytesRead', 'g_fed', 'g_fpos', 'g_last_read'],
                          'invariant': ['g_fed == g_fpos && g_fpos <= g_fsize && !g_finalized'], 'decreases': 'g_fsize - g_fpos'}},
        },
        'FileInfo::isDirectory': {
            'requires': ['__CPROVER_is_fresh(self, sizeof(*self))'], 'assigns': [],
            'ensures': [('P:C13', '(RESULT != 0) == ((self->mode & 0040000) != 0)')], 'inline_in_callers': True},
        'FileChecksum::getChecksumForPath': {
            'requires': ['__CPROVER_is_fresh(path, sizeof(*path))', 'g_stat_calls == 0', 'g_fed == 0 && g_fpos == 0 && !g_finalized', 'g_k < 32', 'g_j < 16'],
            'assigns': ['g_stat_calls', 'g_used_lstat', 'g_fed', 'g_fpos', 'g_finalized', 'g_last_read'],
            'ensures': [
                ('P:C13', 'g_stat_rc != 0 ==> RESULT.bytes[g_k] == 0'),                                     # missing: all zero
                ('P:C13', '(g_stat_rc == 0 && (g_st.st_mode & 0040000) != 0) ==> RESULT.bytes[0] == 1'),      # directory marker
                ('P:C13', '(g_stat_rc == 0 && (g_st.st_mode & 0040000) == 0 && g_file_ok) ==> (g_finalized && g_fed == g_fsize)'),  # whole content digested
                ('P:C13', '(g_stat_rc == 0 && (g_st.st_mode & 0040000) == 0 && !g_file_ok) ==> RESULT.bytes[g_k] == 0'),
                ('P:C13', '!g_used_lstat'),                                                                    # follows symbolic links
            ],
        },
        'FileTimestamp::operator==': {
            'cname': 'FileTimestamp_eq', 'requires': TWO, 'assigns': [],
            'ensures': [('P:C13,P:C08', '(RESULT != 0) == (self->seconds == rhs->seconds && self->nanoseconds == rhs->nanoseconds)')],
            'inline_in_callers': True},
        'FileChecksum::operator==': {
            'cname': 'FileChecksum_eq', 'requires': TWO, 'assigns': [],
            'ensures': [('P:C13', '(RESULT != 0) == (%s)' % CK_EQ)],
            'inline_in_callers': True},
        'FileInfo::isMissing': {
            'requires': ['__CPROVER_is_fresh(self, sizeof(*self))'], 'assigns': [],
            'ensures': [('P:C13', '(RESULT != 0) == (self->device == 0 && self->inode == 0 && self->mode == 0 && self->size == 0 && self->modTime.seconds == 0 && self->modTime.nanoseconds == 0)')],
            'inline_in_callers': True},
        'FileInfo::operator==': {
            'cname': 'FileInfo_eq', 'requires': TWO, 'assigns': [],
            # two observations compare equal exactly when device, inode, size, both time fields and all checksum bytes agree
            'ensures': [('P:C13,P:C08', '(RESULT != 0) == (self->device == rhs->device && self->inode == rhs->inode && self->size == rhs->size && '
                         'self->modTime.seconds == rhs->modTime.seconds && self->modTime.nanoseconds == rhs->modTime.nanoseconds && %s)' % BYTES_EQ)]},
        'FileInfo::operator!=': {
            'cname': 'FileInfo_ne', 'requires': TWO, 'assigns': [],
            'ensures': [('P:C13,P:C08', '(RESULT != 0) == !(self->device == rhs->device && self->inode == rhs->inode && self->size == rhs->size && '
                         'self->modTime.seconds == rhs->modTime.seconds && self->modTime.nanoseconds == rhs->modTime.nanoseconds && %s)' % BYTES_EQ)],
            'replace_unit_callees': False},
        'FileInfo::getInfoForPath': {
            'requires': ['__CPROVER_is_fresh(path, sizeof(*path))', 'g_stat_calls == 0'],
            'assigns': ['g_stat_calls', 'g_used_lstat'],
            'ensures': [
                ('P:C13', 'g_stat_calls == 1 && (g_used_lstat != 0) == (asLink != 0)'),
                # a path that cannot be stat'ed is the all-zero missing record
                ('P:C13', 'g_stat_rc != 0 ==> (%s)' % ZERO6),
                # an existing object is never the missing record, and its fields are the stat fields
                ('P:C13', 'g_stat_rc == 0 ==> !(%s)' % ZERO6),
                ('P:C13', 'g_stat_rc == 0 ==> (RESULT.device == g_st.st_dev && RESULT.inode == g_st.st_ino && RESULT.mode == g_st.st_mode && '
                          'RESULT.size == (uint64_t)g_st.st_size && RESULT.modTime.seconds == (uint64_t)g_st.st_mtim.tv_sec)'),
                ('P:C13', 'g_stat_rc == 0 ==> (RESULT.modTime.nanoseconds == (uint64_t)g_st.st_mtim.tv_nsec || '
                          '(g_st.st_dev == 0 && g_st.st_ino == 0 && g_st.st_mode == 0 && g_st.st_size == 0 && g_st.st_mtim.tv_sec == 0 && g_st.st_mtim.tv_nsec == 0 && RESULT.modTime.nanoseconds == 1))'),
            ],
        },
    },
}
