"""U-ninja-task-step: the update-if-newer step of buildCommand()::NinjaCommandTask::inputsAvailable (lib/Commands/NinjaBuildCommand.cpp) -- C18:
"a changed command line re-runs its command".  canUpdateIfNewerWithResult and computeCommandResult are assumed contracts here (the former is proved
in U-ninja-task; the step lives in a unit of its own because a function cannot be both under proof and assumed in one translation unit)."""
import copy
from units import ninja_task as _t

KIND = _t.KIND
UNIT = copy.deepcopy({k: v for k, v in _t.UNIT.items() if k not in ('functions',)})
UNIT['name'] = 'ninja_task_step'
UNIT['need_enums'] = ['BuildValue::BuildValueKind', 'basic::ProcessStatus']
UNIT['dumps'] = list(UNIT['dumps']) + ['basic::ProcessResult', 'basic::ProcessStatus']
UNIT['no_translate'] = list(UNIT['no_translate']) + ['processDiscoveredDependencies', 'incrementFailedCommands']
UNIT['calls'] = dict(UNIT['calls'], **{'m:BuildContext::incrementFailedCommands': 'ctx_incr_failed', 'fn:makeFailedCommand': 'bv_failed', 'm:BuildValue::makeFailedCommand': 'bv_failed'})
UNIT.update({
    'stubs': {
        'NinjaCommandTask_processDiscoveredDependencies': {'ret': '_Bool', 'params': 'struct NinjaCommandTask *self, struct TaskInterface ti', 'requires': [], 'assigns': ['g_deps_calls'],
                                                          'ensures': ['g_deps_calls == OLD(g_deps_calls) + 1 && (RESULT != 0) == (g_deps_ok != 0)']},
        'NinjaCommandTask_computeCommandResult': {'ret': 'struct BuildValue', 'params': 'struct NinjaCommandTask *self, struct CommandSignature commandHash', 'requires': [], 'assigns': ['g_computes'],
                                                  'ensures': ['g_computes == OLD(g_computes) + 1 && RESULT.kind == %sSuccessfulCommand && RESULT.commandHash.value == commandHash.value && RESULT.numOutputInfos == g_nout && g_nout <= NO' % KIND]},
        'NinjaCommandTask_canUpdateIfNewerWithResult': {'ret': '_Bool', 'params': 'struct NinjaCommandTask *self, struct BuildValue result', 'requires': [], 'assigns': ['g_can_calls'],
                                                        'ensures': ['g_can_calls == OLD(g_can_calls) + 1 && (RESULT != 0) == (g_can_answer != 0)']},
    },
})
UNIT['functions'] = {
        # `if (canUpdateIfNewer) { ... }` of inputsAvailable: a command is brought up to date without running only if that is still allowed, it is a generator command or
        # its command line is the one of the stored successful result ("a changed command line re-runs its command"), and canUpdateIfNewerWithResult agrees
        'NinjaCommandTask::inputsAvailable#update': {
            'of': 'NinjaCommandTask::inputsAvailable', 'cname': 'NinjaCommandTask_inputsAvailable_update_step',
            'segment': {'kind': 'IfStmt', 'mentions': ['canUpdateIfNewer', 'hasGeneratorFlag', 'priorCommandHash', 'computeCommandResult', 'canUpdateIfNewerWithResult', 'numCommandsUpdated'], 'exits': True},
            'requires': ['__CPROVER_is_fresh(self, sizeof(*self))', '__CPROVER_is_fresh(self->context, sizeof(*self->context))', '__CPROVER_is_fresh(self->command, sizeof(*self->command))', '__CPROVER_is_fresh(__seg_exit, sizeof(int))',
                         '__CPROVER_is_fresh(commandHash, sizeof(*commandHash))', 'g_computes == 0 && g_can_calls == 0 && g_completes == 0', 'self->context->numCommandsUpdated < 1000000'],
            'assigns': ['*__seg_exit', 'self->canUpdateIfNewer', 'self->context->numCommandsUpdated', 'g_computes', 'g_can_calls', 'g_completes', 'g_complete_kind', 'g_complete_hash', 'g_complete_force', 'g_tv_kind', 'g_tv_hash'],
            'ensures': [
                ('P:C18', '(*__seg_exit == 1) == (OLD(self->canUpdateIfNewer) && (self->command->g_generator || (self->hasPriorResult && self->priorCommandHash.value == commandHash->value)) && g_can_answer)'),
                ('P:C18', '(*__seg_exit == 1) ? (g_completes == 1 && g_complete_kind == %sSuccessfulCommand && g_complete_hash == commandHash->value && !g_complete_force && self->context->numCommandsUpdated == OLD(self->context->numCommandsUpdated) + 1) '
                          ': (g_completes == 0 && self->context->numCommandsUpdated == OLD(self->context->numCommandsUpdated))' % KIND),
                ('P:C18', '!OLD(self->canUpdateIfNewer) ==> (g_computes == 0 && g_can_calls == 0)'),
            ]},
    # `if (command->getRule() == context.manifest->getPhonyRule()) { ... return ti.complete(result.toValue(), forceChange); }`: a phony command completes with its
    # outputs' current state; the change is forced through to its dependents exactly when some output is missing
    'NinjaCommandTask::inputsAvailable#phony': {
        'of': 'NinjaCommandTask::inputsAvailable', 'cname': 'NinjaCommandTask_inputsAvailable_phony_step',
        'segment': {'kind': 'IfStmt', 'mentions': ['getPhonyRule', 'forceChange', 'computeCommandResult', 'isMissing'], 'exits': True},
        'requires': ['__CPROVER_is_fresh(self, sizeof(*self))', '__CPROVER_is_fresh(self->context, sizeof(*self->context))', '__CPROVER_is_fresh(self->context->manifest, sizeof(*self->context->manifest))',
                     '__CPROVER_is_fresh(self->command, sizeof(*self->command))', '__CPROVER_is_fresh(__seg_exit, sizeof(int))',
                     '__CPROVER_is_fresh(commandHash, sizeof(*commandHash))', 'g_computes == 0 && g_completes == 0', 'g_nout <= NO'],
        'assigns': ['*__seg_exit', 'g_computes', 'g_completes', 'g_complete_kind', 'g_complete_hash', 'g_complete_force', 'g_tv_kind', 'g_tv_hash'],
        'ensures': [
            ('P:C18', '(*__seg_exit == 1) == (self->command->g_rule == self->context->manifest->g_phony)'),
            ('P:C18', '(*__seg_exit == 1) ==> (g_completes == 1 && g_computes == 1 && g_complete_kind == %sSuccessfulCommand && '
                      '(g_complete_force != 0) == ((g_nout > 0 && g_info[0].missing) || (g_nout > 1 && g_info[1].missing) || (g_nout > 2 && g_info[2].missing) || (g_nout > 3 && g_info[3].missing)))' % KIND),
            ('P:C18', '(*__seg_exit != 1) ==> (g_completes == 0 && g_computes == 0)'),
        ],
        'loops': {0: {'assigns': ['i', 'forceChange'], 'invariant': ['i <= e && e == g_nout && !forceChange && !((0 < i && g_info[0].missing) || (1 < i && g_info[1].missing) || (2 < i && g_info[2].missing) || (3 < i && g_info[3].missing))'], 'decreases': 'e - i'}},
    },
    # in the process-completion callback: a command that ran successfully but whose discovered dependencies cannot be processed counts as a FAILED command (the count is what
    # stops the build, order-only dependents included) and completes as failed with the change forced
    'NinjaCommandTask::executeCommand#depsfail': {
        'of': 'NinjaCommandTask::executeCommand', 'cname': 'NinjaCommandTask_executeCommand_depsfail_step',
        'segment': {'kind': 'IfStmt', 'mentions': ['processDiscoveredDependencies', 'makeFailedCommand'], 'exits': True},
        'requires': ['__CPROVER_is_fresh(self, sizeof(*self))', '__CPROVER_is_fresh(self->context, sizeof(*self->context))', '__CPROVER_is_fresh(__seg_exit, sizeof(int))', '__CPROVER_is_fresh(ti, sizeof(*ti))',
                     'g_completes == 0 && g_failed_incr == 0 && g_deps_calls == 0'],
        'assigns': ['*__seg_exit', 'g_completes', 'g_complete_kind', 'g_complete_hash', 'g_complete_force', 'g_tv_kind', 'g_tv_hash', 'g_failed_incr', 'g_deps_calls'],
        'ensures': [('P:C18', 'g_deps_calls == 1'),
                    ('P:C18', 'g_deps_ok ? (*__seg_exit == 0 && g_completes == 0 && g_failed_incr == 0) : (*__seg_exit == 1 && g_failed_incr == 1 && g_completes == 1 && g_complete_kind == %sFailedCommand && g_complete_force)' % KIND)],
    },
}
