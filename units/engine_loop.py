"""U-eng-loop: the phases of BuildEngineImpl::executeTasks (lib/Core/BuildEngine.cpp), each loop body verified as one step
(a segment): C06 (task protocol: provideValue / inputsAvailable), C01 / C02 (dependency recording, result hand-over), C03."""
import copy
from units import engine as _e

S = _e.S
_b = copy.deepcopy(_e.UNIT)
UNIT = {k: v for k, v in _b.items() if k not in ('functions',)}
UNIT['name'] = 'engine_loop'
UNIT['need_fields'] = {'BuildEngineImpl': ['taskInfosMutex', 'finishedTaskInfosMutex', 'inputRequestsMutex', 'numOutstandingUnfinishedTasks', 'readyTaskInfos', 'finishedInputRequests', 'inputRequests', 'finishedTaskInfos', 'ruleInfosToScan', 'currentEpoch', 'db', 'delegate']}
UNIT['after_structs'] = _b['after_structs'] + 'struct BuildEngineImpl_TaskInputRequest g_req; unsigned g_provided;\n'
UNIT['call_patterns'] = list(_b.get('call_patterns', [])) + [(r'c:.*value_type\(const .*(TaskInputRequest|RuleScanRequest) &\)', '(*$0)'), (r'c:(BuildEngineImpl::)?(TaskInputRequest|RuleScanRequest)\(const .*&\)', '(*$0)')]
UNIT['drop_locals'] = _b.get('drop_locals', []) + [r'TracingEngineQueueItemEvent']
UNIT['calls'] = dict(_b['calls'], **{
    'm:@vec_TaskInfoPtr::front': '(*vec_TaskInfoPtr_front($o))', 'm:@vec_TaskInfoPtr::pop_front': 'vec_TaskInfoPtr_pop_front', 'm:@vec_TaskInfoPtr::empty': 'vec_TaskInfoPtr_empty',
    'm:@vec_TaskInfoPtr::back': '(*vec_TaskInfoPtr_back($o))', 'm:@vec_TaskInfoPtr::pop_back': 'vec_TaskInfoPtr_pop_back',
    'm:@vec_TaskInputRequest::back': '(*vec_TaskInputRequest_back($o))', 'm:@vec_TaskInputRequest::pop_back': 'vec_TaskInputRequest_pop_back', 'm:@vec_TaskInputRequest::empty': 'vec_TaskInputRequest_empty',
    'm:@vec_TaskInputRequest::front': '(*vec_TaskInputRequest_front($o))', 'm:@vec_TaskInputRequest::pop_front': 'vec_TaskInputRequest_pop_front',
})
KEEP = []
UNIT['stubs'] = dict({k: v for k, v in _b['stubs'].items() if k in KEEP}, **{
    'Task_provideValue': {
        'params': 'struct Task *self, struct TaskInterface ti, uintptr_t inputID, struct KeyType *key, vbytes value',
        # a requested input is provided to the task that requested it, under the id it chose, before inputs-available, with the input rule's
        # key and current value, and only once that rule is complete in this build (or its prior value was asked for explicitly)
        'requires': [('P:C06', '(self->g_tstate == 1 || self->g_tstate == 2) && ti.impl == (void *)g_engine && ti.ctx == (void *)self && g_taskinfo->task == self'),
                     ('P:C06', 'inputID == g_req.inputID && !g_req.orderOnly && g_req.taskInfo == g_taskinfo'),
                     ('P:C06,P:C01', 'key == &g_req.inputRuleInfo->rule->key && value.ptr == g_req.inputRuleInfo->result.value.ptr && value.len == g_req.inputRuleInfo->result.value.len'),
                     ('P:C06,P:C01', 'g_req.forcePriorValue || (g_req.inputRuleInfo->state == %sComplete && g_req.inputRuleInfo->result.builtAt == g_engine->currentEpoch)' % S)],
        'assigns': ['g_provided'], 'ensures': ['g_provided == OLD(g_provided) + 1']},
    'Task_inputsAvailable': {
        'params': 'struct Task *self, struct TaskInterface ti',
        # inputs-available is delivered once, after start, only when nothing the task requested is outstanding, with the rule computing
        'requires': [('P:C06', '(self->g_tstate == 1 || self->g_tstate == 2) && ti.impl == (void *)g_engine && ti.ctx == (void *)self'),
                     ('P:C06', 'g_taskinfo->task == self && g_taskinfo->waitCount == 0 && g_taskinfo->forRuleInfo->state == %sInProgressComputing' % S)],
        'assigns': ['self->g_tstate'], 'ensures': ['self->g_tstate == 3']},
})
TI = 'self->readyTaskInfos.ptr[0]'
FR = 'self->finishedInputRequests.ptr[self->finishedInputRequests.len - 1]'
READYQ = ['VEC_OK(self->readyTaskInfos, struct BuildEngineImpl_TaskInfo *)', 'self->readyTaskInfos.len < self->readyTaskInfos.cap']
UNIT['functions'] = {
    'RuleInfo::setComputing': _b['functions'].get('RuleInfo::setComputing') or {
        'requires': ['__CPROVER_is_fresh(self, sizeof(*self))'], 'assigns': ['self->state', 'self->result.start'],
        'ensures': ['self->state == %sInProgressComputing' % S], 'inline_in_callers': True},
    # body of `while (!readyTaskInfos.empty())`: one ready task is told that its inputs are available
    'BuildEngineImpl::executeTasks#ready': {
        'of': 'BuildEngineImpl::executeTasks', 'cname': 'BuildEngineImpl_executeTasks_ready_step',
        'segment': {'kind': 'CompoundStmt', 'mentions': ['readyTaskInfos', 'inputsAvailable', 'setComputing', 'numOutstandingUnfinishedTasks'], 'excludes': ['finishedInputRequests', 'finishedTaskInfos']},
        'requires': ['__CPROVER_is_fresh(self, sizeof(*self))', 'g_engine == self', '__CPROVER_is_fresh(didWork, sizeof(*didWork))',
                     'VEC_OK(self->readyTaskInfos, struct BuildEngineImpl_TaskInfo *) && self->readyTaskInfos.len > 0',
                     '__CPROVER_is_fresh(g_taskinfo, sizeof(struct BuildEngineImpl_TaskInfo))', '__CPROVER_pointer_in_range_dfcc(g_taskinfo, %s, g_taskinfo)' % TI,
                     '__CPROVER_is_fresh(g_taskinfo->forRuleInfo, sizeof(struct BuildEngineImpl_RuleInfo))', '__CPROVER_is_fresh(g_taskinfo->task, sizeof(struct Task))',
                     # queue invariant (established by demandRule / decrementTaskWaitCount): a queued task waits for nothing and its rule is waiting on it
                     'g_taskinfo->waitCount == 0 && g_taskinfo->forRuleInfo->state == %sInProgressWaiting && PTI(g_taskinfo->forRuleInfo) == g_taskinfo' % S,
                     'g_taskinfo->task->g_tstate == 1 || g_taskinfo->task->g_tstate == 2', 'self->numOutstandingUnfinishedTasks < 4000000000u'],
        'assigns': ['*didWork', 'self->readyTaskInfos', 'self->numOutstandingUnfinishedTasks', 'g_taskinfo->forRuleInfo->state', 'g_taskinfo->forRuleInfo->result.start', 'g_taskinfo->task->g_tstate'],
        'ensures': [
            ('P:C06', 'g_taskinfo->task->g_tstate == 3 && g_taskinfo->forRuleInfo->state == %sInProgressComputing' % S),
            # the task now counts as outstanding until it reports (cancellation and the blocking step wait for exactly these)
            ('P:C06,P:C05', 'self->numOutstandingUnfinishedTasks == OLD(self->numOutstandingUnfinishedTasks) + 1'),
            # first in, first out: the task taken is the front, the rest keeps its order
            ('P:C06', 'self->readyTaskInfos.len == OLD(self->readyTaskInfos.len) - 1 && self->readyTaskInfos.ptr == OLD(self->readyTaskInfos.ptr) + 1'),
            ('P:C06,P:C07', '*didWork != 0'),
        ],
    },
    'BuildEngineImpl::decrementTaskWaitCount': _b['functions']['BuildEngineImpl::decrementTaskWaitCount'],
    # body of `while (!finishedInputRequests.empty())`: one satisfied input request is delivered to the task that made it
    'BuildEngineImpl::executeTasks#provide': {
        'of': 'BuildEngineImpl::executeTasks', 'cname': 'BuildEngineImpl_executeTasks_provide_step',
        'segment': {'kind': 'CompoundStmt', 'mentions': ['finishedInputRequests', 'provideValue', 'decrementTaskWaitCount', 'didWork'], 'excludes': ['readyTaskInfos', 'finishedTaskInfos', 'inputRequests']},
        'requires': ['__CPROVER_is_fresh(self, sizeof(*self))', 'g_engine == self', '__CPROVER_is_fresh(didWork, sizeof(*didWork))',
                     'VEC_OK(self->finishedInputRequests, struct BuildEngineImpl_TaskInputRequest) && self->finishedInputRequests.len > 0'] + READYQ + [
                     '__CPROVER_is_fresh(g_taskinfo, sizeof(struct BuildEngineImpl_TaskInfo))', '__CPROVER_pointer_in_range_dfcc(g_taskinfo, %s.taskInfo, g_taskinfo)' % FR,
                     '__CPROVER_is_fresh(g_ri_b, sizeof(struct BuildEngineImpl_RuleInfo))', '__CPROVER_pointer_in_range_dfcc(g_ri_b, %s.inputRuleInfo, g_ri_b)' % FR,
                     '__CPROVER_is_fresh(g_ri_b->rule, sizeof(struct Rule))', '__CPROVER_is_fresh(g_taskinfo->task, sizeof(struct Task))',
                     'g_req.taskInfo == g_taskinfo && g_req.inputRuleInfo == g_ri_b && g_req.inputID == %s.inputID && (g_req.orderOnly != 0) == (%s.orderOnly != 0) && (g_req.forcePriorValue != 0) == (%s.forcePriorValue != 0)' % (FR, FR, FR),
                     # queue invariants: the request is counted in its task's wait count; its input is complete in this build unless the prior value was asked for or it is order-only
                     'g_taskinfo->waitCount >= 1', 'g_taskinfo->task->g_tstate == 1 || g_taskinfo->task->g_tstate == 2',
                     '%s.forcePriorValue || %s.orderOnly || (g_ri_b->state == %sComplete && g_ri_b->result.builtAt == self->currentEpoch)' % (FR, FR, S), 'g_provided == 0'],
        'assigns': ['*didWork', 'self->finishedInputRequests.len', 'g_provided', 'g_taskinfo->waitCount', 'self->readyTaskInfos.len', '__CPROVER_object_whole(self->readyTaskInfos.ptr)'],
        'ensures': [
            # exactly one delivery for a value request, none for a must-follow request
            ('P:C06', 'g_provided == (g_req.orderOnly ? 0 : 1)'),
            ('P:C06', 'self->finishedInputRequests.len == OLD(self->finishedInputRequests.len) - 1 && g_taskinfo->waitCount == OLD(g_taskinfo->waitCount) - 1'),
            # the task becomes ready exactly when this was its last outstanding request
            ('P:C06', '(g_taskinfo->waitCount == 0) ? (self->readyTaskInfos.len == OLD(self->readyTaskInfos.len) + 1 && self->readyTaskInfos.ptr[self->readyTaskInfos.len - 1] == g_taskinfo) : (self->readyTaskInfos.len == OLD(self->readyTaskInfos.len))'),
            ('P:C06,P:C07', '*didWork != 0'),
        ],
    },
}
UNIT = _e._views(UNIT)
