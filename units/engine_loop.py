"""U-eng-loop: the phases of BuildEngineImpl::executeTasks (lib/Core/BuildEngine.cpp), each loop body verified as one step
(a segment): C06 (task protocol: provideValue / inputsAvailable), C01 / C02 (dependency recording, result hand-over), C03."""
import copy
from units import engine as _e

S = _e.S


def _peel(n):
    while n.get('kind') in ('ImplicitCastExpr', 'ParenExpr', 'MaterializeTemporaryExpr', 'CXXBindTemporaryExpr', 'ExprWithCleanups', 'CXXConstructExpr') and len(n.get('inner', [])) == 1:
        n = n['inner'][0]
    return n


def _container_of(tr, node):
    """the container expression x of an iterator expression x.begin() / x.end()"""
    n = _peel(node)
    if n.get('kind') == 'CXXMemberCallExpr' and n['inner'][0].get('kind') == 'MemberExpr' and n['inner'][0].get('name') in ('begin', 'end'):
        return tr.addr(tr.expr(n['inner'][0]['inner'][0]))
    raise Exception('iterator expression is not x.begin() / x.end()')


def _insert_range(tr, n, obj, args, argnodes):
    """v.insert(v.end(), w.begin(), w.end()): append the whole of w to v"""
    dst, a, b = _container_of(tr, argnodes[0]), _container_of(tr, argnodes[1]), _container_of(tr, argnodes[2])
    if dst != obj or a != b:
        raise Exception('insert is not an append of a whole container')
    return 'verif_append_requests(%s, %s)' % (obj, a)

_b = copy.deepcopy(_e.UNIT)
UNIT = {k: v for k, v in _b.items() if k not in ('functions',)}
UNIT['name'] = 'engine_loop'
UNIT['need_fields'] = {'BuildEngineImpl': ['taskInfosMutex', 'finishedTaskInfosMutex', 'inputRequestsMutex', 'numOutstandingUnfinishedTasks', 'readyTaskInfos', 'finishedInputRequests', 'inputRequests', 'finishedTaskInfos', 'ruleInfosToScan', 'currentEpoch', 'db', 'delegate']}
UNIT['after_structs'] = _b['after_structs'] + 'struct BuildEngineImpl_TaskInputRequest g_req; unsigned g_provided;\n#include "models/engine_loop.h"\n'
UNIT['call_patterns'] = list(_b.get('call_patterns', [])) + [(r'c:Twine\(.*\)', '((void *)($0, 0))'), (r'c:.*(unordered_map<Task \*.*>::iterator|_Node_iterator<.*)\(.*\)', '$0'), (r'c:.*value_type\(const .*(TaskInputRequest|RuleScanRequest) &\)', '(*$0)'), (r'c:(BuildEngineImpl::)?(TaskInputRequest|RuleScanRequest)\(const .*&\)', '(*$0)')]
UNIT['type_patterns'] = list(_b.get('type_patterns', [])) + [
    (r'(std::)?unordered_map<Task \*, (BuildEngineImpl::)?TaskInfo.*>::iterator', 'struct taskmap_it'), (r'(std::)?(__detail::)?_Node_iterator<(std::)?pair<Task \*const, .*', 'struct taskmap_it'),
    (r'(std::)?unordered_map<Task \*, (BuildEngineImpl::)?TaskInfo.*>', 'struct taskmap')]
UNIT['by_value'] = list(_b.get('by_value', [])) + ['struct taskmap_it']
UNIT['predefined_structs'] = list(_b.get('predefined_structs', [])) + ['taskmap', 'taskmap_it']
UNIT['prelude'] = _b['prelude'] + 'struct taskmap { size_t n; }; struct taskmap_it { struct Task *task; };\n'
UNIT['types'] = dict(_b['types'], **{'std::string': 'vstr', 'string': 'vstr', 'basic_string<char>': 'vstr', 'Twine': 'void *', 'llvm::Twine': 'void *'})
UNIT['by_pointer'] = list(_b.get('by_pointer', [])) + ['vstr']
UNIT['no_translate'] = list(_b.get('no_translate', [])) + ['getKeyID', 'abort', 'scanRule', 'demandRule', 'getPendingScanRecord', 'getPendingTaskInfo', 'cancelRemainingTasks', 'append', 'setRuleResult', 'updateStatus']


def _rule_for_key(tr, n, obj, args, argnodes):
    """getRuleInfoForKey(KeyID) -- the model of unit engine -- or getRuleInfoForKey(const KeyType&): the record the key text maps to (ghost g_ri_b)"""
    t = tr.ntype(argnodes[0])
    if 'KeyID' in t.base:
        return '(*BuildEngineImpl_getRuleInfoForKey(%s, %s))' % (obj, tr.expr(argnodes[0]))
    return '(*verif_rule_for_key_text(%s, %s))' % (obj, tr.addr(tr.expr(argnodes[0])))


UNIT['globals'] = dict(_b.get('globals', {}), kMaximumInputID='(~(uintptr_t)0xFF)', kMustFollowInputID='(~(uintptr_t)0)')
UNIT['drop_locals'] = _b.get('drop_locals', []) + [r'TracingEngineQueueItemEvent']
UNIT['calls'] = dict(_b['calls'], **{
    'm:@vec_TaskInfoPtr::front': '(*vec_TaskInfoPtr_front($o))', 'm:@vec_TaskInfoPtr::pop_front': 'vec_TaskInfoPtr_pop_front', 'm:@vec_TaskInfoPtr::empty': 'vec_TaskInfoPtr_empty',
    'm:@vec_TaskInfoPtr::back': '(*vec_TaskInfoPtr_back($o))', 'm:@vec_TaskInfoPtr::pop_back': 'vec_TaskInfoPtr_pop_back',
    'm:@vec_TaskInputRequest::back': '(*vec_TaskInputRequest_back($o))', 'm:@vec_TaskInputRequest::pop_back': 'vec_TaskInputRequest_pop_back', 'm:@vec_TaskInputRequest::empty': 'vec_TaskInputRequest_empty',
    'm:@vec_TaskInputRequest::insert': _insert_range, 'm:@struct taskmap::find': ('verif_taskinfos_find', 'v'), 'm:@struct taskmap::erase': ('verif_taskinfos_erase', 'v'),
    'm:DependencyKeyIDs::append': 'DependencyKeyIDs_append', 'range:@struct DependencyKeyIDs': ('DependencyKeyIDs_size', 'verif_deps_at'),
    'm:DependencyKeyIDs::push_back': ('DependencyKeyIDs_push_back3', 'vvv'), 'm:RuleInfo::getPendingScanRecord': 'verif_pending_scan_record', 'm:BuildEngineImpl::RuleInfo::getPendingScanRecord': 'verif_pending_scan_record',
    'm:RuleInfo::getPendingTaskInfo': 'verif_pending_task_info', 'm:BuildEngineImpl::RuleInfo::getPendingTaskInfo': 'verif_pending_task_info',
    'm:BuildEngineImpl::getRuleInfoForKey': _rule_for_key, 'fn:abort': 'verif_abort', 'm:BuildEngineImpl::getKeyID': 'verif_key_id',
    'm:@vec_TaskInputRequest::front': '(*vec_TaskInputRequest_front($o))', 'm:@vec_TaskInputRequest::pop_front': 'vec_TaskInputRequest_pop_front',
})
KEEP = []
UNIT['stubs'] = dict({k: v for k, v in _b['stubs'].items() if k in KEEP}, **{
    'Rule_updateStatus': {'params': 'struct Rule *self, struct BuildEngine *engine, int status', 'requires': [], 'assigns': ['g_status_updates'], 'ensures': ['1']},
    # DependencyKeyIDs::append (include/llbuild/Core/DependencyKeyIDs.h, two vector inserts): assumed -- appends the other list in order
    'DependencyKeyIDs_append': {'params': 'struct DependencyKeyIDs *self, struct DependencyKeyIDs *rhs',
                                'requires': ['self->items.len + rhs->items.len <= self->items.cap'], 'assigns': ['self->items.len', '__CPROVER_object_whole(self->items.ptr)'],
                                'ensures': ['self->items.len == OLD(self->items.len) + rhs->items.len',
                                            '(g_k < rhs->items.len) ==> (self->items.ptr[OLD(self->items.len) + g_k].keyID._value == rhs->items.ptr[g_k].keyID._value && (self->items.ptr[OLD(self->items.len) + g_k].orderOnly != 0) == (rhs->items.ptr[g_k].orderOnly != 0) && (self->items.ptr[OLD(self->items.len) + g_k].singleUse != 0) == (rhs->items.ptr[g_k].singleUse != 0))']},
    # finishedInputRequests.insert(end, requestedBy.begin(), requestedBy.end()) (libstdc++ vector range insert): assumed -- appends in order
    'verif_append_requests': {'params': 'vec_TaskInputRequest *dst, vec_TaskInputRequest *src',
                              'requires': ['dst->len + src->len <= dst->cap'], 'assigns': ['dst->len', '__CPROVER_object_whole(dst->ptr)'],
                              'ensures': ['dst->len == OLD(dst->len) + src->len',
                                          '(g_k < src->len) ==> (dst->ptr[OLD(dst->len) + g_k].taskInfo == src->ptr[g_k].taskInfo && dst->ptr[OLD(dst->len) + g_k].inputID == src->ptr[g_k].inputID && dst->ptr[OLD(dst->len) + g_k].inputRuleInfo == src->ptr[g_k].inputRuleInfo)']},
    'BuildDB_setRuleResult': {'ret': '_Bool', 'params': 'struct BuildDB *self, struct KeyID keyID, struct Rule *rule, struct Result *ruleResult, void *error_out',
                              # what is persisted is the COMPLETED record: after setComplete (this epoch) and after the discovered dependencies were appended
                              'requires': [('P:C03,P:C04,P:C01', 'ruleResult == &g_ri_a->result && g_ri_a->state == %sComplete && ruleResult->builtAt == g_engine->currentEpoch' % S),
                                           ('P:C03,P:C11', 'ruleResult->dependencies.items.len == g_deps_before + g_taskinfo->discoveredDependencies.items.len')],
                              'assigns': ['g_db_writes', 'g_db_result', 'g_db_key'],
                              'ensures': ['g_db_writes == OLD(g_db_writes) + 1 && g_db_result == (const void *)ruleResult && g_db_key == keyID._value && (RESULT != 0) == (g_db_ok != 0)']},
    'BuildEngineImpl_cancelRemainingTasks': {'params': 'struct BuildEngineImpl *self', 'requires': [('P:C05', '!self->finishedTaskInfosMutex.held && !self->taskInfosMutex.held')], 'assigns': ['g_cancels'], 'ensures': ['g_cancels == OLD(g_cancels) + 1']},
    'BuildEngineDelegate_error': {'params': 'struct BuildEngineDelegate *self, void *message', 'requires': [], 'assigns': ['g_errors'], 'ensures': ['g_errors == OLD(g_errors) + 1']},
    # scanRule / demandRule: summaries of the contracts proved in U-eng (unit engine: SCAN_ENS "(RESULT == 0) == isScanning", "RESULT => scanned";
    # DEMAND_ENS "(RESULT != 0) == complete in this epoch", "RESULT == 0 => in progress"); a scanning rule has a scan record, an in-progress rule a task record
    'BuildEngineImpl_scanRule': {'ret': '_Bool', 'params': 'struct BuildEngineImpl *self, struct BuildEngineImpl_RuleInfo *ruleInfo', 'requires': [],
                                 'assigns': ['ruleInfo->state', 'ruleInfo->inProgressInfo', 'g_scans', 'g_scan_rule'],
                                 'ensures': ['g_scans == OLD(g_scans) + 1 && g_scan_rule == ruleInfo && (RESULT != 0) == (g_scan_answer != 0)', '(RESULT == 0) == (ruleInfo->state == BuildEngineImpl_RuleInfo_StateKind_IsScanning)',
                                             '(RESULT != 0) ==> (ruleInfo->state == BuildEngineImpl_RuleInfo_StateKind_NeedsToRun || ruleInfo->state == BuildEngineImpl_RuleInfo_StateKind_DoesNotNeedToRun || ruleInfo->state == BuildEngineImpl_RuleInfo_StateKind_InProgressWaiting || ruleInfo->state == BuildEngineImpl_RuleInfo_StateKind_InProgressComputing || (ruleInfo->state == BuildEngineImpl_RuleInfo_StateKind_Complete && ruleInfo->result.builtAt == self->currentEpoch))']},
    'BuildEngineImpl_demandRule': {'ret': '_Bool', 'params': 'struct BuildEngineImpl *self, struct BuildEngineImpl_RuleInfo *ruleInfo',
                                   'requires': [('P:C02', '(ruleInfo->state == BuildEngineImpl_RuleInfo_StateKind_NeedsToRun || ruleInfo->state == BuildEngineImpl_RuleInfo_StateKind_DoesNotNeedToRun || ruleInfo->state == BuildEngineImpl_RuleInfo_StateKind_InProgressWaiting || ruleInfo->state == BuildEngineImpl_RuleInfo_StateKind_InProgressComputing || (ruleInfo->state == BuildEngineImpl_RuleInfo_StateKind_Complete && ruleInfo->result.builtAt == self->currentEpoch))')],
                                   'assigns': ['ruleInfo->state', 'ruleInfo->inProgressInfo', 'ruleInfo->result.builtAt', 'g_demands', 'g_demand_rule'],
                                   'ensures': ['g_demands == OLD(g_demands) + 1 && g_demand_rule == ruleInfo && (RESULT != 0) == (g_demand_answer != 0)',
                                               '(RESULT != 0) == (ruleInfo->state == BuildEngineImpl_RuleInfo_StateKind_Complete && ruleInfo->result.builtAt == self->currentEpoch)',
                                               '(RESULT == 0) ==> (ruleInfo->state == BuildEngineImpl_RuleInfo_StateKind_InProgressWaiting || ruleInfo->state == BuildEngineImpl_RuleInfo_StateKind_InProgressComputing)']},
    'Task_provideValue': {
        'params': 'struct Task *self, struct TaskInterface ti, uintptr_t inputID, struct KeyType *key, vbytes value',
        # a requested input is provided to the task that requested it, under the id it chose, before inputs-available, with the input rule's
        # key and current value, and only once that rule is complete in this build (or its prior value was asked for explicitly)
        'requires': [('P:C06', '(self->g_tstate == 1 || self->g_tstate == 2) && ti.impl == (void *)g_engine && ti.ctx == (void *)self && g_taskinfo->task == self'),
                     ('P:C06', 'inputID == g_req.inputID && !g_req.orderOnly && g_req.taskInfo == g_taskinfo'),
                     ('P:C06,P:C01', 'key == &g_req.inputRuleInfo->rule->key && value.ptr == g_req.inputRuleInfo->result.value.ptr && value.len == g_req.inputRuleInfo->result.value.len'),
                     ('P:C06,P:C01', 'g_req.forcePriorValue || (g_req.inputRuleInfo->state == %sComplete && g_req.inputRuleInfo->result.builtAt == g_engine->currentEpoch)' % S)],
        'assigns': ['g_provided'], 'ensures': ['g_provided == OLD(g_provided) + 1']},
    'Task_inputsAvailable': {
        'params': 'struct Task *self, struct TaskInterface ti',
        # inputs-available is delivered once, after start, only when nothing the task requested is outstanding, with the rule computing
        'requires': [('P:C06', '(self->g_tstate == 1 || self->g_tstate == 2) && ti.impl == (void *)g_engine && ti.ctx == (void *)self'),
                     ('P:C06', 'g_taskinfo->task == self && g_taskinfo->waitCount == 0 && g_taskinfo->forRuleInfo->state == %sInProgressComputing' % S)],
        'assigns': ['self->g_tstate'], 'ensures': ['self->g_tstate == 3']},
})
TI = 'self->readyTaskInfos.ptr[0]'
FR = 'self->finishedInputRequests.ptr[self->finishedInputRequests.len - 1]'
READYQ = ['VEC_OK(self->readyTaskInfos, struct BuildEngineImpl_TaskInfo *)', 'self->readyTaskInfos.len < self->readyTaskInfos.cap']
UNIT['functions'] = {
    'RuleInfo::setComputing': _b['functions'].get('RuleInfo::setComputing') or {
        'requires': ['__CPROVER_is_fresh(self, sizeof(*self))'], 'assigns': ['self->state', 'self->result.start'],
        'ensures': ['self->state == %sInProgressComputing' % S], 'inline_in_callers': True},
    # body of `while (!readyTaskInfos.empty())`: one ready task is told that its inputs are available
    'BuildEngineImpl::executeTasks#ready': {
        'of': 'BuildEngineImpl::executeTasks', 'cname': 'BuildEngineImpl_executeTasks_ready_step',
        'segment': {'kind': 'CompoundStmt', 'mentions': ['readyTaskInfos', 'inputsAvailable', 'setComputing', 'numOutstandingUnfinishedTasks'], 'excludes': ['finishedInputRequests', 'finishedTaskInfos']},
        'requires': ['__CPROVER_is_fresh(self, sizeof(*self))', 'g_engine == self', '__CPROVER_is_fresh(didWork, sizeof(*didWork))',
                     'VEC_OK(self->readyTaskInfos, struct BuildEngineImpl_TaskInfo *) && self->readyTaskInfos.len > 0',
                     '__CPROVER_is_fresh(g_taskinfo, sizeof(struct BuildEngineImpl_TaskInfo))', '__CPROVER_pointer_in_range_dfcc(g_taskinfo, %s, g_taskinfo)' % TI,
                     '__CPROVER_is_fresh(g_taskinfo->forRuleInfo, sizeof(struct BuildEngineImpl_RuleInfo))', '__CPROVER_is_fresh(g_taskinfo->task, sizeof(struct Task))',
                     # queue invariant (established by demandRule / decrementTaskWaitCount): a queued task waits for nothing and its rule is waiting on it
                     'g_taskinfo->waitCount == 0 && g_taskinfo->forRuleInfo->state == %sInProgressWaiting && PTI(g_taskinfo->forRuleInfo) == g_taskinfo' % S,
                     'g_taskinfo->task->g_tstate == 1 || g_taskinfo->task->g_tstate == 2', 'self->numOutstandingUnfinishedTasks < 4000000000u'],
        'assigns': ['*didWork', 'self->readyTaskInfos', 'self->numOutstandingUnfinishedTasks', 'g_taskinfo->forRuleInfo->state', 'g_taskinfo->forRuleInfo->result.start', 'g_taskinfo->task->g_tstate'],
        'ensures': [
            ('P:C06', 'g_taskinfo->task->g_tstate == 3 && g_taskinfo->forRuleInfo->state == %sInProgressComputing' % S),
            # the task now counts as outstanding until it reports (cancellation and the blocking step wait for exactly these)
            ('P:C06,P:C05', 'self->numOutstandingUnfinishedTasks == OLD(self->numOutstandingUnfinishedTasks) + 1'),
            # first in, first out: the task taken is the front, the rest keeps its order
            ('P:C06', 'self->readyTaskInfos.len == OLD(self->readyTaskInfos.len) - 1 && self->readyTaskInfos.ptr == OLD(self->readyTaskInfos.ptr) + 1'),
            ('P:C06,P:C07', '*didWork != 0'),
        ],
    },
    'BuildEngineImpl::decrementTaskWaitCount': _b['functions']['BuildEngineImpl::decrementTaskWaitCount'],
    # body of `while (!finishedInputRequests.empty())`: one satisfied input request is delivered to the task that made it
    'BuildEngineImpl::executeTasks#provide': {
        'of': 'BuildEngineImpl::executeTasks', 'cname': 'BuildEngineImpl_executeTasks_provide_step',
        'segment': {'kind': 'CompoundStmt', 'mentions': ['finishedInputRequests', 'provideValue', 'decrementTaskWaitCount', 'didWork'], 'excludes': ['readyTaskInfos', 'finishedTaskInfos', 'inputRequests']},
        'requires': ['__CPROVER_is_fresh(self, sizeof(*self))', 'g_engine == self', '__CPROVER_is_fresh(didWork, sizeof(*didWork))',
                     'VEC_OK(self->finishedInputRequests, struct BuildEngineImpl_TaskInputRequest) && self->finishedInputRequests.len > 0'] + READYQ + [
                     '__CPROVER_is_fresh(g_taskinfo, sizeof(struct BuildEngineImpl_TaskInfo))', '__CPROVER_pointer_in_range_dfcc(g_taskinfo, %s.taskInfo, g_taskinfo)' % FR,
                     '__CPROVER_is_fresh(g_ri_b, sizeof(struct BuildEngineImpl_RuleInfo))', '__CPROVER_pointer_in_range_dfcc(g_ri_b, %s.inputRuleInfo, g_ri_b)' % FR,
                     '__CPROVER_is_fresh(g_ri_b->rule, sizeof(struct Rule))', '__CPROVER_is_fresh(g_taskinfo->task, sizeof(struct Task))',
                     'g_req.taskInfo == g_taskinfo && g_req.inputRuleInfo == g_ri_b && g_req.inputID == %s.inputID && (g_req.orderOnly != 0) == (%s.orderOnly != 0) && (g_req.forcePriorValue != 0) == (%s.forcePriorValue != 0)' % (FR, FR, FR),
                     # queue invariants: the request is counted in its task's wait count; its input is complete in this build unless the prior value was asked for or it is order-only
                     'g_taskinfo->waitCount >= 1', 'g_taskinfo->task->g_tstate == 1 || g_taskinfo->task->g_tstate == 2',
                     '%s.forcePriorValue || %s.orderOnly || (g_ri_b->state == %sComplete && g_ri_b->result.builtAt == self->currentEpoch)' % (FR, FR, S), 'g_provided == 0'],
        'assigns': ['*didWork', 'self->finishedInputRequests.len', 'g_provided', 'g_taskinfo->waitCount', 'self->readyTaskInfos.len', '__CPROVER_object_whole(self->readyTaskInfos.ptr)'],
        'ensures': [
            # exactly one delivery for a value request, none for a must-follow request
            ('P:C06', 'g_provided == (g_req.orderOnly ? 0 : 1)'),
            ('P:C06', 'self->finishedInputRequests.len == OLD(self->finishedInputRequests.len) - 1 && g_taskinfo->waitCount == OLD(g_taskinfo->waitCount) - 1'),
            # the task becomes ready exactly when this was its last outstanding request
            ('P:C06', '(g_taskinfo->waitCount == 0) ? (self->readyTaskInfos.len == OLD(self->readyTaskInfos.len) + 1 && self->readyTaskInfos.ptr[self->readyTaskInfos.len - 1] == g_taskinfo) : (self->readyTaskInfos.len == OLD(self->readyTaskInfos.len))'),
            ('P:C06,P:C07', '*didWork != 0'),
        ],
    },
    # body of the finished-task loop: the record of one reported task is completed, persisted and its waiters are woken
    'BuildEngineImpl::executeTasks#finish': {
        'of': 'BuildEngineImpl::executeTasks', 'cname': 'BuildEngineImpl_executeTasks_finish_step',
        'segment': {'kind': 'CompoundStmt', 'mentions': ['finishedTaskInfos', 'setComplete', 'setRuleResult', 'discoveredDependencies', 'taskInfos'], 'excludes': ['readyTaskInfos', 'provideValue'], 'exits': True},
        'unwindset_note': '',
        'requires': ['__CPROVER_is_fresh(self, sizeof(*self))', 'g_engine == self', '__CPROVER_is_fresh(didWork, sizeof(*didWork))', '__CPROVER_is_fresh(__seg_exit, sizeof(int))', '__CPROVER_is_fresh(__seg_retval, sizeof(_Bool))',
                     '__CPROVER_is_fresh(self->delegate, sizeof(*self->delegate))', 'self->db != 0 ==> __CPROVER_is_fresh(self->db, 1)',
                     'VEC_OKN(self->finishedTaskInfos, struct BuildEngineImpl_TaskInfo *, 12)', 'VEC_OKN(self->inputRequests, struct BuildEngineImpl_TaskInputRequest, 12)',
                     'VEC_OKN(self->finishedInputRequests, struct BuildEngineImpl_TaskInputRequest, 12)', 'VEC_OKN(self->ruleInfosToScan, struct BuildEngineImpl_RuleScanRequest, 12)',
                     '__CPROVER_is_fresh(g_taskinfo, sizeof(struct BuildEngineImpl_TaskInfo))',
                     'self->finishedTaskInfos.len > 0 ==> __CPROVER_pointer_in_range_dfcc(g_taskinfo, self->finishedTaskInfos.ptr[self->finishedTaskInfos.len - 1], g_taskinfo)',
                     '__CPROVER_is_fresh(g_ri_a, sizeof(struct BuildEngineImpl_RuleInfo))', '__CPROVER_pointer_in_range_dfcc(g_ri_a, g_taskinfo->forRuleInfo, g_ri_a)',
                     '__CPROVER_is_fresh(g_ri_a->rule, sizeof(struct Rule))', '__CPROVER_is_fresh(g_taskinfo->task, sizeof(struct Task))',
                     # invariants of a reported task: its rule is computing and points back at it
                     'g_ri_a->state == BuildEngineImpl_RuleInfo_StateKind_InProgressComputing && PTI(g_ri_a) == g_taskinfo',
                     'VEC_OKN(g_ri_a->result.dependencies.items, struct KeyIDAndFlags, 12)', 'VEC_OKN(g_taskinfo->discoveredDependencies.items, struct KeyIDAndFlags, 12)',
                     'VEC_OKN(g_taskinfo->requestedBy, struct BuildEngineImpl_TaskInputRequest, 12)', 'VEC_OKN(g_taskinfo->deferredScanRequests, struct BuildEngineImpl_RuleScanRequest, 12)',
                     'g_taskinfo->discoveredDependencies.items.len <= 4 && g_taskinfo->requestedBy.len <= 4 && g_taskinfo->deferredScanRequests.len <= 4',
                     'g_ri_a->result.dependencies.items.len + 4 <= g_ri_a->result.dependencies.items.cap && self->inputRequests.len + 4 <= self->inputRequests.cap',
                     'self->finishedInputRequests.len + 4 <= self->finishedInputRequests.cap && self->ruleInfosToScan.len + 4 <= self->ruleInfosToScan.cap',
                     '!self->finishedTaskInfosMutex.held && !self->inputRequestsMutex.held && !self->taskInfosMutex.held', 'self->numOutstandingUnfinishedTasks >= 1 && self->taskInfos.n >= 1',
                     'g_db_writes == 0 && g_cancels == 0 && g_errors == 0', 'g_k < 4', 'g_deps_before == g_ri_a->result.dependencies.items.len'],
        'assigns': ['*__seg_exit', '*__seg_retval', '*didWork', 'self->finishedTaskInfos.len', 'self->finishedTaskInfosMutex.held', 'self->inputRequestsMutex.held', 'self->taskInfosMutex.held',
                    'g_ri_a->state', 'g_ri_a->inProgressInfo', 'g_ri_a->result.builtAt', 'g_ri_a->result.end', 'g_ri_a->result.dependencies.items.len', '__CPROVER_object_whole(g_ri_a->result.dependencies.items.ptr)',
                    'self->inputRequests.len', '__CPROVER_object_whole(self->inputRequests.ptr)', 'self->finishedInputRequests.len', '__CPROVER_object_whole(self->finishedInputRequests.ptr)',
                    'self->ruleInfosToScan.len', '__CPROVER_object_whole(self->ruleInfosToScan.ptr)', 'self->numOutstandingUnfinishedTasks', 'self->taskInfos.n',
                    'g_db_writes', 'g_db_result', 'g_db_key', 'g_cancels', 'g_errors', 'g_erased_task', 'g_status_updates'],
        'ensures': [
            # nothing reported: the phase ends, nothing changes
            ('P:C06', '(OLD(self->finishedTaskInfos.len) == 0) ==> (*__seg_exit == 3 && self->numOutstandingUnfinishedTasks == OLD(self->numOutstandingUnfinishedTasks) && g_db_writes == 0 && g_ri_a->state == OLD(g_ri_a->state))'),
            # the rule is complete in this build; value, computedAt and signature are those taskIsComplete stored (frame)
            ('P:C01,P:C02', '(OLD(self->finishedTaskInfos.len) != 0) ==> (g_ri_a->state == BuildEngineImpl_RuleInfo_StateKind_Complete && g_ri_a->result.builtAt == self->currentEpoch && PTI(g_ri_a) == 0)'),
            # discovered dependencies are appended, in order, to the recorded ones
            ('P:C01,P:C11', '(OLD(self->finishedTaskInfos.len) != 0) ==> g_ri_a->result.dependencies.items.len == OLD(g_ri_a->result.dependencies.items.len) + g_taskinfo->discoveredDependencies.items.len'),
            ('P:C01,P:C11', '(OLD(self->finishedTaskInfos.len) != 0 && g_k < g_taskinfo->discoveredDependencies.items.len) ==> (g_ri_a->result.dependencies.items.ptr[OLD(g_ri_a->result.dependencies.items.len) + g_k].keyID._value == g_taskinfo->discoveredDependencies.items.ptr[g_k].keyID._value)'),
            # ... and each is demanded in this build (a dummy request without a task), with its flags
            ('P:C11,P:C01', '(OLD(self->finishedTaskInfos.len) != 0 && (self->db == 0 || g_db_ok)) ==> self->inputRequests.len == OLD(self->inputRequests.len) + g_taskinfo->discoveredDependencies.items.len'),
            ('P:C11,P:C01', '(OLD(self->finishedTaskInfos.len) != 0 && g_k < g_taskinfo->discoveredDependencies.items.len) ==> (self->inputRequests.ptr[OLD(self->inputRequests.len) + g_k].taskInfo == 0 && '
                            'self->inputRequests.ptr[OLD(self->inputRequests.len) + g_k].inputRuleInfo == RI_FOR(g_taskinfo->discoveredDependencies.items.ptr[g_k].keyID) && '
                            '(self->inputRequests.ptr[OLD(self->inputRequests.len) + g_k].orderOnly != 0) == (g_taskinfo->discoveredDependencies.items.ptr[g_k].orderOnly != 0) && '
                            '(self->inputRequests.ptr[OLD(self->inputRequests.len) + g_k].singleUse != 0) == (g_taskinfo->discoveredDependencies.items.ptr[g_k].singleUse != 0))'),
            # the completed record is handed to the database exactly once (when one is attached)
            ('P:C03,P:C04,P:C01', '(OLD(self->finishedTaskInfos.len) != 0) ==> (g_db_writes == (self->db != 0 ? 1 : 0) && (self->db == 0 || (g_db_result == (const void *)&g_ri_a->result && g_db_key == g_ri_a->keyID._value)))'),
            # a failed write fails the build after draining; the task is not counted as outstanding while draining
            ('P:C03,P:C05', '(OLD(self->finishedTaskInfos.len) != 0 && self->db != 0 && !g_db_ok) ==> (*__seg_exit == 1 && *__seg_retval == 0 && g_cancels == 1 && g_errors == 1 && self->numOutstandingUnfinishedTasks == OLD(self->numOutstandingUnfinishedTasks) - 1)'),
            # success: every waiter is woken -- requests for this rule's value move to the finished-input queue in order, deferred scans are re-queued
            ('P:C06', '(OLD(self->finishedTaskInfos.len) != 0 && (self->db == 0 || g_db_ok)) ==> (*__seg_exit == 0 && self->finishedInputRequests.len == OLD(self->finishedInputRequests.len) + g_taskinfo->requestedBy.len && '
                      'self->ruleInfosToScan.len == OLD(self->ruleInfosToScan.len) + g_taskinfo->deferredScanRequests.len)'),
            ('P:C06', '(OLD(self->finishedTaskInfos.len) != 0 && (self->db == 0 || g_db_ok) && g_k < g_taskinfo->requestedBy.len) ==> (self->finishedInputRequests.ptr[OLD(self->finishedInputRequests.len) + g_k].taskInfo == g_taskinfo->requestedBy.ptr[g_k].taskInfo && '
                      'self->finishedInputRequests.ptr[OLD(self->finishedInputRequests.len) + g_k].inputID == g_taskinfo->requestedBy.ptr[g_k].inputID)'),
            ('P:C02', '(OLD(self->finishedTaskInfos.len) != 0 && (self->db == 0 || g_db_ok) && g_k < g_taskinfo->deferredScanRequests.len) ==> (self->ruleInfosToScan.ptr[OLD(self->ruleInfosToScan.len) + g_k].ruleInfo == g_taskinfo->deferredScanRequests.ptr[g_k].ruleInfo)'),
            # the task stops counting as outstanding and leaves the task table, under the table's mutex
            ('P:C05,P:C06', '(OLD(self->finishedTaskInfos.len) != 0 && (self->db == 0 || g_db_ok)) ==> (self->numOutstandingUnfinishedTasks == OLD(self->numOutstandingUnfinishedTasks) - 1 && self->taskInfos.n == OLD(self->taskInfos.n) - 1 && g_erased_task == g_taskinfo->task)'),
            ('P:C06', '!self->finishedTaskInfosMutex.held && !self->inputRequestsMutex.held && !self->taskInfosMutex.held'),
            ('P:C06,P:C07', '(OLD(self->finishedTaskInfos.len) != 0) ==> *didWork != 0'),
        ],
        'loops': {
            0: {'assigns': ['$i', 'self->inputRequests.len', '__CPROVER_object_whole(self->inputRequests.ptr)'],
                'invariant': ['$i <= $range->items.len && self->inputRequestsMutex.held && self->inputRequests.len == __CPROVER_loop_entry(self->inputRequests.len) + $i',
                              '(g_k < $i) ==> (self->inputRequests.ptr[__CPROVER_loop_entry(self->inputRequests.len) + g_k].taskInfo == 0 && '
                              'self->inputRequests.ptr[__CPROVER_loop_entry(self->inputRequests.len) + g_k].inputRuleInfo == RI_FOR(g_taskinfo->discoveredDependencies.items.ptr[g_k].keyID) && '
                              '(self->inputRequests.ptr[__CPROVER_loop_entry(self->inputRequests.len) + g_k].orderOnly != 0) == (g_taskinfo->discoveredDependencies.items.ptr[g_k].orderOnly != 0) && '
                              '(self->inputRequests.ptr[__CPROVER_loop_entry(self->inputRequests.len) + g_k].singleUse != 0) == (g_taskinfo->discoveredDependencies.items.ptr[g_k].singleUse != 0))'],
                'decreases': '$range->items.len - $i'},
            1: {'assigns': ['$i', 'self->ruleInfosToScan.len', '__CPROVER_object_whole(self->ruleInfosToScan.ptr)'],
                'invariant': ['$i <= $range->len && self->ruleInfosToScan.len == __CPROVER_loop_entry(self->ruleInfosToScan.len) + $i',
                              '(g_k < $i) ==> (self->ruleInfosToScan.ptr[__CPROVER_loop_entry(self->ruleInfosToScan.len) + g_k].ruleInfo == g_taskinfo->deferredScanRequests.ptr[g_k].ruleInfo)'],
                'decreases': '$range->len - $i'},
        },
    },
    # body of the input-request loop: one request (task -> input key) is taken, the input is scanned / demanded, and the dependency is recorded
    'BuildEngineImpl::executeTasks#request': {
        'of': 'BuildEngineImpl::executeTasks', 'cname': 'BuildEngineImpl_executeTasks_request_step',
        'segment': {'kind': 'CompoundStmt', 'mentions': ['inputRequests', 'scanRule', 'demandRule', 'pausedInputRequests', 'requestedBy', 'found'], 'excludes': ['readyTaskInfos', 'provideValue', 'finishedTaskInfos'], 'exits': True},
        'requires': ['__CPROVER_is_fresh(self, sizeof(*self))', 'g_engine == self', '__CPROVER_is_fresh(didWork, sizeof(*didWork))', '__CPROVER_is_fresh(__seg_exit, sizeof(int))',
                     'VEC_OKN(self->inputRequests, struct BuildEngineImpl_TaskInputRequest, 8)', 'VEC_OKN(self->finishedInputRequests, struct BuildEngineImpl_TaskInputRequest, 8) && self->finishedInputRequests.len < 8',
                     # the requested input's rule record, and (unless it is the build's own dummy request) the requesting task and its rule record
                     '__CPROVER_is_fresh(g_ri_b, sizeof(struct BuildEngineImpl_RuleInfo))', 'self->inputRequests.len > 0 ==> __CPROVER_pointer_in_range_dfcc(g_ri_b, self->inputRequests.ptr[0].inputRuleInfo, g_ri_b)',
                     '__CPROVER_is_fresh(g_taskinfo, sizeof(struct BuildEngineImpl_TaskInfo))', '(self->inputRequests.len > 0 && !g_dummy) ==> __CPROVER_pointer_in_range_dfcc(g_taskinfo, self->inputRequests.ptr[0].taskInfo, g_taskinfo)',
                     '(self->inputRequests.len > 0 && g_dummy) ==> self->inputRequests.ptr[0].taskInfo == 0',
                     '__CPROVER_is_fresh(g_ri_a, sizeof(struct BuildEngineImpl_RuleInfo))', '__CPROVER_pointer_in_range_dfcc(g_ri_a, g_taskinfo->forRuleInfo, g_ri_a)',
                     'VEC_OKN(g_ri_a->result.dependencies.items, struct KeyIDAndFlags, 8) && g_ri_a->result.dependencies.items.len < 8',
                     '!self->inputRequestsMutex.held', 'g_scans == 0 && g_demands == 0'],
        'assigns': ['*__seg_exit', '*didWork', 'self->inputRequests', 'self->inputRequestsMutex.held', 'g_scans', 'g_demands', 'g_scan_rule', 'g_demand_rule',
                    'g_ri_b->state', 'g_ri_b->inProgressInfo', 'g_ri_b->result.builtAt',
                    'g_ri_a->result.dependencies.items.len', '__CPROVER_object_whole(g_ri_a->result.dependencies.items.ptr)',
                    'self->finishedInputRequests.len', '__CPROVER_object_whole(self->finishedInputRequests.ptr)',
                    'g_psr', '__CPROVER_object_whole(g_psr_buf)', 'g_pti', '__CPROVER_object_whole(g_pti_buf)'],
        'ensures': [
            ('P:C06', '(OLD(self->inputRequests.len) == 0) ==> (*__seg_exit == 3 && g_scans == 0 && g_demands == 0 && g_ri_a->result.dependencies.items.len == OLD(g_ri_a->result.dependencies.items.len))'),
            # requests are taken first in, first out (dependency recording relies on it), under the queue's mutex
            ('P:C06,P:C01', '(OLD(self->inputRequests.len) != 0) ==> (self->inputRequests.len == OLD(self->inputRequests.len) - 1 && self->inputRequests.ptr == OLD(self->inputRequests.ptr) + 1 && g_scans == 1 && g_scan_rule == g_ri_b && *didWork != 0)'),
            ('P:C06', '!self->inputRequestsMutex.held'),
            # input still being scanned: the request is parked unchanged on the input's scan record; nothing is demanded or recorded yet
            ('P:C02,P:C06', '(OLD(self->inputRequests.len) != 0 && !g_scan_answer) ==> (*__seg_exit == 2 && g_demands == 0 && g_psr.pausedInputRequests.len == 1 && g_psr_buf[0].inputRuleInfo == g_ri_b && g_psr_buf[0].inputID == OLD(self->inputRequests.ptr[0].inputID) && '
                            '(g_dummy ? g_psr_buf[0].taskInfo == 0 : g_psr_buf[0].taskInfo == g_taskinfo) && g_ri_a->result.dependencies.items.len == OLD(g_ri_a->result.dependencies.items.len) && self->finishedInputRequests.len == OLD(self->finishedInputRequests.len))'),
            # input scanned: it is demanded exactly once
            ('P:C01,P:C02', '(OLD(self->inputRequests.len) != 0 && g_scan_answer) ==> (g_demands == 1 && g_demand_rule == g_ri_b)'),
            # the build's own request records nothing
            ('P:C01', '(OLD(self->inputRequests.len) != 0 && g_scan_answer && g_dummy) ==> (g_ri_a->result.dependencies.items.len == OLD(g_ri_a->result.dependencies.items.len) && self->finishedInputRequests.len == OLD(self->finishedInputRequests.len) && g_pti.requestedBy.len == OLD(g_pti.requestedBy.len))'),
            # a task's request is recorded as a dependency of the REQUESTING rule: the input's key with the request's flags, appended (so in request order), exactly once
            ('P:C01,P:C02,P:C11', '(OLD(self->inputRequests.len) != 0 && g_scan_answer && !g_dummy) ==> (g_ri_a->result.dependencies.items.len == OLD(g_ri_a->result.dependencies.items.len) + 1 && '
                                  'g_ri_a->result.dependencies.items.ptr[OLD(g_ri_a->result.dependencies.items.len)].keyID._value == g_ri_b->keyID._value && '
                                  '(g_ri_a->result.dependencies.items.ptr[OLD(g_ri_a->result.dependencies.items.len)].orderOnly != 0) == (OLD(self->inputRequests.ptr[0].orderOnly) != 0) && '
                                  '(g_ri_a->result.dependencies.items.ptr[OLD(g_ri_a->result.dependencies.items.len)].singleUse != 0) == (OLD(self->inputRequests.ptr[0].singleUse) != 0))'),
            # ... and then waits for the input: delivered at once when the input is complete in this build, otherwise parked on the input's task
            ('P:C06', '(OLD(self->inputRequests.len) != 0 && g_scan_answer && !g_dummy && g_demand_answer) ==> (self->finishedInputRequests.len == OLD(self->finishedInputRequests.len) + 1 && '
                      'self->finishedInputRequests.ptr[OLD(self->finishedInputRequests.len)].taskInfo == g_taskinfo && self->finishedInputRequests.ptr[OLD(self->finishedInputRequests.len)].inputRuleInfo == g_ri_b && '
                      'self->finishedInputRequests.ptr[OLD(self->finishedInputRequests.len)].inputID == OLD(self->inputRequests.ptr[0].inputID) && g_ri_b->state == BuildEngineImpl_RuleInfo_StateKind_Complete && g_ri_b->result.builtAt == self->currentEpoch && g_pti.requestedBy.len == OLD(g_pti.requestedBy.len))'),
            ('P:C06', '(OLD(self->inputRequests.len) != 0 && g_scan_answer && !g_dummy && !g_demand_answer) ==> (self->finishedInputRequests.len == OLD(self->finishedInputRequests.len) && g_pti.requestedBy.len == 1 && '
                      'g_pti_buf[0].taskInfo == g_taskinfo && g_pti_buf[0].inputRuleInfo == g_ri_b && g_pti_buf[0].inputID == OLD(self->inputRequests.ptr[0].inputID))'),
        ],
    },
    # the calls a task makes through TaskInterface
    'BuildEngineImpl::addTaskInputRequest': {
        'requires': ['__CPROVER_is_fresh(self, sizeof(*self))', 'g_engine == self', '__CPROVER_is_fresh(g_taskinfo, sizeof(struct BuildEngineImpl_TaskInfo))',
                     '__CPROVER_is_fresh(g_ri_a, sizeof(struct BuildEngineImpl_RuleInfo))', '__CPROVER_pointer_in_range_dfcc(g_ri_a, g_taskinfo->forRuleInfo, g_ri_a)',
                     'VEC_OKN(self->inputRequests, struct BuildEngineImpl_TaskInputRequest, 8) && self->inputRequests.len < 8', '!self->inputRequestsMutex.held && !self->taskInfosMutex.held',
                     'g_taskinfo->waitCount < 1000000', 'g_aborts == 0'],
        'assigns': ['self->inputRequests.len', '__CPROVER_object_whole(self->inputRequests.ptr)', 'self->inputRequestsMutex.held', 'g_taskinfo->waitCount', 'g_aborts'],
        'ensures': [
            # a request is accepted only from a task that has not been told inputs-available (the process is aborted otherwise)
            ('P:C06', '(g_ri_a->state != BuildEngineImpl_RuleInfo_StateKind_InProgressWaiting) ==> g_aborts == 1'),
            # exactly one request is queued, carrying the task, its id, the rule of the key and the flags; it is counted in the task's wait count
            ('P:C06,P:C01', '(g_ri_a->state == BuildEngineImpl_RuleInfo_StateKind_InProgressWaiting) ==> (self->inputRequests.len == OLD(self->inputRequests.len) + 1 && g_taskinfo->waitCount == OLD(g_taskinfo->waitCount) + 1 && '
                            'self->inputRequests.ptr[OLD(self->inputRequests.len)].taskInfo == g_taskinfo && self->inputRequests.ptr[OLD(self->inputRequests.len)].inputID == inputID && '
                            'self->inputRequests.ptr[OLD(self->inputRequests.len)].inputRuleInfo == g_ri_b && (self->inputRequests.ptr[OLD(self->inputRequests.len)].orderOnly != 0) == (orderOnly != 0) && '
                            '(self->inputRequests.ptr[OLD(self->inputRequests.len)].singleUse != 0) == (singleUse != 0) && self->inputRequests.ptr[OLD(self->inputRequests.len)].forcePriorValue == 0)'),
            ('P:C06', '!self->inputRequestsMutex.held'),
        ]},
    'BuildEngineImpl::taskDiscoveredDependency': {
        'requires': ['__CPROVER_is_fresh(self, sizeof(*self))', 'g_engine == self', '__CPROVER_is_fresh(self->delegate, sizeof(*self->delegate))', '__CPROVER_is_fresh(g_taskinfo, sizeof(struct BuildEngineImpl_TaskInfo))',
                     '__CPROVER_is_fresh(g_ri_a, sizeof(struct BuildEngineImpl_RuleInfo))', '__CPROVER_pointer_in_range_dfcc(g_ri_a, g_taskinfo->forRuleInfo, g_ri_a)',
                     'VEC_OKN(g_taskinfo->discoveredDependencies.items, struct KeyIDAndFlags, 8) && g_taskinfo->discoveredDependencies.items.len < 8', '!self->taskInfosMutex.held', 'g_errors == 0'],
        'assigns': ['g_errors', 'self->buildCancelled', 'g_taskinfo->discoveredDependencies.items.len', '__CPROVER_object_whole(g_taskinfo->discoveredDependencies.items.ptr)'],
        'ensures': [
            # a discovered dependency is accepted only while the task is computing, and is recorded as a plain (not order-only, not single-use) dependency on that key
            ('P:C11,P:C06', '(g_ri_a->state == BuildEngineImpl_RuleInfo_StateKind_InProgressComputing) ? (g_taskinfo->discoveredDependencies.items.len == OLD(g_taskinfo->discoveredDependencies.items.len) + 1 && '
                            'g_taskinfo->discoveredDependencies.items.ptr[OLD(g_taskinfo->discoveredDependencies.items.len)].keyID._value == g_dep_key_id && '
                            '!g_taskinfo->discoveredDependencies.items.ptr[OLD(g_taskinfo->discoveredDependencies.items.len)].orderOnly && !g_taskinfo->discoveredDependencies.items.ptr[OLD(g_taskinfo->discoveredDependencies.items.len)].singleUse && g_errors == 0) '
                            ': (g_taskinfo->discoveredDependencies.items.len == OLD(g_taskinfo->discoveredDependencies.items.len) && g_errors == 1 && self->buildCancelled != 0)'),
        ]},
}
CALLERS = '''    'BuildEngineImpl::taskNeedsInput': {
        'requires': ['__CPROVER_is_fresh(self, sizeof(*self))', 'g_engine == self', '__CPROVER_is_fresh(self->delegate, sizeof(*self->delegate))', 'g_errors == 0 && g_add_calls == 0'],
        'assigns': ['g_errors', 'self->buildCancelled', 'g_add_calls', 'g_add_id', 'g_add_order_only', 'g_add_single_use', 'g_add_key'],
        'ensures': [
            # reserved ids are refused (the build is cancelled with an error), every other id is queued as a value request
            ('P:C06', '(inputID > (~(uintptr_t)0xFF)) ? (g_add_calls == 0 && g_errors == 1 && self->buildCancelled != 0) : (g_add_calls == 1 && g_add_id == inputID && !g_add_order_only && !g_add_single_use && g_add_key == (const void *)key && g_errors == 0)'),
        ]},
    'BuildEngineImpl::taskMustFollow': {
        'requires': ['__CPROVER_is_fresh(self, sizeof(*self))', 'g_engine == self', 'g_add_calls == 0'],
        'assigns': ['g_add_calls', 'g_add_id', 'g_add_order_only', 'g_add_single_use', 'g_add_key'],
        # a must-follow key is an order-only request under the reserved id (no value will be delivered for it)
        'ensures': [('P:C06', 'g_add_calls == 1 && g_add_id == (~(uintptr_t)0) && g_add_order_only && !g_add_single_use && g_add_key == (const void *)key')]},
'''
UNIT = _e._views(UNIT)
