"""U-queue (lane based): LaneBasedExecutionQueue::addJob, the take-a-job step of executeLane (a segment), FifoScheduler
(lib/Basic/LaneBasedExecutionQueue.cpp) -- C16 (sequential kernel), C05."""
from units.serialqueue import CANCEL_SEG, COMMON
Q = 'self->readyPriorityJobs.jobs'
UNIT = {
    'name': 'lanequeue',
    'source': 'lib/Basic/LaneBasedExecutionQueue.cpp',
    'dumps': ['LaneBasedExecutionQueue', 'FifoScheduler', 'Scheduler', 'basic::QueueJobPriority', 'basic::ProcessResult', 'basic::ProcessStatus'],
    'types': {'QueueJob': 'struct qjob', 'basic::QueueJob': 'struct qjob', 'ProcessCompletionFn': 'struct completion_opt', 'llbuild_pid_t': 'int', 'std::mutex': 'verif_mutex', 'mutex': 'verif_mutex',
              'std::condition_variable': 'verif_condvar', 'condition_variable': 'verif_condvar'},
    'type_patterns': COMMON['type_patterns'] + [(r'(std::)?deque<(basic::)?QueueJob.*>', 'dq_qjob'), (r'(std::)?unique_lock<(std::)?mutex>', 'verif_mutex *')],
    'by_value': ['struct qjob', 'struct ProcessResult'],
    'full_structs': ['ProcessResult'],
    'predefined_structs': ['qjob', 'completion_opt'],
    'struct_extra': {'Scheduler': '  size_t g_size;\n'},
    'need_fields': {'LaneBasedExecutionQueue': ['readyJobs', 'readyPriorityJobs', 'readyJobsMutex', 'readyJobsCondition', 'cancelled', 'shutdown']},
    'no_translate': ['notify_one', 'wait', 'getDescriptor', 'TracingExecutionQueueDepth'],
    'drop_locals': [r'TracingExecutionQueueDepth'],
    'calls': {
        'm:@dq_qjob::push_back': ('dq_push_back', 'v'), 'm:@dq_qjob::front': 'dq_front', 'm:@dq_qjob::pop_front': 'dq_pop_front', 'm:@dq_qjob::empty': 'dq_empty', 'm:@dq_qjob::size': 'dq_size',
        'm:@verif_condvar::notify_one': 'verif_q_notify_one', 'm:@verif_condvar::wait': 'verif_lane_wait($o, $0)',
        'o:=:@struct qjob': '(*$o = $0)', 'm:@struct completion_opt::hasValue': '($o->has)', 'm:@struct completion_opt::getValue': '$o', 'o:():@struct completion_opt': 'verif_complete', 'fn:TracingExecutionQueueDepth': '((void)$0)',
    },
    'call_patterns': [(r'c:(basic::)?QueueJob\((const )?(basic::)?QueueJob &+\).*', '$0'), (r'c:TracingExecutionQueueDepth.*', '0')],
    'prelude': '#include "models/base.h"\n#include "models/vec.h"\n#include "models/queue.h"\n',
    'after_structs': '#include "models/queue_after.h"\nstatic inline void verif_complete(struct completion_opt *f, struct ProcessResult r) { g_completions++; g_completion_status = r.status; }\n',
    'stubs': {
        # the configured scheduler (priority or FIFO, virtual): an abstract multiset with a size
        'Scheduler_addJob': {'params': 'struct Scheduler *self, struct qjob job', 'requires': [('P:C16', 'g_q->readyJobsMutex.held')],
                             'assigns': ['self->g_size', 'g_added_job', 'g_added_to'],
                             'ensures': ['self->g_size == OLD(self->g_size) + 1 && g_added_job.desc == job.desc && g_added_job.fn == job.fn && g_added_to == (void *)self']},
        'Scheduler_getNextJob': {'ret': 'struct qjob', 'params': 'struct Scheduler *self',
                                 'requires': [('P:C16', 'self->g_size > 0 && g_q->readyJobsMutex.held')], 'assigns': ['self->g_size'],
                                 'ensures': ['self->g_size == OLD(self->g_size) - 1 && RESULT.desc == g_next_job.desc && RESULT.fn == g_next_job.fn']},
        'Scheduler_empty': {'ret': '_Bool', 'params': 'struct Scheduler *self', 'requires': [], 'assigns': [], 'ensures': ['(RESULT != 0) == (self->g_size == 0)']},
        'Scheduler_size': {'ret': 'uint64_t', 'params': 'struct Scheduler *self', 'requires': [], 'assigns': [], 'ensures': ['RESULT == self->g_size']},
    },
    'functions': {
        'FifoScheduler::addJob': {
            'requires': ['__CPROVER_is_fresh(self, sizeof(*self))', 'DQ_OK(self->jobs)', 'self->jobs.head + self->jobs.len < self->jobs.cap', 'g_k < self->jobs.cap - self->jobs.head'],
            'assigns': ['self->jobs.len', '__CPROVER_object_whole(self->jobs.ptr)'],
            'ensures': [('P:C16', 'self->jobs.len == OLD(self->jobs.len) + 1 && self->jobs.head == OLD(self->jobs.head) && self->jobs.ptr[self->jobs.head + OLD(self->jobs.len)].desc == job.desc && self->jobs.ptr[self->jobs.head + OLD(self->jobs.len)].fn == job.fn'),
                        # the jobs already queued keep their place (first in, first out)
                        ('P:C16', '(g_k < OLD(self->jobs.len)) ==> (self->jobs.ptr[self->jobs.head + g_k].desc == OLD(self->jobs.ptr[self->jobs.head + g_k].desc))')]},
        'FifoScheduler::getNextJob': {
            'requires': ['__CPROVER_is_fresh(self, sizeof(*self))', 'DQ_OK(self->jobs)', 'self->jobs.len > 0'],
            'assigns': ['self->jobs.len', 'self->jobs.head'],
            'ensures': [('P:C16', 'RESULT.desc == OLD(self->jobs.ptr[self->jobs.head].desc) && RESULT.fn == OLD(self->jobs.ptr[self->jobs.head].fn) && self->jobs.len == OLD(self->jobs.len) - 1 && self->jobs.head == OLD(self->jobs.head) + 1')]},
        'FifoScheduler::empty': {'requires': ['__CPROVER_is_fresh(self, sizeof(*self))'], 'assigns': [], 'ensures': ['(RESULT != 0) == (self->jobs.len == 0)']},
        'LaneBasedExecutionQueue::addJob': {
            'requires': ['__CPROVER_is_fresh(self, sizeof(*self))', 'g_q == self', '__CPROVER_is_fresh(self->readyJobs, sizeof(*self->readyJobs))', 'DQ_OK(%s)' % Q,
                         '%s.head + %s.len < %s.cap' % (Q, Q, Q), '!self->readyJobsMutex.held', 'g_notifies == 0', 'self->readyJobs->g_size < 1000000', 'g_k < %s.cap - %s.head' % (Q, Q)],
            'assigns': ['self->readyJobsMutex.held', '%s.len' % Q, '__CPROVER_object_whole(%s.ptr)' % Q, 'self->readyJobs->g_size', 'g_added_job', 'g_added_to', 'g_notifies', 'g_notify_locked'],
            'ensures': [
                # the job is queued exactly once, in the queue its priority selects -- also after cancellation (a dropped job would never report)
                ('P:C16,P:C05', '(priority == QueueJobPriority_High) ==> (%s.len == OLD(%s.len) + 1 && %s.ptr[%s.head + OLD(%s.len)].desc == job.desc && self->readyJobs->g_size == OLD(self->readyJobs->g_size))' % (Q, Q, Q, Q, Q)),
                ('P:C16,P:C05', '(priority != QueueJobPriority_High) ==> (self->readyJobs->g_size == OLD(self->readyJobs->g_size) + 1 && g_added_job.desc == job.desc && g_added_to == (void *)self->readyJobs && %s.len == OLD(%s.len))' % (Q, Q)),
                # a lane is woken, and the notification is sent with the mutex held (a lane between its emptiness check and its wait cannot miss it)
                ('P:C16', 'g_notifies == 1 && g_notify_locked'),
                ('P:C16', '!self->readyJobsMutex.held'),
            ],
            'replace': ['FifoScheduler_addJob'],
        },
        'LaneBasedExecutionQueue::executeProcess#cancelled': dict(CANCEL_SEG, of='LaneBasedExecutionQueue::executeProcess', cname='LaneBasedExecutionQueue_executeProcess_cancelled_step'),
        # the step of a lane that takes the next job: `{ unique_lock lock(readyJobsMutex); while (...) wait; if (shutdown && empty) return; job = ...; }`
        'LaneBasedExecutionQueue::executeLane#take': {
            'of': 'LaneBasedExecutionQueue::executeLane', 'cname': 'LaneBasedExecutionQueue_executeLane_take_step',
            'segment': {'kind': 'CompoundStmt', 'mentions': ['readyJobsCondition', 'getNextJob', 'lock', 'readyJobsCount'], 'excludes': ['jobCount', 'queueJobStarted'], 'exits': True},
            'requires': ['__CPROVER_is_fresh(self, sizeof(*self))', 'g_q == self', '__CPROVER_is_fresh(self->readyJobs, sizeof(*self->readyJobs))', 'DQ_OK(%s)' % Q,
                         '__CPROVER_is_fresh(job, sizeof(*job))', '__CPROVER_is_fresh(readyJobsCount, sizeof(*readyJobsCount))', '__CPROVER_is_fresh(__seg_exit, sizeof(int))',
                         '!self->readyJobsMutex.held', 'g_waits == 0'],
            'assigns': ['*__seg_exit', '*job', '*readyJobsCount', 'self->readyJobsMutex.held', '%s.len' % Q, '%s.head' % Q, 'self->readyJobs->g_size', 'self->shutdown', 'g_waits'],
            'ensures': [
                # the lane leaves only on shutdown with both queues drained (no job is abandoned in a queue by a lane that stops)
                ('P:C16', '(*__seg_exit == 1) ==> (self->shutdown && %s.len == 0 && self->readyJobs->g_size == 0)' % Q),
                ('P:C16', '*__seg_exit == 0 || *__seg_exit == 1'),
                ('P:C16', '!self->readyJobsMutex.held'),
                # exactly one job is removed, from the priority queue whenever it has one
                ('P:C16', '(*__seg_exit == 0 && g_waits == 0 && OLD(%s.len) > 0) ==> (%s.len == OLD(%s.len) - 1 && job->desc == OLD(%s.ptr[%s.head].desc) && self->readyJobs->g_size == OLD(self->readyJobs->g_size))' % (Q, Q, Q, Q, Q)),
                ('P:C16', '(*__seg_exit == 0 && g_waits == 0 && OLD(%s.len) == 0) ==> (%s.len == 0 && self->readyJobs->g_size == OLD(self->readyJobs->g_size) - 1 && job->desc == g_next_job.desc)' % (Q, Q)),
            ],
            'loops': {0: {'assigns': ['self->readyJobs->g_size', '%s.len' % Q, 'self->shutdown', 'g_waits'],
                          'invariant': ['self->readyJobsMutex.held && %s.len <= %s.cap - %s.head && %s.head == __CPROVER_loop_entry(%s.head)' % (Q, Q, Q, Q, Q),
                                        'g_waits == 0 ==> (%s.len == __CPROVER_loop_entry(%s.len) && self->readyJobs->g_size == __CPROVER_loop_entry(self->readyJobs->g_size) && self->shutdown == __CPROVER_loop_entry(self->shutdown))' % (Q, Q)]}},
            'replace': ['FifoScheduler_getNextJob', 'FifoScheduler_empty'],
        },
    },
}
