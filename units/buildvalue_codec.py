"""U-value-codec: BuildValue::toData and the decoding constructor (include/llbuild/BuildSystem/BuildValue.h) -- C15: both walk the same
item sequence -- kind, then the signature, the output-info count and infos, the string list, each exactly when the kind's factory
takes that payload (spec table of units/buildvalue.py) -- so what is written is what is read back, item by item."""
from units.buildvalue import FACTORY, K


def has(what, k):
    yes = [x for x, v in FACTORY.items() if what in v]
    return '(' + ' || '.join('%s == %s%s' % (k, K, x) for x in yes) + ')'


def _names(n, acc):
    if isinstance(n, dict):
        if n.get('kind') == 'MemberExpr' and n.get('name'):
            acc.append(n['name'])
        r = n.get('referencedDecl')
        if isinstance(r, dict) and r.get('name'):
            acc.append(r['name'])
        for c in n.get('inner', []):
            _names(c, acc)
    return acc


def _field_of(tr, argnode):
    nm = _names(argnode, [])
    for cand in ('kind', 'signature', 'numOutputInfos', 'getNthOutputInfo', 'stringValues'):
        if cand in nm:
            return cand
    raise Exception('coder item is not one of the value fields: %s' % nm)


def _index_arg(tr, argnode):
    """the i of getNthOutputInfo(i)"""
    def find(x):
        if isinstance(x, dict):
            if x.get('kind') == 'CXXMemberCallExpr' and x['inner'][0].get('name') == 'getNthOutputInfo':
                return x['inner'][1]
            for c in x.get('inner', []):
                r = find(c)
                if r is not None:
                    return r
        return None
    return tr.expr(find(argnode))


def _write(tr, n, obj, args, argnodes):
    f = _field_of(tr, argnodes[0])
    if f == 'getNthOutputInfo':
        return 'log_item(T_INFO, %s)' % _index_arg(tr, argnodes[0])
    return 'log_item(%s, 0)' % {'kind': 'T_KIND', 'signature': 'T_SIG', 'numOutputInfos': 'T_COUNT'}[f]


def _read(tr, n, obj, args, argnodes):
    f = _field_of(tr, argnodes[0])
    if f == 'getNthOutputInfo':
        return 'log_item(T_INFO, %s)' % _index_arg(tr, argnodes[0])
    if f == 'kind':
        return '(log_item(T_KIND, 0), self->kind = g_kind_read)'
    if f == 'numOutputInfos':
        return '(log_item(T_COUNT, 0), self->numOutputInfos = g_num_read)'
    return 'log_item(T_SIG, 0)'


def _strings_encode(tr, n, obj, args, argnodes):
    return 'log_item(T_STRINGS, 0)'


def _strings_decode(tr, n, obj, args, argnodes):
    return '(log_item(T_STRINGS, 0), (struct StringList){0})'


SIG, INFO, STR = has('signature', 'KK'), has('infos', 'KK'), has('strings', 'KK')


def seq(kind, count):
    """the item sequence of a value of that kind with that many output infos"""
    sig, info, st = SIG.replace('KK', kind), INFO.replace('KK', kind), STR.replace('KK', kind)
    a = '(%s ? 1u : 0u)' % sig
    return [
        'g_tag[0] == T_KIND',
        '%s ==> g_tag[1] == T_SIG' % sig,
        '%s ==> g_tag[1 + %s] == T_COUNT' % (info, a),
        '(%s && g_k < %s) ==> (g_tag[2 + %s + g_k] == T_INFO && g_idx[2 + %s + g_k] == g_k)' % (info, count, a, a),
        '%s ==> g_tag[1 + %s + (%s ? 1 + %s : 0)] == T_STRINGS' % (st, a, info, count),
        'g_n == 1 + %s + (%s ? 1 + %s : 0) + (%s ? 1 : 0)' % (a, info, count, st),
    ]


UNIT = {
    'name': 'buildvalue_codec',
    'source': 'lib/BuildSystem/BuildValue.cpp',
    'dumps': ['buildsystem::BuildValue', 'BuildValue::Kind'],
    'types': {'basic::BinaryEncoder': 'struct benc', 'BinaryEncoder': 'struct benc', 'basic::BinaryDecoder': 'struct bdec', 'BinaryDecoder': 'struct bdec', 'FileInfo': 'struct FileInfo', 'basic::FileInfo': 'struct FileInfo', 'BuildValue::FileInfo': 'struct FileInfo',
              'basic::CommandSignature': 'struct CommandSignature', 'CommandSignature': 'struct CommandSignature', 'basic::StringList': 'struct StringList', 'StringList': 'struct StringList',
              'core::ValueType': 'vbytes', 'ValueType': 'vbytes'},
    'type_patterns': [(r'(std::)?vector<(unsigned char|uint8_t).*>', 'vbytes')],
    'by_value': ['vbytes', 'struct StringList', 'struct CommandSignature'],
    'predefined_structs': ['benc', 'bdec', 'FileInfo', 'CommandSignature', 'StringList'],
    'no_translate': ['write', 'read', 'encode', 'contents', 'isEmpty', 'finish', 'getNthOutputInfo'],
    'need_fields': {'BuildValue': ['kind', 'numOutputInfos', 'signature', 'stringValues', 'valueData']},
    'calls': {
        'm:@struct benc::write': _write, 'm:@struct bdec::read': _read, 'm:@struct StringList::encode': _strings_encode, 'm:@struct benc::contents': 'benc_contents',
        'm:@struct bdec::isEmpty': 'bdec_is_empty', 'm:@struct bdec::finish': 'bdec_finish', 'new[]:@struct FileInfo': 'verif_new_infos', 'new[]:@struct BuildValue_FileInfo': 'verif_new_infos',
        'o:=:@struct StringList': '(*$o = $0)',
    },
    'call_patterns': [(r'c:StringList\(.*BinaryDecoder.*\)', _strings_decode), (r'c:BinaryEncoder\(\)', 'benc_new'), (r'c:BinaryEncoder/0', 'benc_new')],
    'prelude': '#include "models/base.h"\n#include "models/bvcodec.h"\nstatic inline struct benc benc_new(void) { struct benc e; return e; }\n',
    'functions': {
        'BuildValue::toData': {
            'requires': ['__CPROVER_is_fresh(self, sizeof(*self))', 'self->kind >= 0 && self->kind <= 17', 'self->numOutputInfos <= 4', 'g_n == 0 && g_k < 4'],
            'assigns': ['g_n', '__CPROVER_object_whole(g_tag)', '__CPROVER_object_whole(g_idx)'],
            'ensures': [('P:C15', c) for c in seq('self->kind', 'self->numOutputInfos')],
            'loops': {0: {'assigns': ['i', 'g_n', '__CPROVER_object_whole(g_tag)', '__CPROVER_object_whole(g_idx)'],
                          'invariant': ['i <= self->numOutputInfos && g_n == 2 + (%s ? 1u : 0u) + i' % SIG.replace('KK', 'self->kind'),
                                        'g_tag[0] == T_KIND && (%s ==> g_tag[1] == T_SIG) && g_tag[1 + (%s ? 1u : 0u)] == T_COUNT' % (SIG.replace('KK', 'self->kind'), SIG.replace('KK', 'self->kind')),
                                        '(g_k < i) ==> (g_tag[2 + (%s ? 1u : 0u) + g_k] == T_INFO && g_idx[2 + (%s ? 1u : 0u) + g_k] == g_k)' % (SIG.replace('KK', 'self->kind'), SIG.replace('KK', 'self->kind'))],
                          'decreases': 'self->numOutputInfos - i'}},
        },
        'BuildValue::BuildValue': {
            'ptypes': ['BinaryDecoder &'], 'cname': 'BuildValue_decode',
            'requires': ['__CPROVER_is_fresh(self, sizeof(*self))', '__CPROVER_is_fresh(coder, 1)', 'g_kind_read >= 0 && g_kind_read <= 17', 'g_num_read <= 4', 'g_n == 0 && g_k < 4 && g_finishes == 0 && g_allocs == 0'],
            'assigns': ['*self', 'g_n', '__CPROVER_object_whole(g_tag)', '__CPROVER_object_whole(g_idx)', 'g_finishes', 'g_allocs', 'g_alloc_n'],
            'ensures': [('P:C15', 'g_dec_empty ==> (self->kind == %sInvalid && g_n == 0)' % K)] +
                       [('P:C15', '!g_dec_empty ==> (%s)' % c) for c in seq('g_kind_read', 'g_num_read')] +
                       [('P:C15', '!g_dec_empty ==> (self->kind == g_kind_read && (%s ==> self->numOutputInfos == g_num_read) && g_finishes == 1)' % INFO.replace('KK', 'g_kind_read')),
                        # several infos live in a block of exactly that many
                        ('P:C15', '(!g_dec_empty && %s && g_num_read > 1) ==> (g_allocs == 1 && g_alloc_n == g_num_read)' % INFO.replace('KK', 'g_kind_read'))],
            'loops': {0: {'assigns': ['i', 'g_n', '__CPROVER_object_whole(g_tag)', '__CPROVER_object_whole(g_idx)'],
                          'invariant': ['i <= self->numOutputInfos && self->numOutputInfos == g_num_read && self->kind == g_kind_read && g_n == 2 + (%s ? 1u : 0u) + i' % SIG.replace('KK', 'g_kind_read'),
                                        'g_tag[0] == T_KIND && (%s ==> g_tag[1] == T_SIG) && g_tag[1 + (%s ? 1u : 0u)] == T_COUNT' % (SIG.replace('KK', 'g_kind_read'), SIG.replace('KK', 'g_kind_read')),
                                        '(g_k < i) ==> (g_tag[2 + (%s ? 1u : 0u) + g_k] == T_INFO && g_idx[2 + (%s ? 1u : 0u) + g_k] == g_k)' % (SIG.replace('KK', 'g_kind_read'), SIG.replace('KK', 'g_kind_read'))],
                          'decreases': 'self->numOutputInfos - i'}},
        },
    },
}
