"""U-queue (serial): SerialExecutionQueue::addJob and the cancelled path of executeProcess (lib/Basic/SerialQueue.cpp) -- C05, C16."""


def _async(tr, n, obj, args, argnodes):
    tr.dropped.add('the closure handed to SerialQueueImpl::async (it runs job.execute on the queue thread): only that it is handed over, once')
    return 'verif_async(%s)' % obj


PS = 'ProcessStatus_'
CANCEL_SEG = {
    'segment': {'kind': 'IfStmt', 'mentions': ['cancelled', 'completionFn', 'makeCancelled'], 'exits': True},
    'requires': ['__CPROVER_is_fresh(self, sizeof(*self))', '__CPROVER_is_fresh(completionFn, sizeof(*completionFn))', '__CPROVER_is_fresh(__seg_exit, sizeof(int))', 'g_completions == 0'],
    'assigns': ['*__seg_exit', 'g_completions', 'g_completion_status'],
    'ensures': [
        # after cancellation no process is started, and the requester is told so exactly once (a command waiting for its process result must not wait forever)
        ('P:C05,P:C10', '(self->cancelled != 0) ==> (*__seg_exit == 1 && g_completions == (completionFn->has ? 1 : 0) && (!completionFn->has || g_completion_status == %sCancelled))' % PS),
        ('P:C05,P:C16', '(self->cancelled == 0) ==> (*__seg_exit == 0 && g_completions == 0)'),
    ],
}
COMMON = {
    'types': {'QueueJob': 'struct qjob', 'basic::QueueJob': 'struct qjob', 'ProcessCompletionFn': 'struct completion_opt', 'llbuild_pid_t': 'int'},
    'type_patterns': [(r'(llvm::)?Optional<(basic::)?ProcessCompletionFn>', 'struct completion_opt'), (r'(std::)?atomic<bool>', '_Bool'),
                      (r'(llvm::)?Optional<(std::)?function<void \((basic::)?ProcessResult\)>\s*>', 'struct completion_opt'), (r'(std::)?function<void \((basic::)?ProcessResult\)>', 'struct completion_opt')],
    'by_value': ['struct qjob', 'struct ProcessResult'],
    'full_structs': ['ProcessResult'],
    'predefined_structs': ['qjob', 'completion_opt'],
    'prelude': '#include "models/base.h"\n#include "models/vec.h"\n#include "models/queue.h"\n',
}
UNIT = dict(COMMON, **{
    'name': 'serialqueue',
    'source': 'lib/Basic/SerialQueue.cpp',
    'dumps': ['SerialExecutionQueue', 'basic::ProcessResult', 'basic::ProcessStatus'],
    'no_translate': ['async'],
    'need_fields': {'SerialExecutionQueue': ['cancelled', 'jobCount', 'queue']},
    'after_structs': ('static inline void verif_async(void *q) { g_async++; }\n'
                      'static inline void verif_complete(struct completion_opt *f, struct ProcessResult r) { g_completions++; g_completion_status = r.status; }\n'),
    'calls': {
        'm:SerialQueueImpl::async': _async, 'm:@struct completion_opt::hasValue': '($o->has)', 'm:@struct completion_opt::getValue': '$o', 'o:():@struct completion_opt': 'verif_complete',
        'm:@_Bool::operator bool': '(*$o)', 'm:atomic<bool>::operator bool': '(*$o)', 'm:__atomic_base<bool>::operator bool': '(*$o)',
    },
    'call_patterns': [(r'm:(std::)?(__)?atomic(_base)?<bool>::operator bool', '(*$o)')],
    'functions': {
        'SerialExecutionQueue::addJob': {
            'requires': ['__CPROVER_is_fresh(self, sizeof(*self))', 'g_async == 0'],
            'assigns': ['self->jobCount', 'g_async'],
            # every job is handed to the serial queue exactly once -- also after cancellation (a dropped job never reports, and the cancelled build would wait for it forever)
            'ensures': [('P:C05,P:C16', 'g_async == 1'), ('P:C16', 'self->jobCount == OLD(self->jobCount) + 1')],
        },
        'SerialExecutionQueue::executeProcess#cancelled': dict(CANCEL_SEG, of='SerialExecutionQueue::executeProcess', cname='SerialExecutionQueue_executeProcess_cancelled_step'),
    },
})
