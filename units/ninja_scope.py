"""U-ninja-scope: ManifestLoaderImpl::lookupBuildParameterImpl (lib/Ninja/ManifestLoader.cpp) -- C17: which binding a
$variable in a build statement resolves to (build-level, then rule-level evaluated in the build's context, then the
enclosing file scope; $in / $in_newline / $out are the explicit inputs / outputs)."""


def _lits(n, acc):
    if isinstance(n, dict):
        if n.get('kind') == 'StringLiteral':
            acc.append(n.get('value'))
        for c in n.get('inner', []):
            _lits(c, acc)
    return acc


def _eq(tr, n, obj, args, argnodes):
    lits = _lits({'inner': argnodes}, [])
    if len(lits) == 0:
        return 'name_same(%s, %s)' % (obj, tr.expr(argnodes[0]))        # two names: the same variable iff the same text (identity here)
    if len(lits) != 1:
        raise Exception('operator== with several literal operands')
    return 'name_is(%s, %s)' % (obj, lits[0])


def _shl(tr, n, obj, args, argnodes):
    """raw_ostream << x: the event depends on the static type of x"""
    rhs = argnodes[0]
    t = tr.ntype(rhs)
    o = obj
    r = tr.expr(rhs)
    base = t.base.replace('const ', '').strip()
    if base == 'char' and t.ptr == 0:
        return 'out_char(%s, %s)' % (o, r)
    if base == 'char' and (t.ptr == 1 or t.dims):
        return 'out_lit(%s, %s)' % (o, r)
    if base == 'strref':
        return 'out_ref(%s, %s)' % (o, r)
    if base == 'pstr':
        names = set()

        def walk(x):
            if isinstance(x, dict):
                if x.get('name'):
                    names.add(x['name'])
                if isinstance(x.get('referencedDecl'), dict):
                    names.add(x['referencedDecl'].get('name'))
                for c in x.get('inner', []):
                    walk(c)
        walk(rhs)
        return ('out_path(%s, %s)' if 'path' in names else 'out_value(%s, %s)') % (o, r)
    raise Exception('operator<< on %s' % t.c())


def _eval(tr, n, obj, args, argnodes):
    """evalString(context, template, result, lookup, error-lambda): the lambda is dropped, the lookup function is identified by name"""
    names = set()

    def walk(x):
        if isinstance(x, dict):
            if isinstance(x.get('referencedDecl'), dict):
                names.add(x['referencedDecl'].get('name'))
            for c in x.get('inner', []):
                walk(c)
    walk(argnodes[3])
    tr.dropped.add('the error lambda passed to evalString in lookupBuildParameterImpl')
    return 'eval_template(%s, %s, %d)' % (tr.expr(argnodes[0]), tr.expr(argnodes[1]), 1 if 'lookupBuildParameter' in names else 0)


def _peel(n):
    while n.get('kind') in ('ImplicitCastExpr', 'ParenExpr', 'MaterializeTemporaryExpr', 'CXXBindTemporaryExpr', 'ExprWithCleanups') and n.get('inner'):
        n = n['inner'][0]
    return n


def _it_cmp(op):
    def b(tr, n, obj, args, argnodes):
        return '(%s %s %s)' % (tr.expr(_peel(n['inner'][1])), op, tr.expr(_peel(argnodes[0])))
    return b


def _it_arrow(tr, n, obj, args, argnodes):
    return '(%s)' % tr.expr(_peel(n['inner'][1]))


def _err(tr, n, obj, args, argnodes):
    tr.dropped.add('the message text passed to ManifestLoaderImpl::error')
    return '(g_errors++)'


OTHER = '(g_name_class == 0)'
UNIT = {
    'name': 'ninja_scope',
    'need_fields': {'ManifestLoader::ManifestLoaderImpl::LookupContext': ['loader', 'decl', 'shellEscapeInAndOut', 'activeRuleVariables']},
    'source': 'lib/Ninja/ManifestLoader.cpp',
    'dumps': ['ManifestLoaderImpl', 'ninja::Command', 'ninja::Rule'],
    'types': {'StringRef': 'strref', 'std::string': 'pstr', 'string': 'pstr', 'basic_string<char>': 'pstr', 'raw_ostream': 'struct ostream', 'llvm::raw_ostream': 'struct ostream'},
    'type_patterns': [(r'(llvm::)?SmallVector<(llvm::)?StringRef, \d+>', 'vec_name'), (r'(llvm::)?StringMap<(std::)?(basic_string<char>|string).*>', 'struct smap'), (r'(llvm::)?StringMap(Const)?Iterator<.*>', 'struct smap_entry *'), (r'(llvm::)?iterator_facade_base<StringMap.*', 'struct smap_entry *'),
                      (r'(llvm::)?StringMapEntry<.*>', 'struct smap_entry'), (r'(std::)?vector<(ninja::)?Node \*.*>', 'vec_nnode'), (r'(llbuild::)?(ninja::)?Node', 'struct nnode')],
    'by_value': ['strref', 'pstr'],
    'predefined_structs': ['smap', 'smap_entry', 'ostream', 'nnode'],
    'no_translate': ['evalString', 'shellEscaped', 'getCurrentScope', 'lookupBinding', 'getNumExplicitInputs', 'getInputs', 'getOutputs', 'getParameters', 'getRule', 'getScreenPath', 'error', 'getRootScope'],
    'struct_extra': {'Command': '  unsigned numExplicitInputs; vec_nnode inputs; vec_nnode outputs; struct smap parameters; struct Rule *rule;\n', 'Rule': '  struct smap parameters;\n', 'ManifestLoaderImpl': '  void *manifest;\n'},
    'calls': {
        'o:==:StringRef': _eq, 'o:==:@strref': _eq, 'o:<<:raw_ostream': _shl, 'o:<<:@struct ostream': _shl,
        'range:@vec_name': ('vec_name_size', 'vec_name_at'), 'm:@vec_name::push_back': ('active_push', 'v'), 'm:@vec_name::pop_back': 'active_pop', 'm:ManifestLoader::ManifestLoaderImpl::error': _err, 'm:*::error': _err,
        'fn:shellEscaped': 'str_shell_escaped', 'm:ManifestLoader::ManifestLoaderImpl::evalString': _eval, 'fn:evalString': _eval,
        'm:Command::getNumExplicitInputs': '($o->numExplicitInputs)', 'm:Command::getInputs': '$o->inputs', 'm:Command::getOutputs': '$o->outputs',
        'm:Command::getParameters': '$o->parameters', 'm:Command::getRule': '($o->rule)', 'm:Rule::getParameters': '$o->parameters',
        'm:@vec_nnode::size': 'vec_nnode_size', 'o:[]:@vec_nnode': '(&$o->ptr[$0])', 'm:@struct nnode::getScreenPath': '$o->screenPath', 'm:Node::getScreenPath': '$o->screenPath',
        'm:@struct smap::find': ('smap_find', 'v'), 'm:@struct smap::end': 'smap_end', 'm:@struct smap::lookup': ('smap_lookup', 'v'), 'm:@struct smap::count': ('smap_count', 'v'),
        'm:@pstr::empty': '($o->len == 0)', 'm:@pstr::size': '($o->len)', 'm:@pstr::length': '($o->len)',
        'm:ManifestLoader::ManifestLoaderImpl::getCurrentScope': 'loader_scope', 'm:Scope::lookupBinding': ('scope_lookup', 'v'), 'm:*::getRootScope': 'manifest_root_scope',
    },
    'call_patterns': [(r'o:!=:iterator_facade_base<StringMap.*', _it_cmp('!=')), (r'o:==:iterator_facade_base<StringMap.*', _it_cmp('==')), (r'o:->:iterator_facade_base<StringMap.*', _it_arrow),
                      (r'o:!=:StringMap(Const)?Iterator.*', _it_cmp('!=')), (r'o:==:StringMap(Const)?Iterator.*', _it_cmp('==')), (r'o:->:StringMap(Const)?Iterator.*', _it_arrow),
                      (r'c:StringMap(Const)?Iterator<.*', '$0'), (r'c:(basic_string<char>|string|std::string)\(.*\)', '$0'), (r'c:StringRef\(const char \*\)', '$0'), (r'c:StringRef\(const (std::)?(string|basic_string<char>) &\)', 'pstr_ref')],
    'prelude': '#include "models/base.h"\n#include "models/vec.h"\n#include "models/ninja_lookup.h"\n',
    'after_structs': ('static inline void eval_template(struct ManifestLoaderImpl_LookupContext *ctx, strref tmpl, int lookup_is_build) '
                      '{ __CPROVER_assert(g_guard_name == g_cur_name.ptr, "[P:C19] a rule variable is expanded only while its name is on the list of variables being expanded (a variable that refers to itself must not recurse without bound)"); '
                      'g_evals++; g_eval_template = tmpl.ptr; g_eval_ctx = ctx; g_eval_lookup_is_build = lookup_is_build; }\n'),
    'functions': {
        'ManifestLoaderImpl::lookupBuildParameterImpl': {
            'requires': ['__CPROVER_is_fresh(self, 1)', '__CPROVER_is_fresh(context, sizeof(*context))', '__CPROVER_is_fresh(context->decl, sizeof(*context->decl))',
                         '__CPROVER_is_fresh(context->decl->rule, sizeof(*context->decl->rule))', '__CPROVER_is_fresh(context->loader, 1)', '__CPROVER_is_fresh(result, 1)',
                         'VEC_OK(context->decl->inputs, struct nnode) && VEC_OK(context->decl->outputs, struct nnode)',
                         'context->decl->numExplicitInputs <= context->decl->inputs.len', 'g_name_class >= 0 && g_name_class <= 3',
                         'g_paths == 0 && g_seps == 0 && g_values == 0 && g_scope_lookups == 0 && g_evals == 0 && g_escaped_paths == 0', 'g_guard_name == 0 && g_cur_name.ptr == name.ptr && name.ptr != 0 && g_errors == 0', 'VEC_OKN(context->activeRuleVariables, strref, 4) && context->activeRuleVariables.len <= 2'],
            'assigns': ['g_paths', 'g_seps', 'g_values', 'g_scope_lookups', 'g_evals', 'g_escaped_paths', 'g_sep_char', 'g_value_src', 'g_eval_template', 'g_scope_name',
                        'g_eval_ctx', 'g_eval_lookup_is_build', 'g_scope_obj', 'g_errors', 'g_guard_name', 'context->activeRuleVariables.len', '__CPROVER_object_whole(context->activeRuleVariables.ptr)'],
            'ensures': [
                # a build-level binding shadows everything else, whatever its value (also an empty one)
                ('P:C17', '(%s && context->decl->parameters.hit) ==> (g_values == 1 && g_value_src == context->decl->parameters.entry.second.ptr && g_evals == 0 && g_scope_lookups == 0)' % OTHER),
                # otherwise a rule-level binding is evaluated, with variables resolved in the context of THIS build statement
                # a rule variable that is already being expanded is reported, not expanded again
                ('P:C19,P:C17', '(%s && !context->decl->parameters.hit && context->decl->rule->parameters.hit && ACTIVE(context, name)) ==> (g_evals == 0 && g_errors == 1 && g_values == 0 && g_scope_lookups == 0)' % OTHER),
                ('P:C19', 'context->activeRuleVariables.len == OLD(context->activeRuleVariables.len) && g_guard_name == 0'),
                ('P:C17', '(%s && !context->decl->parameters.hit && context->decl->rule->parameters.hit && !ACTIVE(context, name)) ==> (g_evals == 1 && g_eval_template == context->decl->rule->parameters.entry.second.ptr && '
                          'g_eval_ctx == (const void *)context && g_eval_lookup_is_build && g_values == 0 && g_scope_lookups == 0)' % OTHER),
                # otherwise the scope of the file being loaded (the CURRENT scope: a subninja file sees its own bindings first), under the same name
                ('P:C17', '(%s && !context->decl->parameters.hit && !context->decl->rule->parameters.hit) ==> (g_scope_lookups == 1 && g_scope_name == name.ptr && g_scope_obj == (const void *)&g_current_scope_marker && g_values == 0 && g_evals == 0)' % OTHER),
                ('P:C17', '%s ==> (g_paths == 0 && g_seps == 0)' % OTHER),
                # $in / $in_newline: the explicit inputs only, separated by a space / a newline; $out: all outputs, space separated; quoted iff evaluating "command"
                ('P:C17', '(g_name_class == 1 || g_name_class == 2) ==> (g_paths == context->decl->numExplicitInputs && g_seps == (g_paths == 0 ? 0 : g_paths - 1) && '
                          '(g_seps == 0 || g_sep_char == (g_name_class == 1 ? 32 : 10)) && g_values == 0 && g_evals == 0 && g_scope_lookups == 0)'),
                ('P:C17', '(g_name_class == 3) ==> (g_paths == (unsigned)context->decl->outputs.len && g_seps == (g_paths == 0 ? 0 : g_paths - 1) && (g_seps == 0 || g_sep_char == 32) && g_values == 0 && g_evals == 0 && g_scope_lookups == 0)'),
                ('P:C17', '(g_name_class != 0) ==> g_escaped_paths == (context->shellEscapeInAndOut ? g_paths : 0)'),
            ],
            'loops': {
                2: {'assigns': ['$i'], 'invariant': ['$i <= $range->len && (($i > 0 && $range->ptr[0].ptr == name.ptr) || ($i > 1 && $range->ptr[1].ptr == name.ptr)) == 0'], 'decreases': '$range->len - $i'},
                0: {'assigns': ['i', 'g_paths', 'g_seps', 'g_sep_char', 'g_escaped_paths'],
                    'invariant': ['i <= ie && ie == context->decl->numExplicitInputs && g_paths == i && g_seps == (i == 0 ? 0 : i - 1) && (g_seps == 0 || g_sep_char == separator) && '
                                  'g_escaped_paths == (context->shellEscapeInAndOut ? g_paths : 0)'],
                    'decreases': 'ie - i'},
                1: {'assigns': ['i', 'g_paths', 'g_seps', 'g_sep_char', 'g_escaped_paths'],
                    'invariant': ['i <= ie && ie == (unsigned)context->decl->outputs.len && g_paths == i && g_seps == (i == 0 ? 0 : i - 1) && (g_seps == 0 || g_sep_char == 32) && '
                                  'g_escaped_paths == (context->shellEscapeInAndOut ? g_paths : 0)'],
                    'decreases': 'ie - i'},
            },
        },
    },
}
