"""Which units decide which property, and what a pass does / does not mean.

'units'   : units whose obligations are discharged for the property (all of them every run)
'safety'  : units whose automatically generated memory-safety obligations are *property-level* for this
            property (C19); elsewhere they are helper-level obligations of every property the unit serves
"""

PROPS = {
    'C01': {
        'units': ['engine', 'engine_build', 'depids', 'engine_loop', 'sqlite'],
        'whole_units': ['sqlite', 'depids'],
        'design_ref': 'DESIGN.md section 4, C01 and appendix A (lemma L1)',
        'claim': 'the step contracts of lemma L1 on the real engine functions: scanRule decides never-built / signature / validity in that order and '
                 'declares a rule up to date without a scan only if nothing is recorded; demandRule stamps builtAt with the current epoch exactly '
                 'when a rule is brought up to date and clears the recorded dependencies exactly when a task is created; taskIsComplete moves '
                 'computedAt to the current epoch exactly when the value changed or a change is forced; isComplete means complete in the current epoch; '
                 'the engine loop records, for every request a task makes, the input\'s key with the request\'s flags as a dependency of the REQUESTING rule, appended in '
                 'request order exactly once; on completion the discovered dependencies are appended in order, each is demanded in this build, and the completed '
                 'record (complete in this epoch, all dependencies in) is what is handed to the database; rests as a whole on kernels written for neighbouring properties (every property-level clause of these units counts here too): the stored results are read back as written (sqlite), the dependency list container (depids)',
        'not_decided': ['the induction over builds and scan order (lemma L1, paper)', 'the engine loop executeTasks (dependency recording, provideValue)',
                        'client Rule/Task code (assumed deterministic, as the property does)'],
    },
    'C02': {
        'units': ['engine', 'sqlite', 'engine_loop', 'depids'],
        'whole_units': ['depids'],
        'design_ref': 'DESIGN.md section 4, C02',
        'claim': 'every reason reported to the delegate is true of the rule record at the moment of the report (precondition of the delegate stub at '
                 'every call site under contract); a task is created only from NeedsToRun and the rule leaves that state; an unchanged value keeps computedAt; rests as a whole on kernels written for neighbouring properties (every property-level clause of these units counts here too): the dependency list container (depids)',
        'not_decided': ['the shadow-epoch history argument of the property (every step of it is proved, the induction is lemma L1)', 'breakCycle (Forced)'],
    },
    'C03': {
        'units': ['sqlite', 'sqlite_open', 'engine_build', 'depids', 'engine_loop'],
        'design_ref': 'DESIGN.md section 4, C03',
        'claim': 'lookupRuleResult reads every field of a stored result from the column the SELECT text names for it (both the fast and the join path; '
                 'the column order is parsed from the SQL literals on every run), decodes the dependency blob word by word into (key of id, order-only, '
                 'single-use) in order, caches the id mapping both ways and holds dbMutex throughout; getKeyIDForID maps a stored key text with its stored '
                 'byte length (NUL-safe); build() runs nothing when BEGIN EXCLUSIVE fails; open(): a database is interpreted only when the stored schema AND client '
                 'version both match, otherwise it is rejected (no recreation allowed: nothing deleted) or deleted and recreated completely; every '
                 'statement is prepared from its own SQL text on the open connection; no SQLite call on a closed or null connection; a failed open() keeps no connection (so the next operation starts over with the version check); the key column is '
                 'declared with TEXT/BLOB affinity; setRuleResult binds every field of a result to the column the table declares for it and encodes '
                 'the dependency list word by word (db id << 2 | single-use << 1 | order-only) in order -- the inverse of what lookupRuleResult decodes; '
                 'getCurrentEpoch / setCurrentIteration read and write the iteration column of info with the value given, finalize their statement; '
                 'getKeyIDFromDB finds or inserts a key by its text with its byte length; getKeyID caches a non-zero id both ways',
        'not_decided': ['SQLite itself (statement semantics, BEGIN EXCLUSIVE, atomic commit)',
                        'setRuleResult uses getKeyID through an assumed functional view (getKeyID / getKeyIDFromDB themselves are proved)',
                        'getKeyIDForID is used inside lookupRuleResult through an assumed functional view (its cache/db consistency is not proved)'],
    },
    'C04': {
        'units': ['engine_build', 'sqlite_open', 'sqlite', 'ninja_task_step'],
        'whole_units': ['ninja_task_step'],
        'design_ref': 'DESIGN.md section 4, C04',
        'claim': 'every commit point of a build is consistent: buildStarted precedes and buildComplete follows all database work of a build, the epoch '
                 'is advanced before any task runs, and before the transaction commits the new epoch has been handed to the database in the same '
                 'transaction (so the stored epoch is never smaller than a stored result\'s epochs); nothing is left open; open() creates the schema '
                 'inside one BEGIN EXCLUSIVE .. END transaction, closes the connection when that fails, deletes a database only on a version mismatch '
                 'with recreation allowed, and never issues a PRAGMA that switches journaling or synchronous writes off; buildStarted succeeds only if BEGIN EXCLUSIVE '
                 'did; buildComplete commits with END on the open connection and then closes it; setRuleResult executes no statement besides the prepared insert (no END / BEGIN: the whole build stays one transaction); rests as a whole on kernels written for neighbouring properties (every property-level clause of these units counts here too): the update-without-running decision of a Ninja command, which must not adopt an output left behind by an interrupted build (ninja_task_step)',
        'not_decided': ['the enumeration of kill points, journal recovery and fsync (SQLite atomic commit is assumed)',
                        'key table contents (U-db units)', 'that continued builds return clean results (lemma L1)'],
    },
    'C05': {
        'units': ['engine', 'engine_build', 'engine_cancel', 'serialqueue', 'lanequeue', 'engine_loop', 'procgroup', 'engine_canceldel'],
        'whole_units': ['engine_build'],
        'design_ref': 'DESIGN.md section 4, C05',
        'claim': 'build() returns the empty value whenever the task loop failed, the build was already cancelled or the database could not be locked; '
                 'the execution queue is released under its mutex on every path, the engine is never left busy, resetForBuild clears the flag under '
                 'the mutex; setCancelled resets only the state; a failed or cancelled build still hands its epoch to the database before commit; '
                 'cancelRemainingTasks: after the drain nothing is outstanding, every queue and the task table are empty, every rule that had a task or was '
                 'being scanned is Incomplete, a rule cancelled in progress reads as never built (so the next scan re-runs it), no result is written to '
                 'the database, both mutexes released (partial correctness of the drain loop); the execution queues never drop a job (also after '
                 'cancellation) and answer a process request made after cancellation exactly once with a cancelled result; cancelBuild notifies the cancellation delegates once, sets the flag and asks the current execution queue to cancel its jobs '
                 'only while executionQueueMutex is held (build() releases the queue under the same mutex); ProcessGroup::signalAll signals every process group of the group once under its mutex - an interrupt is withheld only from processes that cannot be interrupted safely, any other signal (the kill after the grace period) reaches all; addCancellationDelegate reads the cancelled flag and inserts the delegate while it holds executionQueueMutex (so a delegate registering during cancelBuild is either walked or told at once, exactly once), removeCancellationDelegate erases under the same mutex; rests as a whole on kernels written for neighbouring properties (every property-level clause of these units counts here too): build() as a whole: transaction bracket and epoch hand-over on the failing paths (engine_build)',
        'not_decided': ['delivery from foreign threads, hangs (termination of the drain loop depends on other threads reporting)',
                        'the BuildSystemFrontend / lane queue path'],
    },
    'C06': {
        'units': ['engine', 'engine_build', 'engine_cancel', 'engine_pool', 'engine_loop', 'engine_taskapi', 'engine_canceldel', 'extcmd_run'],
        'whole_units': ['extcmd_run'],
        'design_ref': 'DESIGN.md section 4, C06',
        'claim': 'task protocol automaton on the Task stubs (start once, prior value once after start and only for the same rule definition), ready queue '
                 'receives a task exactly when its wait count reaches zero, finished tasks are queued under finishedTaskInfosMutex and the loop is notified '
                 'afterwards, parked scan/input requests are all woken, lock discipline of taskInfos; the blocking step of the engine loop and the '
                 'cancellation drain wait only with the mutex held and the finished queue observed empty under it, and the loop iterates again after '
                 'blocking; a recycled scan record is empty (free list invariant of newRuleScanRecord/freeRuleScanRecord); the phases of executeTasks, each '
                 'loop body as one step: requests are taken first in first out; a request whose input is still being scanned is parked unchanged; a value request '
                 'is delivered exactly once (provideValue with the request\'s id, the input\'s key and current value, before inputs-available, only when the input is '
                 'complete in this build or its prior value was asked for), a must-follow request never; inputs-available is delivered once, to the front of the '
                 'ready queue, with nothing outstanding; a finished task wakes every waiter in order and leaves the task table under its mutex; a request made through TaskInterface is queued exactly once under the queue\'s mutex and counted in the task\'s wait count, reserved ids are refused, must-follow is an order-only request under the reserved id, a discovered dependency is accepted only while computing; rests as a whole on kernels written for neighbouring properties (every property-level clause of these units counts here too): the ExternalCommand task callbacks (extcmd_run)',
        'not_decided': ['that all completion orders give the same values (a whole-build, all-schedules statement)', 'data-race freedom in general, deadlock',
                        'the scan-request phase of executeTasks as a loop (its step is proved in unit engine); composition of the steps over a whole build'],
    },
    'C07': {
        'units': ['engine_cycle', 'engine_cancel', 'engine_findcycle', 'engine_gather', 'depids', 'engine_loop', 'engine'],
        'whole_units': ['engine_loop', 'engine', 'depids'],
        'design_ref': 'DESIGN.md section 4, C07',
        'claim': 'trigger, search and reporting: the engine looks for a cycle only when a whole round of its loop did nothing, no task is still computing '
                 '(the blocking step before it forces another round whenever completions are owed) and tasks are nevertheless pending; it never '
                 'finishes a build as successful while tasks are pending; an unbreakable cycle fails the build after draining, a broken one lets the loop '
                 'continue; resolveCycle searches under both locks, offers exactly the cycle found for breaking and reports exactly that cycle to the '
                 'delegate iff it could not be broken; findCycle in steps: every request for the rule of a task and every scan deferred on a task becomes one wait-for edge from the rule of that task, the pending scan record of every rule being scanned is a starting point, every paused input request that has a task, and every deferred scan request, parked on a visited scan record '
                 'becomes exactly one wait-for edge (requests without a task are skipped, not the rest of the list; the record of a rule whose scan is deferred is visited next), '
                 'the inversion turns every edge into exactly one predecessor entry, and one iteration of the depth-first search keeps the invariant '
                 'that the path list mirrors the stack, starts at the requested rule, follows predecessor entries only and holds pairwise distinct rules - '
                 'so the list it stops with starts at the requested rule, every consecutive pair is a wait-for edge, and its last rule repeats an earlier one (graphs of at most 4 rules with at most 3 predecessors each); '
                 'cleanSingleUseDependencies removes exactly the single-use entries of a dependency list (at most 4 entries), so a single-use request of an earlier build is never a wait-for edge of a later one; rests as a whole on kernels written for neighbouring properties (every property-level clause of these units counts here too): the request / scan steps that create the wait-for edges (engine_loop, engine), the dependency list container (depids)',
        'not_decided': ['the visited-set worklist around the gathering steps and the sort of the predecessor lists; the composition of the steps is on paper',
                        'the cycle-breaking heuristics (breakCycle)', 'liveness: that a real cycle always stalls the loop; termination of the search (finite simple paths)'],
    },
    'C08': {
        'units': ['extcmd', 'fileinfo', 'extcmd_run', 'extcmd_result', 'shelldeps_dispatch', 'nodetasks', 'archive', 'toolvalid', 'localfs', 'engine_build', 'shelldeps'],
        'whole_units': ['engine_build', 'shelldeps'],
        'design_ref': 'DESIGN.md section 4, C08',
        'claim': 'kernel only: ExternalCommand::isResultValid declares a stored result valid only if every non-virtual output still matches what the '
                 'command produced (existence only for mutated outputs) and never for a non-successful stored result; FileInfo ==/!= and '
                 'getInfoForPath (shared with C13) decide "has this file changed"; computeCommandResult records one info per output in output order (the epoch for a command-timestamp node, the all-zero record for a virtual node, the current file info otherwise; at most 4 outputs named), '
                 'canUpdateIfNewerWithResult allows an update without running only with allow-modified-outputs and every recorded output existing; getResultForOutput gives output k the k-th recorded info (existing input with exactly that info / missing output / virtual input); '
                 'FileInputNodeTask: a source file value is valid exactly when existence and file information are unchanged, and building it records the current information once; ProducedNodeTask hands its producing command exactly this node and the delivered value; a command that left the description builds to an invalid value with the change forced; a target is re-evaluated in every build; CommandTask forwards exactly the delivered values and input ids to its command; the deps-file dispatch of the shell command (see C11); the archive tool removes the OLD ARCHIVE (archiveName, with ignore-missing) before re-creating it and fails the command when that removal fails; LocalFileSystem::createSymlink reports success exactly when the one symlink(2) call (contents, link path) created the link - never for an entry that was already there (the symlink tool removes a stale entry and retries on that failure); rests as a whole on kernels written for neighbouring properties (every property-level clause of these units counts here too): the epoch hand-over of build() (engine_build), the depfile callbacks (shelldeps)',
        'not_decided': ['on-disk equivalence with a clean build (everything the title says)', 'the per-key-kind rule dispatch in lookupRule (closures)',
                        'StatTask / ProducedDirectoryNodeTask, the start / inputsAvailable halves of TargetTask and CommandTask (closures)'],
    },
    'C10': {
        'units': ['extcmd', 'subprocess', 'extcmd_run', 'extcmd_result', 'nodetasks', 'toolvalid', 'localfs'],
        'design_ref': 'DESIGN.md section 4, C10',
        'claim': 'every stored command result that is not a success is invalid (retried next build); only a successful stored result counts as a prior '
                 'result (so a skipped / propagated-failure value can never short-cut execution); cleanUpExecutedProcess (POSIX) reports success only for '
                 'a reaped process whose wait status word is 0, cancelled for SIGINT/SIGKILL, failed otherwise, exactly one processFinished and one completion; ExternalCommand::start re-initialises the per-build state (skip value, missing keys, hasPriorResult, canUpdateIfNewer) and requests every declared input once under its position; provideValue: a failed input or a disallowed missing input makes the command skip with a propagated failure and a later good input never clears that; execute: a skipping command reports its skip value and never runs, missing inputs count as a command failure, the run is replaced by a look at the outputs only with a successful prior result of THIS build, a failed / cancelled process yields a failed / cancelled command value; getResultForOutput: the outputs of a failed, cancelled or propagated-failure command are failed inputs, of a skipped one skipped; a produced node whose stored value was a failed or missing input is never valid, a node without a single producer fails the build with a failed input; the built-in mkdir and symlink tools never treat a non-successful stored result as valid; a produced directory node requests and returns the tree signature only when its producer really produced it (an existing input) - a failed, skipped or missing producer result is passed on as it is; LocalFileSystem::createSymlink (see C08)',
        'not_decided': ['the directory creation and the dispatch to executeExternalCommand in execute', 'transitive non-execution across the graph and '
                        'parallel timing', 'the Windows branch of Subprocess.cpp (not compiled here)'],
    },
    'C09': {
        'units': ['signature', 'engine', 'extcmd', 'extcmd_result', 'sigsplit', 'sigsplit_shell', 'swiftsig', 'toolvalid'],
        'whole_units': ['toolvalid'],
        'design_ref': 'DESIGN.md section 4, C09',
        'claim': 'ShellCommand::getSignature feeds every argument, both halves of every environment entry, every deps path and the three scalar '
                 'settings exactly once (or only the explicit signature when one is given), never hands out the null signature, caches what it '
                 'returns, and no value reaches combine(bool) through a narrowing conversion; SwiftCompilerShellCommand::getSignature feeds, after the common part, executable, module name, module aliases, module output path, sources, objects, import paths, temps path, other arguments and is-library, each exactly once; the engine re-runs on signature inequality before '
                 'validity and offers a prior value only for the same signature; BOUNDED (not counted, relational): two definitions that differ only in where a list ends (inputs/outputs, arguments/deps paths) feed different sequences into the hash chain; rests as a whole on kernels written for neighbouring properties (every property-level clause of these units counts here too): validity of mkdir / symlink results, which decides null rebuilds of those tools (toolvalid)',
        'not_decided': ['collision freedom of the 64-bit hash (hash_combine is uninterpreted)', 'list boundaries in the chain: inputs/outputs/args/env/deps are '
                        'chained without delimiters (candidate finding F9, ExternalCommand::getSignature is not under contract)', 'the null-build claim end to end'],
    },
    'C11': {
        'units': ['mkdeps', 'depinfo', 'shelldeps', 'shelldeps_dispatch', 'engine_loop', 'depids', 'clangdeps'],
        'design_ref': 'DESIGN.md section 4, C11',
        'claim': 'Makefile-deps lexer/parser: consumed/produced byte accounting of lexWord, every reported word is a '
                 'non-empty span of the buffer, rule start/end pairing also on error paths, isWordChar table; the shell command\'s depfile callbacks record '
                 'exactly one engine dependency per reported input -- the UNESCAPED word, as is when absolute, otherwise joined to the command\'s working '
                 'directory and made absolute -- and report the same path to the delegate; dependency-info input records are recorded under their path, '
                 'missing/output records never; processDiscoveredDependencies: every deps file of the command (at most two named) is read - a relative path against the working directory, made absolute - '
                 'and handed with its own contents to the processor of the declared style, `makefile` with all rules honoured and only `makefile-ignoring-subsequent-outputs` stopping after the first rule; '
                 'a missing style, an unreadable file or a file its processor rejects fails the command; the clang tool depfile callback records and reports the UNESCAPED word',
        'not_decided': ['that a later change to P re-executes the command (paper lemma L1)', 'the contents of the file system (a ghost answer per path)'],
    },
    'C12': {
        'units': ['dirtree', 'dirfilter', 'platmatch', 'dirinput', 'dircontents'],
        'design_ref': 'DESIGN.md section 4, C12 (lemma L2 on paper)',
        'claim': 'kernel: a directory-tree (structure) signature task requests the (filtered) contents key of its path, one node key per listed name in '
                 'order and, for every child that is an existing directory, exactly one sub-tree signature key for path/name WITH THE SAME FILTERS; stores '
                 'each value in the slot of its id; feeds the hash chain with the path, the directory value (structure: only its mode) and for every child '
                 'in order its value (structure: its name and its mode) and its sub-signature or the nil marker; DirectoryContentsTask::isResultValid '
                 'invalidates on existence, type, stat or listing changes (length and names in order); getFilteredContents lists an entry exactly once iff no pattern matches its name, independently of the other entries (at most 4 entries / 3 patterns named in the model), and sorts the listing; sys::filenameMatch asks fnmatch(3) about pattern and name in that order with no flags (case sensitive) and maps 0 / FNM_NOMATCH / other to match / no match / error; DirectoryInputNodeTask: the must-scan-after paths are requested first, as nodes, in order, under input ids 1, 2, ... (0 is reserved), the tree signature of the node directory (trailing slash dropped, node exclusion patterns) is requested under id 0 at once when there are none and otherwise exactly when the last of them arrived, and the task value is the signature it was given; DirectoryContentsTask::getContents: every entry the iteration reaches is listed exactly once, except a symbolic link whose resolved target is a prefix of the listed path (a link back to a parent); the listing is sorted',
        'not_decided': ['real directory iteration, symlinks, fnmatch filtering (getFilteredContents not under contract)', 'that a deep edit reaches the root '
                        '(lemma L2, induction on depth, paper)', 'hash collision freedom', 'names are compared by identity (string equality is assumed)'],
    },
    'C13': {
        'units': ['fileinfo', 'fswrap'],
        'design_ref': 'DESIGN.md section 4, C13',
        'claim': 'FileInfo ==/!= is exactly equality of device, inode, size, both time fields and all 32 checksum bytes; isMissing is exactly '
                 'the six zero scalars; getInfoForPath yields the all-zero record iff stat fails, never for an existing object, and copies the '
                 'stat fields (mtime seconds and nanoseconds) one to one; the device-agnostic wrapper zeroes device and inode only; the '
                 'checksum-only wrapper zeroes device, inode and mtime, keeps size and mode and takes the checksum of the same path; the MD5 '
                 'hasher feeds every chunk read exactly once, finalises after the last chunk into the member copy() reads',
        'not_decided': ['the real stat/readlink/MD5 (assumed models)', 'the symlink readlink path content'],
    },
    'C14': {
        'units': ['stale', 'prefix_lcp', 'prefix', 'rmtree'],
        'design_ref': 'DESIGN.md section 4, C14',
        'claim': 'StaleFileRemovalCommand::execute (proved, lists of at most 4 stale files / 3 roots as separate objects, loops closed by invariants): only elements of '
                 'filesToDelete are ever passed to remove(); the k-th stale file is removed iff no roots are configured or it is absolute and '
                 'pathIsPrefixedByPath(file, root) holds for some configured root; nothing is removed without a prior stale-file-removal result; the '
                 'result recorded is always built from the CURRENT expected-output list.  pathIsPrefixedByPath agrees with the component-wise prefix '
                 'specification of the property statement (one trailing separator of the root ignored) for strings of any length up to 4096 bytes over all byte values (prefix_lcp, proved: the function is loop-free, std::mismatch / substr+operator== / find carry assumed contracts over the ghost longest-common-prefix length); the same real function against concrete library loops -- BOUNDED, not counted: all pairs of strings of length <= 6; _remove_all_r (the recursive walk behind remove): success for a directory means every entry the iterator yielded, whatever its name, was removed through a recursive call and then the directory itself, links are not followed, the first error is returned (induction on the depth: recursive calls are assumed to meet the same contract; at most 3 entries named)',
        'not_decided': ['std::set / std::set_difference themselves (computeFilesToDelete is proved to hand them the prior list and the current list as duplicate-free sorted sets, output into filesToDelete)', 'std::mismatch, std::string::substr / operator== / find (assumed contracts in models/prefix_lcp.h; cross-checked by the bounded unit prefix on strings <= 6 bytes)',
                        'recursive directory removal (FileSystem::remove)'],
    },
    'C15': {
        'units': ['buildkey', 'buildvalue', 'buildvalue_codec', 'bincode', 'fileinfo_codec', 'stringlist'],
        'design_ref': 'DESIGN.md section 4, C15',
        'claim': 'BuildKey: kind tag <-> kind maps are inverse on the nine kinds and distinct (spec table checked for distinctness), getKind reads the '
                 'tag byte, and every accessor of the two wire shapes returns exactly the length-delimited name / payload span for arbitrary bytes '
                 '(keys shorter than 2^32 bytes); BuildValue: a kind\'s signature / output infos / string list are encoded and decoded exactly when its factory takes them; BuildValue::toData and the decoding constructor walk the same item sequence (kind; signature, count + infos in order, string list -- each exactly when the factory of the kind takes that payload), the decoder allocating a block of exactly the count read; BinaryEncoder::write / BinaryDecoder::read of 8/16/32/64-bit integers write and read the little-endian bytes and advance by the width (so decode(encode(x)) = x at item and at byte level); BuildKey(tag, name) builds the tag byte followed by ALL bytes of the name (length from the StringRef, not from a terminator); BinaryCodingTraits<FileChecksum> writes the 32 checksum bytes in order and reads them back in order, each byte as itself (0x00 included); StringList built from one string holds that string followed by its terminator and its encoded size counts the terminator; encode writes the size and then exactly that many bytes; StringList::getValues reads the contents as consecutive terminated items that cover them exactly (a trailing empty string included), each listed once in order',
        'not_decided': ['the key constructors (std::string building)', 'the array-built StringList constructor and getValues (the one-string constructor and encode are under contract)', 'the decoder does not check that it stays inside its data (corrupt stored values)'],
    },
    'C16': {
        'units': ['lanequeue', 'serialqueue', 'subprocess', 'procgroup', 'procoutput'],
        'design_ref': 'DESIGN.md section 4, C16',
        'claim': 'sequential kernel only: addJob (lane based and serial) queues / hands over every job exactly once, in the queue its priority selects, '
                 'also after cancellation, and wakes a lane with the mutex held; FifoScheduler is first-in first-out; the take-a-job step of a lane '
                 '(a segment of executeLane) removes exactly one job, from the priority queue whenever it has one, sleeps only with the mutex held after '
                 'observing both queues empty and no shutdown, and leaves only on shutdown with both queues drained; after cancellation executeProcess starts '
                 'nothing and completes the request exactly once as cancelled; a reaped process yields exactly one processFinished and one completion; an interrupted wait4 (EINTR) is retried - a process is given up unreaped only for another error; ProcessGroup::signalAll (see C05); captureExecutedProcessOutput (the drain of a released child): every chunk read is handed to the delegate, the same buffer and exactly the bytes read, before the next read; the loop is left and the pipe closed only after a zero-byte read or a read error (reported once) - a short read is not the end of the output',
        'not_decided': ['the lane limit and "at most N jobs at once" (a property of the thread set)', 'interleavings of lanes, exactly-once across threads, data races',
                        'spawnProcess, pipe draining, process groups, the kill-after-timeout thread', 'released (background) lanes'],
    },
    'C17': {
        'units': ['ninja_lex', 'ninja_scope', 'shellesc', 'ninja_eval', 'ninja_parser', 'ninja_include', 'ninja_builddecl', 'ninja_scopebind'],
        'design_ref': 'DESIGN.md section 4, C17',
        'claim': 'Ninja lexer: a keyword kind is produced exactly when the token bytes are the whole keyword, every byte value '
                 '0x00-0xFF is returned as itself (end of file only at the true end), identifier-specific mode never yields keywords; '
                 'lookupBuildParameterImpl: a build-level binding shadows everything whatever its value, else the rule-level template is evaluated in the '
                 'context of this build statement, else the enclosing scope is asked under the same name; $in/$in_newline are the explicit inputs '
                 'separated by space/newline, $out all outputs, shell-quoted exactly when evaluating "command"; BOUNDED (not counted): '
                 'a shell-escaped path of up to 3 (quick) bytes, read by a model of POSIX sh word syntax, is exactly one word equal to the path; evalString in seven steps (literal run, piece, `$` at the end, `$`+newline, single-character escapes, ${name}, $name): every byte read lies inside the string, every step that does not stop the scan advances, a literal piece is a maximal `$`-free run, only `$ ` `$:` `$$` are character escapes, the name looked up is exactly the text between `${` and `}` (identifier characters) or the maximal run of simple identifier characters after `$`; include / subninja (actOnIncludeDecl): the path expression is evaluated in the current scope, `include` parses the file in the current scope, `subninja` in one new scope whose parent is the current scope; the loader actions (ninja_builddecl): a build statement gets one node per output / input token in token order (the node of that token path evaluated in the current scope, against the working directory), the rule its name resolves to in the current scope (unknown: diagnostic + phony rule) and exactly the explicit / implicit counts the parser determined; rule variables are stored UNEVALUATED (lazy), build-statement bindings and file-level bindings are evaluated at once in the current scope and stored under their name; actOnEndBuildDecl stores each attribute (command, description, depfile, response file and its content, pool, generator / restat flags) from the build parameter of THAT name looked up for this statement, derives the deps style from `deps` / `depfile` and reports the inconsistent combinations; parser: the token that follows a Newline is always lexed in mode None (in any other mode a keyword comes back as an identifier); Scope::lookupBinding: the innermost scope that binds a name wins whatever the value is (an empty binding shadows), a miss is looked up once in the parent scope under the same name, without a parent the answer is empty',
        'not_decided': ['agreement of variable evaluation with Ninja itself (needs Ninja as oracle)', 'the composition of the evalString steps over a whole string', 'that the parser accepts exactly the Ninja grammar and counts explicit / implicit inputs as Ninja does (only termination, token consumption and lexer mode are decided)', 'pool and default declarations'],
    },
    'C18': {
        'units': ['ninja_valid', 'ninjadeps', 'ninja_task', 'ninja_task_step', 'engine', 'subprocess', 'fileinfo', 'ninja_scope'],
        'whole_units': ['engine', 'subprocess', 'fileinfo', 'ninja_scope'],
        'design_ref': 'DESIGN.md section 4, C18',
        'claim': 'validity predicates only: a Ninja command result is valid only if it was a success, the command hash is unchanged (generator commands '
                 'excepted: "a changed command line re-runs its command") and every output exists with unchanged file information; an input is valid exactly '
                 'when it was recorded as existing, still exists and is unchanged; a select-composite result exactly when successful with an unchanged hash; '
                 'the depfile callback records the unescaped word normalised against the working directory (once, or not at all when normalisation fails); the command task: an input value that is neither an existing file nor a successful command makes the command skip (a missing one is reported once), a usable input never un-skips it and its time stamp is folded into the newest input time, update-if-newer is never switched back on, the prior command hash is taken only from a successful stored result, and a command is brought up to date WITHOUT running only if every output exists and is not older (strict mode: strictly newer) than the newest input; two steps of inputsAvailable: a phony command completes with the current state of its outputs and forces the change through exactly when an output is missing; '
                 'the update-without-running path is taken exactly when it is still allowed, the command is a generator or its command hash equals the hash of the stored successful result (a changed command line re-runs its command), and canUpdateIfNewerWithResult agrees - then it completes once with the recomputed result and counts one updated command; after a successful process, a failure to take in the discovered dependencies counts one failed command and completes once, forced, with the failed-command value (and the dependencies are processed exactly once); rests as a whole on kernels written for neighbouring properties (every property-level clause of these units counts here too): the scan decision of the engine (engine), the wait-status classification (subprocess), file information (fileinfo), variable lookup (ninja_scope)',
        'not_decided': ['convergence to the clean-build state, null rebuilds, order-only handling, restat/generator/pool semantics, failure '
                        'propagation (closures over the build context)', 'decoding of the stored value (assumed pure)'],
    },
    'C19': {
        'units': ['mkdeps', 'depinfo', 'ninja_lex', 'buildfile', 'ninja_scope', 'ninja_eval', 'ninja_parser', 'ninja_include'],
        'safety': ['mkdeps', 'depinfo', 'ninja_lex'],
        'design_ref': 'DESIGN.md section 4, C19',
        'claim': 'every dereference in the hand-written parsers is inside the supplied buffer (no terminator assumed), '
                 'every loop terminates (decreases clauses), cursors stay in [begin,end]; Ninja lexer tokens tile the buffer, only blanks are skipped, '
                 'EndOfFile only at the true end, every other token consumes at least one byte; the build file loader (parseRootNode, parseClientMapping, parseToolsMapping, parseTargetsMapping, parseNodesMapping, parseCommandsMapping) over an arbitrary YAML document (every node reached is of arbitrary kind): a node is down-cast to ScalarNode / MappingNode / SequenceNode only after the matching kind test, a mapping iterator is dereferenced and advanced only before the end, a node text is read only of a scalar; the Ninja parser (all 15 functions of Parser.cpp, the lexer as the contract proved in ninja_lex): every loop and every top-level declaration consumes input (measure: bytes not yet lexed plus one while the look-ahead is not EndOfFile), so parse() terminates with the input used up; the lexer is back in mode None after every declaration; include / subninja (enterFile, actOnIncludeDecl, exitCurrentFile): a file whose absolute path is already on the include stack is reported and not entered again, a file is read exactly once per include and parsed exactly when it was entered, the files being loaded stay pairwise distinct (so the nesting depth is bounded by the number of files)',
        'not_decided': ['llvm::yaml itself (scanner / parser), the string handling of the loader', 'the other ManifestLoader actions (rule / pool / default declarations); two different paths naming one file (symbolic links) are different files to the loader; recursion between FILE-level bindings is not possible: they are evaluated when bound', 'BinaryDecoder bounds on stored values'],
    },
    'C20': {
        'units': ['capi', 'capi_cb', 'capi_db'],
        'design_ref': 'DESIGN.md section 4, C20',
        'claim': 'the C entry points llb_buildengine_task_needs_input / must_follow / discovered_dependency / task_is_complete / '
                 'build / attach_db call the C++ engine exactly once with the key or value bytes and explicit length (NUL-safe), '
                 'the same input id, force_change, schema version and recreateUnmatchedVersion == true, and return the engine\'s answer; the callback half: CAPITask::start / provideValue / inputsAvailable and CAPIRule::createTask / isResultValid / updateStatus hand the client its own context, the engine context, the task interface, the input id, the value bytes with their length and the status unchanged, call the client exactly once, and treat a missing is_result_valid / update_status callback as valid / no-op; cycleDetected hands the client one (length, pointer) pair per rule of the cycle, in order, pointing INTO the key of that rule (not into a temporary copy), once, with the client context; the database half: the record mapResult hands the client carries every field of the stored result in the field of that name',
        'not_decided': ['event-by-event equality of whole builds (follows from the forwarders being identities)',
                        'lookupRule / error of the delegate wrapper', 'BuildDB-C-API.cpp apart from the record mapResult builds (value, signature, computed_at, built_at, start, end, dependency array and count each land in the field of that name: unit capi_db)'],
    },
}

NOT_APPLICABLE = {
}
