#include "llbuild/BuildSystem/BuildValue.h"
#include "/repo/unittests/BuildSystem/MockBuildSystemDelegate.cpp"
#include <fstream>
#include <cstdio>
using namespace llbuild::unittests;
struct D : MockBuildSystemDelegate {
  void commandStatusChanged(Command* c, CommandStatusKind k) override { if (k == CommandStatusKind::IsScanning) printf("%s sig=%016llx\n", c->getName().str().c_str(), (unsigned long long)c->getSignature().value); }
};

static void one(const char* label, const char* body) {
  std::string yaml = std::string("client:\n  name: mock\ncommands:\n  c:\n    tool: shell\n") + body;
  { std::ofstream f("/tmp/probe/r/sig.llbuild"); f << yaml; }
  D delegate; BuildSystem system(delegate, createLocalFileSystem());
  if (!system.loadDescription("/tmp/probe/r/sig.llbuild")) { printf("%s load failed\n", label); for (auto& m: delegate.getMessages()) printf("%s\n", m.c_str()); return; }
  printf("%-28s", label); system.build(BuildKey::makeCommand("c"));
}
int main() {
  one("in[a,b] out[c] makefile",   "    inputs: [\"a\", \"b\"]\n    outputs: [\"c\"]\n    args: [\"/bin/true\"]\n    deps: \"d.d\"\n    deps-style: makefile\n");
  one("in[a,b] out[c] dep-info",   "    inputs: [\"a\", \"b\"]\n    outputs: [\"c\"]\n    args: [\"/bin/true\"]\n    deps: \"d.d\"\n    deps-style: dependency-info\n");
  one("in[a] out[b,c] makefile",   "    inputs: [\"a\"]\n    outputs: [\"b\", \"c\"]\n    args: [\"/bin/true\"]\n    deps: \"d.d\"\n    deps-style: makefile\n");
  one("args[true,d.d] nodeps",     "    inputs: [\"a\", \"b\"]\n    outputs: [\"c\"]\n    args: [\"/bin/true\", \"d.d\"]\n");
  one("args[true] deps d.d unused?", "    inputs: [\"a\", \"b\"]\n    outputs: [\"c\"]\n    args: [\"/bin/true\"]\n    deps: \"d.d\"\n");
  return 0; }
