// candidate (C10): ExternalCommand::hasPriorResult is never reset; one BuildSystem instance, four builds
#include "llbuild/BuildSystem/BuildValue.h"
#include "/repo/unittests/BuildSystem/MockBuildSystemDelegate.cpp"
#include <fstream>
#include <cstdio>
#include <unistd.h>
using namespace llbuild::unittests;
static int started = 0;
struct D : MockBuildSystemDelegate {
  void commandStarted(Command* c) override { started++; }
};
int main() {
  std::string dir = "/tmp/probe/r2"; (void)system(("rm -rf " + dir + "; mkdir -p " + dir).c_str());
  std::string yaml = "client:\n  name: mock\ntargets:\n  \"\": [\"<all>\"]\ncommands:\n  A:\n    tool: shell\n    outputs: [\"" + dir + "/a.out\"]\n    allow-modified-outputs: true\n"
                     "    args: \"echo partial > " + dir + "/a.out; test -f " + dir + "/ok || exit 1; echo good > " + dir + "/a.out\"\n";
  { std::ofstream f(dir + "/b.llbuild"); f << yaml; }
  D delegate; BuildSystem bs(delegate, createLocalFileSystem());
  bs.attachDB(dir + "/build.db", nullptr);
  if (!bs.loadDescription(dir + "/b.llbuild")) { printf("load failed\n"); return 2; }
  auto key = BuildKey::makeCommand("A");
  (void)system((std::string("touch ") + dir + "/ok").c_str());
  started = 0; auto r1 = bs.build(key); printf("build1 ok=%d ran=%d\n", (int)r1.hasValue() && r1->isSuccessfulCommand(), started);
  started = 0; auto r2 = bs.build(key); printf("build2 ok=%d ran=%d\n", (int)r2.hasValue() && r2->isSuccessfulCommand(), started);
  unlink((dir + "/ok").c_str()); unlink((dir + "/a.out").c_str());
  started = 0; auto r3 = bs.build(key); printf("build3 (now failing) ok=%d ran=%d\n", (int)(r3.hasValue() && r3->isSuccessfulCommand()), started);
  started = 0; auto r4 = bs.build(key); bool ok4 = r4.hasValue() && r4->isSuccessfulCommand();
  printf("build4 (still failing) ok=%d ran=%d  %s\n", (int)ok4, started, (ok4 || started == 0) ? "FAILED COMMAND NOT RETRIED" : "retried, fine");
  return (ok4 || started == 0) ? 1 : 0; }
