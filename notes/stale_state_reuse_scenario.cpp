// candidate (C14): StaleFileRemovalCommand keeps filesToDelete / computedFilesToDelete across builds of one BuildSystem instance
#include "llbuild/BuildSystem/BuildValue.h"
#include "/repo/unittests/BuildSystem/MockBuildSystemDelegate.cpp"
#include <fstream>
#include <cstdio>
#include <unistd.h>
using namespace llbuild::unittests;
static void desc(const std::string& dir, const char* list) {
  std::ofstream f(dir + "/b.llbuild");
  f << "client:\n  name: mock\ntools:\n  stale-file-removal: {}\ncommands:\n  S:\n    tool: stale-file-removal\n    expectedOutputs: [" << list << "]\n"; }
int main() {
  std::string dir = "/tmp/probe/r3"; (void)system(("rm -rf " + dir + "; mkdir -p " + dir).c_str());
  std::string a = dir + "/a.o", b = dir + "/b.o";
  { std::ofstream(a.c_str()) << "a"; std::ofstream(b.c_str()) << "b"; }
  // session 1: both expected
  { desc(dir, ("\"" + a + "\", \"" + b + "\"").c_str()); MockBuildSystemDelegate d; BuildSystem bs(d, createLocalFileSystem()); bs.attachDB(dir + "/build.db", nullptr);
    if (!bs.loadDescription(dir + "/b.llbuild")) { printf("load failed\n"); return 2; } bs.build(BuildKey::makeCommand("S")); }
  // session 2: only a expected; two builds on ONE instance
  desc(dir, ("\"" + a + "\"").c_str()); MockBuildSystemDelegate d; BuildSystem bs(d, createLocalFileSystem()); bs.attachDB(dir + "/build.db", nullptr);
  if (!bs.loadDescription(dir + "/b.llbuild")) { printf("load failed\n"); return 2; }
  bs.build(BuildKey::makeCommand("S")); printf("build 1 of session 2: b.o exists=%d (expected 0)\n", access(b.c_str(), F_OK) == 0);
  { std::ofstream(b.c_str()) << "user file"; }                       // b.o re-created by someone; it is not an output of the previous successful run any more
  bs.build(BuildKey::makeCommand("S")); int ex = access(b.c_str(), F_OK) == 0;
  printf("build 2 of session 2: b.o exists=%d (expected 1: it was not listed by the previous successful run)  %s\n", ex, ex ? "ok" : "REMOVED A FILE THAT IS NOT STALE");
  return ex ? 0 : 1; }
