// F13 (C05), deterministic single-thread form: A declares D then (on D's value) X.  X changes, the rebuild of A is
// cancelled after D was re-recorded but before X was requested again; the next build on the same engine is stale.
#include "llbuild/Core/BuildEngine.h"
#include "llbuild/Basic/ExecutionQueue.h"
#include <cstdio>
#include <cstdlib>
using namespace llbuild; using namespace llbuild::core;
static int extX = 1, extD = 10; static int mode = 0; static int runsA = 0;
static ValueType iv(int v){ return ValueType{(uint8_t)v,(uint8_t)(v>>8),0,0}; }
static int vi(const ValueType& v){ return v.size()<2?-1:(v[0]|(v[1]<<8)); }
static BuildEngine* gEngine;
struct Del : BuildEngineDelegate, basic::ExecutionQueueDelegate {
  std::unique_ptr<Rule> lookupRule(const KeyType& k) override { abort(); }
  void cycleDetected(const std::vector<Rule*>&) override {}
  void error(const Twine& m) override { fprintf(stderr,"error: %s\n", m.str().c_str()); }
  void processStarted(basic::ProcessContext*, basic::ProcessHandle, llbuild_pid_t) override {}
  void processHadError(basic::ProcessContext*, basic::ProcessHandle, const Twine&) override {}
  void processHadOutput(basic::ProcessContext*, basic::ProcessHandle, StringRef) override {}
  void processFinished(basic::ProcessContext*, basic::ProcessHandle, const basic::ProcessResult&) override {}
  void queueJobStarted(basic::JobDescriptor*) override {} void queueJobFinished(basic::JobDescriptor*) override {}
  std::unique_ptr<basic::ExecutionQueue> createExecutionQueue() override { return createSerialQueue(*this, nullptr); }
};
struct InputTask : Task { int* ext; InputTask(int* e):ext(e){} void start(TaskInterface) override {}
  void provideValue(TaskInterface, uintptr_t, const KeyType&, const ValueType&) override {}
  void inputsAvailable(TaskInterface ti) override { ti.complete(iv(*ext)); } };
struct InputRule : Rule { int* ext; InputRule(const KeyType& k, int* e):Rule(k),ext(e){}
  Task* createTask(BuildEngine&) override { return new InputTask(ext); }
  bool isResultValid(BuildEngine&, const ValueType& v) override { return vi(v) == *ext; } };
struct ATask : Task { int d = 0, x = 0;
  void start(TaskInterface ti) override { ti.request("D", 0); }
  void provideValue(TaskInterface ti, uintptr_t id, const KeyType&, const ValueType& v) override {
    if (id == 0) { d = vi(v); if (mode == 1) gEngine->cancelBuild(); ti.request("X", 1); } else x = vi(v); }
  void inputsAvailable(TaskInterface ti) override { runsA++; ti.complete(iv(d + x)); } };
struct ARule : Rule { ARule():Rule("A"){} Task* createTask(BuildEngine&) override { return new ATask(); }
  bool isResultValid(BuildEngine&, const ValueType&) override { return true; } };
int main(){
  Del del; BuildEngine engine(del); gEngine = &engine;
  engine.addRule(std::unique_ptr<Rule>(new InputRule("D", &extD)));
  engine.addRule(std::unique_ptr<Rule>(new InputRule("X", &extX)));
  engine.addRule(std::unique_ptr<Rule>(new ARule()));
  int r1 = vi(engine.build("A")); printf("build1 A=%d (clean=%d) runsA=%d\n", r1, extD+extX, runsA);
  extX = 2;
  mode = 1; auto& v2 = engine.build("A"); printf("build2 (cancelled) empty=%d runsA=%d\n", (int)v2.empty(), runsA);
  mode = 0; engine.resetForBuild();
  int r3 = vi(engine.build("A")); printf("build3 A=%d (clean=%d) runsA=%d  %s\n", r3, extD+extX, runsA, r3==extD+extX?"OK":"STALE");
  return (r3==extD+extX)?0:1; }
