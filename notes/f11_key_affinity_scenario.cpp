// F11 (C03): the key column is declared `key STRING UNIQUE` = NUMERIC affinity; keys that look like numbers are stored as numbers.
#include "llbuild/Core/BuildEngine.h"
#include "llbuild/Core/BuildDB.h"
#include "llbuild/Basic/ExecutionQueue.h"
#include <cstdio>
#include <cstdlib>
#include <unistd.h>
using namespace llbuild; using namespace llbuild::core;
static int runs = 0;
static ValueType iv(int v){ return ValueType{(uint8_t)v,(uint8_t)(v>>8),0,0}; }
static int vi(const ValueType& v){ return v.size()<2?-1:(v[0]|(v[1]<<8)); }
struct Del : BuildEngineDelegate, basic::ExecutionQueueDelegate {
  std::unique_ptr<Rule> lookupRule(const KeyType& k) override { abort(); }
  void cycleDetected(const std::vector<Rule*>&) override {}
  void error(const Twine& m) override { fprintf(stderr,"error: %s\n", m.str().c_str()); }
  void processStarted(basic::ProcessContext*, basic::ProcessHandle, llbuild_pid_t) override {}
  void processHadError(basic::ProcessContext*, basic::ProcessHandle, const Twine&) override {}
  void processHadOutput(basic::ProcessContext*, basic::ProcessHandle, StringRef) override {}
  void processFinished(basic::ProcessContext*, basic::ProcessHandle, const basic::ProcessResult&) override {}
  void queueJobStarted(basic::JobDescriptor*) override {} void queueJobFinished(basic::JobDescriptor*) override {}
  std::unique_ptr<basic::ExecutionQueue> createExecutionQueue() override { return createSerialQueue(*this, nullptr); }
};
struct CT : Task { int v; CT(int v):v(v){} void start(TaskInterface) override {}
  void provideValue(TaskInterface, uintptr_t, const KeyType&, const ValueType&) override {}
  void inputsAvailable(TaskInterface ti) override { runs++; ti.complete(iv(v)); } };
struct CR : Rule { int v; CR(const KeyType& k, int v):Rule(k),v(v){}
  Task* createTask(BuildEngine&) override { return new CT(v); }
  bool isResultValid(BuildEngine&, const ValueType&) override { return true; } };
static int session(const char* path, const char* key, int& ranOut) {
  Del del; BuildEngine engine(del); std::string err;
  engine.attachDB(createSQLiteBuildDB(path, 1, true, &err), &err);
  engine.addRule(std::unique_ptr<Rule>(new CR("0123", 7)));
  engine.addRule(std::unique_ptr<Rule>(new CR("123", 9)));
  runs = 0; int r = vi(engine.build(key)); ranOut = runs; return r; }
int main(){
  const char* path = "/tmp/f13/f11.db"; unlink(path); int ran;
  int a = session(path, "0123", ran); printf("session1 build 0123 -> %d (ran %d)\n", a, ran);
  int b = session(path, "123", ran);  printf("session2 build 123  -> %d (ran %d)\n", b, ran);
  int c = session(path, "0123", ran); printf("session3 build 0123 -> %d (ran %d)  %s\n", c, ran, c == 7 ? "OK" : "WRONG VALUE FROM DATABASE");
  return c == 7 && b == 9 ? 0 : 1; }
