// Scenario for candidate finding F13 (C05): cancel while A is computing, A has a discovered dependency X that changed.
#include "llbuild/Core/BuildEngine.h"
#include "llbuild/Basic/ExecutionQueue.h"
#include <cstdio>
#include <cstdlib>
#include <thread>
#include <atomic>
#include <chrono>
using namespace llbuild; using namespace llbuild::core;
static int extX = 1, extD = 10;               // external state
static std::atomic<int> mode{0};              // 0: A completes synchronously; 1: A cancels the build while computing
static int runsA = 0;
static ValueType iv(int v){ return ValueType{(uint8_t)v,(uint8_t)(v>>8),0,0}; }
static int vi(const ValueType& v){ return v.size()<2?-1:(v[0]|(v[1]<<8)); }
struct Del : BuildEngineDelegate, basic::ExecutionQueueDelegate {
  std::unique_ptr<Rule> lookupRule(const KeyType& k) override { fprintf(stderr,"lookup %s\n",k.c_str()); abort(); }
  void cycleDetected(const std::vector<Rule*>&) override { fprintf(stderr,"cycle\n"); }
  void error(const Twine& m) override { fprintf(stderr,"error: %s\n", m.str().c_str()); }
  void processStarted(basic::ProcessContext*, basic::ProcessHandle, llbuild_pid_t) override {}
  void processHadError(basic::ProcessContext*, basic::ProcessHandle, const Twine&) override {}
  void processHadOutput(basic::ProcessContext*, basic::ProcessHandle, StringRef) override {}
  void processFinished(basic::ProcessContext*, basic::ProcessHandle, const basic::ProcessResult&) override {}
  void queueJobStarted(basic::JobDescriptor*) override {} void queueJobFinished(basic::JobDescriptor*) override {}
  std::unique_ptr<basic::ExecutionQueue> createExecutionQueue() override { return createSerialQueue(*this, nullptr); }
};
struct InputTask : Task { int* ext; InputTask(int* e):ext(e){} void start(TaskInterface) override {}
  void provideValue(TaskInterface, uintptr_t, const KeyType&, const ValueType&) override {}
  void inputsAvailable(TaskInterface ti) override { ti.complete(iv(*ext)); } };
struct InputRule : Rule { int* ext; InputRule(const KeyType& k, int* e):Rule(k),ext(e){}
  Task* createTask(BuildEngine&) override { return new InputTask(ext); }
  bool isResultValid(BuildEngine&, const ValueType& v) override { return vi(v) == *ext; } };
static BuildEngine* gEngine;
struct ATask : Task { int d = 0;
  void start(TaskInterface ti) override { ti.request("D", 0); }
  void provideValue(TaskInterface, uintptr_t, const KeyType&, const ValueType& v) override { d = vi(v); }
  void inputsAvailable(TaskInterface ti) override {
    runsA++;
    if (mode == 1) {                                             // A computes on another thread; cancellation arrives meanwhile
      int dd = d; std::thread([ti, dd]() mutable { std::this_thread::sleep_for(std::chrono::milliseconds(50));
        gEngine->cancelBuild(); std::this_thread::sleep_for(std::chrono::milliseconds(50));
        ti.discoveredDependency("X"); ti.complete(iv(dd + extX)); }).detach();
      return; }
    ti.discoveredDependency("X");                                // A reads X while running (like a header)
    ti.complete(iv(d + extX)); } };
struct ARule : Rule { ARule():Rule("A"){} Task* createTask(BuildEngine&) override { return new ATask(); }
  bool isResultValid(BuildEngine&, const ValueType&) override { return true; } };
int main(){
  Del del; BuildEngine engine(del); gEngine = &engine;
  engine.addRule(std::unique_ptr<Rule>(new InputRule("D", &extD)));
  engine.addRule(std::unique_ptr<Rule>(new InputRule("X", &extX)));
  engine.addRule(std::unique_ptr<Rule>(new ARule()));
  int r1 = vi(engine.build("A")); printf("build1 A=%d (clean=%d) runsA=%d\n", r1, extD+extX, runsA);
  extX = 2;                                                     // external change to the discovered dependency
  mode = 1; auto& v2 = engine.build("A"); printf("build2 (cancelled) empty=%d runsA=%d\n", (int)v2.empty(), runsA);
  mode = 0; engine.resetForBuild();
  int r3 = vi(engine.build("A")); printf("build3 A=%d (clean=%d) runsA=%d  %s\n", r3, extD+extX, runsA, r3==extD+extX?"OK":"STALE");
  extX = 3;                                                     // a later change to X
  int r4 = vi(engine.build("A")); printf("build4 A=%d (clean=%d) runsA=%d  %s\n", r4, extD+extX, runsA, r4==extD+extX?"OK":"STALE");
  return (r3==12 && r4==13)?0:1; }
