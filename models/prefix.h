/* concrete small-string model for the bounded check of pathIsPrefixedByPath */
typedef struct sstr { char b[8]; size_t len; } sstr;
struct cpair { char *first; char *second; };
static inline size_t sstr_length(const sstr *s) { return s->len; }
static inline sstr verif_path_separators(void) { sstr s; s.b[0] = '/'; s.len = 1; return s; }
static inline sstr sstr_substr(const sstr *s, size_t pos, size_t n) {
  sstr r; r.len = 0;
  if (pos > s->len) pos = s->len;
  if (n > s->len - pos) n = s->len - pos;
  for (size_t i = 0; i < n; i++) r.b[i] = s->b[pos + i];
  r.len = n; return r; }
static inline _Bool sstr_equal(const sstr *a, sstr b) {
  if (a->len != b.len) return 0;
  for (size_t i = 0; i < a->len; i++) if (a->b[i] != b.b[i]) return 0;
  return 1; }
static inline size_t sstr_find_char(const sstr *s, char c) {
  for (size_t i = 0; i < s->len; i++) if (s->b[i] == c) return i;
  return (size_t)-1; }
static inline int sstr_compare(const sstr *s, size_t pos, size_t n, const sstr *o) {
  sstr t = sstr_substr(s, pos, n);
  size_t m = t.len < o->len ? t.len : o->len;
  for (size_t i = 0; i < m; i++) if (t.b[i] != o->b[i]) return (unsigned char)t.b[i] < (unsigned char)o->b[i] ? -1 : 1;
  return t.len < o->len ? -1 : (t.len > o->len ? 1 : 0); }
/* std::mismatch(first1, last1, first2) */
static inline struct cpair verif_mismatch(char *f1, char *l1, char *f2) {
  while (f1 != l1 && *f1 == *f2) { ++f1; ++f2; }
  struct cpair r; r.first = f1; r.second = f2; return r; }
/* the property statement as an executable spec: component-wise prefix, one trailing separator of the root ignored */
static inline _Bool verif_spec_prefixed(const sstr *p, const sstr *r) {
  size_t n = r->len;
  if (n > 0 && r->b[n - 1] == '/') n--;        /* root spelled with or without a trailing separator */
  if (p->len < n) return 0;
  for (size_t i = 0; i < n; i++) if (p->b[i] != r->b[i]) return 0;
  return p->len == n || p->b[n] == '/';
}
