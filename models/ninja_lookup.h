/* models for U-ninja-scope: strings by identity, the output stream as an event log, string maps as one-entry ghosts */
typedef struct pstr { const char *ptr; size_t len; _Bool escaped; } pstr;     /* std::string: identity + "went through shellEscaped" */
struct smap_entry { pstr second; };
struct smap { _Bool hit; struct smap_entry entry; };
struct ostream { char _e; };
struct nnode { pstr screenPath; };
VERIF_VEC(vec_nnode, struct nnode)   /* the node pointers of the list, seen as the nodes themselves */
int g_name_class;        /* ghost: 1 "in", 2 "in_newline", 3 "out", 0 any other name */
#define LITCLASS(l) (((l)[0] == 'i' && (l)[1] == 'n' && (l)[2] == 0) ? 1 : ((l)[0] == 'i' && (l)[1] == 'n' && (l)[2] == '_' && (l)[3] == 'n' && (l)[4] == 'e' && (l)[5] == 'w' && (l)[6] == 'l' && (l)[7] == 'i' && (l)[8] == 'n' && (l)[9] == 'e' && (l)[10] == 0) ? 2 : ((l)[0] == 'o' && (l)[1] == 'u' && (l)[2] == 't' && (l)[3] == 0) ? 3 : -1)
static inline _Bool name_is(strref n, const char *lit) {
  __CPROVER_assert(LITCLASS(lit) > 0, "extraction: the special variable names compared against are in, in_newline, out");
  return g_name_class == LITCLASS(lit); }
/* output events */
unsigned g_paths, g_seps, g_values, g_scope_lookups, g_evals, g_escaped_paths; char g_sep_char;
const void *g_value_src, *g_eval_template, *g_scope_name, *g_path_list, *g_eval_ctx; _Bool g_eval_lookup_is_build;
char g_scope_value;
static inline void out_char(struct ostream *o, char c) { g_seps++; g_sep_char = c; }
static inline void out_lit(struct ostream *o, const char *s) { g_seps++; g_sep_char = s[0]; }
static inline void out_value(struct ostream *o, pstr v) { g_values++; g_value_src = v.ptr; }
static inline void out_path(struct ostream *o, pstr v) { g_paths++; }
static inline void out_ref(struct ostream *o, strref r) { __CPROVER_assert(r.ptr == &g_scope_value, "only a scope binding is written as a StringRef"); }
static inline pstr str_shell_escaped(strref p) { pstr r; r.ptr = p.ptr; r.len = p.len; r.escaped = 1; g_escaped_paths++; return r; }
static inline struct smap_entry *smap_find(struct smap *m, strref name) { return m->hit ? &m->entry : 0; }
static inline struct smap_entry *smap_end(struct smap *m) { return 0; }
struct Scope; char g_current_scope_marker;
/* getCurrentScope(): the scope of the file being loaded (a subninja file has its own); any other scope accessor yields a different object */
static inline struct Scope *loader_scope(void *loader) { return (struct Scope *)&g_current_scope_marker; }
const void *g_scope_obj;
static inline strref scope_lookup(const void *scope, strref name) { g_scope_lookups++; g_scope_name = name.ptr; g_scope_obj = scope; strref r; r.ptr = &g_scope_value; r.len = 0; return r; }
static inline strref pstr_ref(pstr s) { strref r; r.ptr = s.ptr; r.len = s.len; return r; }
char g_empty_string;
static inline pstr smap_lookup(struct smap *m, strref name) { if (m->hit) return m->entry.second; pstr e; e.ptr = &g_empty_string; e.len = 0; e.escaped = 0; return e; }
static inline size_t smap_count(struct smap *m, strref name) { return m->hit ? 1 : 0; }
char g_root_scope_marker;
static inline struct Scope *manifest_root_scope(void *manifest) { return (struct Scope *)&g_root_scope_marker; }
const char *g_guard_name; strref g_cur_name;   /* the name pushed on the active-variable list (0: none); the name being looked up */
VERIF_VEC(vec_name, strref)
unsigned g_errors;
#define ACTIVE(ctx, nm) (((ctx)->activeRuleVariables.len > 0 && (ctx)->activeRuleVariables.ptr[0].ptr == (nm).ptr) || ((ctx)->activeRuleVariables.len > 1 && (ctx)->activeRuleVariables.ptr[1].ptr == (nm).ptr))
static inline _Bool name_same(strref a, strref b) { return a.ptr == b.ptr; }
static inline void active_push(vec_name *v, strref n) { __CPROVER_assert(v->len < v->cap, "vector model: room for one more element (ghost capacity)"); v->ptr[v->len] = n; v->len = v->len + 1; g_guard_name = n.ptr; }
static inline void active_pop(vec_name *v) { __CPROVER_assert(v->len > 0, "pop_back of a non-empty list"); v->len = v->len - 1; g_guard_name = 0; }
