/* models for CAPIBuildEngineDelegate::cycleDetected: the rule list, the llb_data_t vector handed to the client, and copies of keys */
#define NR 3
struct rulevec { struct Rule **ptr; size_t len; };
static inline size_t rulevec_size(const struct rulevec *v) { return v->len; }
static inline struct Rule **rulevec_at(const struct rulevec *v, size_t i) { return &v->ptr[i]; }
struct datavec { char _e; };
struct llb_data_t g_datavec_buf[NR]; size_t g_datavec_len; struct llb_data_t *g_cyc_keys; uint64_t g_cyc_n; unsigned g_key_copies;
static inline struct datavec datavec_new(void) { struct datavec v; g_datavec_len = 0; return v; }
static inline void datavec_reserve(struct datavec *v, size_t n) { }
static inline void datavec_push(struct datavec *v, struct llb_data_t d) { __CPROVER_assert(g_datavec_len < NR, "vector model capacity"); g_datavec_buf[g_datavec_len] = d; g_datavec_len = g_datavec_len + 1; }
static inline struct llb_data_t *datavec_data(struct datavec *v) { return g_datavec_buf; }
static inline size_t datavec_size(struct datavec *v) { return g_datavec_len; }
/* a COPY of a key lives in storage of its own (which ends with the copy): its bytes are not the rule's bytes */
char g_copy_storage[NR];
static inline keyt keyt_copy_local(keyt src) { keyt k; k.ptr = &g_copy_storage[g_key_copies % NR]; k.len = src.len; g_key_copies++; return k; }
static inline size_t keyt_size_v(const keyt *k) { return k->len; }
static inline const char *keyt_data_v(const keyt *k) { return k->ptr; }
