struct ProcessResult g_completion_result, g_finished_result;
/* wait4(pid, &status, 0, &usage): either fails (-1, errno set, possibly EINTR=4) or reaps the child once and stores an arbitrary status word */
static inline int verif_wait4(int pid, int *status, int options, struct rusage *usage) {
  __CPROVER_assert(!g_reaped, "[P:C10,P:C16] a process is waited for until reaped, and not again");
  g_waits = 1;
  if (nondet_bool()) { g_errno = nondet_int(); g_wait_result = -1; return -1; }
  g_status_word = nondet_int(); *status = g_status_word; g_reaped = 1;
  struct rusage u; *usage = u; g_wait_result = pid; __CPROVER_assume(pid != -1);
  return pid;
}
static inline void verif_fd_close(struct ManagedDescriptor *fd) {
  __CPROVER_assert(g_waits > 0, "the release descriptor is held open until the process has been waited for");
  fd->closed = 1; }
static inline void verif_pgrp_remove(struct ProcessGroup *g, int pid) { g_removed++; }
static inline void verif_had_error(struct ProcessDelegate *d) { g_errors++; }
static inline void verif_process_finished(struct ProcessDelegate *d, struct ProcessContext *ctx, struct ProcessHandle h, struct ProcessResult *r) {
  __CPROVER_assert(g_completions == 0, "[P:C10,P:C16] processFinished is delivered before the completion function");
  g_finished_result = *r; g_finished++; }
static inline void verif_completion(struct completion *c, struct ProcessResult *r) { g_completion_result = *r; g_completions++; }
