static inline struct FileInfo *verif_stored_info(const struct BuildValue *v, unsigned n) { __CPROVER_assert(n < 8, "stored output info index"); return &g_stored[n]; }
static inline struct FileInfo verif_current_info(const struct BuildNode *node, struct FileSystem *fs) { return g_current[node->g_idx]; }
static inline struct FileSystem *verif_fs(struct BuildSystem *s) { static struct FileSystem f; return &f; }
