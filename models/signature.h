/* models for U-sig-fields */
struct CommandSignature { uint64_t value; };
struct strpair { strref first; strref second; };
VERIF_VEC(vec_strref, strref)
VERIF_VEC(vec_vstr, vstr)
VERIF_VEC(vec_pair, struct strpair)
static inline struct CommandSignature sig_make(uint64_t v) { struct CommandSignature s; s.value = v; return s; }
/* the hash chain: an arbitrary (uninterpreted) function of the previous value and the item; the ghost counts the items fed */
size_t g_items; uint64_t g_chain;
uint64_t nondet_u64(void);
static inline struct CommandSignature *verif_combine(struct CommandSignature *s) { g_items++; s->value = nondet_u64(); g_chain = s->value; return s; }
#define SIG_COMBINE(self, item) ((void)(item), verif_combine(self))
/* ExternalCommand::getSignature(): name, inputs, outputs and three flags -- abstracted here (its own feeding is not under contract) */
static inline struct CommandSignature ExternalCommand_getSignature_abs(void *self) { struct CommandSignature s; s.value = nondet_u64(); return s; }
