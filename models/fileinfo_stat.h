/* stat()/lstat(): the kernel's answer is a ghost record g_st and a ghost return code (both arbitrary) */
struct stat g_st; int g_stat_rc; unsigned g_stat_calls; _Bool g_used_lstat;
static inline int verif_stat(const char *p, struct stat *buf) { g_stat_calls++; g_used_lstat = 0; if (g_stat_rc == 0) *buf = g_st; return g_stat_rc; }
static inline int verif_lstat(const char *p, struct stat *buf) { g_stat_calls++; g_used_lstat = 1; if (g_stat_rc == 0) *buf = g_st; return g_stat_rc; }

static inline struct FileChecksumHasherMD5 verif_hasher_new(vstr *path) { struct FileChecksumHasherMD5 h; h.__base.path = path; h.__base.file = 0; return h; }
