/* models for U-key */
char *g_buf; size_t g_len;
typedef struct keyt { const char *ptr; size_t len; } keyt;     /* core::KeyType: the owned key bytes */
static inline const char *keyt_data(const keyt *k) { return k->ptr; }
static inline size_t keyt_size(const keyt *k) { return k->len; }
/* memcpy of the 4-byte length prefix, loop-free */
static inline void *verif_memcpy4(void *d, const void *s, size_t n) {
  __CPROVER_assert(n == 4, "model: memcpy is modelled for the 4-byte length prefix");
  ((char *)d)[0] = ((const char *)s)[0]; ((char *)d)[1] = ((const char *)s)[1]; ((char *)d)[2] = ((const char *)s)[2]; ((char *)d)[3] = ((const char *)s)[3];
  return d; }
/* a std::string being built: what was appended, where (one string is built per constructor) */
char g_built_marker; unsigned g_pieces; char g_piece_char; size_t g_piece_char_pos, g_piece_len, g_piece_pos; const char *g_piece_ptr;
size_t nondet_cstr_len(void);
static inline keyt keyt_new(void) { keyt k; k.ptr = &g_built_marker; k.len = 0; return k; }
static inline void keyt_reserve(keyt *k, size_t n) { }
static inline void keyt_push_back(keyt *k, char c) { g_pieces++; g_piece_char = c; g_piece_char_pos = k->len; k->len = k->len + 1; }
static inline keyt *keyt_append(keyt *k, const char *b, const char *e) { g_pieces++; g_piece_ptr = b; g_piece_len = (size_t)(e - b); g_piece_pos = k->len; k->len = k->len + (size_t)(e - b); return k; }
static inline keyt *keyt_assign(keyt *dst, const keyt *src) { *dst = *src; return dst; }
/* std::string(const char *): the length is wherever the first NUL byte is -- arbitrary as far as a key with binary content is concerned */
static inline keyt keyt_cstr_any(const char *p) { keyt k; k.ptr = p; k.len = nondet_cstr_len(); return k; }
static inline keyt keyt_copy(const keyt *src) { return *src; }
