/* models for U-key */
char *g_buf; size_t g_len;
typedef struct keyt { const char *ptr; size_t len; } keyt;     /* core::KeyType: the owned key bytes */
static inline const char *keyt_data(const keyt *k) { return k->ptr; }
static inline size_t keyt_size(const keyt *k) { return k->len; }
/* memcpy of the 4-byte length prefix, loop-free */
static inline void *verif_memcpy4(void *d, const void *s, size_t n) {
  __CPROVER_assert(n == 4, "model: memcpy is modelled for the 4-byte length prefix");
  ((char *)d)[0] = ((const char *)s)[0]; ((char *)d)[1] = ((const char *)s)[1]; ((char *)d)[2] = ((const char *)s)[2]; ((char *)d)[3] = ((const char *)s)[3];
  return d; }
