/* models for U-ninja-task: file infos as a missing bit plus a time stamp on one scale (FileTimestamp ordering is proved in U-fileinfo);
 * a decoded value is an abstract record */
struct FileTimestamp { uint64_t t; };
struct FileInfo { struct FileTimestamp modTime; _Bool missing; };
struct CommandSignature { uint64_t value; };
typedef struct vbytes { uint8_t *ptr; size_t len; } vbytes;
struct BuildValue { uint32_t kind; uint32_t numOutputInfos; struct CommandSignature commandHash; };
#define NO 4
struct FileInfo g_info[NO]; size_t g_k; struct BuildValue g_value; unsigned g_missing_reports;
static inline struct BuildValue verif_from_value(vbytes *v) { return g_value; }                      /* decoding is an assumed, pure function of the stored bytes */
static inline struct FileInfo *verif_output_info0(const struct BuildValue *v) { return &g_info[0]; }
static inline struct FileInfo *verif_nth_info(const struct BuildValue *v, unsigned n) { __CPROVER_assert(n < v->numOutputInfos && n < NO, "getNthOutputInfo: the index is below the number of outputs"); return &g_info[n]; }
