/* models for U-ninja-task: file infos as a missing bit plus a time stamp on one scale (FileTimestamp ordering is proved in U-fileinfo);
 * a decoded value is an abstract record */
struct FileTimestamp { uint64_t t; };
struct FileInfo { struct FileTimestamp modTime; _Bool missing; };
struct CommandSignature { uint64_t value; };
typedef struct vbytes { uint8_t *ptr; size_t len; } vbytes;
struct BuildValue { uint32_t kind; uint32_t numOutputInfos; struct CommandSignature commandHash; };
#define NO 4
struct FileInfo g_info[NO]; size_t g_k; struct BuildValue g_value; unsigned g_missing_reports;
static inline struct BuildValue verif_from_value(vbytes *v) { return g_value; }                      /* decoding is an assumed, pure function of the stored bytes */
static inline struct FileInfo *verif_output_info0(const struct BuildValue *v) { return &g_info[0]; }
static inline struct FileInfo *verif_nth_info(const struct BuildValue *v, unsigned n) { __CPROVER_assert(n < v->numOutputInfos && n < NO, "getNthOutputInfo: the index is below the number of outputs"); return &g_info[n]; }
unsigned g_computes, g_can_calls, g_completes, g_nout; _Bool g_can_answer, g_complete_force; uint32_t g_complete_kind; uint64_t g_complete_hash;
uint32_t g_tv_kind; uint64_t g_tv_hash;       /* ghost: what the last toValue() encoded */
static inline vbytes bv_to_value(const struct BuildValue *v) { g_tv_kind = v->kind; g_tv_hash = v->commandHash.value; vbytes b; b.ptr = 0; b.len = 0; return b; }
static inline void ti_complete(struct TaskInterface *ti, vbytes *b, _Bool force) { g_completes++; g_complete_kind = g_tv_kind; g_complete_hash = g_tv_hash; g_complete_force = force; }
unsigned g_failed_incr, g_deps_calls; _Bool g_deps_ok;
static inline void ctx_incr_failed(void *ctx) { g_failed_incr++; }
static inline struct BuildValue bv_failed(void) { struct BuildValue v; v.kind = 3; v.numOutputInfos = 0; v.commandHash.value = 0; return v; }   /* BuildValueKind::FailedCommand == 3 (checked by the contract through the enum) */
