struct LaneBasedExecutionQueue *g_q;
static inline void verif_q_notify_one(verif_condvar *c) { g_notifies++; g_notify_locked = g_q->readyJobsMutex.held; }
static inline void verif_lane_wait(verif_condvar *c, verif_mutex *lock) {
  __CPROVER_assert(lock->held && lock == &g_q->readyJobsMutex, "[P:C16] a lane waits with readyJobsMutex held");
  __CPROVER_assert(!g_q->shutdown && g_q->readyJobs->g_size == 0 && g_q->readyPriorityJobs.jobs.len == 0, "[P:C16] a lane sleeps only after observing both ready queues empty (and no shutdown) under the mutex");
  g_waits = 1;
  /* while the lane sleeps other threads add jobs or request shutdown */
  size_t a, b; _Bool s; __CPROVER_assume(b <= g_q->readyPriorityJobs.jobs.cap - g_q->readyPriorityJobs.jobs.head);
  g_q->readyJobs->g_size = a; g_q->readyPriorityJobs.jobs.len = b; g_q->shutdown = s; }
