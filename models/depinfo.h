/* ghost state and callee models for U-depinfo */
char *g_buf; size_t g_len;
size_t g_next;                          /* offset just after the last reported record */
_Bool g_err, g_evt;                     /* ghost: an error / a record has been reported */
/* StringRef::endswith specialised to the one-byte suffix the parser uses */
static inline _Bool strref_endswith1(const strref *s, strref suffix) {
  __CPROVER_assert(suffix.len == 1, "model: endswith is only modelled for a one-byte suffix");
  return s->len >= 1 && s->ptr[s->len - 1] == suffix.ptr[0];
}
