/* ghost state and callee models for U-ninja-lex */
char *g_buf; size_t g_len;
size_t g_k; /* ghost index: arbitrary but fixed (stands for a universal quantifier) */
/* <cctype> isspace in the "C" locale; its argument must be EOF or representable as unsigned char */
static inline int verif_isspace(int c) {
  __CPROVER_assert(c >= -1 && c <= 255, "isspace argument is EOF or an unsigned char value");
  return c == 32 || (c >= 9 && c <= 13);
}
/* memcmp for the constant lengths the lexer uses (n <= 8), loop-free: result sign of the first differing byte */
#define VM_STEP(i) if ((i) < n && x[i] != y[i]) return x[i] < y[i] ? -1 : 1;
static inline int verif_memcmp(const void *a, const void *b, size_t n) {
  const unsigned char *x = a, *y = b;
  __CPROVER_assert(n <= 8, "model: memcmp is modelled for n <= 8");
  VM_STEP(0) VM_STEP(1) VM_STEP(2) VM_STEP(3) VM_STEP(4) VM_STEP(5) VM_STEP(6) VM_STEP(7)
  return 0;
}
