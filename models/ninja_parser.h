/* models for U-ninja-parser: the lexer as an assumed contract (proved in U-ninja-lex: a token that is not EndOfFile consumes at least one
 * byte, EndOfFile is produced only at the true end and then for ever), the parse actions as no-ops, token lists as counters */
size_t g_rem;                       /* bytes of input not yet consumed by the lexer */
struct tokvec { size_t n; };
unsigned g_errors, g_actions;
static inline struct tokvec tokvec_new(void) { struct tokvec v; v.n = 0; return v; }
static inline void tokvec_push(struct tokvec *v) { v->n = v->n + 1; }
