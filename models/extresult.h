/* models for U-ext-result: a file info is an abstract identity, a size and a "missing" bit (the all-zero record); FileInfo{} is the all-zero record */
struct FileInfo { uint64_t id; uint64_t size; _Bool missing; };
struct TaskInterface { void *impl; void *ctx; };
#define NO 4
struct FileInfo g_current[NO], g_stored[NO]; size_t g_k; uint64_t g_epoch;
struct FileInfo g_made[NO + 1]; size_t g_made_n; unsigned g_makes;      /* the list handed to BuildValue::makeSuccessfulCommand */
static inline struct FileInfo finfo_zero(void) { struct FileInfo f; f.id = 0; f.size = 0; f.missing = 1; return f; }
static inline uint64_t ti_epoch(struct TaskInterface *ti) { return g_epoch; }
typedef struct vec_finfo { struct FileInfo buf[NO + 1]; size_t len; } vec_finfo;
static inline vec_finfo vec_finfo_new(void) { vec_finfo v; v.len = 0; return v; }
static inline void vec_finfo_push(vec_finfo *v, struct FileInfo f) { __CPROVER_assert(v->len <= NO, "output info list: room for one more (ghost capacity)"); v->buf[v->len] = f; v->len = v->len + 1; }
