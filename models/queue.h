/* models for U-queue: jobs by identity, std::deque<QueueJob> as (buffer, head, length), mutex / condition variable as ghosts */
typedef struct verif_mutex { _Bool held; } verif_mutex;
static inline void verif_mutex_lock(verif_mutex *m) { __CPROVER_assert(!m->held, "[P:C16] a mutex is not locked twice by the same thread"); m->held = 1; }
static inline void verif_mutex_unlock(verif_mutex *m) { __CPROVER_assert(m->held, "[P:C16] a mutex is unlocked only while held"); m->held = 0; }
typedef struct verif_condvar { char _e; } verif_condvar;
struct qjob { void *desc; void *fn; };          /* QueueJob: descriptor + work */
typedef struct dq_qjob { struct qjob *ptr; size_t head; size_t len; size_t cap; } dq_qjob;
#define DQ_OK(d) (__CPROVER_is_fresh((d).ptr, (d).cap * sizeof(struct qjob)) && (d).cap <= 64 && (d).head <= (d).cap && (d).len <= (d).cap - (d).head)
static inline void dq_push_back(dq_qjob *d, struct qjob j) { __CPROVER_assert(d->head + d->len < d->cap, "deque model: room for one more element (ghost capacity)"); d->ptr[d->head + d->len] = j; d->len = d->len + 1; }
static inline struct qjob *dq_front(dq_qjob *d) { __CPROVER_assert(d->len > 0, "[P:C16] front() of a non-empty queue"); return &d->ptr[d->head]; }
static inline void dq_pop_front(dq_qjob *d) { __CPROVER_assert(d->len > 0, "[P:C16] pop_front() of a non-empty queue"); d->head = d->head + 1; d->len = d->len - 1; }
static inline _Bool dq_empty(const dq_qjob *d) { return d->len == 0; }
static inline size_t dq_size(const dq_qjob *d) { return d->len; }
struct completion_opt { _Bool has; };
unsigned g_async, g_notifies, g_completions, g_waits; int g_completion_status; _Bool g_notify_locked;
struct qjob g_added_job, g_next_job; void *g_added_to;
size_t g_k;
