struct KeyID { uint64_t _value; };
struct KeyIDAndFlags { struct KeyID keyID; _Bool orderOnly; _Bool singleUse; };
VERIF_VEC(vec_keyid, struct KeyID)
VERIF_VEC(vec_u8, uint8_t)
