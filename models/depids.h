struct KeyID { uint64_t _value; };
struct KeyIDAndFlags { struct KeyID keyID; _Bool orderOnly; _Bool singleUse; };
VERIF_VEC(vec_keyid, struct KeyID)
VERIF_VEC(vec_u8, uint8_t)
/* vector::erase(begin() + i) on a list of at most ND entries: the entries after position i move down by one (written out, no loop) */
#define ND 4
static inline void vec_keyid_erase_at(vec_keyid *v, long i) {
  __CPROVER_assert(i >= 0 && (size_t)i < v->len, "erase: the position is inside the list");
  if (i <= 0 && v->len > 1) v->ptr[0] = v->ptr[1];
  if (i <= 1 && v->len > 2) v->ptr[1] = v->ptr[2];
  if (i <= 2 && v->len > 3) v->ptr[2] = v->ptr[3];
  v->len = v->len - 1; }
static inline void vec_u8_erase_at(vec_u8 *v, long i) {
  __CPROVER_assert(i >= 0 && (size_t)i < v->len, "erase: the position is inside the list");
  if (i <= 0 && v->len > 1) v->ptr[0] = v->ptr[1];
  if (i <= 1 && v->len > 2) v->ptr[1] = v->ptr[2];
  if (i <= 2 && v->len > 3) v->ptr[2] = v->ptr[3];
  v->len = v->len - 1; }
/* ghost: the list as it was when cleanSingleUseDependencies was entered */
uint64_t g_k0[ND]; uint8_t g_f0[ND]; size_t g_n0;
#define SU0(k) (((g_f0[k] >> 1) & 1) != 0)
#define KEEP0(k) (((k) < g_n0 && !SU0(k)) ? 1u : 0u)
/* the number of entries in [a, b) of the old list that are kept */
#define CNT(a, b) ((0 >= (a) && 0 < (b) ? KEEP0(0) : 0u) + (1 >= (a) && 1 < (b) ? KEEP0(1) : 0u) + (2 >= (a) && 2 < (b) ? KEEP0(2) : 0u) + (3 >= (a) && 3 < (b) ? KEEP0(3) : 0u))
/* vector::insert(pos, first, last) with at most 2 inserted elements into a list of at most 2 (capacity ND), written out */
#define DEF_INSERT(NAME, VEC, T) \
static inline void NAME(VEC *v, T *pos, const T *first, const T *last) { \
  long i = pos - v->ptr, n = last - first; \
  __CPROVER_assert(i >= 0 && (size_t)i <= v->len && n >= 0 && n <= 2 && v->len <= 2, "insert: position inside the list, at most two elements into at most two"); \
  if (1 >= i && 1 < (long)v->len) v->ptr[1 + n] = v->ptr[1]; \
  if (0 >= i && 0 < (long)v->len) v->ptr[0 + n] = v->ptr[0]; \
  if (n > 0) v->ptr[i] = first[0]; \
  if (n > 1) v->ptr[i + 1] = first[1]; \
  v->len = v->len + (size_t)n; }
DEF_INSERT(vec_keyid_insert, vec_keyid, struct KeyID)
DEF_INSERT(vec_u8_insert, vec_u8, uint8_t)
/* vector::resize(n): the list keeps its first n entries (growing is within the ghost capacity; new entries are value-initialised) */
static inline void vec_keyid_resize(vec_keyid *v, size_t n) { __CPROVER_assert(n <= v->cap, "resize within the ghost capacity"); if (n > v->len) { if (v->len <= 0 && 0 < n) v->ptr[0]._value = 0; if (v->len <= 1 && 1 < n) v->ptr[1]._value = 0; if (v->len <= 2 && 2 < n) v->ptr[2]._value = 0; if (v->len <= 3 && 3 < n) v->ptr[3]._value = 0; } v->len = n; }
static inline void vec_u8_resize(vec_u8 *v, size_t n) { __CPROVER_assert(n <= v->cap, "resize within the ghost capacity"); if (n > v->len) { if (v->len <= 0 && 0 < n) v->ptr[0] = 0; if (v->len <= 1 && 1 < n) v->ptr[1] = 0; if (v->len <= 2 && 2 < n) v->ptr[2] = 0; if (v->len <= 3 && 3 < n) v->ptr[3] = 0; } v->len = n; }
