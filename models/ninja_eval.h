/* models for U-ninja-eval: the lookup / error callbacks and the output stream of evalString as recorders with obligations */
struct ostream { char _e; }; struct lookupfn { char _e; }; struct errorfn { char _e; };
const char *g_begin, *g_end; size_t g_k, g_len; unsigned g_lookups, g_errors, g_pieces, g_chars;
static inline _Bool idc(char c) { return (c >= 'a' && c <= 'z') || (c >= 'A' && c <= 'Z') || (c >= '0' && c <= '9') || c == '_' || c == '.' || c == '-'; }
static inline _Bool sidc(char c) { return (c >= 'a' && c <= 'z') || (c >= 'A' && c <= 'Z') || (c >= '0' && c <= '9') || c == '_' || c == '-'; }
static inline int verif_isspace(int c) { return c == ' ' || (c >= 9 && c <= 13); }
static inline void ev_piece(struct ostream *o, const char *p, size_t n) {
  __CPROVER_assert(__CPROVER_same_object(p, g_begin) && n >= 1 && __CPROVER_POINTER_OFFSET(p) <= g_len && n <= g_len - __CPROVER_POINTER_OFFSET(p), "[P:C19] a literal piece is a non-empty span inside the string");
  __CPROVER_assert(!(g_k < n) || p[g_k] != '$', "[P:C17] a literal piece contains no '$'");
  __CPROVER_assert(__CPROVER_POINTER_OFFSET(p) + n == g_len || p[n] == '$', "[P:C17] a literal piece extends to the next '$' or the end of the string");
  g_pieces++; }
static inline void ev_char(struct ostream *o, char c) {
  __CPROVER_assert(c == ' ' || c == ':' || c == '$', "[P:C17] the single-character escapes are '$ ', '$:' and '$$'");
  g_chars++; }
static inline void ev_lookup(struct lookupfn *f, void *ctx, const char *p, size_t n, struct ostream *o) {
  __CPROVER_assert(__CPROVER_same_object(p, g_begin) && __CPROVER_POINTER_OFFSET(p) >= 1 && __CPROVER_POINTER_OFFSET(p) <= g_len && n <= g_len - __CPROVER_POINTER_OFFSET(p), "[P:C19] a variable name is a span inside the string");
  _Bool braced = p[-1] == '{';
  __CPROVER_assert(braced ? (__CPROVER_POINTER_OFFSET(p) >= 2 && p[-2] == '$' && __CPROVER_POINTER_OFFSET(p) + n < g_len && p[n] == '}') : (p[-1] == '$' && n >= 1 && (__CPROVER_POINTER_OFFSET(p) + n == g_len || !sidc(p[n]))),
                   "[P:C17] the name looked up is exactly the text between '${' and '}', or the maximal run of simple identifier characters after '$'");
  __CPROVER_assert(!(g_k < n) || (braced ? idc(p[g_k]) : sidc(p[g_k])), "[P:C17] every character of a looked-up name is an identifier character of its form");
  g_lookups++; }
static inline void ev_error(struct errorfn *f) { g_errors++; }
