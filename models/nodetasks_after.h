static inline struct FileInfo verif_current_info(const struct BuildNode *node, struct FileSystem *fs) { return g_current[node->g_idx]; }
static inline struct FileInfo *verif_stored_info0(const struct BuildValue *v) { return &g_stored[0]; }
static inline _Bool verif_info_eq(const struct FileInfo *a, struct FileInfo b) { return a->id == b.id && a->size == b.size && (a->missing != 0) == (b.missing != 0); }
struct BuildSystem; struct BuildSystemDelegate; struct Command; struct Node;
struct BuildSystemImpl; static inline struct BuildSystemImpl *verif_bs_any(void) { static char b; return (struct BuildSystemImpl *)&b; }
static inline struct FileSystem *verif_fs(void *s) { static struct FileSystem f; return &f; }
static inline struct BuildSystemDelegate *verif_delegate(void *s) { return (struct BuildSystemDelegate *)s; }
unsigned g_completes, g_failures, g_rfo_calls; int g_complete_kind, g_rfo_kind; _Bool g_complete_force; const void *g_rfo_node, *g_rfo_value_src;
struct FileInfo g_existing_info;
static inline void verif_had_failure(struct BuildSystemDelegate *d) { g_failures++; }
static inline struct BuildValue bv_make(int kind) { struct BuildValue v; v.kind = kind; v.g_n = 0; return v; }
static inline struct BuildValue bv_existing(struct FileInfo info) { g_existing_info = info; struct BuildValue v; v.kind = BuildValue_Kind_ExistingInput; v.g_n = 1; return v; }
static inline struct valuedata bv_to_data(const struct BuildValue *v) { struct valuedata d; d.kind = (int)v->kind; d.src = v; return d; }
static inline struct BuildValue bv_from_data(struct valuedata d) { struct BuildValue v; v.kind = d.kind; v.g_n = 0; v.g_src = d.src; return v; }
const void *g_complete_src;
static inline void ti_complete(struct TaskInterface *ti, struct valuedata d, _Bool force) { g_completes++; g_complete_kind = d.kind; g_complete_src = d.src; g_complete_force = force; }
/* Command::getResultForOutput(node, value): proved for ExternalCommand in U-ext-result; here a recorder with an arbitrary answer */
static inline struct BuildValue verif_result_for_output(struct Command *c, struct Node *n, struct BuildValue v) { g_rfo_calls++; g_rfo_node = n; g_rfo_value_src = v.g_src; struct BuildValue r; r.kind = g_rfo_kind; r.g_n = 0; return r; }
/* Target::getNodes()[i]: node i of the target, named by its position */
char g_nodes_base[64];
#define NODE_AT(i) ((const void *)&g_nodes_base[(i) % 64])
static inline struct nodelist *verif_target_nodes(void *target) { static struct nodelist l; return &l; }
static inline struct Node *nodelist_at(struct nodelist *l, uintptr_t i) { return (struct Node *)NODE_AT(i); }
static inline void nodeset_insert(struct nodeset *s, struct Node *n) { s->n = s->n + 1; s->last = n; }
unsigned g_prior_calls, g_provide_calls; const void *g_fwd_src; uintptr_t g_fwd_id;
static inline void *verif_outer_bs(void *impl) { return impl; }
static inline void verif_cmd_prior(struct Command *c, void *system, struct TaskInterface ti, struct BuildValue v) { g_prior_calls++; g_fwd_src = v.g_src; }
static inline void verif_cmd_provide(struct Command *c, void *system, struct TaskInterface ti, uintptr_t id, struct valuedata key, struct BuildValue v) { g_provide_calls++; g_fwd_src = v.g_src; g_fwd_id = id; }
/* produced directory node: the node's name, the tree-signature key, the request log */
_Bool g_name_slash, g_name_is_root;
static inline strref node_name(const struct Node *n) { return n->g_name; }
static inline _Bool name_endswith(const strref *s, const char *suffix) { return g_name_slash; }
static inline _Bool name_ne_root(strref s, const char *lit) { return !g_name_is_root; }
static inline strref name_substr(const strref *s, size_t from, size_t n) { strref r; r.ptr = s->ptr; r.len = n; return r; }
struct StringList { char _e; };
static inline struct StringList strlist_empty(void) { struct StringList l; return l; }
static inline struct valuedata key_treesig_v(strref path, const struct StringList *filters) { struct valuedata k; k.kind = -2; k.src = path.ptr; return k; }
unsigned g_nreq; uintptr_t g_req_id0; int g_req_kind0; const void *g_req_path0;
static inline void ti_request_v(struct TaskInterface *ti, struct valuedata k, uintptr_t id) { g_nreq++; g_req_id0 = id; g_req_kind0 = k.kind; g_req_path0 = k.src; }
