/* models for U-ninja-builddecl: tokens by identity, evaluated paths by the token they came from, nodes by the path they were created for */
typedef struct pstr { const char *ptr; size_t len; } pstr;
#define NT 3
struct Node; struct Rule; struct Scope; struct Manifest;
struct nodevec { struct Node *buf[NT + 1]; size_t len; };
static inline struct nodevec nodevec_new(void) { struct nodevec v; v.len = 0; return v; }
static inline void nodevec_push(struct nodevec *v, struct Node *n) { __CPROVER_assert(v->len <= NT, "node list: room for one more (ghost capacity)"); v->buf[v->len] = n; v->len = v->len + 1; }
unsigned g_errors, g_evals, g_finds, g_cmds; _Bool g_rule_found; struct Rule *g_rule_hit, *g_phony;
const void *g_eval_scope_ok;          /* the scope every path was evaluated in (0 once a different one was used) */
size_t g_eval_len[2 * NT];            /* ghost: the length the k-th evaluated path turns out to have (arbitrary) */
const char *g_find_wd_ok;
/* the command that was constructed */
struct Rule *g_c_rule; struct nodevec g_c_out, g_c_in; unsigned g_c_exp, g_c_imp; char g_cmd_obj;
char g_scope_marker; char g_rules_marker;
struct pmap { char _e; };
unsigned g_stores, g_inserts; const void *g_store_map, *g_insert_scope; const char *g_store_name, *g_insert_name, *g_insert_val; pstr g_slot; _Bool g_name_valid;
