/* models for U-ninja-builddecl: tokens by identity, evaluated paths by the token they came from, nodes by the path they were created for */
typedef struct pstr { const char *ptr; size_t len; } pstr;
#define NT 3
struct Node; struct Rule; struct Scope; struct Manifest;
struct nodevec { struct Node *buf[NT + 1]; size_t len; };
static inline struct nodevec nodevec_new(void) { struct nodevec v; v.len = 0; return v; }
static inline void nodevec_push(struct nodevec *v, struct Node *n) { __CPROVER_assert(v->len <= NT, "node list: room for one more (ghost capacity)"); v->buf[v->len] = n; v->len = v->len + 1; }
unsigned g_errors, g_evals, g_finds, g_cmds; _Bool g_rule_found; struct Rule *g_rule_hit, *g_phony;
const void *g_eval_scope_ok;          /* the scope every path was evaluated in (0 once a different one was used) */
size_t g_eval_len[2 * NT];            /* ghost: the length the k-th evaluated path turns out to have (arbitrary) */
const char *g_find_wd_ok;
/* the command that was constructed */
struct Rule *g_c_rule; struct nodevec g_c_out, g_c_in; unsigned g_c_exp, g_c_imp; char g_cmd_obj;
char g_scope_marker; char g_rules_marker;
struct pmap { char _e; };
unsigned g_stores, g_inserts; const void *g_store_map, *g_insert_scope; const char *g_store_name, *g_insert_name, *g_insert_val; pstr g_slot; _Bool g_name_valid;
/* actOnEndBuildDecl: the value of a named build parameter is identified by the name it was looked up under */
enum { PN_command = 1, PN_description, PN_deps, PN_depfile, PN_pool, PN_generator, PN_restat, PN_rspfile, PN_rspfile_content, PN_MAX };
static inline int pn_class(const char *l) {
  if (l[0] == 'c') return PN_command;
  if (l[0] == 'd' && l[2] == 's') return PN_description;
  if (l[0] == 'd' && l[3] == 's') return PN_deps;
  if (l[0] == 'd') return PN_depfile;
  if (l[0] == 'p') return PN_pool;
  if (l[0] == 'g') return PN_generator;
  if (l[0] == 'r' && l[1] == 'e') return PN_restat;
  if (l[0] == 'r' && l[7] == 0) return PN_rspfile;
  return PN_rspfile_content; }
char g_pval[PN_MAX];            /* the text of parameter i is named by &g_pval[i] */
_Bool g_pempty[PN_MAX];         /* ghost: does parameter i evaluate to the empty string? */
unsigned g_plookups[PN_MAX]; const void *g_lookup_decl_ok, *g_lookup_tok_ok; unsigned g_nlookups;
int g_deps_word;                /* ghost: the `deps` value is 0 "" / 1 "gcc" / 2 "msvc" / 3 anything else */
_Bool g_pool_known, g_norm_ok; const void *g_pool_hit;
/* what was stored into the command */
const char *g_set_command, *g_set_description, *g_set_depfile, *g_set_rspfile, *g_set_rspcontent; int g_set_depsstyle = -1; const void *g_set_pool;
int g_set_generator = -1, g_set_restat = -1; unsigned g_sets;
