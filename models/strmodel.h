/* vstr operations.  Under VSTR_ABSTRACT the appenders are contracts only
 * (replaced at call sites); otherwise they have concrete bounded bodies. */
#ifndef VERIF_STRMODEL_H
#define VERIF_STRMODEL_H
void vstr_push_back(vstr *w, char c)
__CPROVER_requires(__CPROVER_is_fresh(w, sizeof(*w)))
__CPROVER_requires(w->len < SIZE_MAX)
__CPROVER_assigns(w->len)
__CPROVER_ensures(w->len == __CPROVER_old(w->len) + 1)
#ifdef VSTR_CONCRETE
{ __CPROVER_assert(w->len < w->cap, "vstr capacity (bounded model)"); w->ptr[w->len] = c; w->len++; }
#else
;
#endif
static inline void vstr_clear(vstr *w) { w->len = 0; }
static inline strref vstr_str(const vstr *w) { strref r; r.ptr = w->ptr; r.len = w->len; return r; }
static inline vstr vstr_new(void) { vstr v; v.ptr = 0; v.len = 0; v.cap = 0; return v; }
static inline strref strref_cstr(const char *s) { strref r; r.ptr = s; r.len = 0; while (s[r.len]) r.len++; return r; }
#endif
