/* ghost state and callee models for U-mkdeps */
#include "strmodel.h"
char *g_buf; size_t g_len;
size_t g_k; /* ghost index: arbitrary but fixed (stands for a universal quantifier) */
unsigned __int128 g_errors, g_starts, g_ends, g_deps; /* ghost event counters (wide: cannot wrap) */
