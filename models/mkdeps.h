/* ghost state and callee models for U-mkdeps */
#include "strmodel.h"
char *g_buf; size_t g_len;
unsigned __int128 g_errors, g_starts, g_ends, g_deps; /* ghost event counters (wide: cannot wrap) */
