/* models for U-capi-cb: the client's C callbacks are recorders */
struct TaskInterface { void *impl; void *ctx; };
struct CAPIBuildEngineDelegate; struct CAPIBuildEngineDelegate *g_delegate;
unsigned g_cb_calls; void *g_cb_ctx, *g_cb_engine_ctx, *g_cb_ti_impl, *g_cb_ti_ctx, *g_cb_task; uintptr_t g_cb_id; uint64_t g_cb_len; const void *g_cb_data, *g_cb_rule; int g_cb_status; _Bool g_cb_answer;
static inline void *cb_ti_delegate(struct TaskInterface *ti) { return g_delegate; }
