/* ghost state and callee models for U-capi (products/libllbuild/Core-C-API.cpp) */
#include <stdlib.h>
#include <string.h>

/* core::KeyType : an owned byte string; modelled as a (pointer,length) view of the bytes it was built from */
typedef struct keyt { const char *ptr; size_t len; } keyt;
static inline keyt keyt_make(const char *p, size_t n) { keyt k; k.ptr = p; k.len = n; return k; }
static inline size_t verif_strlen(const char *p) { size_t n; return n; }   /* nondet: a NUL-terminated view has an unrelated length */
static inline keyt keyt_cstr(const char *p) { keyt k; k.ptr = p; k.len = verif_strlen(p); return k; }
static inline const char *keyt_data(const keyt *k) { return k->ptr; }
static inline size_t keyt_size(const keyt *k) { return k->len; }

/* core::ValueType = std::vector<uint8_t> */
typedef struct vbytes { uint8_t *ptr; size_t len; } vbytes;
static inline vbytes vbytes_new(size_t n) { vbytes v; v.ptr = malloc(n); __CPROVER_assume(v.ptr != 0); v.len = n; return v; }
static inline vbytes vbytes_empty(void) { vbytes v; v.ptr = 0; v.len = 0; return v; }
static inline uint8_t *vbytes_data(const vbytes *v) { return v->ptr; }
static inline size_t vbytes_size(const vbytes *v) { return v->len; }

/* ghost copies of the C-level arguments, set by the harness precondition */
const struct llb_data_t *g_key;
uintptr_t g_input_id;
_Bool g_force;
uint32_t g_schema;
void *g_impl, *g_ctx;
size_t g_k;                 /* ghost index (stands for a universal quantifier over byte positions) */
unsigned g_calls;           /* number of forwarded engine calls */

/* std::string as a byte view (capi only builds, passes on and reads c_str() of strings) */
static inline vstr vstr_view(const char *p, size_t n) { vstr v; v.ptr = (char *)p; v.len = n; v.cap = n; return v; }
static inline vstr vstr_new(void) { vstr v; v.ptr = 0; v.len = 0; v.cap = 0; return v; }
static inline strref vstr_str(const vstr *w) { strref r; r.ptr = w->ptr; r.len = w->len; return r; }
static inline const char *vstr_c_str(const vstr *w) { return w->ptr; }
