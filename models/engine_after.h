#define PSR(ri) (*(struct BuildEngineImpl_RuleScanRecord **)&(ri)->inProgressInfo.__u)
#define PTI(ri) (*(struct BuildEngineImpl_TaskInfo **)&(ri)->inProgressInfo.__u)
/* ghost state and model bodies of the engine units (after the translated struct definitions) */
struct BuildEngineImpl *g_engine;
unsigned __int128 g_reports, g_created;       /* wide counters: cannot wrap; only compared for equality */
int g_reason; struct Rule *g_report_rule, *g_report_input;
struct BuildEngineImpl_TaskInfo *g_new_taskinfo, *g_taskinfo;
unsigned g_errors; _Bool g_values_equal;
static inline double verif_clock_now(void) { double d; return d; }

/* value comparison (std::vector<uint8_t>::operator==): abstracted by a ghost answer */
static inline _Bool vbytes_equal(const vbytes *a, vbytes b) { return g_values_equal; }


size_t g_k;   /* ghost index (universal quantifier) */

/* the two rule records a scan step can touch: the scanned rule (a) and one other rule (b); the lookup is a function of the key */
struct BuildEngineImpl_RuleInfo *g_ri_a, *g_ri_b; uint64_t g_key_a;
/* newRuleScanRecord(): a fresh, empty record (free-list / slab allocator not modelled) */
static inline struct BuildEngineImpl_RuleScanRecord *BuildEngineImpl_newRuleScanRecord(struct BuildEngineImpl *self) {
  struct BuildEngineImpl_RuleScanRecord *r = malloc(sizeof(struct BuildEngineImpl_RuleScanRecord)); __CPROVER_assume(r != 0);
  r->deferredScanRequests.ptr = malloc(2 * sizeof(struct BuildEngineImpl_RuleScanRequest)); __CPROVER_assume(r->deferredScanRequests.ptr != 0);
  r->deferredScanRequests.len = 0; r->deferredScanRequests.cap = 2;
  r->pausedInputRequests.ptr = malloc(2 * sizeof(struct BuildEngineImpl_TaskInputRequest)); __CPROVER_assume(r->pausedInputRequests.ptr != 0);
  r->pausedInputRequests.len = 0; r->pausedInputRequests.cap = 2;
  return r;
}
