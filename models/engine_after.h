/* ghost state and model bodies of the engine units (after the translated struct definitions) */
struct BuildEngineImpl *g_engine;
unsigned __int128 g_reports, g_created;       /* wide counters: cannot wrap; only compared for equality */
int g_reason; struct Rule *g_report_rule, *g_report_input;
struct BuildEngineImpl_TaskInfo *g_new_taskinfo, *g_taskinfo;
unsigned g_errors; _Bool g_values_equal;
static inline double verif_clock_now(void) { double d; return d; }

/* taskInfos.emplace(task, TaskInfo(task)): a fresh record for the task, inserted under taskInfosMutex */
static inline struct BuildEngineImpl_TaskInfo *verif_taskinfos_emplace(struct BuildEngineImpl *self, struct Task *task) {
  __CPROVER_assert(self->taskInfosMutex.held, "[P:C06] taskInfos is modified only with taskInfosMutex held");
  struct BuildEngineImpl_TaskInfo *ti = malloc(sizeof(struct BuildEngineImpl_TaskInfo)); __CPROVER_assume(ti != 0);
  ti->task = task; ti->forRuleInfo = 0; ti->waitCount = 0;
  g_new_taskinfo = ti;
  return ti;
}
/* getTaskInfo(task): lookup under taskInfosMutex; the record of the completing task is the ghost g_taskinfo */
static inline struct BuildEngineImpl_TaskInfo *BuildEngineImpl_getTaskInfo(struct BuildEngineImpl *self, struct Task *task) {
  __CPROVER_assert(!self->taskInfosMutex.held, "[P:C06] taskInfosMutex is free when getTaskInfo takes it");
  return g_taskinfo;
}
/* value comparison (std::vector<uint8_t>::operator==): abstracted by a ghost answer */
static inline _Bool vbytes_equal(const vbytes *a, vbytes b) { return g_values_equal; }

