#define PSR(ri) (*(struct BuildEngineImpl_RuleScanRecord **)&(ri)->inProgressInfo.__u)
#define PTI(ri) (*(struct BuildEngineImpl_TaskInfo **)&(ri)->inProgressInfo.__u)
/* ghost state and model bodies of the engine units (after the translated struct definitions) */
struct BuildEngineImpl *g_engine;
unsigned __int128 g_reports, g_created;       /* wide counters: cannot wrap; only compared for equality */
int g_reason; struct Rule *g_report_rule, *g_report_input;
struct BuildEngineImpl_TaskInfo *g_new_taskinfo, *g_taskinfo;
unsigned g_errors; _Bool g_values_equal;
static inline double verif_clock_now(void) { double d; return d; }

/* taskInfos.emplace(task, TaskInfo(task)): a fresh record for the task, inserted under taskInfosMutex */
static inline struct BuildEngineImpl_TaskInfo *verif_taskinfos_emplace(struct BuildEngineImpl *self, struct Task *task) {
  __CPROVER_assert(self->taskInfosMutex.held, "[P:C06] taskInfos is modified only with taskInfosMutex held");
  struct BuildEngineImpl_TaskInfo *ti = malloc(sizeof(struct BuildEngineImpl_TaskInfo)); __CPROVER_assume(ti != 0);
  ti->task = task; ti->forRuleInfo = 0; ti->waitCount = 0;
  ti->deferredScanRequests.ptr = malloc(2 * sizeof(struct BuildEngineImpl_RuleScanRequest)); __CPROVER_assume(ti->deferredScanRequests.ptr != 0);
  ti->deferredScanRequests.len = 0; ti->deferredScanRequests.cap = 2;
  g_new_taskinfo = ti;
  return ti;
}
/* getTaskInfo(task): lookup under taskInfosMutex; the record of the completing task is the ghost g_taskinfo */
static inline struct BuildEngineImpl_TaskInfo *BuildEngineImpl_getTaskInfo(struct BuildEngineImpl *self, struct Task *task) {
  __CPROVER_assert(!self->taskInfosMutex.held, "[P:C06] taskInfosMutex is free when getTaskInfo takes it");
  return g_taskinfo;
}
/* value comparison (std::vector<uint8_t>::operator==): abstracted by a ghost answer */
static inline _Bool vbytes_equal(const vbytes *a, vbytes b) { return g_values_equal; }


size_t g_k;   /* ghost index (universal quantifier) */

/* the two rule records a scan step can touch: the scanned rule (a) and one other rule (b); the lookup is a function of the key */
struct BuildEngineImpl_RuleInfo *g_ri_a, *g_ri_b; uint64_t g_key_a;
static inline struct BuildEngineImpl_RuleInfo *BuildEngineImpl_getRuleInfoForKey(struct BuildEngineImpl *self, struct KeyID k) { return k._value == g_key_a ? g_ri_a : g_ri_b; }
/* newRuleScanRecord(): a fresh, empty record (free-list / slab allocator not modelled) */
static inline struct BuildEngineImpl_RuleScanRecord *BuildEngineImpl_newRuleScanRecord(struct BuildEngineImpl *self) {
  struct BuildEngineImpl_RuleScanRecord *r = malloc(sizeof(struct BuildEngineImpl_RuleScanRecord)); __CPROVER_assume(r != 0);
  r->deferredScanRequests.ptr = malloc(2 * sizeof(struct BuildEngineImpl_RuleScanRequest)); __CPROVER_assume(r->deferredScanRequests.ptr != 0);
  r->deferredScanRequests.len = 0; r->deferredScanRequests.cap = 2;
  r->pausedInputRequests.ptr = malloc(2 * sizeof(struct BuildEngineImpl_TaskInputRequest)); __CPROVER_assume(r->pausedInputRequests.ptr != 0);
  r->pausedInputRequests.len = 0; r->pausedInputRequests.cap = 2;
  return r;
}
