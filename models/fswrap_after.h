/* the wrapped file system: its answers are ghost records (arbitrary) */
struct FileInfo g_inner; struct FileChecksum g_inner_ck;
struct FileInfo FileSystem_getFileInfo(struct FileSystem *self, vstr *path) {
  __CPROVER_assert(path == g_path, "[P:C13] the wrapped file system is asked about the same path");
  g_info_calls++; g_used_link = 0; return g_inner; }
struct FileInfo FileSystem_getLinkInfo(struct FileSystem *self, vstr *path) {
  __CPROVER_assert(path == g_path, "[P:C13] the wrapped file system is asked about the same path");
  g_info_calls++; g_used_link = 1; return g_inner; }
struct FileChecksum FileSystem_getFileChecksum(struct FileSystem *self, vstr *path) {
  __CPROVER_assert(path == g_path, "[P:C13] the checksum is taken of the same path");
  g_ck_calls++; return g_inner_ck; }

static inline struct FileChecksumHasherMD5 verif_hasher_new(vstr *path) { struct FileChecksumHasherMD5 h; g_hash_src = path->ptr; g_hash_len = path->len; return h; }
