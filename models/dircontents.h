/* models for U-dir-contents, on top of models/dirfilter.h: the type of an entry, real_path and "is a prefix of" as ghost relations over identities */
char g_dir_path;                      /* the listed directory's path (identity) */
char g_resolved[NE][2];               /* the resolved target of entry k (identity) */
_Bool g_is_link[NE], g_resolve_ok[NE];
_Bool g_dir_under_target[NE];         /* the listed path starts with the resolved target of entry k (the link leads back to the listed directory or above it) */
_Bool g_target_under_dir[NE];         /* the resolved target of entry k starts with the listed path (the link points somewhere beneath it): an unrelated fact */
#define RES_IDX(p) ((size_t)(((const char *)(p)) - &g_resolved[0][0]) / 2)
static inline size_t dentry_status(struct dentry *e) { return e->i; }
static inline _Bool verif_is_link(size_t st) { __CPROVER_assert(st < NE, "status of a directory entry"); return g_is_link[st]; }
static inline strref strref_none(void) { strref r; r.ptr = 0; r.len = 0; return r; }
/* real_path(entry path, out): resolves every link on the way; 0 on success */
static inline struct errc verif_real_path(pstr p, strref *out) {
  struct errc e; size_t k = NAME_IDX(p.ptr); __CPROVER_assert(k < NE, "real_path of a directory entry");
  if (g_resolve_ok[k]) { out->ptr = g_resolved[k]; out->len = 1; e.v = 0; } else e.v = 2;
  return e; }
static inline _Bool verif_startswith(const strref *s, strref prefix) {
  if (s->ptr == &g_dir_path && RES_IDX(prefix.ptr) < NE) return g_dir_under_target[RES_IDX(prefix.ptr)];
  if (prefix.ptr == &g_dir_path && RES_IDX(s->ptr) < NE) return g_target_under_dir[RES_IDX(s->ptr)];
  __CPROVER_assert(0, "startswith is applied to the listed path and a resolved link target");
  return 0; }
