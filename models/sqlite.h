/* models for U-db-* : SQLite as a ghost row, the two id caches as ghost single-entry maps */
#include <string.h>
typedef struct keyt { const char *ptr; size_t len; } keyt;
static inline keyt keyt_make(const char *p, size_t n) { keyt k; k.ptr = p; k.len = n; return k; }
static inline keyt keyt_cstr(const char *p) { keyt k; size_t n; k.ptr = p; k.len = n; return k; }   /* NUL-terminated view: unrelated length */
static inline const char *keyt_data(const keyt *k) { return k->ptr; }
static inline size_t keyt_size(const keyt *k) { return k->len; }
static inline struct CommandSignature sig_make(uint64_t v) { struct CommandSignature s; s.value = v; return s; }
static inline void vbytes_resize(vbytes *v, size_t n) { v->ptr = malloc(n); __CPROVER_assume(v->ptr != 0); v->len = n; }
static inline uint8_t *vbytes_data(const vbytes *v) { return v->ptr; }
static inline void DependencyKeyIDs_resize(struct DependencyKeyIDs *d, size_t n) { __CPROVER_assert(n <= d->items.cap, "dependency list model capacity"); d->items.len = n; }
static inline void DependencyKeyIDs_set(struct DependencyKeyIDs *d, size_t n, struct KeyID id, _Bool oo, _Bool su) {
  __CPROVER_assert(n < d->items.len, "DependencyKeyIDs::set inside the list");
  d->items.ptr[n].keyID = id; d->items.ptr[n].orderOnly = oo; d->items.ptr[n].singleUse = su; }
unsigned g_errors;
static inline vstr *vstr_assign(vstr *d, const vstr *s) { *d = *s; g_errors++; return d; }
static inline vstr vstr_errmsg(void *self) { vstr v; v.ptr = (char *)"msg"; v.len = 3; v.cap = 3; return v; }
static inline const char *verif_twine_i(int x) { return "i"; }
static inline const char *verif_twine_cat(const char **a, const char *b) { return "m"; }
static inline vstr vstr_msg(const char **t) { vstr v; v.ptr = (char *)"msg"; v.len = 3; v.cap = 3; return v; }
static inline vstr vstr_msg0(void) { vstr v; v.ptr = (char *)"msg"; v.len = 3; v.cap = 3; return v; }

struct DBKeyID { uint64_t value; };
static inline struct DBKeyID dbkeyid_make(uint64_t v) { struct DBKeyID d; d.value = v; return d; }
static inline struct DBKeyID dbkeyid_zero(void) { struct DBKeyID d; d.value = 0; return d; }
static inline struct KeyID keyid_zero(void) { struct KeyID k; k._value = 0; return k; }
struct kv_kd { struct KeyID first; struct DBKeyID second; };
struct kv_dk { struct DBKeyID first; struct KeyID second; };
struct map_kd { char _e; }; struct map_dk { char _e; };
static inline struct kv_kd *map_kd_end(struct map_kd *m) { return 0; }
static inline struct kv_dk *map_dk_end(struct map_dk *m) { return 0; }
/* SQLite (assumed): the statement API over one ghost row */
struct sqlite3_stmt { char _e; }; struct sqlite3 { char _e; };
int g_step_result; _Bool g_api_ok, g_open_ok; struct sqlite3_stmt *g_bound_stmt;
long long g_col_i64[9]; int g_col_bytes[9]; const void *g_col_blob[9]; double g_col_dbl[9];
static inline int sqlite3_reset(struct sqlite3_stmt *s) { return g_api_ok ? 0 : 1; }
static inline int sqlite3_clear_bindings(struct sqlite3_stmt *s) { return g_api_ok ? 0 : 1; }
long long g_bind_i64[10];
static inline int sqlite3_bind_int64(struct sqlite3_stmt *s, int i, long long v) { g_bound_stmt = s; if (i >= 0 && i < 10) g_bind_i64[i] = v; return g_api_ok ? 0 : 1; }
struct sqlite3_stmt *g_text_stmt; const char *g_text_ptr; int g_text_len; unsigned g_text_binds;
static inline int sqlite3_bind_text(struct sqlite3_stmt *s, int i, const char *p, int n, void *d) { g_bound_stmt = s; g_text_stmt = s; g_text_ptr = p; g_text_len = n; g_text_binds++; return g_api_ok ? 0 : 1; }
unsigned g_stepped; int g_step_second;   /* result of a second step in the same call (select, then insert) */
static inline int sqlite3_step(struct sqlite3_stmt *s) { __CPROVER_assert(s == g_bound_stmt, "[P:C03] the statement that is stepped is the one that was just bound"); int r = (g_stepped == 0) ? g_step_result : g_step_second; g_stepped++; return r; }
static inline long long sqlite3_column_int64(struct sqlite3_stmt *s, int i) { __CPROVER_assert(i >= 0 && i < 9 && s == g_bound_stmt, "column of the stepped statement"); return g_col_i64[i]; }
static inline int sqlite3_column_bytes(struct sqlite3_stmt *s, int i) { __CPROVER_assert(i >= 0 && i < 9 && s == g_bound_stmt, "column of the stepped statement"); return g_col_bytes[i]; }
static inline const void *sqlite3_column_blob(struct sqlite3_stmt *s, int i) { __CPROVER_assert(i >= 0 && i < 9 && s == g_bound_stmt, "column of the stepped statement"); return g_col_blob[i]; }
static inline const unsigned char *sqlite3_column_text(struct sqlite3_stmt *s, int i) { __CPROVER_assert(i >= 0 && i < 9 && s == g_bound_stmt, "column of the stepped statement"); return g_col_blob[i]; }
static inline double sqlite3_column_double(struct sqlite3_stmt *s, int i) { __CPROVER_assert(i >= 0 && i < 9 && s == g_bound_stmt, "column of the stepped statement"); return g_col_dbl[i]; }
/* value bytes are copied from the selected blob: recorded, not performed */
const void *g_memcpy_src; size_t g_memcpy_n;
static inline void *verif_memcpy_rec(void *d, const void *s, size_t n) { g_memcpy_src = s; g_memcpy_n = n; return d; }
/* BinaryDecoder over the dependency blob, at item level: a sequence of 64-bit words (U-bincode proves the byte level) */
struct bdec { const void *src; size_t n; };
const void *g_dec_src; size_t g_dec_pos; uint64_t g_dep_words[512], g_dep_keys[512];
static inline struct bdec bdec_make(strref s) { struct bdec d; d.src = s.ptr; d.n = s.len; g_dec_src = s.ptr; g_dec_pos = 0; return d; }
static inline void bdec_read_u64(struct bdec *d, uint64_t *out) { __CPROVER_assert(8 * (g_dec_pos + 1) <= d->n && g_dec_pos < 512, "decoder reads inside the blob"); *out = g_dep_words[g_dec_pos]; g_dec_pos++; }
/* the engine's key-id assignment seen as a function of the database id (assumed; see the unit) */
uint64_t __CPROVER_uninterpreted_engine_key_of(uint64_t);
#define verif_engine_key_of(x) __CPROVER_uninterpreted_engine_key_of(x)
size_t g_k;
/* --- encode side (setRuleResult): the bind calls are recorded per parameter index, the encoder is a ghost word sequence --- */
const void *g_bind_ptr[10]; int g_bind_bytes[10]; double g_bind_dbl[10];
static inline int sqlite3_bind_blob(struct sqlite3_stmt *s, int i, const void *p, int n, void *d) {
  __CPROVER_assert(i >= 1 && i < 10, "bind index of the statement"); g_bound_stmt = s; g_bind_ptr[i] = p; g_bind_bytes[i] = n; return g_api_ok ? 0 : 1; }
static inline int sqlite3_bind_double(struct sqlite3_stmt *s, int i, double v) {
  __CPROVER_assert(i >= 1 && i < 10, "bind index of the statement"); g_bound_stmt = s; g_bind_dbl[i] = v; return g_api_ok ? 0 : 1; }
struct benc { char _e; };
uint64_t g_enc_words[512]; size_t g_enc_n;
static inline struct benc benc_make(void) { struct benc b; g_enc_n = 0; return b; }
static inline void benc_write_u64(struct benc *b, uint64_t w) { __CPROVER_assert(g_enc_n < 512, "encoder model capacity"); g_enc_words[g_enc_n] = w; g_enc_n++; }
static inline const void *benc_data(struct benc *b) { return g_enc_words; }
static inline size_t benc_size(struct benc *b) { return 8 * g_enc_n; }
static inline size_t vbytes_size(const vbytes *v) { return v->len; }
/* --- ad-hoc statements (epoch functions, transaction bracket, key table) --- */
const char *g_prepared_sql, *g_exec_sql; struct sqlite3_stmt g_adhoc_stmt; unsigned g_prepares, g_finalizes, g_execs; _Bool g_exec_ok; long long g_last_rowid;
#define LIT4(s, o, a, b, c, d) ((s)[o] == a && (s)[(o) + 1] == b && (s)[(o) + 2] == c && (s)[(o) + 3] == d)
static inline int sqlite3_prepare_v2(struct sqlite3 *db, const char *sql, int n, struct sqlite3_stmt **out, const char **tail) {
  __CPROVER_assert(db != 0, "[P:C03] statements are prepared on an open connection");
  g_prepares++; g_prepared_sql = sql; if (!g_api_ok) return 1; *out = &g_adhoc_stmt; return 0; }
static inline int sqlite3_finalize(struct sqlite3_stmt *s) { g_finalizes++; return 0; }
static inline int sqlite3_column_count(struct sqlite3_stmt *s) { return 1; }
/* pure queries of the connection state: any answer */
int nondet_int(void);
static inline int sqlite3_get_autocommit(struct sqlite3 *db) { return nondet_int(); }
static inline int sqlite3_changes(struct sqlite3 *db) { return nondet_int(); }
static inline int sqlite3_total_changes(struct sqlite3 *db) { return nondet_int(); }
static inline int sqlite3_exec(struct sqlite3 *db, const char *sql, void *cb, void *arg, char **err) {
  __CPROVER_assert(db != 0, "[P:C03,P:C04] statements are executed on an open connection");
  g_execs++; g_exec_sql = sql; return g_exec_ok ? 0 : 5; }
static inline long long sqlite3_last_insert_rowid(struct sqlite3 *db) { return g_last_rowid; }
static inline int sqlite3_close(struct sqlite3 *db) { return 0; }
keyt g_key_text;
/* llvm::DenseSet<DBKeyID>: whether an id was already present is arbitrary here (dependency ids may repeat) */
struct dbidset { char _e; }; struct dbidins { _Bool second; };
_Bool nondet_dbid_new(void);
static inline struct dbidins dbidset_insert(struct dbidset *s, struct DBKeyID id) { struct dbidins r; r.second = nondet_dbid_new(); return r; }
