static inline struct Scope *cur_scope(void *loader) { return (struct Scope *)&g_scope_marker; }
/* evalString(token, scope, path): the text of this token evaluated in `scope`; its identity is the token's */
static inline void eval_tok(const struct Token *tok, struct Scope *scope, pstr *path) {
  if (g_evals == 0) g_eval_scope_ok = scope; else if (g_eval_scope_ok != (const void *)scope) g_eval_scope_ok = 0;
  path->ptr = (const char *)tok; path->len = g_eval_len[g_evals % (2 * NT)]; g_evals++; }
static inline _Bool pstr_is_empty(const pstr *p) { return p->len == 0; }
/* Manifest::findOrCreateNode(workingDirectory, path): the node of that path (one node per path text) */
static inline strref pstr_to_ref(const pstr *p) { strref r; r.ptr = p->ptr; r.len = p->len; return r; }
static inline struct Node *find_node(struct Manifest *m, strref wd, strref path) {
  if (g_finds == 0) g_find_wd_ok = wd.ptr; else if (g_find_wd_ok != wd.ptr) g_find_wd_ok = 0;
  g_finds++; return (struct Node *)path.ptr; }
static inline struct Rule *phony_rule(struct Manifest *m) { return g_phony; }
/* getCurrentScope().getRules().find(name) / end() / it->second */
struct ruleiter { _Bool hit; struct Rule *second; };
static inline struct ruleiter rules_find(void *rules, strref name) { struct ruleiter it; it.hit = g_rule_found; it.second = g_rule_hit; return it; }
static inline struct ruleiter rules_end(void *rules) { struct ruleiter it; it.hit = 0; it.second = 0; return it; }
static inline void *scope_rules(struct Scope *s) { return &g_rules_marker; }
/* new Command(rule, outputs, inputs, numExplicitInputs, numImplicitInputs): the constructor stores its arguments (Manifest.h) */
static inline struct Command *command_new(struct Rule *rule, struct nodevec outputs, struct nodevec inputs, unsigned nexp, unsigned nimp) {
  g_cmds++; g_c_rule = rule; g_c_out = outputs; g_c_in = inputs; g_c_exp = nexp; g_c_imp = nimp; return (struct Command *)&g_cmd_obj; }
unsigned g_appended; const void *g_appended_cmd;
static inline void commands_push(void *cmds, struct Command *c) { g_appended++; g_appended_cmd = c; }
static inline void *manifest_commands(struct Manifest *m) { return m; }
/* decl->getParameters()[name] = value: the slot of `name` in the parameter map of that declaration */
static inline struct pmap *decl_params(void *decl) { g_store_map = decl; static struct pmap m; return &m; }
static inline pstr *pmap_slot(struct pmap *m, strref name) { g_stores++; g_store_name = name.ptr; return &g_slot; }
static inline void slot_assign(pstr *slot, strref v) { slot->ptr = v.ptr; slot->len = v.len; }
static inline _Bool valid_param_name(strref name) { return g_name_valid; }       /* Rule::isValidParameterName: the nine rule variable names (not under contract) */
static inline void scope_insert(struct Scope *s, strref name, strref value) { g_inserts++; g_insert_scope = s; g_insert_name = name.ptr; g_insert_val = value.ptr; }
static inline strref ref_id(const strref *r) { return *r; }
/* lookupNamedBuildParameter(decl, startTok, "<name>", storage): fills `storage` with the value and returns it (lookupBuildParameterImpl: U-ninja-scope) */
static inline strref lookup_named(void *loader, struct Command *decl, const struct Token *tok, const char *name, pstr *storage) {
  int c = pn_class(name);
  if (g_nlookups == 0) { g_lookup_decl_ok = decl; g_lookup_tok_ok = tok; }
  else { if (g_lookup_decl_ok != (const void *)decl) g_lookup_decl_ok = 0; if (g_lookup_tok_ok != (const void *)tok) g_lookup_tok_ok = 0; }
  g_nlookups++; g_plookups[c]++;
  storage->ptr = &g_pval[c]; storage->len = g_pempty[c] ? 0 : 1;
  strref r; r.ptr = storage->ptr; r.len = storage->len; return r; }
/* deps.str() == "" / "gcc" / "msvc": only the `deps` value is compared with words */
static inline _Bool ref_is_word(strref v, const char *w) {
  __CPROVER_assert(v.ptr == &g_pval[PN_deps], "only the deps value is compared with a word");
  return (w[0] == 0) ? (g_deps_word == 0) : (w[0] == 'g') ? (g_deps_word == 1) : (g_deps_word == 2); }
static inline void pstr_clear(pstr *p) { p->len = 0; }
struct pooliter { _Bool hit; const void *second; };
static inline struct pooliter pools_find(void *pools, strref name) { struct pooliter it; it.hit = g_pool_known; it.second = g_pool_hit; return it; }
static inline struct pooliter pools_end(void *pools) { struct pooliter it; it.hit = 0; it.second = 0; return it; }
static inline void *manifest_pools(struct Manifest *m) { return m; }
static inline _Bool normalize_rsp(strref wd, pstr p) { return g_norm_ok; }
static inline void set_command(struct Command *c, strref v) { g_sets++; g_set_command = v.ptr; }
static inline void set_description(struct Command *c, strref v) { g_sets++; g_set_description = v.ptr; }
static inline void set_depfile(struct Command *c, strref v) { g_sets++; g_set_depfile = v.ptr; }
static inline void set_rspfile(struct Command *c, strref v) { g_sets++; g_set_rspfile = v.ptr; }
static inline void set_rspcontent(struct Command *c, strref v) { g_sets++; g_set_rspcontent = v.ptr; }
static inline void set_depsstyle(struct Command *c, int k) { g_sets++; g_set_depsstyle = k; }
static inline void set_pool(struct Command *c, const void *p) { g_sets++; g_set_pool = p; }
static inline void set_generator(struct Command *c, _Bool f) { g_sets++; g_set_generator = f; }
static inline void set_restat(struct Command *c, _Bool f) { g_sets++; g_set_restat = f; }
