/* models for U-proc-status: wait4, the delegate and the completion function */
struct timeval { long tv_sec; long tv_usec; };
struct rusage { struct timeval ru_utime; struct timeval ru_stime; long ru_maxrss; };
struct completion { char _e; };
struct ProcessHandle { uint64_t id; };
int g_errno, g_status_word, g_wait_result; unsigned g_completions, g_finished, g_waits, g_removed, g_errors; _Bool g_reaped;
int nondet_int(void); _Bool nondet_bool(void);
static inline int *verif_errno(void) { return &g_errno; }
