/* models for U-fs-wrappers */
static inline const char *vstr_c_str(const vstr *w) { return w->ptr; }
static inline vstr vstr_cstr(const char *p) { vstr v; v.ptr = (char *)p; size_t n; v.len = n; v.cap = n; return v; }
size_t g_k;
vstr *g_path; unsigned g_info_calls, g_ck_calls, g_hash_calls; _Bool g_used_link;
long nondet_long(void);
const char *g_rl_buf, *g_rl_path, *g_hash_src; long g_rl_len;   /* ghost: where readlink put the target, whose link it read, its answer; the text the hasher was given */
/* readlink(2): -1 for anything that is not a symbolic link, otherwise a length that fits the buffer */
static inline long verif_readlink(const char *p, char *buf, size_t n) {
  long r = nondet_long(); __CPROVER_assume(r >= -1 && (r == -1 || (size_t)r <= n));
  g_rl_buf = buf; g_rl_path = p; g_rl_len = r;
  return r;
}
