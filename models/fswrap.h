/* models for U-fs-wrappers */
static inline const char *vstr_c_str(const vstr *w) { return w->ptr; }
size_t g_k;
vstr *g_path; unsigned g_info_calls, g_ck_calls, g_hash_calls; _Bool g_used_link;
long nondet_long(void);
const char *g_rl_buf, *g_rl_path, *g_hash_src; long g_rl_len;   /* ghost: where readlink put the target, whose link it read, its answer; the text the hasher was given */
/* readlink(2): -1 for anything that is not a symbolic link, otherwise a length that fits the buffer */
size_t g_hash_len;   /* ghost: how many bytes of text the hasher was given */
static inline long verif_readlink(const char *p, char *buf, size_t n) {
  long r = nondet_long(); __CPROVER_assume(r >= -1 && (r == -1 || (size_t)r <= n));
  g_rl_buf = buf; g_rl_path = p; g_rl_len = r;
  return r;
}

/* std::string(const char *): the text up to the first NUL.  readlink() stores g_rl_len bytes of a path (no NUL among them) and does
 * not terminate them, so for its buffer the length is g_rl_len exactly when the caller terminated the text there; reading on past
 * an unterminated target is an over-read. */
static inline vstr vstr_cstr(const char *p) {
  vstr v; v.ptr = (char *)p; size_t n;
  if (p == g_rl_buf && g_rl_len >= 0) {
    __CPROVER_assert(p[g_rl_len] == 0, "[P:C13] the link target is terminated at the length readlink returned before it is read as a C string");
    n = (size_t)g_rl_len;
  }
  v.len = n; v.cap = n; return v; }
/* std::string(const char *, size_t): exactly n bytes */
static inline vstr vstr_cstrn(const char *p, size_t n) { vstr v; v.ptr = (char *)p; v.len = n; v.cap = n; return v; }
