/* models for U-dir-input: keys by kind and path identity, the task interface as a request / completion log */
struct TaskInterface { void *impl; void *ctx; };
typedef struct bkey { int kind; const char *path; const void *filters; } bkey;
enum { K_Node = 1, K_TreeSig = 2 };
#define NQ 4
size_t g_k; unsigned g_nreq; int g_req_kind[NQ]; const char *g_req_path[NQ]; uintptr_t g_req_id[NQ]; const void *g_req_filters[NQ];
static inline void ti_request(struct TaskInterface *ti, bkey k, uintptr_t id) {
  __CPROVER_assert(g_nreq < NQ, "request log capacity"); g_req_kind[g_nreq] = k.kind; g_req_path[g_nreq] = k.path; g_req_id[g_nreq] = id; g_req_filters[g_nreq] = k.filters; g_nreq = g_nreq + 1; }
static inline bkey key_node(strref p) { bkey k; k.kind = K_Node; k.path = p.ptr; k.filters = 0; return k; }
static inline bkey key_treesig(strref p, const void *filters) { bkey k; k.kind = K_TreeSig; k.path = p.ptr; k.filters = filters; return k; }
typedef struct vbytes { const void *id; } vbytes;            /* a value by identity */
unsigned g_completes; const void *g_complete_id;
static inline void ti_complete(struct TaskInterface *ti, vbytes v, _Bool force) { g_completes++; g_complete_id = v.id; }
typedef struct vec_paths { strref *ptr; size_t len; size_t cap; } vec_paths;
static inline size_t vec_paths_size(const vec_paths *v) { return v->len; }
static inline strref *vec_paths_at(const vec_paths *v, size_t i) { return &v->ptr[i]; }
/* the node's name: with or without a trailing slash (ghost), "/" itself or not (ghost); the name without the slash is the same text, one byte shorter */
_Bool g_name_slash, g_name_is_root;
static inline _Bool name_endswith(const strref *s, const char *suffix) { return g_name_slash; }
static inline _Bool name_ne_root(strref s, const char *lit) { return !g_name_is_root; }
static inline strref name_substr(const strref *s, size_t from, size_t n) { strref r; r.ptr = s->ptr; r.len = n; return r; }
