/* the two caches dbKeyIDs / engineKeyIDs as ghost single-entry maps */
_Bool g_kd_hit, g_dk_hit; struct kv_kd g_kd_entry; struct kv_dk g_dk_entry; struct KeyID g_dk_cached;
unsigned g_slots; uint64_t g_slot_dk_key; struct KeyID g_slot_kd_key, g_dk_value; struct DBKeyID g_kd_value; uint64_t g_engine_key;
static inline struct kv_kd *map_kd_find(struct map_kd *m, struct KeyID k) { return g_kd_hit ? &g_kd_entry : 0; }
static inline struct kv_dk *map_dk_find(struct map_dk *m, struct DBKeyID k) { return g_dk_hit ? &g_dk_entry : 0; }
static inline struct KeyID *map_dk_slot(struct map_dk *m, struct DBKeyID k) { g_slots++; g_slot_dk_key = k.value; return &g_dk_value; }
static inline struct DBKeyID *map_kd_slot(struct map_kd *m, struct KeyID k) { g_slots++; g_slot_kd_key = k; return &g_kd_value; }
/* getKeyIDForID as used by the decode loop: the engine key of the k-th decoded dependency is the ghost g_dep_keys[k];
 * the id that is looked up must be the id that was just decoded */
_Bool nondet_bool(void);
static inline struct KeyID verif_getKeyIDForID_abs(struct SQLiteBuildDB *self, struct DBKeyID id, vstr *error_out) {
  __CPROVER_assert(g_dec_pos >= 1 && id.value == (g_dep_words[g_dec_pos - 1] >> 2), "[P:C03] the dependency id that is mapped is the id decoded from the blob (upper 62 bits of the word)");
  __CPROVER_assert(self->dbMutex.held, "[P:C03] the id caches are used with dbMutex held");
  struct KeyID k; k._value = g_dep_keys[g_dec_pos - 1];
  if (nondet_bool()) { error_out->len = 3; g_errors++; }
  return k; }
/* getKeyID as used by setRuleResult: the database id of an engine key is a ghost function of the call order
 * (first call: the rule's own key; then one call per dependency, in order); it may fail */
uint64_t g_dbkey_of_rule, g_dbkey_of[512]; unsigned g_getkey_calls; struct KeyID g_getkey_last;
static inline struct DBKeyID verif_getKeyID_abs(struct SQLiteBuildDB *self, struct KeyID k, vstr *error_out) {
  __CPROVER_assert(self->dbMutex.held, "[P:C03] the id caches are used with dbMutex held");
  struct DBKeyID d; d.value = (g_getkey_calls == 0) ? g_dbkey_of_rule : g_dbkey_of[(g_getkey_calls - 1) % 512];
  g_getkey_last = k; g_getkey_calls++;
  if (nondet_bool()) { error_out->len = 3; g_errors++; }
  return d; }
static inline size_t verif_deps_size(const struct DependencyKeyIDs *d) { return d->items.len; }
static inline struct KeyIDAndFlags *verif_deps_at(const struct DependencyKeyIDs *d, size_t i) { return &d->items.ptr[i]; }
