/* models and ghost state for the BuildEngineImpl units (lib/Core/BuildEngine.cpp) */
#include <stdlib.h>
#include "vec.h"
struct KeyID { uint64_t _value; };
struct KeyIDAndFlags { struct KeyID keyID; _Bool orderOnly; _Bool singleUse; };
/* DependencyKeyIDs: an abstract sequence of (key, orderOnly, singleUse) items.  The real container
 * (include/llbuild/Core/DependencyKeyIDs.h) is verified against this view in its own unit (U-deps). */
VERIF_VEC(depvec, struct KeyIDAndFlags)
struct DependencyKeyIDs { depvec items; };
static inline _Bool DependencyKeyIDs_empty(const struct DependencyKeyIDs *d) { return d->items.len == 0; }
static inline size_t DependencyKeyIDs_size(const struct DependencyKeyIDs *d) { return d->items.len; }
static inline struct KeyIDAndFlags DependencyKeyIDs_index(const struct DependencyKeyIDs *d, size_t n) { return d->items.ptr[n]; }
static inline void DependencyKeyIDs_clear(struct DependencyKeyIDs *d) { d->items.len = 0; }

typedef struct vbytes { uint8_t *ptr; size_t len; } vbytes;    /* ValueType */
struct CommandSignature { uint64_t value; };

/* std::mutex: a ghost "held" bit (sequential semantics; lock discipline is what is checked) */
typedef struct verif_mutex { _Bool held; } verif_mutex;
static inline void verif_mutex_lock(verif_mutex *m) { __CPROVER_assert(!m->held, "[P:C06] a mutex is not locked twice by the same thread"); m->held = 1; }
static inline void verif_mutex_unlock(verif_mutex *m) { __CPROVER_assert(m->held, "[P:C06] a mutex is unlocked only while held"); m->held = 0; }
struct TaskInterface { void *impl; void *ctx; };
static inline struct TaskInterface verif_ti_make(void *impl, void *ctx) { struct TaskInterface t; t.impl = impl; t.ctx = ctx; return t; }

typedef struct verif_condvar { char _e; } verif_condvar;
unsigned g_notified;
static inline void verif_notify_one(verif_condvar *c) { g_notified++; }
