/* models for U-eng-cancel: the two hash maps as vectors of (key, record) pairs; the condition variable wait */
unsigned g_waits; size_t nondet_size(void);
/* ghost: outstanding tasks that have not reported yet.  Engine accounting: numOutstandingUnfinishedTasks == queued completions + g_running */
size_t g_running;
/* finishedTaskInfosCondition.wait(lock): legal only with the mutex held and the queue observed empty under it (lost wake-up guard);
 * while waiting other threads may push finished tasks -- each of them one of the still-running outstanding tasks (g_running) */
static inline void verif_cond_wait(verif_condvar *c, verif_mutex *lock) {
  __CPROVER_assert(lock->held && lock == &g_engine->finishedTaskInfosMutex, "[P:C06] the condition variable is waited on with its mutex held");
  __CPROVER_assert(g_engine->finishedTaskInfos.len == 0, "[P:C06] the engine sleeps only after observing the finished queue empty under the mutex");
  size_t n = nondet_size();
  __CPROVER_assume(n <= g_engine->numOutstandingUnfinishedTasks && n <= g_engine->finishedTaskInfos.cap && n <= g_running);
  g_engine->finishedTaskInfos.len = n; g_running -= n; g_waits++;
}
static inline void vec_taskpair_clear_locked(vec_taskpair *v) {
  __CPROVER_assert(g_engine->taskInfosMutex.held, "[P:C06] taskInfos is modified only with taskInfosMutex held");
  v->len = 0; }
