/* models for U-dir-filter: directory entries and patterns by identity, fnmatch as a ghost relation */
#define NE 4
#define NP 3
typedef struct pstr { const char *ptr; size_t len; } pstr;
VERIF_VEC(vec_pstr, pstr)
VERIF_VEC(vec_pat, strref)
struct errc { int v; };
struct diter { size_t i; };
struct dentry { size_t i; };
char g_names[NE + 1][2]; char g_pats[NP][2];         /* entry / pattern texts: only their identity matters */
size_t g_n, g_npat, g_k; _Bool g_match[NE][NP]; unsigned g_listed[NE]; unsigned g_sorts, g_steps; _Bool g_error_at[NE + 1];
#define NAME_IDX(p) ((size_t)(((const char *)(p)) - &g_names[0][0]) / 2)
#define PAT_IDX(p) ((size_t)(((const char *)(p)) - &g_pats[0][0]) / 2)
static inline struct diter diter_begin(struct errc *ec) { struct diter d; d.i = 0; ec->v = g_error_at[0] ? 5 : 0; if (ec->v) d.i = g_n; return d; }
static inline struct diter diter_end(void) { struct diter d; d.i = g_n; return d; }
static inline struct errc errc_zero(void) { struct errc e; e.v = 0; return e; }
static inline struct diter *diter_increment(struct diter *d, struct errc *ec) {
  __CPROVER_assert(d->i < g_n, "the iterator is advanced only while it is not at the end");
  d->i = d->i + 1; if (g_error_at[d->i]) { ec->v = 5; d->i = g_n; } return d; }
static inline struct dentry *diter_entry(struct diter *d) { static struct dentry e; __CPROVER_assert(d->i < g_n, "the entry of an iterator that is not at the end"); e.i = d->i; return &e; }
static inline pstr *dentry_path(struct dentry *e) { static pstr p; p.ptr = g_names[e->i]; p.len = 1; return &p; }
static inline strref path_filename(strref s) { return s; }
static inline strref pstr_ref(pstr s) { strref r; r.ptr = s.ptr; r.len = s.len; return r; }
static inline pstr pstr_of_ref(strref s) { pstr p; p.ptr = s.ptr; p.len = s.len; return p; }
static inline pstr pstr_of_cstr(const char *c) { pstr p; p.ptr = c; p.len = 1; return p; }
static inline int verif_fnmatch(pstr pat, pstr name) {
  __CPROVER_assert(PAT_IDX(pat.ptr) < g_npat && NAME_IDX(name.ptr) < g_n, "[P:C12] fnmatch is applied to (a configured pattern, the entry name), in that order");
  return g_match[NAME_IDX(name.ptr)][PAT_IDX(pat.ptr)] ? 0 : 1; }
static inline void names_push(vec_pstr *v, pstr p) {
  __CPROVER_assert(v->len < v->cap, "vector model: room for one more element (ghost capacity)");
  if (NAME_IDX(p.ptr) < NE) g_listed[NAME_IDX(p.ptr)]++;
  v->ptr[v->len] = p; v->len = v->len + 1; }
static inline void names_sort(vec_pstr *v) { g_sorts++; }
