/* models for U-shell-deps / U-ninja-deps: paths by identity (which spelling flows where), llvm::sys::path as recorders */
struct TaskInterface { void *impl; void *ctx; };
struct bkey { const char *path; };
struct keydata { const char *path; };
struct pathbuf { const char *base; const char *appended; _Bool absolute; };
unsigned g_dd, g_found; const char *g_dd_key, *g_found_path, *g_abs_query, *g_append_src, *g_append_base; _Bool g_made_absolute, g_word_is_absolute;
char g_joined;    /* stands for the joined path text */
static inline _Bool deps_is_absolute(strref p) { g_abs_query = p.ptr; return g_word_is_absolute; }
static inline strref deps_str_of_string(vstr s) { strref r; r.ptr = s.ptr; r.len = s.len; return r; }
static inline struct pathbuf deps_pathbuf_from(strref s) { struct pathbuf b; b.base = s.ptr; b.appended = 0; b.absolute = 0; return b; }
static inline void deps_path_append(struct pathbuf *b, strref w) { g_append_base = b->base; g_append_src = w.ptr; b->appended = w.ptr; }
static inline void deps_make_absolute(struct pathbuf *b) { __CPROVER_assert(b->appended != 0, "make_absolute on the joined path"); b->absolute = 1; g_made_absolute = 1; }
static inline strref deps_str_of_pathbuf(const struct pathbuf *b) { strref r; r.ptr = &g_joined; r.len = 1; return r; }
static inline struct bkey deps_make_node(strref p) { struct bkey k; k.path = p.ptr; return k; }
static inline struct keydata deps_to_data(const struct bkey *k) { struct keydata d; d.path = k->path; return d; }
static inline void deps_discovered(struct TaskInterface *ti, struct keydata d) { g_dd++; g_dd_key = d.path; }
struct BuildSystemDelegate; struct BuildSystem; struct Command;
static inline struct BuildSystemDelegate *deps_delegate(struct BuildSystem *s) { return (struct BuildSystemDelegate *)s; }
static inline void deps_found(struct BuildSystemDelegate *d, void *cmd, strref path, int kind) { g_found++; g_found_path = path.ptr; }
/* Ninja depfile callback: Manifest::normalize_path(workingDirectory, buffer) rewrites the buffer in place */
_Bool g_normalized, g_norm_ok; const char *g_norm_src, *g_norm_wd;
static inline _Bool ndeps_normalize(strref wd, struct pathbuf *b) { g_normalized = 1; g_norm_src = b->base; g_norm_wd = wd.ptr; b->absolute = 1; return g_norm_ok; }
static inline strref ndeps_str_of_pathbuf(const struct pathbuf *b) { __CPROVER_assert(b->absolute, "the buffer read is the normalised one"); strref r; r.ptr = &g_joined; r.len = 1; return r; }
static inline struct keydata ndeps_key_of(strref s) { struct keydata d; d.path = s.ptr; return d; }
static inline struct keydata ndeps_key_of_p(const strref *s) { struct keydata d; d.path = s->ptr; return d; }
static inline void ndeps_discovered(struct TaskInterface *ti, struct keydata d) { g_dd++; g_dd_key = d.path; }
