/* ghost state of U-eng-build: the database transaction bracket and the epoch hand-over */
#include <stdint.h>
_Bool g_txn_open, g_exec_success, g_iter_ok; unsigned g_exec_calls, g_iter_calls, g_started_calls; uint64_t g_iter_value, g_epoch0;
typedef struct keyt { const char *ptr; size_t len; } keyt;
static inline _Bool verif_exchange(_Bool *a, _Bool v) { _Bool o = *a; *a = v; return o; }
static inline vstr vstr_new(void) { vstr v; v.ptr = 0; v.len = 0; v.cap = 0; return v; }
static inline const char *vstr_c_str(const vstr *w) { return w->ptr; }
/* getRuleInfoForKey(const KeyType&): the record of the requested key */
static inline struct BuildEngineImpl_RuleInfo *BuildEngineImpl_getRuleInfoForKey(struct BuildEngineImpl *self, keyt key) { return g_ri_a; }
static inline void verif_queue_reset(struct ExecutionQueue **q) { __CPROVER_assert(g_engine->executionQueueMutex.held, "[P:C05] the execution queue pointer is released only with executionQueueMutex held"); *q = 0; }
unsigned g_cd_notified, g_cancel_all;
static inline void verif_cd_notify(struct CancellationDelegate *d) { g_cd_notified++; }
/* ExecutionQueue::cancelAllJobs(): may only run while the queue cannot be released (build() resets the queue pointer under executionQueueMutex) */
static inline void verif_cancel_all(struct ExecutionQueue *q) {
  __CPROVER_assert(g_engine->executionQueueMutex.held, "[P:C05,P:C06] the execution queue is asked to cancel its jobs only with executionQueueMutex held (it cannot be torn down meanwhile)");
  __CPROVER_assert(q == g_engine->executionQueue, "[P:C05] the queue that is cancelled is the engine's current queue");
  g_cancel_all++; }
