/* ghost state of U-eng-build: the database transaction bracket and the epoch hand-over */
#include <stdint.h>
_Bool g_txn_open, g_exec_success, g_iter_ok; unsigned g_exec_calls, g_iter_calls, g_started_calls; uint64_t g_iter_value, g_epoch0;
typedef struct keyt { const char *ptr; size_t len; } keyt;
static inline _Bool verif_exchange(_Bool *a, _Bool v) { _Bool o = *a; *a = v; return o; }
static inline vstr vstr_new(void) { vstr v; v.ptr = 0; v.len = 0; v.cap = 0; return v; }
static inline const char *vstr_c_str(const vstr *w) { return w->ptr; }
/* getRuleInfoForKey(const KeyType&): the record of the requested key */
static inline struct BuildEngineImpl_RuleInfo *BuildEngineImpl_getRuleInfoForKey(struct BuildEngineImpl *self, keyt key) { return g_ri_a; }
static inline void verif_queue_reset(struct ExecutionQueue **q) { __CPROVER_assert(g_engine->executionQueueMutex.held, "[P:C05] the execution queue pointer is released only with executionQueueMutex held"); *q = 0; }
