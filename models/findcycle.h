/* models for U-eng-findcycle: the wait-for graph as a ghost table over at most NN rules; the containers of the search as small vectors / a bit set */
#define NN 4
#define NP 3
struct Rule { char _e; };
VERIF_VEC(vec_rulep, struct Rule *)
struct Rule *g_node[NN];          /* the rules of the graph (pairwise distinct, not null) */
struct Rule *g_pred[NN][NP]; size_t g_npred[NN];   /* g_pred[i][0 .. g_npred[i]): the rules g_node[i] waits for (its predecessors in the search) */
vec_rulep g_view;                 /* the list object operator[] of the map hands out */
#define IDX(p) ((p) == g_node[0] ? 0 : (p) == g_node[1] ? 1 : (p) == g_node[2] ? 2 : (p) == g_node[3] ? 3 : NN)
#define ISNODE(p) (IDX(p) < NN)
/* b is one of the rules a waits for */
#define IN1(i, b) ((g_npred[i] > 0 && g_pred[i][0] == (b)) || (g_npred[i] > 1 && g_pred[i][1] == (b)) || (g_npred[i] > 2 && g_pred[i][2] == (b)))
#define WAITS_FOR(a, b) (((a) == g_node[0] && IN1(0, b)) || ((a) == g_node[1] && IN1(1, b)) || ((a) == g_node[2] && IN1(2, b)) || ((a) == g_node[3] && IN1(3, b)))
struct predmap { char _e; };
/* predecessorGraph[node]: the list of the rules `node` waits for (operator[] of the map; an absent rule has the empty list) */
static inline vec_rulep *pg_lookup(struct predmap *m, struct Rule *node) {
  __CPROVER_assert(ISNODE(node), "the search only visits rules of the graph");
  g_view.ptr = g_pred[IDX(node)]; g_view.len = g_npred[IDX(node)]; g_view.cap = NP; return &g_view; }
/* std::unordered_set<Rule*>: membership bits over the rules of the graph */
struct ruleset { _Bool in[NN]; };
struct insres { _Bool second; };
static inline struct insres ruleset_insert(struct ruleset *s, struct Rule *node) {
  __CPROVER_assert(ISNODE(node), "the search only visits rules of the graph");
  struct insres r; r.second = !s->in[IDX(node)]; s->in[IDX(node)] = 1; return r; }
static inline void ruleset_erase(struct ruleset *s, struct Rule *node) {
  __CPROVER_assert(ISNODE(node), "the search only visits rules of the graph");
  s->in[IDX(node)] = 0; }
