/* models for U-rm-tree: paths by identity over a small table (the directory itself and its entries), the file system as ghost answers and a "removed" set */
#define NE 3
#define NPATH (NE + 1)
const char *g_paths[NPATH];          /* g_paths[0..NE): the entries of the directory, g_paths[NE]: the directory itself */
_Bool g_removed[NPATH]; int g_entry_type[NE]; int g_stat_err[NE], g_rm_err[NPATH], g_iter_err; size_t g_nentries; _Bool g_entry_dot[NE];
#define PIDX(p) ((p) == g_paths[0] ? 0 : (p) == g_paths[1] ? 1 : (p) == g_paths[2] ? 2 : (p) == g_paths[3] ? 3 : NPATH)
struct diriter { size_t pos; _Bool at_end; };
struct file_status { int ty; };
static inline struct diriter diriter_open(strref path, int *ec, _Bool follow) {
  /* whatever directory is listed, the model hands out the same (at most NE) entries: one level is proved, deeper levels are the recursive calls */
  __CPROVER_assert(!follow, "[P:C14] symbolic links are not followed when a tree is removed");
  struct diriter i; i.pos = 0; *ec = g_iter_err; i.at_end = (g_iter_err != 0) || g_nentries == 0; return i; }
static inline struct diriter diriter_end(void) { struct diriter i; i.pos = 0; i.at_end = 1; return i; }
static inline _Bool diriter_ne(const struct diriter *a, struct diriter b) { return !a->at_end; }
static inline void diriter_increment(struct diriter *i, int *ec) { i->pos = i->pos + 1; *ec = 0; i->at_end = i->pos >= g_nentries; }
vstr g_entry_str[NE];
static inline vstr *diriter_path(const struct diriter *i) { __CPROVER_assert(!i->at_end && i->pos < NE, "the iterator is dereferenced before the end"); g_entry_str[i->pos].ptr = (char *)g_paths[i->pos]; g_entry_str[i->pos].len = 1; return &g_entry_str[i->pos]; }
static inline int verif_link_status(strref p, struct file_status *st) { size_t k = PIDX(p.ptr); __CPROVER_assert(k < NE, "link_status of a directory entry"); st->ty = g_entry_type[k]; return g_stat_err[k]; }
static inline int verif_fs_remove(strref p, _Bool ignore_missing) { size_t k = PIDX(p.ptr); __CPROVER_assert(k < NPATH, "remove of a known path"); if (g_rm_err[k] == 0) g_removed[k] = 1; return g_rm_err[k]; }
static inline strref path_filename(strref p) { return p; }
static inline _Bool name_startswith(const strref *s, const char *prefix) { size_t k = PIDX(s->ptr); return k < NE ? g_entry_dot[k] : 0; }
