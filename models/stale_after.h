struct StaleFileRemovalCommand *g_self;
static inline int stale_index_of(pstr p) {
  for (int i = 0; i < NF; i++) if (i < (int)g_self->filesToDelete.len && g_self->filesToDelete.ptr[i].ptr == p.ptr) return i;
  return -1; }
#define IDX(p) ((g_self->filesToDelete.len > 0 && g_self->filesToDelete.ptr[0].ptr == (p).ptr) ? 0 : (g_self->filesToDelete.len > 1 && g_self->filesToDelete.ptr[1].ptr == (p).ptr) ? 1 : \
                (g_self->filesToDelete.len > 2 && g_self->filesToDelete.ptr[2].ptr == (p).ptr) ? 2 : (g_self->filesToDelete.len > 3 && g_self->filesToDelete.ptr[3].ptr == (p).ptr) ? 3 : -1)
#define RIDX(p) ((g_self->roots.len > 0 && g_self->roots.ptr[0].ptr == (p).ptr) ? 0 : (g_self->roots.len > 1 && g_self->roots.ptr[1].ptr == (p).ptr) ? 1 : \
                 (g_self->roots.len > 2 && g_self->roots.ptr[2].ptr == (p).ptr) ? 2 : -1)
/* fileToDelete[0] is looked up in the separator set: abstracted to "the path is absolute" (ghost g_abs) */
static inline char stale_first_char(pstr *p) { int i = IDX(*p); __CPROVER_assert(i >= 0, "first character of a stale file path"); return g_abs[i] ? '/' : 'x'; }
static inline size_t stale_sep_find(const void *seps, char c) { return c == '/' ? 0 : (size_t)-1; }
static inline _Bool stale_prefixed(pstr file, pstr root) {
  int i = IDX(file), j = RIDX(root);
  __CPROVER_assert(i >= 0 && j >= 0, "[P:C14] the prefix test is applied to (stale file, configured root), in that order");
  return g_pre[i][j]; }
static inline _Bool stale_fs_remove(pstr p) {
  int i = IDX(p); g_removes++;
  if (i < 0) g_rm_other = 1; else if ((size_t)i == g_k) g_rm_k = 1;
  if (nondet_bool()) return 1;
  g_errno = nondet_int(); return 0; }
static inline void stale_started(void *d, void *cmd) { __CPROVER_assert(g_removes == 0 && g_finished == 0, "[P:C14] commandStarted precedes all removals"); g_started++; }
static inline void stale_finished(void *d, void *cmd, int status) { g_finished++; g_finish_status = status; }
static inline void stale_warning(void *d) { g_warnings++; }
static inline void stale_note(void *d) { g_notes++; }
static inline struct bvalue stale_make_value(vec_pstr list) { struct bvalue v; v.kind = 1; v.from = list.ptr; return v; }
struct BuildSystemDelegate; struct BuildSystem;
static inline struct BuildSystemDelegate *stale_delegate(struct BuildSystem *s) { return (struct BuildSystemDelegate *)s; }
static inline void stale_result(struct resultfn *f, struct bvalue v) { g_results++; g_result_from = v.from; g_result_kind = v.kind; }
static inline struct plist stale_prior_list(const struct bvalue *v) { struct plist l; l.src = &g_prior_list_marker; return l; }
