/* models for U-ninja-valid: file infos are abstract identities plus a missing bit (FileInfo ==/!= is proved in U-fileinfo) */
struct FileInfo { uint64_t id; _Bool missing; };
struct CommandSignature { uint64_t value; };
typedef struct vbytes { uint8_t *ptr; size_t len; } vbytes;
struct BuildValue { uint32_t kind; struct CommandSignature commandHash; };
struct FileInfo g_stored[8], g_current[8]; size_t g_k, g_path_idx; struct BuildValue g_value; uint64_t g_cmd_hash;
static inline _Bool verif_info_ne(const struct FileInfo *a, struct FileInfo b) { return a->id != b.id || (a->missing != 0) != (b.missing != 0); }
static inline _Bool verif_info_eq(const struct FileInfo *a, struct FileInfo b) { return !verif_info_ne(a, b); }
static inline struct BuildValue verif_from_value(vbytes *v) { return g_value; }                      /* decoding is an assumed, pure function of the stored bytes */
static inline vstr verif_str(void) { vstr v; v.ptr = 0; v.len = 0; v.cap = 0; return v; }
static inline struct CommandSignature verif_sig_of(strref s) { struct CommandSignature c; c.value = g_cmd_hash; return c; }   /* hash of the current command string */
static inline struct CommandSignature verif_sig_of_s(vstr *s) { struct CommandSignature c; c.value = g_cmd_hash; return c; }
static inline strref verif_sref(const vstr *s) { strref r; r.ptr = s->ptr; r.len = s->len; return r; }
static inline struct FileInfo *verif_output_info0(const struct BuildValue *v) { return &g_stored[0]; }
static inline struct FileInfo *verif_stored_info(const struct BuildValue *v, unsigned n) { __CPROVER_assert(n < 8, "stored output info index"); return &g_stored[n]; }
