/* models for U-buildfile: YAML nodes by kind; the document structure is arbitrary (any node of any kind anywhere) */
struct ynode { int kind; };                       /* llvm::yaml::Node: NK_Null 0, NK_Scalar 1, NK_BlockScalar 2, NK_KeyValue 3, NK_Mapping 4, NK_Sequence 5, NK_Alias 6 */
struct ykv { struct ynode *key; struct ynode *value; };
struct yscalar { struct ynode base; };
struct ymap { struct ynode base; struct ykv *ptr; size_t len; };
struct yseq { struct ynode base; struct ynode **ptr; size_t len; };
struct pairvec { size_t n; }; struct strvec { size_t n; };
typedef struct pstr { const void *of; } pstr;
unsigned g_errors, g_strings; size_t g_k;
/* An arbitrary document: every node the loader reaches is some element of a pool of nodes of arbitrary, fixed kinds (the pool is never
 * written by the loader); a mapping / sequence has up to 3 entries, each entry's key and value (each element) is an arbitrary pool node. */
struct ybig { struct ynode base; void *ptr; size_t len; };
struct ybig g_pool[6];                       /* never written by the loader: kinds and sizes are arbitrary but fixed */
unsigned char g_shape[6][4][2];              /* which pool nodes are the key / value of entry i of mapping m (the element i of sequence m): arbitrary but fixed */
struct ykv g_kv[6][4];                       /* the entry objects (rebuilt from g_shape at every access, always with the same content) */
#define POOL_IDX(p) ((size_t)(((const char *)(p)) - ((const char *)g_pool)) / sizeof(struct ybig))
static inline size_t ymap_size(const struct ymap *m) { return m->len % 4; }
static inline struct ykv *ymap_at(const struct ymap *m, size_t i) {
  size_t mi = POOL_IDX(m) % 6; struct ykv *e = &g_kv[mi][i % 4];
  e->key = (struct ynode *)&g_pool[g_shape[mi][i % 4][0] % 6]; e->value = (struct ynode *)&g_pool[g_shape[mi][i % 4][1] % 6]; return e; }
static inline size_t yseq_size(const struct yseq *s) { return s->len % 4; }
static inline struct ynode *yseq_at(const struct yseq *s, size_t i) { return (struct ynode *)&g_pool[g_shape[POOL_IDX(s) % 6][i % 4][0] % 6]; }
#define IN_POOL(p) (__CPROVER_pointer_in_range_dfcc((struct ynode *)&g_pool[0], (p), (struct ynode *)&g_pool[5]) && __CPROVER_POINTER_OFFSET(p) % sizeof(struct ybig) == 0)
static inline void bf_error(void *self, const void *at) { g_errors++; }
static inline pstr bf_string_of(void *self, struct yscalar *n) {
  __CPROVER_assert(n->base.kind == 1, "[P:C19] the text of a node is read only of a scalar node");
  g_strings++; pstr p; p.of = n; return p; }
static inline void bf_push_pair(struct pairvec *v) { v->n = v->n + 1; }
static inline void bf_push_str(struct strvec *v, pstr s) { v->n = v->n + 1; }
static inline struct pairvec pairvec_new(void) { struct pairvec v; v.n = 0; return v; }
static inline struct strvec strvec_new(void) { struct strvec v; v.n = 0; return v; }
unsigned g_configures; int g_configure_kind; size_t g_configure_n; _Bool g_configure_answer; struct ynode *g_value_node;
static inline int bf_context(void *self, const void *key) { return 0; }
static inline _Bool bf_configure(void *command, size_t n, int shape) { g_configures++; g_configure_n = n; g_configure_kind = shape; return g_configure_answer; }
struct tmap { char _e; }; struct nodevec { size_t n; }; struct Target; struct Node;
unsigned g_targets, g_target_nodes;
char g_target_object; struct Target *g_target_slot;
static inline struct Target *bf_new_target(pstr name) { g_targets++; return (struct Target *)&g_target_object; }
static inline struct nodevec *bf_target_nodes(struct Target *t) { static struct nodevec v; return &v; }
static inline struct Node *bf_node_for(void *self, strref name, _Bool implicit) { return (struct Node *)0; }
static inline void bf_nodevec_push(struct nodevec *v, struct Node *n) { g_target_nodes++; }
static inline void bf_loaded_target(void *delegate) { }
static inline struct Target **bf_target_slot(struct tmap *m) { return &g_target_slot; }
static inline strref bf_ref(pstr s) { strref r; r.ptr = (const char *)s.of; r.len = 0; return r; }
unsigned nondet_unsigned(void);
struct Tool; unsigned g_tools; char g_tool_object;
static inline struct Tool *bf_tool_for(void *self, strref name, const void *at) { g_tools++; return nondet_unsigned() ? (struct Tool *)&g_tool_object : (struct Tool *)0; }
unsigned nondet_unsigned(void);
/* mapping iterators (basic_collection_iterator): a position in a mapping; dereferencing at or past the end is the crash to exclude */
struct yiter { const struct ymap *m; size_t i; };
unsigned g_sections; _Bool g_section_failed;
static inline struct yiter yit_begin(const struct ymap *m) { struct yiter it; it.m = m; it.i = 0; return it; }
static inline struct yiter yit_end(const struct ymap *m) { struct yiter it; it.m = m; it.i = ymap_size(m); return it; }
static inline struct ykv *yit_entry(struct yiter *it) {
  __CPROVER_assert(it->i < ymap_size(it->m), "[P:C19] a mapping iterator is dereferenced only before the end of the mapping");
  return ymap_at(it->m, it->i); }
static inline struct yiter *yit_next(struct yiter *it) { __CPROVER_assert(it->i < ymap_size(it->m), "[P:C19] a mapping iterator is advanced only before the end of the mapping"); it->i = it->i + 1; return it; }
static inline _Bool yit_ne(const struct yiter *a, struct yiter b) { return a->i != b.i; }
static inline _Bool yit_eq(const struct yiter *a, struct yiter b) { return a->i == b.i; }
static inline _Bool bf_is_scalar_string(void *self, struct ynode *n, const char *s) { return nondet_unsigned() != 0; }
static inline _Bool bf_section(void *self, struct ymap *m) {
  __CPROVER_assert(m->base.kind == 4, "[P:C19] a section parser is handed a mapping node");
  g_sections++; if (nondet_unsigned()) return 1; g_section_failed = 1; return 0; }
static inline _Bool bf_section_scalar(void *self, struct yscalar *n) {
  __CPROVER_assert(n->base.kind == 1, "[P:C19] the default-target parser is handed a scalar node");
  g_sections++; if (nondet_unsigned()) return 1; g_section_failed = 1; return 0; }
struct cmap { char _e; }; struct cmdvec { char _e; }; struct Command; unsigned g_cmds; struct Command *g_cmd_slot; char g_cmd_object;
static inline size_t bf_cmd_count(strref name) { return nondet_unsigned() % 2; }
static inline struct Command *bf_new_command(struct Tool *t, strref name) { g_cmds++; return nondet_unsigned() ? (struct Command *)&g_cmd_object : (struct Command *)0; }
static inline void bf_configure_nodes(void *cmd) { }
static inline void bf_configure_desc(void *cmd, strref s) { }
static inline struct cmdvec *bf_producers(void *node) { static struct cmdvec v; return &v; }
static inline void bf_cmdvec_push(struct cmdvec *v) { }
static inline struct Command **bf_cmd_slot(struct cmap *m) { return &g_cmd_slot; }
static inline struct nodevec nodevec_new(void) { struct nodevec v; v.n = 0; return v; }
struct proplist { char _e; }; unsigned g_props;
static inline struct proplist proplist_new(void) { struct proplist p; return p; }
static inline pstr pstr_new(void) { pstr p; p.of = 0; return p; }
static inline _Bool bf_get_int(const strref *s, unsigned radix, uint32_t *out) { return nondet_unsigned() != 0; }
