struct TaskInterface { void *impl; void *ctx; };
struct CommandSignature { uint64_t value; };
VERIF_VEC(vec_names, strref)
strref *g_names;                                     /* the listing of the directory value (names in listing order) */
static inline vec_names verif_listing(const struct bvalue *v) { vec_names l; l.ptr = g_names; l.len = v->n_names; l.cap = 8; return l; }
static inline vstr vstr_of_ref(strref r) { vstr v; v.ptr = (char *)r.ptr; v.len = r.len; v.cap = r.len; return v; }
static inline vstr vstr_of_ref_p(const strref *r) { vstr v; v.ptr = (char *)r->ptr; v.len = r->len; v.cap = r->len; return v; }
static inline struct optvalue optvalue_none(void) { struct optvalue o; o.has = 0; o.v.ptr = 0; o.v.len = 0; o.v.gid = 0; return o; }
static inline struct optvalue *optvalue_assign(struct optvalue *o, vbytes v) { o->has = 1; o->v = v; return o; }
static inline vbytes vbytes_empty(void) { vbytes v; v.ptr = 0; v.len = 0; v.gid = 0; return v; }
/* TaskInterface::request: records the last request and, for the ghost index g_k, the request with id 1+g_k */
unsigned g_requests; bkey g_req_key, g_kth_key; uintptr_t g_req_id, g_kth_id;
static inline void TaskInterface_request(struct TaskInterface *ti, bkey key, uintptr_t id) {
  g_requests++; g_req_key = key; g_req_id = id;
  if (id == 1 + g_k) { g_kth_key = key; g_kth_id = id; }
}

/* completion: the value handed to the engine is a tree (structure) signature built from the chain value */
unsigned g_completes; int g_complete_kind;
static inline void TaskInterface_complete_sig(struct TaskInterface *ti, int kind, uint64_t code) { g_completes++; g_complete_kind = kind; }

/* DirectoryContentsTask::isResultValid: the file system's current answer is a ghost record and a ghost listing; names are compared by identity */
VERIF_VEC(vec_cur, vstr)
struct bvalue g_cur_info; vstr *g_cur_names; size_t g_cur_n;
struct BuildSystemImplModel { char _e; }; 
static inline void *verif_bs(void) { return 0; }
static inline void *verif_fs(void *bs) { return 0; }
static inline struct bvalue verif_cur_info(void *fs) { return g_cur_info; }
static inline vec_cur vec_cur_new(void) { vec_cur v; v.ptr = 0; v.len = 0; v.cap = 0; return v; }
static inline int verif_get_contents(strref path, vec_cur *out) { out->ptr = g_cur_names; out->len = g_cur_n; out->cap = 8; return 0; }
static inline _Bool bvalue_info_eq(const struct bvalue *a, struct bvalue b) { return a->mode == b.mode && (a->is_dir != 0) == (b.is_dir != 0); }
#define VERIF_NE(a, b) ((a)->ptr != (b)->ptr)
#define VERIF_EQ(a, b) ((a)->ptr == (b)->ptr)
