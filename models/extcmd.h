/* models for U-ext-* : file infos are abstract identities plus a "missing" bit (FileInfo ==/!= is proved in U-fileinfo) */
struct FileInfo { uint64_t id; _Bool missing; };
struct TaskInterface { void *impl; void *ctx; };
struct FileInfo g_stored[8], g_current[8]; size_t g_k;
static inline _Bool verif_info_ne(const struct FileInfo *a, struct FileInfo b) { return a->id != b.id || (a->missing != 0) != (b.missing != 0); }
