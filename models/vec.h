/* std::vector<T> / std::deque<T> model: a pointer, a length and a ghost capacity.  Real containers grow on
 * demand; the model requires room (capacity is an arbitrary symbolic value, so this is without loss of
 * generality) and allocation failure is not modelled. */
#ifndef VERIF_VEC_H
#define VERIF_VEC_H
#define VERIF_VEC(NAME, T) \
typedef struct NAME { T *ptr; size_t len; size_t cap; } NAME; \
static inline size_t NAME##_size(const NAME *v) { return v->len; } \
static inline _Bool NAME##_empty(const NAME *v) { return v->len == 0; } \
static inline T *NAME##_at(const NAME *v, size_t i) { return &v->ptr[i]; } \
static inline T *NAME##_back(const NAME *v) { return &v->ptr[v->len - 1]; } \
static inline T *NAME##_front(const NAME *v) { return &v->ptr[0]; } \
static inline void NAME##_push_back(NAME *v, T x) { __CPROVER_assert(v->len < v->cap, "vector model: room for one more element (ghost capacity)"); v->ptr[v->len] = x; v->len = v->len + 1; } \
static inline void NAME##_pop_back(NAME *v) { v->len = v->len - 1; } \
static inline void NAME##_pop_front(NAME *v) { __CPROVER_assert(v->len > 0, "pop_front of a non-empty queue"); v->ptr = v->ptr + 1; v->len = v->len - 1; v->cap = v->cap - 1; } \
static inline void NAME##_clear(NAME *v) { v->len = 0; }
#define VEC_OK(v, T) (__CPROVER_is_fresh((v).ptr, (v).cap * sizeof(T)) && (v).len <= (v).cap && (v).cap <= 4096)
#define VEC_OKN(v, T, N) (__CPROVER_is_fresh((v).ptr, (N) * sizeof(T)) && (v).len <= (N) && (v).cap == (N))   /* fixed ghost capacity: much cheaper for the solver than a symbolic object size */
#endif
