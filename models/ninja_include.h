/* models for U-ninja-include: files by the identity of their absolute path, the include stack as a vector with a ghost
 * shadow of the paths that were read, file contents and parsers as opaque objects */
typedef struct pstr { const char *ptr; size_t len; } pstr;         /* std::string / SmallString: identity + length */
struct membuf { strref text; strref ident; };
struct ManifestLoader_ManifestLoaderImpl_IncludeEntry;
typedef struct vec_incl { struct ManifestLoader_ManifestLoaderImpl_IncludeEntry *ptr; size_t len; size_t cap; } vec_incl;
#define NINC 4
const char *g_stack_paths[NINC];     /* ghost: the path whose contents entry k was read from */
const char *g_last_read_path;        /* ghost: the path of the last readFile */
unsigned g_reads, g_errors, g_parsers;
struct membuf g_buffer; _Bool g_read_ok;
struct Parser; struct Scope { struct Scope *parent; }; struct Token;
char g_parser_obj;
/* make_absolute: the absolute form of a name is another text (g_abs_text, fixed per call of enterFile); files are the same iff their absolute
 * paths are the same text */
const char *g_abs_text, *g_abs_of;
static inline void make_abs(pstr *p) { g_abs_of = p->ptr; p->ptr = g_abs_text; }
static inline pstr pstr_from_ref(strref r) { pstr p; p.ptr = r.ptr; p.len = r.len; return p; }
static inline strref pstr_ref(pstr s) { strref r; r.ptr = s.ptr; r.len = s.len; return r; }
static inline strref pstr_ref_p(const pstr *s) { strref r; r.ptr = s->ptr; r.len = s->len; return r; }
static inline _Bool ref_same(strref a, strref b) { return a.ptr == b.ptr; }
#define ON_STACK(n, p) (((n) > 0 && g_stack_paths[0] == (p)) || ((n) > 1 && g_stack_paths[1] == (p)) || ((n) > 2 && g_stack_paths[2] == (p)) || ((n) > 3 && g_stack_paths[3] == (p)))
size_t g_depth;                      /* ghost: the number of files being loaded */
/* ManifestLoaderActions::readFile: the client reads the file (and reports a failure itself) */
static inline struct membuf *read_file(void *actions, strref path, strref forFilename, const struct Token *forToken) {
  __CPROVER_assert(!ON_STACK(g_depth, path.ptr), "[P:C19] a manifest file is read only when it is not already being loaded (a file that includes itself must not recurse without bound)");
  g_reads++; g_last_read_path = path.ptr;
  return g_read_ok ? &g_buffer : 0; }
static inline strref membuf_text(struct membuf *b) { return b->text; }
static inline strref membuf_ident(struct membuf *b) { return b->ident; }
static inline struct Parser *parser_new(strref text, void *actions) { g_parsers++; return (struct Parser *)&g_parser_obj; }
/* evalString(token, scope, result): the text the path expression evaluates to in `scope` (the evaluation itself: U-ninja-eval) */
unsigned g_evals, g_parses; const char *g_eval_text; struct Scope *g_eval_scope, *g_cur_scope_in, *g_parse_scope, *g_parse_scope_parent;
static inline void eval_path(const struct Token *tok, struct Scope *scope, pstr *result) { g_evals++; g_eval_scope = scope; result->ptr = g_eval_text; result->len = 0; }
static inline pstr pstr_empty(void) { pstr p; p.ptr = 0; p.len = 0; return p; }
/* Scope(parent): a new, empty scope; lookups that miss in it continue in the parent (U-ninja-scope) */
unsigned g_scopes_made;
static inline struct Scope scope_child(struct Scope *parent) { struct Scope s; s.parent = parent; g_scopes_made++; g_parse_scope_parent = parent; return s; }
