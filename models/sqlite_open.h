/* models for U-db-open: the SQLite C API as an assumed contract (connection handle, statement preparation, exec of
 * schema statements, the version row), unlink and errno */
struct sqlite3 { char _e; }; struct sqlite3_stmt { char _e; };
int g_errno; static inline int *verif_errno(void) { return &g_errno; }
int nondet_int(void); _Bool nondet_bool(void);
unsigned g_opens, g_closes, g_unlinks, g_errors; _Bool g_row_seen, g_schema_failed, g_unlink_ok;
int g_db_version; unsigned g_db_client; int g_current_schema_version;
int g_seq;   /* progress of schema creation: 1 BEGIN, 2 info table, 3 version row, 4 key_names, 5 rule_results, 6 index, 7 END */
struct sqlite3 *g_handle;          /* the connection that is currently open (ghost) */
/* the eight statement texts are distinct objects; a prepared statement is identified with the text it was prepared from */
static const char SQL_findKeyIDForKey[] = "1", SQL_findKeyNameForKeyID[] = "2", SQL_insertIntoKeys[] = "3", SQL_insertIntoRuleResults[] = "4",
  SQL_deleteFromKeys[] = "5", SQL_findRuleResult[] = "6", SQL_fastFindRuleResult[] = "7", SQL_getKeysWithResult[] = "8";
static char SQL_insert_version_row[] = "I";
#define STMT_OF(sql) ((struct sqlite3_stmt *)(sql))
static inline int verif_sqlite3_config(void) { return nondet_int(); }
static inline int sqlite3_threadsafe(void) { return nondet_int(); }
static inline const char *sqlite3_errstr(int rc) { return "e"; }
static inline int sqlite3_open(const char *path, struct sqlite3 **out) {
  g_opens++;
  if (nondet_bool()) {                                     /* failure: with or without a handle ("whether or not an error occurs ... the handle should be released by sqlite3_close") */
    if (nondet_bool()) { *out = 0; return 14; }
    struct sqlite3 *f = malloc(sizeof(struct sqlite3)); __CPROVER_assume(f != 0); *out = f; g_handle = f; return 14; }
  struct sqlite3 *h = malloc(sizeof(struct sqlite3)); __CPROVER_assume(h != 0); *out = h; g_handle = h; return 0; }
static inline int sqlite3_close(struct sqlite3 *db) {         /* sqlite3_close(NULL) is a harmless no-op */
  if (db) { __CPROVER_assert(db == g_handle, "[P:C03] the connection that is closed is the open one"); g_handle = 0; g_closes++; } return 0; }
static inline int sqlite3_busy_timeout(struct sqlite3 *db, int ms) { __CPROVER_assert(db != 0 && db == g_handle, "[P:C03] SQLite API used on the open connection"); return 0; }
static inline int sqlite3_prepare_v2(struct sqlite3 *db, const char *sql, int n, struct sqlite3_stmt **out, const char **tail) {
  __CPROVER_assert(db != 0 && db == g_handle, "[P:C03] statements are prepared on the open connection (not on a closed or null one)");
  int rc = nondet_int(); if (rc == 0) *out = STMT_OF(sql); return rc; }
static inline int sqlite3_step(struct sqlite3_stmt *s) { int rc = nondet_int(); g_row_seen = (rc == 100); return rc; }
static inline int sqlite3_column_count(struct sqlite3_stmt *s) { return 2; }
static inline int sqlite3_column_int(struct sqlite3_stmt *s, int i) { __CPROVER_assert(g_row_seen && (i == 0 || i == 1), "column of the version row"); return i == 0 ? g_db_version : (int)g_db_client; }
static inline int sqlite3_finalize(struct sqlite3_stmt *s) { return 0; }
static inline char *verif_mprintf(const char *fmt, int a, unsigned b) {
  __CPROVER_assert(a == g_current_schema_version, "[P:C03] the version row records the current schema version");
  return SQL_insert_version_row; }
static inline void sqlite3_free(void *p) { }
static inline int verif_sql_kind(const char *sql) {
  if (sql == SQL_insert_version_row) return 3;
  if (sql[0] == 'B') return 1;
  if (sql[0] == 'E') return 7;
  if (sql[0] == 'C' && sql[7] == 'T' && sql[13] == 'i') return 2;
  if (sql[0] == 'C' && sql[7] == 'T' && sql[13] == 'k') return 4;
  if (sql[0] == 'C' && sql[7] == 'T' && sql[13] == 'r') return 5;
  if (sql[0] == 'C' && sql[7] == 'U') return 6;
  if ((sql[0] == 'P' || sql[0] == 'p') && (sql[7] == 'j' || sql[7] == 'J' || sql[7] == 's' || sql[7] == 'S')) return -1;
  return 0; }
#define HAS4(s, o, a, b, c, d) ((s)[o] == a && (s)[(o) + 1] == b && (s)[(o) + 2] == c && (s)[(o) + 3] == d)
static inline int sqlite3_exec(struct sqlite3 *db, const char *sql, void *cb, void *arg, char **err) {
  __CPROVER_assert(db != 0 && db == g_handle, "[P:C03] statements are executed on the open connection (not on a closed or null one)");
  int kind = verif_sql_kind(sql);
  __CPROVER_assert(kind != -1, "[P:C04] opening the database never switches journaling or synchronous writes off (no PRAGMA journal_mode / synchronous)");
  if (kind == 4) {
    __CPROVER_assert(sql[KEY_TYPE_OFF - 4] == 'k' && sql[KEY_TYPE_OFF - 3] == 'e' && sql[KEY_TYPE_OFF - 2] == 'y' && sql[KEY_TYPE_OFF - 1] == ' ', "extraction: offset of the key column type in the CREATE TABLE key_names literal");
    __CPROVER_assert(KEY_TYPE_KEEPS_BYTES(sql), "[P:C03] key_names.key stores key bytes unchanged: its declared type has TEXT or BLOB affinity (a type such as STRING has NUMERIC affinity: numeric-looking keys are converted and collide)");
  }
  int rc = nondet_int();
  if (rc != 0) { *err = (char *)"e"; g_schema_failed = 1; return rc; }
  *err = 0;
  if (kind == g_seq + 1) g_seq = kind;
  return 0; }
static inline int verif_unlink(const char *path) { g_unlinks++; if (nondet_bool()) { g_errno = nondet_int(); g_unlink_ok = 0; return -1; } g_unlink_ok = 1; return 0; }
static inline const char *vstr_c_str(const vstr *s) { return s->ptr; }
/* `*error_out = <message expression>`: the text is not modelled, only that an error was reported and from what */
static inline void verif_error(vstr *e) { g_errors++; e->len = 1; }
static inline void verif_error_from(vstr *e, const char *text) {
  __CPROVER_assert(text != 0, "[P:C03] an SQLite error text is read only after SQLite has set it");
  g_errors++; e->len = 1; }
