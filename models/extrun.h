/* models for U-ext-run: build values by kind, keys by the node they name, the task interface / delegate / result function as recorders */
struct TaskInterface { void *impl; void *ctx; };
struct bkey { const void *node; };
struct keydata { const void *node; };
struct resultfn { char _e; };
VERIF_VEC(vec_bkey, struct bkey)
size_t g_k; unsigned g_provide_ext; unsigned g_requests, g_results, g_failures, g_missing_reports, g_start_ext; uintptr_t g_req_id_k; const void *g_req_node_k; int g_result_kind; _Bool g_result_is_skip;
static inline struct bkey bkey_node(const void *n) { struct bkey k; k.node = n; return k; }
static inline struct keydata bkey_data(const struct bkey *k) { struct keydata d; d.node = k->node; return d; }
static inline struct bkey bkey_from_data(struct keydata d) { struct bkey k; k.node = d.node; return k; }
static inline void ti_request(struct TaskInterface *ti, struct keydata d, uintptr_t id) { if (g_requests == g_k) { g_req_id_k = id; g_req_node_k = d.node; } g_requests++; }
unsigned g_computes, g_can_update_calls; _Bool g_can_update_answer;
struct BuildSystemDelegate; struct BuildSystem;
static inline struct BuildSystemDelegate *ext_delegate(struct BuildSystem *s) { return (struct BuildSystemDelegate *)s; }
static inline void ext_had_failure(struct BuildSystemDelegate *d) { g_failures++; }
static inline void ext_missing_inputs(struct BuildSystemDelegate *d) { g_missing_reports++; }
