/* models for U-eng-loop (after the translated structs) */
size_t g_deps_before; struct Task *g_erased_task; unsigned g_db_writes, g_cancels, g_status_updates; size_t g_j;
const void *g_db_result; uint64_t g_db_key; _Bool g_db_ok;
static inline struct taskmap_it verif_taskinfos_find(struct taskmap *m, struct Task *t) { struct taskmap_it it; it.task = t; return it; }
static inline void verif_taskinfos_erase(struct taskmap *m, struct taskmap_it it) {
  __CPROVER_assert(g_engine->taskInfosMutex.held, "[P:C06] taskInfos is modified only with taskInfosMutex held");
  __CPROVER_assert(m->n > 0, "erase from a non-empty task table"); m->n = m->n - 1; g_erased_task = it.task; }
static inline struct KeyIDAndFlags *verif_deps_at(const struct DependencyKeyIDs *d, size_t i) { return &d->items.ptr[i]; }
#define RI_FOR(k) ((k)._value == g_key_a ? g_ri_a : g_ri_b)
/* input-request step: scan / demand answers are ghosts; parking a request is recorded */
unsigned g_scans, g_demands; struct BuildEngineImpl_RuleInfo *g_scan_rule, *g_demand_rule; _Bool g_scan_answer, g_demand_answer, g_dummy;
/* the scan record of a scanning input / the task record of an in-progress input: one ghost record each, with room for the parked request */
struct BuildEngineImpl_RuleScanRecord g_psr; struct BuildEngineImpl_TaskInputRequest g_psr_buf[2];
struct BuildEngineImpl_TaskInfo g_pti; struct BuildEngineImpl_TaskInputRequest g_pti_buf[2];
static inline struct BuildEngineImpl_RuleScanRecord *verif_pending_scan_record(struct BuildEngineImpl_RuleInfo *ri) {
  __CPROVER_assert(ri->state == BuildEngineImpl_RuleInfo_StateKind_IsScanning, "[P:C06] the scan record is read only of a rule that is being scanned");
  g_psr.pausedInputRequests.ptr = g_psr_buf; g_psr.pausedInputRequests.len = 0; g_psr.pausedInputRequests.cap = 2; return &g_psr; }
static inline struct BuildEngineImpl_TaskInfo *verif_pending_task_info(struct BuildEngineImpl_RuleInfo *ri) {
  __CPROVER_assert(ri->state == BuildEngineImpl_RuleInfo_StateKind_InProgressWaiting || ri->state == BuildEngineImpl_RuleInfo_StateKind_InProgressComputing, "[P:C06] the pending task is read only of a rule that is in progress");
  g_pti.requestedBy.ptr = g_pti_buf; g_pti.requestedBy.len = 0; g_pti.requestedBy.cap = 2; return &g_pti; }
static inline void DependencyKeyIDs_push_back3(struct DependencyKeyIDs *d, struct KeyID id, _Bool orderOnly, _Bool singleUse) {
  __CPROVER_assert(d->items.len < d->items.cap, "dependency list model: room for one more element (ghost capacity)");
  d->items.ptr[d->items.len].keyID = id; d->items.ptr[d->items.len].orderOnly = orderOnly; d->items.ptr[d->items.len].singleUse = singleUse; d->items.len = d->items.len + 1; }
/* TaskInterface entry points */
unsigned g_aborts, g_add_calls; uintptr_t g_add_id; _Bool g_add_order_only, g_add_single_use; const void *g_add_key; uint64_t g_dep_key_id;
static inline void verif_abort(void) { g_aborts++; __CPROVER_assume(0); }
static inline struct BuildEngineImpl_RuleInfo *verif_rule_for_key_text(struct BuildEngineImpl *self, const void *key) { return g_ri_b; }
static inline struct KeyID verif_key_id(struct BuildEngineImpl *self, const void *key) { struct KeyID k; k._value = g_dep_key_id; return k; }
