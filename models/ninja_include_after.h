/* second half of the U-ninja-include models: needs the translated IncludeEntry */
static inline _Bool vec_incl_empty(const vec_incl *v) { return v->len == 0; }
static inline size_t vec_incl_size(const vec_incl *v) { return v->len; }
static inline struct ManifestLoader_ManifestLoaderImpl_IncludeEntry *vec_incl_at(const vec_incl *v, size_t i) { return &v->ptr[i]; }
static inline struct ManifestLoader_ManifestLoaderImpl_IncludeEntry *vec_incl_back(const vec_incl *v) {
  __CPROVER_assert(v->len > 0, "back() of a non-empty include stack"); return &v->ptr[v->len - 1]; }
/* emplace_back(buffer, parser, scope, path): IncludeEntry's constructor stores its arguments */
static inline void incl_push(vec_incl *v, struct membuf *data, struct Parser *parser, struct Scope *scope, strref path) {
  __CPROVER_assert(v->len < v->cap, "vector model: room for one more element (ghost capacity)");
  __CPROVER_assert(data != 0, "an entered file has contents");
  v->ptr[v->len].data = data; v->ptr[v->len].parser = parser; v->ptr[v->len].scope = scope;
#ifndef VERIF_NO_ENTRY_PATH
  v->ptr[v->len].path.ptr = path.ptr; v->ptr[v->len].path.len = path.len;
#endif
  g_stack_paths[v->len] = g_last_read_path;
  v->len = v->len + 1; g_depth = v->len; }
static inline void incl_pop(vec_incl *v) { __CPROVER_assert(v->len > 0, "pop_back of a non-empty include stack"); v->len = v->len - 1; g_depth = v->len; }
char g_cur_ident;
/* the accessors of the file on top of the include stack */
static inline strref cur_filename(struct ManifestLoader_ManifestLoaderImpl *l) {
  __CPROVER_assert(l->includeStack.len > 0, "getCurrentFilename(): a file is being loaded"); strref r; r.ptr = &g_cur_ident; r.len = 0; return r; }
static inline struct Scope *cur_scope(struct ManifestLoader_ManifestLoaderImpl *l) {
  __CPROVER_assert(l->includeStack.len > 0, "getCurrentScope(): a file is being loaded"); return l->includeStack.ptr[l->includeStack.len - 1].scope; }
static inline struct Parser *cur_parser(struct ManifestLoader_ManifestLoaderImpl *l) {
  __CPROVER_assert(l->includeStack.len > 0, "getCurrentParser(): a file is being loaded");
  g_parse_scope = l->includeStack.ptr[l->includeStack.len - 1].scope; return l->includeStack.ptr[l->includeStack.len - 1].parser; }
/* Parser::parse(): the parser of the file on top of the stack runs (its termination: U-ninja-parser); the scope it runs in is recorded */
static inline void parser_parse(struct Parser *p) {
  __CPROVER_assert(p == (struct Parser *)&g_parser_obj, "[P:C19] only the parser of a file that was just entered is run");
  g_parses++; }
