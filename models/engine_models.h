/* model bodies that read engine fields (U-eng-* only) */
/* taskInfos.emplace(task, TaskInfo(task)): a fresh record for the task, inserted under taskInfosMutex */
static inline struct BuildEngineImpl_TaskInfo *verif_taskinfos_emplace(struct BuildEngineImpl *self, struct Task *task) {
  __CPROVER_assert(self->taskInfosMutex.held, "[P:C06] taskInfos is modified only with taskInfosMutex held");
  struct BuildEngineImpl_TaskInfo *ti = malloc(sizeof(struct BuildEngineImpl_TaskInfo)); __CPROVER_assume(ti != 0);
  ti->task = task; ti->forRuleInfo = 0; ti->waitCount = 0;
  ti->deferredScanRequests.ptr = malloc(2 * sizeof(struct BuildEngineImpl_RuleScanRequest)); __CPROVER_assume(ti->deferredScanRequests.ptr != 0);
  ti->deferredScanRequests.len = 0; ti->deferredScanRequests.cap = 2;
  g_new_taskinfo = ti;
  return ti;
}
/* getTaskInfo(task): lookup under taskInfosMutex; the record of the completing task is the ghost g_taskinfo */
static inline struct BuildEngineImpl_TaskInfo *BuildEngineImpl_getTaskInfo(struct BuildEngineImpl *self, struct Task *task) {
  __CPROVER_assert(!self->taskInfosMutex.held, "[P:C06] taskInfosMutex is free when getTaskInfo takes it");
  return g_taskinfo;
}

static inline struct BuildEngineImpl_RuleInfo *BuildEngineImpl_getRuleInfoForKey(struct BuildEngineImpl *self, struct KeyID k) { return k._value == g_key_a ? g_ri_a : g_ri_b; }
