static vstr g_some_string;
static inline vstr *verif_cmd_string(struct Command *c) { return &g_some_string; }
static inline vstr *verif_node_path(struct Node *n) { g_path_idx = n->g_idx; return &g_some_string; }
static inline struct FileInfo verif_info_for_path(vstr *p, _Bool asLink) { return g_current[g_path_idx]; }
