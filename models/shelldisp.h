/* models for U-shell-deps-dispatch: the deps files of a command as up to NP paths (by identity), the file system as a ghost answer per path,
 * the two style-specific processors as recorders */
struct TaskInterface { void *impl; void *ctx; };
#define NP 2
typedef struct vec_str { vstr *ptr; size_t len; size_t cap; } vec_str;
static inline size_t vec_str_size(const vec_str *v) { return v->len; }
static inline vstr *vec_str_at(const vec_str *v, size_t i) { return &v->ptr[i]; }
struct membuf { char _e; };
struct pathbuf { const char *base; const char *appended; _Bool absolute; };
_Bool g_is_abs[NP], g_readable[NP], g_proc_ok[NP];       /* ghost, per deps path: spelled absolute?  contents readable?  processed without error? */
struct membuf g_contents[NP];
const char *g_path_id[NP];                                 /* ghost: the text of deps path k */
#define PIDX(p) ((p) == g_path_id[0] ? 0 : (p) == g_path_id[1] ? 1 : NP)
unsigned g_reads, g_errors, g_mk_calls, g_di_calls; size_t g_k;
/* what the k-th read asked for, what the k-th processing call was given */
_Bool g_read_joined[NP]; const char *g_read_wd[NP]; _Bool g_read_abs[NP];
int g_proc_kind[NP]; _Bool g_proc_ignore[NP]; const void *g_proc_buf[NP]; const char *g_proc_path[NP];
static inline _Bool disp_is_absolute(strref p) { __CPROVER_assert(PIDX(p.ptr) < NP, "is_absolute is asked about a deps path"); return g_is_abs[PIDX(p.ptr)]; }
static inline strref disp_ref_of_string(const vstr *s) { strref r; r.ptr = s->ptr; r.len = s->len; return r; }
static inline struct pathbuf disp_pathbuf_from(strref s) { struct pathbuf b; b.base = s.ptr; b.appended = 0; b.absolute = 0; return b; }
static inline void disp_path_append(struct pathbuf *b, strref w) { b->appended = w.ptr; }
static inline void disp_make_absolute(struct pathbuf *b) { b->absolute = 1; }
char g_joined_text;
const struct pathbuf *g_joined_src;
static inline strref disp_ref_of_pathbuf(const struct pathbuf *b) { g_joined_src = b; strref r; r.ptr = &g_joined_text; r.len = 1; return r; }
struct FileSystem; struct BuildSystem; struct BuildSystemDelegate;
static inline struct FileSystem *disp_fs(struct BuildSystem *s) { return (struct FileSystem *)s; }
static inline struct BuildSystemDelegate *disp_delegate(struct BuildSystem *s) { return (struct BuildSystemDelegate *)s; }
/* FileSystem::getFileContents(path): records which deps file is read and how the path was formed */
static inline struct membuf *disp_contents_of_string(struct FileSystem *fs, const vstr *path) {
  size_t k = PIDX(path->ptr); __CPROVER_assert(k < NP, "the file read is a deps path of the command");
  g_read_joined[k] = 0; g_reads++; return g_readable[k] ? &g_contents[k] : 0; }
static inline struct membuf *disp_contents_of_ref(struct FileSystem *fs, strref path) {
  __CPROVER_assert(path.ptr == &g_joined_text && g_joined_src != 0, "a relative deps path is read through the joined buffer");
  size_t k = PIDX(g_joined_src->appended); __CPROVER_assert(k < NP, "the file read is a deps path of the command");
  g_read_joined[k] = 1; g_read_wd[k] = g_joined_src->base; g_read_abs[k] = g_joined_src->absolute; g_reads++; return g_readable[k] ? &g_contents[k] : 0; }
static inline strref disp_ref_id(const strref *r) { return *r; }
