/* bounded models for U-shell-esc */
#include <string.h>
struct raw_ostream { char _e; };
char g_out[32]; size_t g_outlen;
static inline size_t strref_size(const strref *s) { return s->len; }
static inline strref strref_of_lit(const char *p) { strref r; r.ptr = p; r.len = 0; while (p[r.len]) r.len++; return r; }
static inline vstr vstr_lit(const char *p) { vstr v; v.ptr = (char *)p; v.len = 0; while (p[v.len]) v.len++; v.cap = v.len; return v; }
static inline _Bool in_set(char c, strref set) { for (size_t i = 0; i < set.len; i++) if (set.ptr[i] == c) return 1; return 0; }
static inline size_t strref_find_first_not_of(const strref *s, strref set) { for (size_t i = 0; i < s->len; i++) if (!in_set(s->ptr[i], set)) return i; return (size_t)-1; }
static inline size_t strref_find_first_of(const strref *s, strref set, size_t from) { for (size_t i = from; i < s->len; i++) if (in_set(s->ptr[i], set)) return i; return (size_t)-1; }
static inline strref strref_slice(const strref *s, size_t a, size_t b) { strref r; if (a > s->len) a = s->len; if (b > s->len) b = s->len; if (b < a) b = a; r.ptr = s->ptr + a; r.len = b - a; return r; }
static inline void out_char(char c) { __CPROVER_assert(g_outlen < 32, "output model capacity"); g_out[g_outlen++] = c; }
/* raw_ostream << StringRef / const char * / std::string / char : append to the ghost output */
static inline struct raw_ostream *verif_out(struct raw_ostream *os, strref s) { for (size_t i = 0; i < s.len; i++) out_char(s.ptr[i]); return os; }
static inline struct raw_ostream *verif_out_cstr(struct raw_ostream *os, const char *p) { for (size_t i = 0; p[i]; i++) out_char(p[i]); return os; }
static inline struct raw_ostream *verif_out_ch(struct raw_ostream *os, char c) { out_char(c); return os; }
#define verif_out_any(os, x) _Generic((x), strref: verif_out, char: verif_out_ch, int: verif_out_ch, vstr *: verif_out_vstr, default: verif_out_cstr)(os, x)
static inline struct raw_ostream *verif_out_vstr(struct raw_ostream *os, vstr *s) { for (size_t i = 0; i < s->len; i++) out_char(s->ptr[i]); return os; }
/* POSIX sh: does the output, read as shell input, denote exactly one word equal to `in`, without any expansion? */
static inline _Bool sh_unquoted_ok(char c, _Bool at_start) {
  if ((c >= 'a' && c <= 'z') || (c >= 'A' && c <= 'Z') || (c >= '0' && c <= '9')) return 1;
  if (c == '-' || c == '_' || c == '/' || c == ':' || c == '@' || c == '%' || c == '+' || c == '=' || c == '.' || c == ',') return 1;
  if (c == '#') return !at_start;          /* a word starting with # is a comment */
  return 0;                                /* everything else (blank, quote, $, `, ~, glob and control characters, bytes >= 0x80) must be quoted */
}
static inline _Bool verif_sh_yields(strref in) {
  size_t i = 0, n = 0;
  while (i < g_outlen) {
    char c = g_out[i];
    if (c == '\'') {
      i++;
      while (i < g_outlen && g_out[i] != '\'') { if (n >= in.len || in.ptr[n] != g_out[i]) return 0; n++; i++; }
      if (i == g_outlen) return 0;
      i++;
    } else if (c == '\\') {
      i++; if (i == g_outlen) return 0;
      if (n >= in.len || in.ptr[n] != g_out[i]) return 0; n++; i++;
    } else {
      if (!sh_unquoted_ok(c, i == 0)) return 0;
      if (n >= in.len || in.ptr[n] != c) return 0; n++; i++;
    }
  }
  return n == in.len && g_outlen > 0;
}
