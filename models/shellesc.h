/* bounded models for U-shell-esc */
#include <string.h>
struct raw_ostream { char _e; };
#ifndef VERIF_SHELL_MAXLEN
#define VERIF_SHELL_MAXLEN 3
#endif
char g_out[32]; size_t g_outlen;
static inline size_t strref_size(const strref *s) { return s->len; }
static inline vstr vstr_lit1(const char *p, size_t n) { vstr v; v.ptr = (char *)p; v.len = n; v.cap = n; return v; }
/* membership in a literal set of at most 80 bytes, loop-free */
static inline _Bool in_set(char c, strref set) { __CPROVER_assert(set.len <= 80, "model: character sets of at most 80 bytes"); return (0 < set.len && set.ptr[0] == c) || (1 < set.len && set.ptr[1] == c) || (2 < set.len && set.ptr[2] == c) || (3 < set.len && set.ptr[3] == c) || (4 < set.len && set.ptr[4] == c) || (5 < set.len && set.ptr[5] == c) || (6 < set.len && set.ptr[6] == c) || (7 < set.len && set.ptr[7] == c) || (8 < set.len && set.ptr[8] == c) || (9 < set.len && set.ptr[9] == c) || (10 < set.len && set.ptr[10] == c) || (11 < set.len && set.ptr[11] == c) || (12 < set.len && set.ptr[12] == c) || (13 < set.len && set.ptr[13] == c) || (14 < set.len && set.ptr[14] == c) || (15 < set.len && set.ptr[15] == c) || (16 < set.len && set.ptr[16] == c) || (17 < set.len && set.ptr[17] == c) || (18 < set.len && set.ptr[18] == c) || (19 < set.len && set.ptr[19] == c) || (20 < set.len && set.ptr[20] == c) || (21 < set.len && set.ptr[21] == c) || (22 < set.len && set.ptr[22] == c) || (23 < set.len && set.ptr[23] == c) || (24 < set.len && set.ptr[24] == c) || (25 < set.len && set.ptr[25] == c) || (26 < set.len && set.ptr[26] == c) || (27 < set.len && set.ptr[27] == c) || (28 < set.len && set.ptr[28] == c) || (29 < set.len && set.ptr[29] == c) || (30 < set.len && set.ptr[30] == c) || (31 < set.len && set.ptr[31] == c) || (32 < set.len && set.ptr[32] == c) || (33 < set.len && set.ptr[33] == c) || (34 < set.len && set.ptr[34] == c) || (35 < set.len && set.ptr[35] == c) || (36 < set.len && set.ptr[36] == c) || (37 < set.len && set.ptr[37] == c) || (38 < set.len && set.ptr[38] == c) || (39 < set.len && set.ptr[39] == c) || (40 < set.len && set.ptr[40] == c) || (41 < set.len && set.ptr[41] == c) || (42 < set.len && set.ptr[42] == c) || (43 < set.len && set.ptr[43] == c) || (44 < set.len && set.ptr[44] == c) || (45 < set.len && set.ptr[45] == c) || (46 < set.len && set.ptr[46] == c) || (47 < set.len && set.ptr[47] == c) || (48 < set.len && set.ptr[48] == c) || (49 < set.len && set.ptr[49] == c) || (50 < set.len && set.ptr[50] == c) || (51 < set.len && set.ptr[51] == c) || (52 < set.len && set.ptr[52] == c) || (53 < set.len && set.ptr[53] == c) || (54 < set.len && set.ptr[54] == c) || (55 < set.len && set.ptr[55] == c) || (56 < set.len && set.ptr[56] == c) || (57 < set.len && set.ptr[57] == c) || (58 < set.len && set.ptr[58] == c) || (59 < set.len && set.ptr[59] == c) || (60 < set.len && set.ptr[60] == c) || (61 < set.len && set.ptr[61] == c) || (62 < set.len && set.ptr[62] == c) || (63 < set.len && set.ptr[63] == c) || (64 < set.len && set.ptr[64] == c) || (65 < set.len && set.ptr[65] == c) || (66 < set.len && set.ptr[66] == c) || (67 < set.len && set.ptr[67] == c) || (68 < set.len && set.ptr[68] == c) || (69 < set.len && set.ptr[69] == c) || (70 < set.len && set.ptr[70] == c) || (71 < set.len && set.ptr[71] == c) || (72 < set.len && set.ptr[72] == c) || (73 < set.len && set.ptr[73] == c) || (74 < set.len && set.ptr[74] == c) || (75 < set.len && set.ptr[75] == c) || (76 < set.len && set.ptr[76] == c) || (77 < set.len && set.ptr[77] == c) || (78 < set.len && set.ptr[78] == c) || (79 < set.len && set.ptr[79] == c); }
static inline size_t strref_find_first_not_of(const strref *s, strref set) { for (size_t i = 0; i < s->len; i++) if (!in_set(s->ptr[i], set)) return i; return (size_t)-1; }
static inline size_t strref_find_first_of(const strref *s, strref set, size_t from) { for (size_t i = from; i < s->len; i++) if (in_set(s->ptr[i], set)) return i; return (size_t)-1; }
static inline strref strref_slice(const strref *s, size_t a, size_t b) { strref r; if (a > s->len) a = s->len; if (b > s->len) b = s->len; if (b < a) b = a; r.ptr = s->ptr + a; r.len = b - a; return r; }
static inline void out_char(char c) { __CPROVER_assert(g_outlen < 32, "output model capacity"); g_out[g_outlen++] = c; }
/* raw_ostream << StringRef / const char * / std::string / char : append to the ghost output */
static inline struct raw_ostream *verif_out(struct raw_ostream *os, strref s) { for (size_t i = 0; i < s.len; i++) out_char(s.ptr[i]); return os; }
static inline struct raw_ostream *verif_out_cstr(struct raw_ostream *os, const char *p) { for (size_t i = 0; p[i]; i++) out_char(p[i]); return os; }
static inline struct raw_ostream *verif_out_ch(struct raw_ostream *os, char c) { out_char(c); return os; }
#define verif_out_any(os, x) _Generic((x), strref: verif_out, char: verif_out_ch, int: verif_out_ch, vstr *: verif_out_vstr, default: verif_out_cstr)(os, x)
static inline struct raw_ostream *verif_out_vstr(struct raw_ostream *os, vstr *s) { for (size_t i = 0; i < s->len; i++) out_char(s->ptr[i]); return os; }
/* POSIX sh: does the output, read as shell input, denote exactly one word equal to `in`, without any expansion? */
static inline _Bool sh_unquoted_ok(char c, _Bool at_start) {
  if ((c >= 'a' && c <= 'z') || (c >= 'A' && c <= 'Z') || (c >= '0' && c <= '9')) return 1;
  if (c == '-' || c == '_' || c == '/' || c == ':' || c == '@' || c == '%' || c == '+' || c == '=' || c == '.' || c == ',') return 1;
  if (c == '#') return !at_start;          /* a word starting with # is a comment */
  return 0;                                /* everything else (blank, quote, $, `, ~, glob and control characters, bytes >= 0x80) must be quoted */
}
static inline _Bool verif_sh_yields(strref in) {
  /* one pass, explicit state: 0 unquoted, 1 inside single quotes, 2 after a backslash */
  size_t n = 0; int st = 0;
  for (size_t i = 0; i < 32; i++) {
    if (i >= g_outlen) break;
    char c = g_out[i];
    if (st == 1) { if (c == '\'') st = 0; else { if (n >= in.len || in.ptr[n] != c) return 0; n++; } }
    else if (st == 2) { if (n >= in.len || in.ptr[n] != c) return 0; n++; st = 0; }
    else if (c == '\'') st = 1;
    else if (c == '\\') st = 2;
    else { if (!sh_unquoted_ok(c, i == 0)) return 0; if (n >= in.len || in.ptr[n] != c) return 0; n++; }
  }
  return st == 0 && n == in.len && g_outlen > 0;
}
