/* Unbounded model for pathIsPrefixedByPath: strings are (pointer, length) views over fresh buffers of symbolic
 * length; the only quantified fact about two strings -- the length L of their longest common prefix -- is a ghost
 * value fixed by the preconditions (verif_L).  The library functions are ASSUMED to meet the standard's
 * specification, written here over L:
 *   std::mismatch(r.begin(), r.end(), p.begin())  (|r| <= |p|)  returns the iterators at offset L;
 *   r.substr(0, n) == p                            iff  min(n,|r|) == |p| and L >= |p|;
 *   seps.find(c)  for the one-character separator string "/"   is 0 iff c == '/', npos otherwise.
 * Uses of these functions on other operands are not covered by the assumed contracts and fail the obligation
 * "assumed library contract applies" (reported undecided-by-design: never silently accepted).
 * The bounded unit `prefix` runs the same real function against concrete library loops for strings <= 6 bytes. */
typedef struct sstr { char *b; size_t len; } sstr;
struct cpair { char *first; char *second; };
char *verif_gp, *verif_gr; size_t verif_gplen, verif_grlen; size_t verif_L;
static char verif_sepbuf[1] = { '/' };
static inline size_t sstr_length(const sstr *s) { return s->len; }
static inline sstr verif_path_separators(void) { sstr s; s.b = verif_sepbuf; s.len = 1; return s; }
static inline sstr sstr_substr(const sstr *s, size_t pos, size_t n) {
  sstr r;
  if (pos > s->len) pos = s->len;
  if (n > s->len - pos) n = s->len - pos;
  r.b = s->b + pos; r.len = n; return r; }      /* a view: the function under contract never writes through a string */
static inline _Bool sstr_equal(const sstr *a, sstr b) {
  __CPROVER_assert(a->b == verif_gr && a->len <= verif_grlen && b.b == verif_gp && b.len == verif_gplen,
                   "assumed library contract applies: operator== compares a leading part of the root with the whole path");
  return a->len == b.len && verif_L >= a->len; }
static inline size_t sstr_find_char(const sstr *s, char c) {
  __CPROVER_assert(s->b == verif_sepbuf && s->len == 1, "assumed library contract applies: find() on the separator set");
  return c == '/' ? 0 : (size_t)-1; }
static inline struct cpair verif_mismatch(char *f1, char *l1, char *f2) {
  __CPROVER_assert(f1 == verif_gr && l1 == verif_gr + verif_grlen && f2 == verif_gp && verif_grlen <= verif_gplen,
                   "assumed library contract applies: mismatch(root.begin(), root.end(), path.begin()) with |root| <= |path|");
  struct cpair r; r.first = f1 + verif_L; r.second = f2 + verif_L; return r; }
/* the property statement: component-wise prefix, one trailing separator of the root ignored.  "the first n bytes agree" is L >= n */
static inline _Bool verif_spec_prefixed(const sstr *p, const sstr *r) {
  size_t n = r->len;
  if (n > 0 && r->b[n - 1] == '/') n--;
  if (p->len < n) return 0;
  if (verif_L < n) return 0;
  return p->len == n || p->b[n] == '/';
}
