/* models for U-value-codec: the coder as a log of ITEMS (which field, which index); U-bincode proves the byte level of an item */
struct benc { char _e; }; struct bdec { char _e; };
struct FileInfo { uint64_t id; };
struct CommandSignature { uint64_t value; };
struct StringList { const void *id; };
typedef struct vbytes { uint8_t *ptr; size_t len; } vbytes;
#define T_KIND 1
#define T_SIG 2
#define T_COUNT 3
#define T_INFO 4
#define T_STRINGS 5
int g_tag[12]; uint32_t g_idx[12]; unsigned g_n; size_t g_k;
_Bool g_dec_empty; int g_kind_read; uint32_t g_num_read; unsigned g_finishes, g_allocs; uint32_t g_alloc_n;
static inline void log_item(int tag, uint32_t idx) { if (g_n < 12) { g_tag[g_n] = tag; g_idx[g_n] = idx; } g_n++; }
static inline vbytes benc_contents(struct benc *e) { vbytes v; v.ptr = 0; v.len = g_n; return v; }
static inline _Bool bdec_is_empty(struct bdec *d) { return g_dec_empty; }
static inline void bdec_finish(struct bdec *d) { g_finishes++; }
static inline struct FileInfo *verif_new_infos(uint32_t n) { static struct FileInfo pool[8]; g_allocs++; g_alloc_n = n; return pool; }
