/* models for U-stale: paths are opaque strings (identity = their buffer), the delegate, the file system and the result function are recorders */
typedef struct pstr { const char *ptr; size_t len; } pstr;      /* std::string as an opaque path */
VERIF_VEC(vec_pstr, pstr)
struct resultfn { char _e; };
struct bvalue { int kind; const void *from; };
struct TaskInterface { void *impl; void *ctx; };
#define NF 4
#define NR 3
size_t g_k;
unsigned g_started, g_finished, g_results, g_warnings, g_notes, g_removes;
_Bool g_rm_k;                         /* remove() was called with the g_k-th stale file */
_Bool g_rm_other;                     /* remove() was called with something that is not an element of filesToDelete */
_Bool g_abs[NF];                      /* ghost: path i starts with a path separator */
_Bool g_pre[NF][NR];                  /* ghost: pathIsPrefixedByPath(file i, root j) (U-prefix decides this function) */
const void *g_result_from; int g_result_kind; int g_finish_status;
int g_errno; static inline int *verif_errno(void) { return &g_errno; }
_Bool nondet_bool(void); int nondet_int(void);
