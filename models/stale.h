/* models for U-stale: paths are opaque strings (identity = their buffer), the delegate, the file system and the result function are recorders */
typedef struct pstr { const char *ptr; size_t len; } pstr;      /* std::string as an opaque path */
/* std::vector<std::string> / std::set<std::string>: the usual vector model plus ghost provenance (which list it was built from, duplicate-free, sorted) */
typedef struct vec_pstr { pstr *ptr; size_t len; size_t cap; const void *src; _Bool uniq; _Bool sorted; } vec_pstr;
static inline size_t vec_pstr_size(const vec_pstr *v) { return v->len; }
static inline _Bool vec_pstr_empty(const vec_pstr *v) { return v->len == 0; }
static inline void vec_pstr_clear(vec_pstr *v) { v->len = 0; }
static inline pstr *vec_pstr_at(const vec_pstr *v, size_t i) { return &v->ptr[i]; }
struct plist { const void *src; };                  /* std::vector<StringRef> handed out by a BuildValue */
unsigned g_diffs; const void *g_diff_a, *g_diff_b, *g_diff_out; char g_prior_list_marker;
static inline vec_pstr coll_make(const void *src, _Bool is_set) { vec_pstr v; v.ptr = 0; v.len = 0; v.cap = 0; v.src = src; v.uniq = is_set; v.sorted = is_set; return v; }
static inline void coll_sort(vec_pstr *v) { v->sorted = 1; }
static inline void verif_set_difference(const void *a, _Bool a_is_set, const void *b, _Bool b_is_set, vec_pstr *out) {
  __CPROVER_assert(a_is_set && b_is_set, "[P:C14] the stale list is a difference of SETS of paths (sorted, duplicate-free): a path listed several times before and fewer times now is still expected");
  g_diffs++; g_diff_a = a; g_diff_b = b; g_diff_out = out; }
struct resultfn { char _e; };
struct bvalue { int kind; const void *from; };
struct TaskInterface { void *impl; void *ctx; };
#define NF 4
#define NR 3
size_t g_k;
unsigned g_started, g_finished, g_results, g_warnings, g_notes, g_removes;
_Bool g_rm_k;                         /* remove() was called with the g_k-th stale file */
_Bool g_rm_other;                     /* remove() was called with something that is not an element of filesToDelete */
_Bool g_abs[NF];                      /* ghost: path i starts with a path separator */
_Bool g_pre[NF][NR];                  /* ghost: pathIsPrefixedByPath(file i, root j) (U-prefix decides this function) */
const void *g_result_from; int g_result_kind; int g_finish_status;
int g_errno; static inline int *verif_errno(void) { return &g_errno; }
_Bool nondet_bool(void); int nondet_int(void);
