/* Common C models for the library types that translated llbuild code touches.
 * Everything here is part of the trusted base (assumed contracts / models). */
#ifndef VERIF_BASE_H
#define VERIF_BASE_H
#include <stdint.h>
#include <stddef.h>
typedef long ssize_t;

#define OLD(e) __CPROVER_old(e)
#define RESULT __CPROVER_return_value
#define IMPLIES(a, b) (!(a) || (b))

/* llvm::StringRef : a (pointer, length) view, passed by value. */
typedef struct strref { const char *ptr; size_t len; } strref;

static inline strref strref_make(const char *p, size_t n) { strref r; r.ptr = p; r.len = n; return r; }
/* StringRef(const char *): the length is wherever the first NUL byte happens to be -- an arbitrary value as far as a length-delimited payload is concerned */
size_t nondet_cstr_len(void);
static inline strref strref_cstr_any(const char *p) { strref r; r.ptr = p; r.len = nondet_cstr_len(); return r; }
static inline const char *strref_data(const strref *s) { return s->ptr; }
static inline size_t strref_size(const strref *s) { return s->len; }
static inline _Bool strref_empty(const strref *s) { return s->len == 0; }

/* SmallVectorImpl<char> / SmallString<N> / std::string : growable byte buffer.
 * The verified code only appends, clears and views; capacity is a ghost bound
 * (the real containers grow on demand: allocation failure is not modelled). */
typedef struct vstr { char *ptr; size_t len; size_t cap; } vstr;


/* ordered pointer comparisons are lowered to these (see cxx2c e_BinaryOperator) */
static inline _Bool verif_ptr_lt(const void *a, const void *b) { __CPROVER_assert(__CPROVER_same_object(a, b), "ordered pointer comparison within one object"); return __CPROVER_POINTER_OFFSET(a) < __CPROVER_POINTER_OFFSET(b); }
static inline _Bool verif_ptr_le(const void *a, const void *b) { __CPROVER_assert(__CPROVER_same_object(a, b), "ordered pointer comparison within one object"); return __CPROVER_POINTER_OFFSET(a) <= __CPROVER_POINTER_OFFSET(b); }
static inline _Bool verif_ptr_gt(const void *a, const void *b) { return verif_ptr_lt(b, a); }
static inline _Bool verif_ptr_ge(const void *a, const void *b) { return verif_ptr_le(b, a); }
#endif
