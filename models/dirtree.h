/* models for U-dir-tree (lib/BuildSystem/BuildSystem.cpp: DirectoryTree(Structure)SignatureTask) */
#include "vec.h"
/* ValueType: encoded value bytes; a ghost id names the value so that decoding is a function of it */
typedef struct vbytes { uint8_t *ptr; size_t len; size_t gid; } vbytes;
/* StringList (exclusion filters): identity + emptiness */
struct StringList { size_t size; };
static inline _Bool StringList_isEmpty(const struct StringList *s) { return s->size == 0; }
/* decoded BuildValue: what the tasks look at */
struct bvalue { int kind; _Bool is_dir; uint64_t mode; size_t n_names; };
enum { BV_Other = 0, BV_DirectoryContents = 1, BV_FilteredDirectoryContents = 2, BV_ExistingInput = 3, BV_MissingInput = 4, BV_SkippedCommand = 5 };
struct bvalue g_values[16];                       /* g_values[gid] = decoding of the value with that ghost id */
static inline struct bvalue verif_fromData(vbytes v) { __CPROVER_assert(v.gid < 16, "ghost value id"); return g_values[v.gid]; }
/* a child path under construction: SmallString<256> childPath{path}; path::append(childPath, name) */
typedef struct pathbuf { strref base; strref name; } pathbuf;
static inline pathbuf pathbuf_make(strref base) { pathbuf p; p.base = base; p.name.ptr = 0; p.name.len = 0; return p; }
static inline void pathbuf_append(pathbuf *p, strref name) { p->name = name; }
pathbuf g_last_path; const pathbuf *g_last_path_obj;
static inline strref pathbuf_ref(const pathbuf *p) { g_last_path = *p; g_last_path_obj = p; strref r; r.ptr = (const char *)p; r.len = 0; return r; }
static inline strref vstr_ref(const vstr *s) { strref r; r.ptr = s->ptr; r.len = s->len; return r; }
/* BuildKey as (kind, base path, child name, filters) */
typedef struct bkey { int kind; strref base; strref name; const struct StringList *filters; } bkey;
enum { K_DirectoryContents = 1, K_FilteredDirectoryContents = 2, K_Node = 3, K_TreeSig = 4, K_TreeStructSig = 5 };
static inline bkey bkey_simple(int kind, strref path) { bkey k; k.kind = kind; k.base = path; k.name.ptr = 0; k.name.len = 0; k.filters = 0; return k; }
static inline bkey bkey_filtered(int kind, strref path, const struct StringList *f) { bkey k = bkey_simple(kind, path); k.filters = f; return k; }
static inline bkey bkey_child(int kind, strref pathref, const struct StringList *f) {
  __CPROVER_assert(pathref.ptr == (const char *)g_last_path_obj, "model: the key is built from the child path that was just assembled");
  bkey k; k.kind = kind; k.base = g_last_path.base; k.name = g_last_path.name; k.filters = f; return k; }
/* Optional<ValueType> */
struct optvalue { _Bool has; vbytes v; };
size_t g_k;

/* the signature hash chain as a ghost log of the items fed to it (llvm hashing is an arbitrary function of these items) */
enum { IT_PATH = 1, IT_RANGE = 2, IT_U64 = 3, IT_NAME = 4, IT_BOOL = 5 };
struct hitem { int kind; uint64_t a; };
struct hitem g_items[64]; size_t g_nitems; size_t g_range_gid;
struct hrange { size_t gid; };
uint64_t nondet_u64(void);
static inline void hlog(int kind, uint64_t a) { __CPROVER_assert(g_nitems < 64, "hash item log capacity"); g_items[g_nitems].kind = kind; g_items[g_nitems].a = a; g_nitems++; }
static inline uint64_t hv_path(const vstr *p) { hlog(IT_PATH, (uint64_t)p->ptr); return nondet_u64(); }
static inline const uint8_t *vb_begin(const vbytes *v) { g_range_gid = v->gid; return v->ptr; }
static inline const uint8_t *vb_end(const vbytes *v) { return v->ptr + v->len; }
static inline struct hrange hc_range_of(const uint8_t *b, const uint8_t *e) { struct hrange r; r.gid = g_range_gid; return r; }
static inline uint64_t hc_range(uint64_t code, struct hrange r) { hlog(IT_RANGE, r.gid); return nondet_u64(); }
static inline uint64_t hc_u64(uint64_t code, uint64_t x) { hlog(IT_U64, x); return nondet_u64(); }
static inline uint64_t hc_name(uint64_t code, const vstr *s) { hlog(IT_NAME, (uint64_t)s->ptr); return nondet_u64(); }
static inline uint64_t hc_bool(uint64_t code, _Bool b) { hlog(IT_BOOL, b); return nondet_u64(); }
#define HC(code, x) _Generic((x), struct hrange: hc_range, vstr *: hc_name, const vstr *: hc_name, _Bool: hc_bool, default: hc_u64)(code, x)
#define NIL_MARK 0XC183979C3E98722EULL

static inline const char *srp_v(strref s) { return s.ptr; }
static inline const char *srp_p(const strref *s) { return s->ptr; }
#define SR_PTR(x) _Generic((x), strref: srp_v, strref *: srp_p, const strref *: srp_p)(x)
