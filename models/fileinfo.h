/* models for U-fileinfo */
#include <string.h>
static inline const char *vstr_c_str(const vstr *w) { return w->ptr; }
/* memcmp over exactly 32 bytes (FileChecksum), loop-free */
#define VM32(i) if (x[i] != y[i]) return x[i] < y[i] ? -1 : 1;
static inline int verif_memcmp32(const void *a, const void *b, size_t n) {
  const unsigned char *x = a, *y = b;
  __CPROVER_assert(n == 32, "model: memcmp is modelled for the 32-byte checksum");
  VM32(0) VM32(1) VM32(2) VM32(3) VM32(4) VM32(5) VM32(6) VM32(7) VM32(8) VM32(9) VM32(10) VM32(11) VM32(12) VM32(13) VM32(14) VM32(15)
  VM32(16) VM32(17) VM32(18) VM32(19) VM32(20) VM32(21) VM32(22) VM32(23) VM32(24) VM32(25) VM32(26) VM32(27) VM32(28) VM32(29) VM32(30) VM32(31)
  return 0;
}

/* llvm::MD5 is an external digest: its result object carries a ghost "finalised" mark */
typedef struct md5bytes { uint8_t e[16]; } md5bytes;
struct md5result { md5bytes Bytes; _Bool g_final; };
static inline uint8_t *verif_copy16(const uint8_t *first, const uint8_t *last, uint8_t *out) {
  __CPROVER_assert(__CPROVER_same_object(first, last) && last - first == 16, "model: std::copy is modelled for the 16-byte MD5 result");
  out[0]=first[0]; out[1]=first[1]; out[2]=first[2]; out[3]=first[3]; out[4]=first[4]; out[5]=first[5]; out[6]=first[6]; out[7]=first[7];
  out[8]=first[8]; out[9]=first[9]; out[10]=first[10]; out[11]=first[11]; out[12]=first[12]; out[13]=first[13]; out[14]=first[14]; out[15]=first[15];
  return out + 16;
}
size_t g_k, g_j;   /* ghost indices (universal quantifiers) */
const uint8_t *g_upd_buf; size_t g_upd_len; unsigned g_md5_updates;
/* stdio on a ghost file of g_fsize bytes */
struct verif_FILE { char _e; };
struct verif_FILE g_the_file; _Bool g_file_ok; size_t g_fsize, g_fpos, g_fed, g_last_read; _Bool g_finalized;
static inline struct verif_FILE *verif_fopen(const char *p, const char *mode) { return g_file_ok ? &g_the_file : 0; }
size_t nondet_size(void);
static inline size_t verif_fread(void *buf, size_t sz, size_t n, struct verif_FILE *f) {
  __CPROVER_assert(f == &g_the_file && sz == 1 && __CPROVER_w_ok(buf, n), "fread on the opened file into a buffer of the stated size");
  size_t r = nondet_size();
  __CPROVER_assume(r <= n && r <= g_fsize - g_fpos && (r > 0 || g_fpos == g_fsize));
  g_fpos += r; g_last_read = r;
  return r;
}
static inline int verif_fclose(struct verif_FILE *f) { return 0; }

struct FileChecksumHasherMD5;
