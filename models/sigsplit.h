/* models for U-sig-split: the hash chain as a LOG of what is fed (kind + identity), so that two definitions can be compared */
struct CommandSignature { uint64_t value; };
struct strpair { strref first; strref second; };
VERIF_VEC(vec_strref, strref)
VERIF_VEC(vec_vstr, vstr)
VERIF_VEC(vec_pair, struct strpair)
struct fed { int kind; const void *p; uint64_t v; };           /* kind 1: string (identity of its bytes), 2: scalar */
struct fed g_log[2][24]; unsigned g_n[2]; int g_run;
static inline struct CommandSignature sig_make(uint64_t v) { struct CommandSignature s; s.value = v; return s; }
static inline struct CommandSignature sig_of_name(strref n) { struct CommandSignature s; s.value = 1; g_log[g_run][g_n[g_run]].kind = 1; g_log[g_run][g_n[g_run]].p = n.ptr; g_log[g_run][g_n[g_run]].v = 0; g_n[g_run]++; return s; }
static inline struct CommandSignature *feed_str(struct CommandSignature *s, const void *p) { g_log[g_run][g_n[g_run]].kind = 1; g_log[g_run][g_n[g_run]].p = p; g_log[g_run][g_n[g_run]].v = 0; g_n[g_run]++; return s; }
static inline struct CommandSignature *feed_int(struct CommandSignature *s, uint64_t v) { g_log[g_run][g_n[g_run]].kind = 2; g_log[g_run][g_n[g_run]].p = 0; g_log[g_run][g_n[g_run]].v = v; g_n[g_run]++; return s; }
static inline _Bool logs_equal(void) {
  if (g_n[0] != g_n[1]) return 0;
  for (unsigned i = 0; i < 24; i++) if (i < g_n[0] && (g_log[0][i].kind != g_log[1][i].kind || g_log[0][i].p != g_log[1][i].p || g_log[0][i].v != g_log[1][i].v)) return 0;
  return 1; }
struct nnode { strref name; };
VERIF_VEC(vec_node, struct nnode *)
