/* models for U-proc-output: read(2) on the output pipe, the delegate, the descriptor */
struct ProcessHandle { uint64_t id; };
int g_errno; long g_last_read; const void *g_last_buf; unsigned g_reads, g_chunks, g_errors, g_closes; _Bool g_pending, g_eof, g_read_failed;
long nondet_long(void); int nondet_int(void);
static inline int *po_errno(void) { return &g_errno; }
struct ManagedDescriptor;
#define po_fd(d) 3
/* read(fd, buf, n): fails (-1, errno set), reports the end of the output (0), or stores between 1 and n bytes -- possibly fewer than asked for */
static inline long po_read(int fd, void *buf, size_t n) {
  __CPROVER_assert(!g_pending, "[P:C16] a chunk that was read is handed to the delegate before the next read");
  __CPROVER_assert(!g_eof && !g_read_failed, "[P:C16] nothing is read after the end of the output or a read error");
  __CPROVER_assume(g_reads < 0xffffffffu);   /* the ghost counters do not wrap: fewer than 2^32 reads of one pipe */
  g_reads++; g_last_buf = buf;
  long r = nondet_long(); __CPROVER_assume(r >= -1 && r <= (long)n);
  g_last_read = r;
  if (r < 0) { g_errno = nondet_int(); g_read_failed = 1; } else if (r == 0) g_eof = 1; else g_pending = 1;
  return r; }
static inline void po_had_error(void *d) { g_errors++; }
static inline void po_had_output_impl(const char *data, size_t len) {
  __CPROVER_assert(g_pending, "[P:C16] output is reported once per chunk read");
  __CPROVER_assert((const void *)data == g_last_buf && (long)len == g_last_read, "[P:C16] the delegate is handed the buffer that was read and exactly the number of bytes read");
  g_pending = 0; g_chunks++; }
