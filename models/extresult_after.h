static inline struct FileInfo verif_current_info(const struct BuildNode *node, struct FileSystem *fs) { return g_current[node->g_idx]; }
static inline struct FileSystem *verif_fs(struct BuildSystem *s) { static struct FileSystem f; return &f; }
static inline struct FileInfo *verif_stored_info(const struct BuildValue *v, unsigned n) { __CPROVER_assert(n < NO, "stored output info index"); return &g_stored[n]; }
static inline unsigned verif_num_outputs(const struct BuildValue *v) { return v->g_n; }
/* BuildValue::makeSuccessfulCommand(ArrayRef<FileInfo>): a successful-command value holding exactly these infos, in this order */
static inline struct BuildValue bv_success(vec_finfo infos) {
  g_makes++; g_made_n = infos.len;
  g_made[0] = infos.buf[0]; g_made[1] = infos.buf[1]; g_made[2] = infos.buf[2]; g_made[3] = infos.buf[3]; g_made[4] = infos.buf[4];
  struct BuildValue v; v.kind = BuildValue_Kind_SuccessfulCommand; v.g_n = (unsigned)infos.len; return v; }
static inline struct BuildValue bv_make(int kind) { struct BuildValue v; v.kind = kind; v.g_n = 0; return v; }
struct FileInfo g_existing_info;
static inline struct BuildValue bv_existing(struct FileInfo info) { g_existing_info = info; struct BuildValue v; v.kind = BuildValue_Kind_ExistingInput; v.g_n = 1; return v; }
/* std::find over the output list (at most NO nodes, written out) */
static inline struct BuildNode **verif_find_node(struct BuildNode **b, struct BuildNode **e, struct Node *n) {
  if (b != e && (struct Node *)b[0] == n) return b;
  if (b + 1 != e && b != e && (struct Node *)b[1] == n) return b + 1;
  if (e - b > 2 && (struct Node *)b[2] == n) return b + 2;
  if (e - b > 3 && (struct Node *)b[3] == n) return b + 3;
  return e; }
