#!/bin/bash
# Build the repo's test binaries in <builddir> (default /repo/_build) and run the pinned gtest suite.
B=${1:-/repo/_build}
ninja -C "$B" >/dev/null 2>"$B/.verif_ninja_err" || { tail -30 "$B/.verif_ninja_err"; echo "BUILD FAILED"; exit 1; }
fail=0; total=0
for t in "$B"/bin/*Tests; do
  out=$("$t" 2>&1); rc=$?
  p=$(echo "$out" | grep -c '^\[       OK \]'); f=$(echo "$out" | grep -c '^\[  FAILED  \].*[^:]$')
  total=$((total+p))
  if [ $rc -ne 0 ]; then fail=1; echo "$out" | grep '^\[  FAILED  \]' | sort -u; fi
  echo "$(basename $t): passed=$p rc=$rc"
done
echo "TOTAL passed=$total"
exit $fail
