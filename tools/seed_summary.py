"""seeded/SUMMARY.md from seeded/MATRIX.json and the seeds' meta.json."""
import json, os
ROOT = os.path.dirname(os.path.dirname(os.path.abspath(__file__)))
m = json.load(open(os.path.join(ROOT, 'seeded', 'MATRIX.json')))
rows = ['| seed | changed function(s) | needs | checked | caught by | failed obligation (first) |', '|---|---|---|---|---|---|']
caught = 0
for sd in sorted(m):
    meta = json.load(open(os.path.join(ROOT, 'seeded', sd, 'meta.json')))
    r = m[sd]
    first = ''
    for p in r['caught_by']:
        fo = r['results'][p].get('failed_obligations') or []
        if fo:
            first = fo[0].replace('failed obligation ', '').split(':')[0]
            break
    if r['caught_by']:
        caught += 1
    why = ''
    if not r['caught_by']:
        und = [p for p, x in r['results'].items() if isinstance(x, dict) and x.get('exit') == 2]
        why = 'undecided (exit 2): ' + ','.join(und) if und else ('property not claimed' if not r['checked'] else 'outside every unit (see DESIGN.md section 6)')
    rows.append('| %s | %s | %s | %s | %s | %s |' % (sd, ', '.join(meta.get('functions', []))[:70], str(meta.get('needs', ''))[:110].replace('|', '/'),
                                                    ','.join(r['checked']) or '-', ','.join(r['caught_by']) or ('**missed**: ' + why), first[:80]))
open(os.path.join(ROOT, 'seeded', 'SUMMARY.md'), 'w').write('# Seeded changes: what catches what\n\n%d of %d seeded changes are caught by a check (exit 1 with a VIOLATION line naming a failed obligation).\n\n' % (caught, len(m)) + '\n'.join(rows) + '\n')
print('caught %d of %d' % (caught, len(m)))
