#!/bin/bash
# seedtest.sh <patch.diff> <Cxx> [<Cyy> ...] : apply a seeded change to /repo, run the checks, undo it.
P=$1; shift
cd /repo || exit 9
if [ -n "$(git status --porcelain --untracked-files=no)" ]; then echo "/repo has uncommitted changes"; exit 9; fi
git apply "$P" || { echo "patch does not apply"; exit 9; }
for c in "$@"; do
  ( cd /verif && ./check $c > /tmp/seedtest.$$.out 2>&1; rc=$?; echo "== $c exit=$rc"; grep -E "^(VIOLATION|KNOWN|UNDECIDED|  failed)" /tmp/seedtest.$$.out | cut -c1-260 | head -12; tail -1 /tmp/seedtest.$$.out | cut -c1-200; rm -f /tmp/seedtest.$$.out )
done
git checkout -- . ; git status --porcelain --untracked-files=no
