"""cxx2c: mechanical lowering of clang-14's JSON AST of /repo functions to C.

The emitted C is what CBMC verifies.  The rules are fixed and listed in
DESIGN.md section 3.1; every construct outside them raises Unsupported (the
check then exits 2 -- undecided -- never a pass and never a violation).

A *unit* (units/<name>.py) names the functions to translate, binds library
callees to C models, and carries the contracts that are woven into the
emitted function headers and loops.
"""
import re
from . import astdump


class Unsupported(Exception):
    pass


NS_STRIP = re.compile(
    r'\b(?:llbuild::(?:core|basic|buildsystem|ninja|commands)::|llbuild::|llvm::sys::|llvm::|std::__cxx11::|std::|__gnu_cxx::|\(anonymous namespace\)::|class |struct |enum |union )')

BUILTIN = {
    'void': 'void', 'bool': '_Bool', 'char': 'char', 'signed char': 'signed char',
    'unsigned char': 'unsigned char', 'short': 'short', 'unsigned short': 'unsigned short',
    'int': 'int', 'unsigned int': 'unsigned int', 'unsigned': 'unsigned int',
    'long': 'long', 'unsigned long': 'unsigned long', 'long long': 'long long',
    'unsigned long long': 'unsigned long long', 'size_t': 'size_t', 'ssize_t': 'ssize_t',
    'uint8_t': 'uint8_t', 'uint16_t': 'uint16_t', 'uint32_t': 'uint32_t',
    'uint64_t': 'uint64_t', 'int8_t': 'int8_t', 'int16_t': 'int16_t',
    'int32_t': 'int32_t', 'int64_t': 'int64_t', 'double': 'double', 'float': 'float',
    'ptrdiff_t': 'ptrdiff_t', 'uintptr_t': 'uintptr_t', 'intptr_t': 'intptr_t',
    'std::size_t': 'size_t', 'off_t': 'off_t', 'mode_t': 'mode_t',
    '__uint64_t': 'uint64_t', '__uint32_t': 'uint32_t', '__dev_t': 'uint64_t', '__ino_t': 'uint64_t',
    '__mode_t': 'uint32_t', '__off_t': 'int64_t', '__time_t': 'int64_t', '__syscall_slong_t': 'int64_t',
    'std::nullptr_t': 'void*', 'nullptr_t': 'void*',
}


# std::unique_ptr<T> is lowered to a raw `T *` (ownership and destructors are dropped, DESIGN.md 3.1)
DEFAULT_TYPE_PATTERNS = [
    (r'unique_ptr<(.*?)(, default_delete<.*>)?>', r'@\1 *'),
    (r'(?:__gnu_cxx::)?__alloc_traits<allocator<(.*)>, .*>::value_type', r'@\1'),
]
DEFAULT_CALL_PATTERNS = [
    (r'o:->:unique_ptr<.*>', '(*$o)'),
    (r'o:\*:unique_ptr<.*>', '(**$o)'),
    (r'm:unique_ptr<.*>::get', '(*$o)'),
    (r'm:unique_ptr<.*>::operator bool', '(*$o != 0)'),
    (r'c:unique_ptr<.*>\(pointer\)', '$0'),
    (r'c:unique_ptr<.*>\(.*nullptr_t.*\)', '0'),
    (r'c:unique_ptr<.*>/0', '0'),
    # std::unique_lock is kept as a pointer to its mutex: explicit unlock() / lock() act on that mutex; its destructor releases it only while held
    (r'm:unique_lock<.*>::unlock', 'verif_mutex_unlock(*$o)'),
    (r'm:unique_lock<.*>::lock', 'verif_mutex_lock(*$o)'),
]


def demangle_nested(m):
    """Components of an Itanium nested name (_ZN[K]<len><id>...E...), or of a plain _Z<len><id>; None otherwise."""
    mm = re.match(r'_ZN[KVrO]*', m)
    if mm:
        i, out = mm.end(), []
        while i < len(m):
            d = re.match(r'\d+', m[i:])
            if d:
                ln = int(d.group(0))
                i += len(d.group(0))
                out.append(m[i:i + ln])
                i += ln
            elif m[i] == 'I':
                return None       # template arguments: not needed for the classes we translate
            elif m[i] == 'L':     # internal linkage marker
                i += 1
            else:
                break
        return out
    mm = re.match(r'_Z[L]?(\d+)', m)
    if mm:
        ln = int(mm.group(1))
        return [m[mm.end():mm.end() + ln]]
    return None


def norm(q):
    q = q.replace('(anonymous namespace)::', '')
    q = re.sub(r'\((unnamed|anonymous) (union|struct) at ', r'(\1 \2_at ', q)     # keep the kind word from NS_STRIP
    q = NS_STRIP.sub('', q)
    q = NS_STRIP.sub('', q)
    q = re.sub(r'\b(?:core|basic|buildsystem|ninja|commands)::', '', q)     # partially qualified spellings of the same type
    return q.strip()


def split_top(s, sep=','):
    out, depth, cur = [], 0, ''
    for ch in s:
        if ch in '<([':
            depth += 1
        elif ch in '>)]':
            depth -= 1
        if ch == sep and depth == 0:
            out.append(cur.strip())
            cur = ''
        else:
            cur += ch
    if cur.strip():
        out.append(cur.strip())
    return out


class CT:
    """A lowered type: C base text, pointer depth, whether the C++ type was a reference, array dimensions."""

    def __init__(self, base, ptr=0, ref=False, const=False, cxx='', dims=()):
        self.base, self.ptr, self.ref, self.const, self.cxx, self.dims = base, ptr, ref, const, cxx, tuple(dims)

    def c(self, extra_ptr=0):
        if self.dims and not self.ref:
            # an array type used as a value type decays to a pointer to its element
            return self.base + ' ' + '*' * (self.ptr + extra_ptr + 1)
        return self.base + ' ' + '*' * (self.ptr + extra_ptr + (1 if self.ref else 0))

    def decl(self, name):
        if self.dims and not self.ref:
            return (self.base + ' ' + '*' * self.ptr + name + ''.join('[%s]' % d for d in self.dims)).replace('  ', ' ')
        return (self.c() + name).replace('  ', ' ')


def cident(s):
    s = norm(s)
    s = re.sub(r'[^A-Za-z0-9_]+', '_', s).strip('_')
    return s


def strip_deref_addr(text):
    """`(*(&(E)))` -> `(E)`: the lowering of unique_ptr::get() / operator-> on a field produces this shape; it is the same lvalue in C, and
    cbmc 6.11's value-set simplifier crashes (SIGSEGV in simplify_inequality) on some nestings of it."""
    pat = '(*(&('
    pos = 0
    while True:
        p = text.find(pat, pos)
        if p < 0:
            return text
        depth, q = 1, p + len(pat)
        while q < len(text) and depth:
            depth += {'(': 1, ')': -1}.get(text[q], 0)
            q += 1
        # text[q-1] closes the `&(` group; the two closers of `(*(` must follow directly
        if depth == 0 and text[q:q + 2] == '))':
            text = text[:p] + '(' + text[p + len(pat):q - 1] + ')' + text[q + 2:]
            pos = p
        else:
            pos = p + 1


class Translator:
    def __init__(self, unit):
        self.u = unit
        self.source = unit['source']
        self.types = dict(unit.get('types', {}))
        self.calls = dict(unit.get('calls', {}))
        self.byval = set(unit.get('by_value', []))
        self.decls = {}          # id -> decl node
        self.qname = {}          # id -> qualified name within dump
        self.parent = {}         # id -> parent record decl id
        self.byname = {}         # qualified suffix -> [decl]
        self.structs = {}        # C struct name -> {field: CT}
        self.struct_order = []
        self.enums = {}          # C enum name -> (underlying, [(cname, value)])
        self.enum_cxx = {}       # normalised C++ enum type -> C name
        self.funcs = {}          # C name -> text
        self.func_order = []
        self.protos = {}         # C name -> prototype text
        self.externs = {}        # C name -> note (unbound callees)
        self.spans = {}          # C name -> (file, begin line, end line)
        self.dropped = set()     # constructs dropped (reported as assumptions)
        self.pending = []        # (decl, cname) still to translate
        self.local_lambdas = {}  # VarDecl id of a local lambda -> helper function info
        self.lambda_queue = []
        self.loaded = set()
        self.fn_cname = {}       # decl id -> C name
        self.tmp = 0
        for f in unit.get('dumps', []):
            self.load(f)

    # ------------------------------------------------------------------ loading
    def load(self, filt, source=None):
        key = (source or self.source, filt)
        if key in self.loaded:
            return
        self.loaded.add(key)
        objs = astdump.dump(source or self.source, filt)
        # decl ids are addresses inside one clang process: make them unique per dump
        pfx = 'd%d:' % len(self.loaded)
        for o in objs:
            self._prefix_ids(o, pfx)
        for o in objs:
            self._index(o, [], None, top_filter=filt)
        # out-of-line member definitions: qualify through their semantic parent
        for o in objs:
            pc = o.get('parentDeclContextId')
            if pc and pc in self.qname and o.get('name') and 'id' in o and self.decls.get(pc, {}).get('kind') == 'CXXRecordDecl':
                q = self.qname[pc] + '::' + o['name']
                if self.qname.get(o['id']) != q:
                    self.qname[o['id']] = q
                    self.parent[o['id']] = pc
                    self.byname.setdefault(q, []).append(o)

    IDKEYS = ('id', 'referencedMemberDecl', 'previousDecl', 'parentDeclContextId', 'typeAliasDeclId')

    def _prefix_ids(self, n, pfx):
        stack = [n]
        while stack:
            x = stack.pop()
            if isinstance(x, dict):
                for k in self.IDKEYS:
                    v = x.get(k)
                    if isinstance(v, str) and v.startswith('0x'):
                        x[k] = pfx + v
                stack.extend(v for v in x.values() if isinstance(v, (dict, list)))
            elif isinstance(x, list):
                stack.extend(v for v in x if isinstance(v, (dict, list)))

    def _index(self, n, path, parent, top_filter=None):
        k = n.get('kind', '')
        name = n.get('name')
        if k.endswith('Decl') and 'id' in n:
            # a later, fuller decl (with a body) wins
            old = self.decls.get(n['id'])
            if old is None or ('inner' in n and 'inner' not in old):
                self.decls[n['id']] = n
            q = '::'.join(path + [name]) if name else '::'.join(path)
            if not path and name and n.get('mangledName'):
                comps = demangle_nested(n['mangledName'])
                if comps and len(comps) >= 2:
                    comps = [c for c in comps if c not in ('llbuild', 'core', 'basic', 'buildsystem', 'ninja', 'commands', '_GLOBAL__N_1', 'llvm', 'sys')]
                    if comps and (comps[-1] == name or k == 'CXXConstructorDecl'):
                        q = '::'.join(comps if comps[-1] == name else comps + [name])
            self.qname[n['id']] = q
            if parent:
                self.parent[n['id']] = parent
            if name:
                self.byname.setdefault(q, []).append(n)
        newpath = path
        newparent = parent
        if k in ('CXXRecordDecl', 'NamespaceDecl', 'EnumDecl', 'ClassTemplateSpecializationDecl') and name:
            if top_filter and not path and top_filter.endswith(name) and '::' in top_filter:
                newpath = top_filter.split('::')
            else:
                newpath = path + [name]
            newparent = n.get('id')
        for c in n.get('inner', []):
            if isinstance(c, dict) and c.get('kind'):
                self._index(c, newpath, newparent)

    def find_function(self, qual, nparams=None, ptypes=None):
        """Find a function/method definition whose qualified name ends with qual."""
        cands = []
        for q, lst in self.byname.items():
            if q == qual or q.endswith('::' + qual):
                for d in lst:
                    if d['kind'] in ('FunctionDecl', 'CXXMethodDecl', 'CXXConstructorDecl', 'CXXConversionDecl') and self.body_of(d) is not None:
                        cands.append(d)
        if nparams is not None:
            cands = [d for d in cands if len(self.params_of(d)) == nparams]
        if ptypes is not None:
            cands = [d for d in cands if [norm(p['type']['qualType']) for p in self.params_of(d)] == ptypes]
        # dedupe by id and by source location (the same declaration seen through two dumps)
        seen, out = set(), []
        for d in cands:
            loc = d.get('loc', {})
            key = (loc.get('file'), loc.get('line'), loc.get('col'), d.get('name'))
            if d['id'] not in seen and (key[0] is None or key not in seen):
                seen.add(d['id'])
                seen.add(key)
                out.append(d)
        return out

    @staticmethod
    def body_of(d):
        for c in d.get('inner', []):
            if c.get('kind') == 'CompoundStmt':
                return c
        return None

    @staticmethod
    def params_of(d):
        return [c for c in d.get('inner', []) if c.get('kind') == 'ParmVarDecl']

    # ------------------------------------------------------------------ types
    def ctype(self, q, desugared=None):
        """Lower a clang qualType string."""
        orig = q
        q = norm(q)
        if re.search(r'\(\*\)\s*\(', q):
            # a pointer to function: an opaque pointer (it can be tested for null; calls through it need an `fp:<field>` binding)
            return CT('void', 1, False, False, orig)
        ref = False
        if q.endswith('&&'):
            q = q[:-2].strip()
            ref = True
        elif q.endswith('&'):
            q = q[:-1].strip()
            ref = True
        ptr = 0
        const = False
        dims = []
        while True:
            m = re.search(r'\[(\d+)\]$', q.strip())
            if not m:
                break
            dims.insert(0, m.group(1))
            q = q.strip()[:m.start()]
        while True:
            q = q.strip()
            if q.endswith('*const'):
                q = q[:-5].strip()
                continue
            if q.endswith(' const'):
                q = q[:-6].strip()
                const = True
                continue
            if q.endswith('*'):
                ptr += 1
                q = q[:-1].strip()
                const = False
                continue
            break
        if q.startswith('const '):
            q = q[6:].strip()
            const = True
        q = q.replace('volatile ', '').strip()
        base = self.base_type(q, desugared)
        if base is None:
            raise Unsupported('type %r' % orig)
        # a mapped type may itself be a pointer (e.g. unique_ptr<T> -> T *)
        while base.endswith('*'):
            base = base[:-1].strip()
            ptr += 1
        cq = ('const ' if const and ptr and base in ('char', 'void', 'unsigned char', 'uint8_t') else '')
        return CT(cq + base, ptr, ref, const, q, dims)

    def base_type(self, q, desugared=None):
        if q in self.types:
            return self.types[q]
        if q in BUILTIN:
            return BUILTIN[q]
        for pat, rep in list(self.u.get('type_patterns', [])) + DEFAULT_TYPE_PATTERNS:
            m = re.fullmatch(pat, q)
            if m:
                r = m.expand(rep) if isinstance(rep, str) else rep(self, m)
                if r.startswith('@'):      # re-lower a C++ type text
                    t = self.ctype(r[1:])
                    return t.c().strip()
                return r
        if desugared:
            # compare / recurse on the *base* of the desugared type (its pointer and reference part was already
            # consumed from the sugared spelling by ctype)
            dq = norm(desugared)
            dq = re.sub(r'(\s*(\*|&|&&|const|\*const))+$', '', dq).strip()
            dq = re.sub(r'^const ', '', dq)
            if dq and dq != q and '(lambda' not in dq:
                t = self.ctype(dq)
                return t.c().strip()
        if q in self.enum_cxx:
            return self.enum_cxx[q]
        e = self.lookup_enum(q)
        if e:
            return e
        m = re.search(r'\((?:unnamed|anonymous) (union|struct)_at [^:]*:(\d+):(\d+)\)$', q)
        if m:
            name = 'anon_%s_%s_%s' % (m.group(1), m.group(2), m.group(3))
            if name not in self.structs:
                self.structs[name] = {}
                self.struct_order.append(name)
            if m.group(1) == 'union':
                self.union_structs.add(name)
            return 'struct ' + name
        if re.fullmatch(r'[A-Za-z_][A-Za-z0-9_:]*', q):
            name = cident(q)
            if name not in self.structs:
                self.structs[name] = {}
                self.struct_order.append(name)
            return 'struct ' + name
        return None

    def lookup_enum(self, q):
        for qn, lst in self.byname.items():
            if qn == q or qn.endswith('::' + q) or q.endswith('::' + qn):
                for d in lst:
                    if d['kind'] == 'EnumDecl' and any(c.get('kind') == 'EnumConstantDecl' for c in d.get('inner', [])):
                        return self.define_enum(q, d)
        return None

    def define_enum(self, q, d):
        cname = cident(q)
        under = 'int'
        if 'fixedUnderlyingType' in d:
            under = self.ctype(d['fixedUnderlyingType']['qualType']).c().strip()
        vals = []
        nxt = 0
        for c in d.get('inner', []):
            if c.get('kind') != 'EnumConstantDecl':
                continue
            v = None
            for cc in c.get('inner', []):
                v = self.const_value(cc)
            if v is None:
                v = nxt
            vals.append((cname + '_' + c['name'], v, c['id']))
            nxt = v + 1
        self.enums[cname] = (under, vals)
        self.enum_cxx[q] = cname
        return cname

    def const_value(self, n):
        if 'value' in n and n.get('kind') in ('ConstantExpr', 'IntegerLiteral'):
            try:
                return int(n['value'])
            except ValueError:
                return None
        for c in n.get('inner', []):
            v = self.const_value(c)
            if v is not None:
                return v
        return None

    def enum_constant(self, ref):
        """C text for a reference to an EnumConstantDecl."""
        q = norm(ref['type']['qualType'])
        cname = self.base_type(q)
        if cname in self.enums:
            for (cn, v, i) in self.enums[cname][1]:
                if cn == cname + '_' + ref['name']:
                    return cn
        # enum defined outside the loaded dumps: fetch it
        short = q.split('::')
        filt = '::'.join(short[-2:]) if len(short) >= 2 else q
        self.load(filt)
        self.enum_cxx.pop(q, None)
        e = self.lookup_enum(q)
        if e and e in self.enums:
            for (cn, v, i) in self.enums[e][1]:
                if cn == e + '_' + ref['name']:
                    if cname and cname.startswith('struct '):
                        self.structs.pop(cname[7:], None)
                        if cname[7:] in self.struct_order:
                            self.struct_order.remove(cname[7:])
                    return cn
        raise Unsupported('enum constant %s of %s' % (ref['name'], q))

    # ------------------------------------------------------------------ helpers
    @staticmethod
    def qt(n):
        return n.get('type', {}).get('qualType', '')

    def ntype(self, n):
        t = n.get('type', {})
        return self.ctype(t.get('qualType', ''), t.get('desugaredQualType'))

    def is_glvalue(self, n):
        return n.get('valueCategory') in ('lvalue', 'xvalue')

    def strip(self, n):
        """Skip wrappers that have no C counterpart."""
        while n.get('kind') in ('ExprWithCleanups', 'CXXBindTemporaryExpr', 'ParenExpr', 'ConstantExpr',
                                'MaterializeTemporaryExpr', 'SubstNonTypeTemplateParmExpr') or \
                (n.get('kind') == 'ImplicitCastExpr' and n.get('castKind') in ('NoOp', 'LValueToRValue', 'ConstructorConversion', 'UserDefinedConversion')) or \
                (n.get('kind') == 'CXXFunctionalCastExpr' and n.get('castKind') in ('ConstructorConversion', 'NoOp')):
            n = n['inner'][0]
        return n

    def objtype(self, n):
        """normalised class name of an object expression (pointer/ref/const stripped)."""
        t = n.get('type', {})
        q = norm(t.get('qualType', ''))
        q = re.sub(r'\s*(\*|&|&&)\s*(const)?$', '', q).strip()
        q = re.sub(r'^const ', '', q)
        q = re.sub(r' const$', '', q)
        return q.strip()

    def objtype_desugared(self, n):
        t = n.get('type', {})
        d = t.get('desugaredQualType')
        if not d:
            return None
        q = norm(d)
        q = re.sub(r'\s*(\*|&|&&)\s*(const)?$', '', q).strip()
        q = re.sub(r'^const ', '', q)
        q = re.sub(r' const$', '', q)
        return q.strip()

    def addr(self, text):
        text = text.strip()
        m = re.fullmatch(r'\(\*(.*)\)', text)
        if m and self._balanced(m.group(1)):
            return m.group(1)
        return '&(' + text + ')'

    def deref(self, text):
        text = text.strip()
        m = re.fullmatch(r'&\((.*)\)', text)
        if m and self._balanced(m.group(1)):
            return m.group(1)
        return '(*' + text + ')'

    @staticmethod
    def _balanced(s):
        d = 0
        for ch in s:
            if ch == '(':
                d += 1
            elif ch == ')':
                d -= 1
                if d < 0:
                    return False
        return d == 0

    def lookup_binding(self, keys):
        for k in keys:
            if k in self.calls:
                return self.calls[k]
        for k in keys:
            for pat, b in list(self.u.get('call_patterns', [])) + DEFAULT_CALL_PATTERNS:
                if re.fullmatch(pat, k):
                    return b
        return None

    # ------------------------------------------------------------------ functions
    def cname_for(self, d, qual=None):
        if d['id'] in self.fn_cname:
            return self.fn_cname[d['id']]
        q = qual or self.qname.get(d['id']) or d.get('name')
        ren = self.u.get('rename', {})
        if q in ren:
            c = ren[q]
        else:
            parts = norm(q).split('::')
            # keep at most class::method
            c = cident('_'.join(parts[-2:])) if len(parts) >= 2 else cident(parts[-1])
            if d['kind'] == 'FunctionDecl':
                c = cident(parts[-1])
        base = c
        k = 2
        while c in self.protos and self.protos[c][0] != d['id']:
            c = '%s_%d' % (base, k)
            k += 1
        self.fn_cname[d['id']] = c
        return c

    def translate_function(self, d, cname=None, contract=None):
        cname = cname or self.cname_for(d)
        if cname in self.funcs:
            return cname
        self.funcs[cname] = None   # recursion guard
        self.cur_fn = cname
        self.loop_ord = 0
        self.tmp = 0            # temporaries are numbered per function (loop contracts name them)
        self.contract = contract or {}
        self.locals = [{}]
        self.defers = [[]]
        is_method = d['kind'] in ('CXXMethodDecl', 'CXXConstructorDecl', 'CXXConversionDecl') and not self.is_static_method(d)
        fq = self.qt(d).replace('(anonymous namespace)::', '')
        m = re.match(r'(.*?)\s*\(', fq)
        ret = self.ctype(m.group(1)) if d['kind'] != 'CXXConstructorDecl' else CT('void')
        self.ret_type = ret
        params = []
        if is_method:
            cls = self.class_of(d)
            self.cur_class = cls
            params.append(self.ctype(cls).c(1) + 'self')
        seg_used = None
        if self.contract.get('segment'):
            # only the parameters the segment uses are parameters of the segment function
            _, free0 = self.find_segment(self.body_of(d), self.contract['segment'], cname)
            seg_used = set(f[0] for f in free0)
        for i, p in enumerate(self.params_of(d)):
            if seg_used is not None and p['id'] not in seg_used:
                continue
            t = self.ntype(p)
            pname = p.get('name') or ('_p%d' % i)
            if t.ref and self.is_byval(t):
                t = CT(t.base, t.ptr, False, t.const, t.cxx)
            if seg_used is not None and not t.ref and not t.dims:
                t = CT(t.base, t.ptr, True, t.const, t.cxx)     # the enclosing function's parameter, by reference
            self.locals[-1][p['id']] = t
            params.append(t.decl(pname))
        body = self.body_of(d)
        self.seg_exits = False
        seg = self.contract.get('segment')
        if seg:
            # a statement of the function body verified on its own (a Hoare triple over one phase of a long function):
            # the statement is located mechanically, the enclosing function's locals it uses become by-reference parameters
            body, free = self.find_segment(body, seg, cname)
            self.seg_ret_type = ret
            ret = CT('void')
            self.ret_type = ret
            self.seg_exits = bool(seg.get('exits'))
            if self.seg_exits:
                # how the segment is left: 0 falls through, 1 return (value in *__seg_retval when the function returns one),
                # 2 continue and 3 break of the enclosing loop
                params.append('int *__seg_exit')
                if self.seg_ret_type.c().strip() != 'void':
                    params.append(self.seg_ret_type.c(1) + '__seg_retval')
            for (vid, vname, vq, vdq) in free:
                t0 = self.local_type(vid) or self.ctype(vq, vdq)
                t = CT(t0.base, t0.ptr, True, t0.const, t0.cxx) if not (t0.ref or t0.dims) else t0
                self.locals[-1][vid] = t
                if vname not in [re.split(r'[ *]', q)[-1] for q in params]:
                    params.append(t.decl(vname))
        rng = (body if seg else d).get('range', {})
        self.spans[cname] = ((rng.get('begin', {}).get('file') or d.get('loc', {}).get('file')),
                             rng.get('begin', {}).get('line') or d.get('loc', {}).get('line'),
                             rng.get('end', {}).get('line'))
        head = '%s %s(%s)' % (ret.c().strip(), cname, ', '.join(params) or 'void')
        if not hasattr(self, 'sigs'):
            self.sigs = {}
        self.sigs[cname] = (ret.c().strip(), list(params))
        self.protos[cname] = (d['id'], head + ';')
        inits = ''
        if d['kind'] == 'CXXConstructorDecl':
            inits = self.ctor_inits(d)
        nstat = len(getattr(self, 'file_statics', []))
        if seg and body.get('kind') != 'CompoundStmt':
            body = {'kind': 'CompoundStmt', 'inner': [body]}
        if seg and self.seg_exits:
            inits += '*__seg_exit = 0;\n'
        btext = self.block(body, pre=inits)
        contract_now = dict(self.contract)
        if self.contract.get('statics_value_initialised'):
            # function-local statics with a value-initialising initialiser start out empty (dfcc makes statics arbitrary)
            extra = []
            for gname, decl in getattr(self, 'file_statics', [])[nstat:]:
                if decl.startswith('vbytes '):
                    extra.append('%s.len == 0' % gname)
            contract_now['requires'] = list(contract_now.get('requires', [])) + extra
        clauses = self.weave_fn(contract_now)
        text = head + '\n' + clauses + btext + '\n'
        self.funcs[cname] = text
        self.func_order.append(cname)
        return cname

    def find_segment(self, body, seg, cname):
        """seg = {'kind': stmt kind, 'mentions': [names that must all occur], 'excludes': [names that must not occur]}.
        Exactly one innermost statement must match, else the extraction is refused (exit 2, never a verdict)."""
        def names_of(x, acc):
            if isinstance(x, dict):
                if x.get('kind') in ('DeclRefExpr',) and isinstance(x.get('referencedDecl'), dict):
                    acc.add(x['referencedDecl'].get('name'))
                if x.get('kind') == 'MemberExpr':
                    acc.add(x.get('name'))
                if x.get('kind') == 'VarDecl':
                    acc.add(x.get('name'))
                for c in x.get('inner', []):
                    names_of(c, acc)
            return acc
        cands = []

        def walk(x):
            if not isinstance(x, dict):
                return False
            below = False
            for c in x.get('inner', []):
                below = walk(c) or below
            if below:
                return True
            if x.get('kind') == seg['kind']:
                nm = names_of(x, set())
                if all(m in nm for m in seg.get('mentions', [])) and not any(m in nm for m in seg.get('excludes', [])):
                    cands.append(x)
                    return True
            return False
        walk(body)
        if len(cands) > 1:
            # a lambda body is printed twice by clang (inside the closure class and as the lambda's body): same source range, one statement
            seen, uniq = set(), []
            for c in reversed(cands):
                r = c.get('range', {})
                key = (r.get('begin', {}).get('offset'), r.get('end', {}).get('offset'))
                if key not in seen or key == (None, None):
                    seen.add(key)
                    uniq.append(c)
            cands = list(reversed(uniq))
        if 'nth' in seg and 'of_n' in seg and len(cands) == seg['of_n']:
            cands = [cands[seg['nth']]]          # several statements of the same shape: the n-th of exactly of_n, in source order
        if len(cands) != 1:
            raise astdump.ExtractionError('segment %s: %d statements of kind %s mention %s (code moved or rewritten?)'
                                          % (cname, len(cands), seg['kind'], seg.get('mentions')))
        node = cands[0]
        if seg.get('preceded_by'):
            # the contract's precondition is the postcondition of the statement just before it: check that it still is just before it
            prev = [None]

            def sib(x):
                if isinstance(x, dict):
                    inner = x.get('inner', [])
                    for i, c in enumerate(inner):
                        if c is node:
                            prev[0] = inner[i - 1] if i > 0 else {}
                        sib(c)
            sib(body)
            nm = names_of(prev[0] or {}, set())
            if not all(m in nm for m in seg['preceded_by']):
                raise astdump.ExtractionError('segment %s is no longer directly preceded by the statement mentioning %s' % (cname, seg['preceded_by']))
        declared, used, order = set(), {}, []

        def scan(x, loop_depth):
            if not isinstance(x, dict):
                return
            k = x.get('kind')
            if k in ('VarDecl', 'BindingDecl'):
                declared.add(x.get('id'))
            if k == 'ReturnStmt' and not seg.get('exits'):
                raise Unsupported('segment %s contains a return statement' % cname)
            if k in ('BreakStmt', 'ContinueStmt') and loop_depth == 0 and not seg.get('exits'):
                raise Unsupported('segment %s leaves the enclosing loop (%s)' % (cname, k))
            if k == 'DeclRefExpr':
                r = x.get('referencedDecl') or {}
                if r.get('kind') in ('VarDecl', 'ParmVarDecl') and r.get('id') not in used:
                    used[r['id']] = (r['id'], r.get('name'), (r.get('type') or {}).get('qualType'), (r.get('type') or {}).get('desugaredQualType'))
                    order.append(r['id'])
            d2 = loop_depth + (1 if k in ('ForStmt', 'WhileStmt', 'DoStmt', 'CXXForRangeStmt') else 0)
            if k == 'LambdaExpr':
                return
            for c in x.get('inner', []):
                scan(c, d2 + (1 if k == 'SwitchStmt' and False else 0))
        scan(node, 0)
        skip = set(self.u.get('drop_locals', []))
        free = [used[i] for i in order if i not in declared and used[i][1] not in skip
                and self.u.get('globals', {}).get(used[i][1]) is None and self.decl_is_local(i)]
        self.dropped.add('segment %s: statement at line %s..%s of the enclosing function; enclosing locals passed by reference: %s'
                         % (cname, node.get('range', {}).get('begin', {}).get('line'), node.get('range', {}).get('end', {}).get('line'),
                            ', '.join(f[1] for f in free) or '(none)'))
        return node, free

    def decl_is_local(self, did):
        return True

    def ctor_inits(self, d):
        out = ''
        for c in d.get('inner', []):
            if c.get('kind') != 'CXXCtorInitializer':
                continue
            if 'anyInit' in c and c['anyInit'].get('kind') == 'FieldDecl':
                f = c['anyInit']
                init = c['inner'][0]
                if self.strip(init).get('kind') == 'CXXDefaultInitExpr':
                    # the member's in-class initialiser: taken from the field declaration; if it cannot be translated the field is left
                    # unconstrained (an over-approximation, stated in the evidence)
                    try:
                        ft = self.ctype(f['type']['qualType'])
                        rd = self.record_decl(self.cur_class)
                        fd = next((x for x in (rd or {}).get('inner', []) if x.get('kind') == 'FieldDecl' and x.get('name') == f['name']), None)
                        exprs = [x for x in (fd or {}).get('inner', []) if not x.get('kind', '').endswith('Comment')]
                        if not exprs:
                            raise Unsupported('no in-class initialiser found')
                        self.add_field(self.cur_class, f['name'], ft)
                        out += '  ' + self.init_member('self->%s' % f['name'], ft, exprs[0]).replace('\n', '\n  ').rstrip(' ')
                    except Unsupported as e:
                        self.dropped.add('in-class initialiser of %s::%s in constructor %s not translated (field left unconstrained): %s' % (self.cur_class, f['name'], self.cur_fn, e))
                    continue
                ft = self.ctype(f['type']['qualType'])
                self.add_field(self.cur_class, f['name'], ft)
                if self.strip(init).get('kind') == 'CXXConstructExpr' and not self.strip(init).get('inner') and \
                        self.lookup_binding(['c:%s()' % self.objtype(self.strip(init))]) is None:
                    continue
                if ft.ref:
                    out += '  self->%s = %s;\n' % (f['name'], self.addr(self.expr(init)))
                else:
                    out += '  self->%s = %s;\n' % (f['name'], self.expr(init))
            else:
                raise Unsupported('ctor initializer %r' % c.get('anyInit', c.get('baseInit')))
        return out

    static_methods = set()
    union_structs = set()      # anonymous unions: emitted as a struct wrapping a C11 anonymous union (members overlap)

    def is_static_method(self, d):
        if d.get('storageClass') == 'static' or d['id'] in self.static_methods:
            return True
        prev = self.decls.get(d.get('previousDecl'))
        if prev is not None and prev.get('storageClass') == 'static':
            return True
        # the in-class declaration may live in another dump: look it up by qualified name
        q = self.qname.get(d['id'])
        for dd in self.byname.get(q, []):
            if dd.get('storageClass') == 'static' and dd.get('kind') == 'CXXMethodDecl':
                return True
        return False

    def class_of(self, d):
        c = self._class_of(d)
        return self.u.get('class_alias', {}).get(c, c)     # a nested class dumped on its own is known by its short name: map it to the qualified one

    def _class_of(self, d):
        pid = self.parent.get(d['id'])
        if pid and pid in self.qname:
            return self.qname[pid]
        q = self.qname.get(d['id'], '')
        if '::' in q:
            return q.rsplit('::', 1)[0]
        pc = d.get('parentDeclContextId')
        if pc and pc in self.qname:
            return self.qname[pc]
        if d.get('kind') in ('CXXConstructorDecl', 'CXXDestructorDecl'):
            # a constructor matched by the dump filter on its own has no parent node: its class is the record of the same name
            nm = d.get('name', '').lstrip('~')
            recs = [x for x in self.byname.get(nm, []) if x.get('kind') == 'CXXRecordDecl']
            if recs:
                return self.qname.get(recs[0]['id'], nm)
        raise Unsupported('class of method %s' % d.get('name'))

    def is_byval(self, t):
        return t.ptr == 0 and (t.base in self.byval or t.cxx in self.byval)

    def weave_fn(self, c):
        out = ''
        for r in c.get('requires', []):
            out += '__CPROVER_requires(%s)\n' % (r[1] if isinstance(r, tuple) else r)
        if 'assigns' in c:
            out += '__CPROVER_assigns(%s)\n' % self.assigns_text(c['assigns'])
        for e in c.get('ensures', []):
            out += '__CPROVER_ensures(%s)\n' % (e[1] if isinstance(e, tuple) else e)
        return out

    @staticmethod
    def assigns_text(items):
        """plain targets, then conditional groups `cond: t1, t2` separated by semicolons (tuples (cond, target))"""
        plain = [i for i in items if not isinstance(i, tuple)]
        groups = {}
        for i in items:
            if isinstance(i, tuple):
                groups.setdefault(i[0], []).append(i[1])
        parts = [', '.join(plain)] if plain or not groups else []
        parts += ['%s: %s' % (c, ', '.join(ts)) for c, ts in groups.items()]
        return '; '.join(parts)

    def weave_loop(self, names=None, loopvar=None):
        i = self.loop_ord
        self.loop_ord += 1
        lc = self.contract.get('loops', {}).get(i)
        if not lc:
            return ''
        # $range / $i stand for the lowered range-for's range pointer and index (their numbering depends on earlier temporaries)
        sub = (lambda t: t.replace('$range', names[0]).replace('$i', names[1])) if names else (lambda t: t)
        if loopvar:
            # $loopvar: the variable a plain `for` declares in its init statement (its name is incidental to the invariant)
            sub = (lambda t, _lv=loopvar: t.replace('$loopvar', _lv))
        out = ''
        if 'assigns' in lc:
            out += '  __CPROVER_assigns(%s)\n' % sub(self.assigns_text(lc['assigns']))
        for inv in lc.get('invariant', []):
            out += '  __CPROVER_loop_invariant(%s)\n' % sub(inv)
        if 'decreases' in lc:
            out += '  __CPROVER_decreases(%s)\n' % sub(lc['decreases'])
        return out

    # ------------------------------------------------------------------ statements
    def block(self, n, pre=''):
        self.locals.append({})
        self.defers.append([])
        out = '{\n' + pre
        for c in n.get('inner', []):
            out += self.stmt(c)
        last = n.get('inner', [])[-1] if n.get('inner') else None
        if not (last and last.get('kind') in ('ReturnStmt', 'BreakStmt', 'ContinueStmt')):
            out += self.run_defers(len(self.defers) - 1)
        out += '}\n'
        self.locals.pop()
        self.defers.pop()
        return out

    def run_defers(self, from_level):
        out = ''
        for lvl in range(len(self.defers) - 1, from_level - 1, -1):
            for t in reversed(self.defers[lvl]):
                out += t
        return out

    def stmt(self, n):
        k = n.get('kind')
        if k == 'CompoundStmt':
            return self.block(n)
        if k == 'DeclStmt':
            return ''.join(self.vardecl(c) for c in n.get('inner', []))
        if k == 'IfStmt':
            inner = n['inner']
            c0 = self.peel(inner[1 if n.get('hasInit') else 0])
            if c0.get('kind') == 'CXXMemberCallExpr' and c0['inner'][0].get('kind') == 'MemberExpr' and c0['inner'][0].get('name', '').startswith('operator bool'):
                c0 = self.peel(c0['inner'][0]['inner'][0])      # `if (ptr)` on a smart pointer
            if c0.get('kind') in ('MemberExpr', 'DeclRefExpr') and (c0.get('name') or c0.get('referencedDecl', {}).get('name')) in self.u.get('drop_if_cond', []) and not n.get('hasElse'):
                self.dropped.add('`if (%s) ...` statements (tracing: no effect on verified state)' % (c0.get('name') or c0.get('referencedDecl', {}).get('name')))
                return ''
            mention = self.u.get('drop_if_mentions', [])
            if mention and not n.get('hasElse'):
                cn = set()

                def walkc(x):
                    if isinstance(x, dict):
                        if x.get('kind') in ('MemberExpr', 'DeclRefExpr'):
                            cn.add(x.get('name') or x.get('referencedDecl', {}).get('name'))
                        for c in x.get('inner', []):
                            walkc(c)
                walkc(inner[1 if n.get('hasInit') else 0])
                hit = [m for m in mention if m in cn]
                if hit:
                    self.dropped.add('`if` statements whose condition mentions `%s` (tracing: no effect on verified state)' % hit[0])
                    return ''
            idx = 0
            pre = ''
            if n.get('hasInit'):
                pre = self.stmt(inner[0])
                idx = 1
            if n.get('hasVar'):
                # `if (T v = init) ...`: the variable lives for the whole statement: a block with the declaration, then the test of the variable
                if inner[idx].get('kind') != 'DeclStmt':
                    raise Unsupported('if with condition variable (unexpected shape)')
                self.locals.append({})
                decl = self.stmt(inner[idx])
                cond = self.cond(inner[idx + 1])
                then = self.stmt_block(inner[idx + 2])
                out = '{ ' + pre + decl + 'if (%s) %s' % (cond, then)
                if n.get('hasElse'):
                    out += 'else ' + self.stmt_block(inner[idx + 3])
                self.locals.pop()
                return out + '}\n'
            cond = self.cond(inner[idx])
            then = self.stmt_block(inner[idx + 1])
            out = pre + 'if (%s) %s' % (cond, then)
            if n.get('hasElse'):
                out += 'else ' + self.stmt_block(inner[idx + 2])
            return out
        if k == 'ForStmt':
            init, _, cond, inc, body = n['inner']
            self.locals.append({})
            i = self.stmt(init).strip() if init else ';'
            if not i.endswith(';'):
                i += ';'
            c = self.cond(cond) if cond else ''
            s = self.expr(inc) if inc else ''
            lvs = [d.get('name') for d in (init or {}).get('inner', []) if d.get('kind') == 'VarDecl'] if (init or {}).get('kind') == 'DeclStmt' else []
            lc = self.weave_loop(loopvar=lvs[0] if len(lvs) == 1 else None)
            self.loop_depth_push()
            b = self.stmt_block(body)
            self.loop_depth_pop()
            self.locals.pop()
            return '{ %s\nfor (; %s; %s)\n%s%s}\n' % (i, c, s, lc, b)
        if k == 'WhileStmt':
            cond, body = n['inner'][-2:]
            lc = self.weave_loop()
            self.loop_depth_push()
            b = self.stmt_block(body)
            self.loop_depth_pop()
            return 'while (%s)\n%s%s' % (self.cond(cond), lc, b)
        if k == 'DoStmt':
            body, cond = n['inner']
            lc = self.weave_loop()
            self.loop_depth_push()
            b = self.stmt_block(body)
            self.loop_depth_pop()
            return 'do\n%s%swhile (%s);\n' % (lc, b, self.cond(cond))
        if k == 'CXXForRangeStmt':
            return self.range_for(n)
        if k == 'ReturnStmt' and getattr(self, 'seg_exits', False):
            d = self.run_defers(1)
            if n.get('inner'):
                if self.seg_ret_type is not None and self.seg_ret_type.c().strip() == 'void':
                    # `return f();` in a function returning void: the call is evaluated, nothing is returned
                    return '{ %s;\n%s*__seg_exit = 1; return; }\n' % (self.expr(n['inner'][0]), d)
                e = self.value_expr(n['inner'][0], self.seg_ret_type)
                return '{ *__seg_retval = %s;\n%s*__seg_exit = 1; return; }\n' % (e, d)
            return '{ %s*__seg_exit = 1; return; }\n' % d
        if k in ('BreakStmt', 'ContinueStmt') and getattr(self, 'seg_exits', False) and not self.loop_levels:
            return '{ %s*__seg_exit = %d; return; }\n' % (self.run_defers(1), 2 if k == 'ContinueStmt' else 3)
        if k == 'ReturnStmt':
            d = self.run_defers(1)
            if n.get('inner'):
                e = self.value_expr(n['inner'][0], self.ret_type)
                if self.ret_type.ref:
                    e = self.addr(e)
                if d:
                    self.tmp += 1
                    t = '__ret%d' % self.tmp
                    return '{ %s = %s;\n%sreturn %s; }\n' % (self.ret_type.decl(t), e, d, t)
                return 'return %s;\n' % e
            return d + 'return;\n'
        if k == 'BreakStmt':
            return self.run_defers(self.loop_levels[-1] if self.loop_levels else 1) + 'break;\n'
        if k == 'ContinueStmt':
            return self.run_defers(self.loop_levels[-1] if self.loop_levels else 1) + 'continue;\n'
        if k == 'NullStmt':
            return ';\n'
        if k == 'SwitchStmt':
            cond, body = n['inner'][-2:]
            self.loop_depth_push()
            out = 'switch (%s) %s' % (self.expr(cond), self.stmt_block(body))
            self.loop_depth_pop()
            return out
        if k == 'CaseStmt':
            inner = n['inner']
            v = self.const_value(inner[0])
            lab = str(v) if v is not None else self.expr(inner[0])
            return 'case %s:\n%s' % (lab, self.stmt(inner[-1]))
        if k == 'DefaultStmt':
            return 'default:\n%s' % self.stmt(n['inner'][-1])
        if k == 'AttributedStmt':
            return self.stmt(n['inner'][-1])
        if hasattr(self, 'e_' + k):
            h = self.stmt_hook(n)
            if h is not None:
                return h
            return self.expr(n) + ';\n'
        raise Unsupported('statement kind %s' % k)

    loop_levels = []

    def loop_depth_push(self):
        self.loop_levels = self.loop_levels + [len(self.defers)]

    def loop_depth_pop(self):
        self.loop_levels = self.loop_levels[:-1]

    def stmt_hook(self, n):
        """Statement-level drops (tracing etc.)."""
        return None

    def stmt_block(self, n):
        if n.get('kind') == 'CompoundStmt':
            return self.block(n)
        return '{\n' + self.stmt(n) + '}\n'

    def cond(self, n):
        return self.expr(n)

    def vardecl(self, v):
        if v.get('kind') in ('TypedefDecl', 'TypeAliasDecl', 'UsingDecl', 'StaticAssertDecl', 'CXXRecordDecl'):
            if v.get('kind') == 'CXXRecordDecl':
                self._index(v, [self.cur_fn], None)
            return ''
        if v.get('kind') != 'VarDecl':
            raise Unsupported('decl kind %s' % v.get('kind'))
        drop = self.u.get('drop_locals', [])
        qt = norm(self.qt(v))
        for pat in drop:
            if re.fullmatch(pat, qt):
                self.dropped.add('local of type %s (no effect on verified state)' % qt)
                return ''
        if qt.startswith('(lambda at') and v.get('inner'):
            # a local lambda that is only called by name: translated as a helper function of its own; what it captures by reference
            # (the enclosing function's locals and parameters it mentions, and `this`) becomes by-reference parameters
            lam0 = self.find_node(v, 'LambdaExpr')
            if lam0 is None:
                raise Unsupported('lambda variable %s without a lambda expression' % v.get('name'))
            cn = '%s__%s' % (self.cur_fn, v['name'])
            self.local_lambdas[v['id']] = self.prepare_lambda(lam0, cn)
            self.locals[-1][v['id']] = CT('char')
            return ''
        if re.fullmatch(r'ScopeDefer<.*>', qt) or re.fullmatch(r'ScopeDefer<.*>', norm(v.get('type', {}).get('desugaredQualType', '') or '')):
            # llbuild_defer { body }: the (by-reference capturing) lambda body runs at every exit of the enclosing scope
            lam = []

            def findlam(x):
                if isinstance(x, dict):
                    if x.get('kind') == 'LambdaExpr':
                        lam.append(x)
                        return
                    for c in x.get('inner', []):
                        findlam(c)
            findlam(v)
            if len(lam) != 1:
                raise Unsupported('llbuild_defer without a single lambda')
            body = [c for c in lam[0].get('inner', []) if c.get('kind') == 'CompoundStmt'][-1]
            names = set()

            def walkn(x):
                if isinstance(x, dict):
                    if x.get('name'):
                        names.add(x['name'])
                    for c in x.get('inner', []):
                        walkn(c)
            walkn(body)
            for dn in self.u.get('drop_defers_mentioning', []):
                if dn in names:
                    self.dropped.add('llbuild_defer block mentioning `%s` (no effect on verified state)' % dn)
                    return ''
            self.defers[-1].append(self.block(body))
            self.locals[-1][v['id']] = CT('char')
            return ''
        if re.fullmatch(r'(lock_guard|unique_lock)<.*>', qt) and v.get('inner'):
            core = self.strip(v['inner'][-1])
            args = [a for a in core.get('inner', [])]
            if len(args) >= 1:
                m = self.addr(self.expr(args[0]))
                if qt.startswith('unique_lock'):
                    self.defers[-1].append('if ((%s)->held) verif_mutex_unlock(%s);\n' % (m, m))
                else:
                    self.defers[-1].append('verif_mutex_unlock(%s);\n' % m)
                if qt.startswith('unique_lock'):
                    # the lock object is passed on (condition variable wait): keep it as a pointer to its mutex
                    self.locals[-1][v['id']] = CT('verif_mutex', ptr=1)
                    return 'verif_mutex *%s = %s;\nverif_mutex_lock(%s);\n' % (v['name'], m, m)
                self.locals[-1][v['id']] = CT('char')
                return 'verif_mutex_lock(%s);\n' % m
            raise Unsupported('lock guard without a mutex')
        ov = self.u.get('vardecl_overrides', {}).get((self.cur_fn, v.get('name')))
        if ov is not None:
            # a hand-modelled declaration: only valid while the source initialiser still mentions the stated names
            names = set()

            def walk(x):
                if isinstance(x, dict):
                    if x.get('name'):
                        names.add(x['name'])
                    if isinstance(x.get('referencedDecl'), dict) and x['referencedDecl'].get('name'):
                        names.add(x['referencedDecl']['name'])
                    for c in x.get('inner', []):
                        walk(c)
            walk(v)
            missing = [m for m in ov.get('must_contain', []) if m not in names]
            if missing:
                raise Unsupported('modelled declaration %s in %s no longer mentions %s' % (v.get('name'), self.cur_fn, missing))
            self.dropped.add('declaration `%s` in %s is hand-modelled as: %s' % (v.get('name'), self.cur_fn, ov['emit'].strip() or '(dropped)'))
            if ov.get('type'):
                self.locals[-1][v['id']] = self.ctype(ov['type'])
            return ov['emit']
        h = self.vardecl_hook(v)
        if h is not None:
            return h
        t = self.ntype(v)
        name = v['name']
        init = v['inner'][-1] if v.get('inner') and 'init' in v else None
        if v.get('storageClass') == 'static':
            # a function-local static with a constant (value-initialising) initialiser: a C static, zero initialised
            core = self.strip(init) if init else None
            lit = None
            x = init
            while x is not None and x.get('kind') in ('ExprWithCleanups', 'CXXConstructExpr', 'MaterializeTemporaryExpr', 'CXXBindTemporaryExpr', 'ImplicitCastExpr', 'CXXFunctionalCastExpr'):
                kids = [k for k in x.get('inner', []) if k.get('kind') != 'CXXDefaultArgExpr']
                if len(kids) != 1:
                    x = None
                    break
                x = kids[0]
            if x is not None and x.get('kind') == 'StringLiteral':
                lit = x['value']
            if lit is not None:
                # `static const std::string x = "literal"`: a file-scope character array holding the literal of the current source
                if not hasattr(self, 'file_statics'):
                    self.file_statics, self.local_names = [], {}
                gname = '%s__%s' % (self.cur_fn, name)
                self.file_statics.append((gname, 'static const char %s[] = %s' % (gname, lit)))
                self.local_names[v['id']] = gname
                if not hasattr(self, 'static_literals'):
                    self.static_literals = set()
                self.static_literals.add(v['id'])
                self.locals[-1][v['id']] = CT('const char', 1, cxx='char')
                return ''
            if t.ref or (core is not None and core.get('kind') not in ('InitListExpr', 'CXXConstructExpr', 'ImplicitValueInitExpr')) or \
                    (core is not None and core.get('inner')):
                raise Unsupported('static local %s with a non-trivial initialiser' % name)
            self.locals[-1][v['id']] = t
            # emitted at file scope as <function>__<name>[_k] so that a contract can state its (value-initialised) content:
            # dfcc treats every static as arbitrary at function entry
            if not hasattr(self, 'file_statics'):
                self.file_statics, self.local_names = [], {}
            base = '%s__%s' % (self.cur_fn, name)
            k = sum(1 for n_ in self.file_statics if n_[0] == base or n_[0].startswith(base + '_'))
            gname = base if k == 0 else '%s_%d' % (base, k)
            self.file_statics.append((gname, t.decl(gname)))
            self.local_names[v['id']] = gname
            return ''
        if t.ref:
            if init is None:
                raise Unsupported('reference without init')
            core = self.strip_keep_mat(init)
            if core.get('kind') == 'MaterializeTemporaryExpr' or not self.is_glvalue(self.skip_wrappers(init)):
                # lifetime-extended temporary: becomes a value variable
                vt = CT(t.base, t.ptr, False, t.const, t.cxx)
                self.locals[-1][v['id']] = vt
                return '%s = %s;\n' % (vt.decl(name), self.expr(init))
            self.locals[-1][v['id']] = t
            return '%s = %s;\n' % (t.decl(name), self.addr(self.expr(init)))
        self.locals[-1][v['id']] = t
        if init is None:
            return '%s;\n' % t.decl(name)
        s = self.strip(init)
        if s.get('kind') in ('CXXConstructExpr',) and not s.get('inner'):
            b = self.lookup_binding(['c:%s()' % self.objtype(s), 'c:%s()' % (self.objtype_desugared(s) or '?')])
            if b is None:
                # default construction without a model: the object is left unconstrained (the most general
                # value) except for the in-class member initialisers of its record, which are applied
                out = '%s;\n' % t.decl(name)
                if t.ptr == 0 and t.base.startswith('struct '):
                    out += self.inclass_inits(name, s, t)
                return out
        return '%s = %s;\n' % (t.decl(name), self.value_expr(init, t))

    def inclass_inits(self, lhs, ctor_node, t):
        """Apply the in-class member initialisers of t's record to the object lhs."""
        out = ''
        d = None
        for q in (t.cxx, norm((ctor_node or {}).get('type', {}).get('desugaredQualType', '') or '')):
            d = self.record_decl(q)
            if d is not None:
                break
        if d is None:
            return out
        for c in d.get('inner', []):
            if c.get('kind') == 'FieldDecl' and c.get('hasInClassInitializer'):
                ft = self.ctype(c['type']['qualType'], c['type'].get('desugaredQualType'))
                self.add_field(t.base[7:], c['name'], ft)
                exprs = [x for x in c.get('inner', []) if not x.get('kind', '').endswith('Comment')]
                init = exprs[0] if exprs else None
                out += self.init_member('%s.%s' % (lhs, c['name']), ft, init)
        return out

    def init_member(self, lhs, ft, init):
        core = self.strip(init) if init else None
        if ft.dims:
            if core is None or (core.get('kind') in ('InitListExpr', 'ImplicitValueInitExpr') and
                                all(self.const_value(x) in (0, None) for x in core.get('inner', []))):
                return '__builtin_memset(&%s, 0, sizeof(%s));\n' % (lhs, lhs)
            raise Unsupported('array initialiser of %s' % lhs)
        if ft.ptr == 0 and ft.base.startswith('struct '):
            if core is None or core.get('kind') in ('InitListExpr', 'CXXConstructExpr'):
                kids = (core or {}).get('inner', [])
                if all(k.get('kind') in ('CXXDefaultInitExpr', 'ImplicitValueInitExpr') for k in kids):
                    # value-initialisation / default member initialisers of the nested record
                    out = ''
                    if not kids and core is not None and core.get('kind') == 'InitListExpr':
                        out += '__builtin_memset(&%s, 0, sizeof(%s));\n' % (lhs, lhs)
                    return out + self.inclass_inits(lhs, core, ft)
            raise Unsupported('record initialiser of %s' % lhs)
        return '%s = %s;\n' % (lhs, self.expr(init))

    def record_decl(self, q):
        if not q:
            return None
        for qn, lst in self.byname.items():
            if qn == q or qn.endswith('::' + q) or q.endswith('::' + qn):
                for d in lst:
                    if d['kind'] == 'CXXRecordDecl' and d.get('completeDefinition'):
                        return d
        return None

    def find_node(self, x, kind):
        if isinstance(x, dict):
            if x.get('kind') == kind:
                return x
            for c in x.get('inner', []):
                r = self.find_node(c, kind)
                if r is not None:
                    return r
        return None

    def prepare_lambda(self, lam, cname):
        """Signature of the helper function for a local lambda; the body is translated after the enclosing function."""
        rec = next((c for c in lam.get('inner', []) if c.get('kind') == 'CXXRecordDecl'), None)
        op = next((c for c in (rec or {}).get('inner', []) if c.get('kind') == 'CXXMethodDecl' and c.get('name') == 'operator()'), None)
        body = next((c for c in reversed(lam.get('inner', [])) if c.get('kind') == 'CompoundStmt'), None)
        if op is None or body is None:
            raise Unsupported('lambda without call operator or body in %s' % self.cur_fn)
        fq = self.qt(op)
        m = re.match(r'(.*?)\s*\(', fq)
        rtxt = m.group(1)
        if '->' in fq:
            rtxt = fq.rsplit('->', 1)[1].strip()        # trailing return type
        ret = self.ctype(rtxt)
        own_params = [p for p in op.get('inner', []) if p.get('kind') == 'ParmVarDecl']
        declared, used, order, uses_this = set(p['id'] for p in own_params), {}, [], [False]

        def scan(x):
            if not isinstance(x, dict):
                return
            k = x.get('kind')
            if k in ('VarDecl', 'BindingDecl'):
                declared.add(x.get('id'))
            if k == 'CXXThisExpr':
                uses_this[0] = True
            if k == 'DeclRefExpr':
                r = x.get('referencedDecl') or {}
                if r.get('kind') in ('VarDecl', 'ParmVarDecl') and r.get('id') not in used:
                    used[r['id']] = r
                    order.append(r['id'])
            for c in x.get('inner', []):
                scan(c)
        scan(body)
        free = []
        for i in order:
            if i in declared:
                continue
            t0 = self.local_type(i)
            if t0 is None:
                continue            # a global / static: visible to the helper as it is
            free.append((i, used[i].get('name'), t0))
        info = {'cname': cname, 'ret': ret, 'own': own_params, 'free': free, 'this': uses_this[0], 'body': body,
                'cls': getattr(self, 'cur_class', None), 'lam': lam}
        self.lambda_queue.append(info)
        self.dropped.add('local lambda %s: translated as a helper function; captured by reference: %s%s'
                         % (cname, ', '.join(f[1] for f in free) or '(nothing)', ' and this' if uses_this[0] else ''))
        return info

    def call_lambda(self, info, argnodes):
        args = []
        if info['this']:
            args.append('self')
        for (i, name, t0) in info['free']:
            nm = getattr(self, 'local_names', {}).get(i, name)
            args.append(nm if (t0.ref or t0.dims) else '&' + nm)
        args += self.lower_args(argnodes, None, [self.ntype(p) for p in info['own']])
        return '%s(%s)' % (info['cname'], ', '.join(args))

    def translate_lambda(self, info):
        cname = info['cname']
        if cname in self.funcs:
            return
        self.funcs[cname] = None
        self.cur_fn = cname
        self.loop_ord = 0
        self.tmp = 0
        self.contract = self.u.get('helper_contracts', {}).get(cname, {})
        self.locals = [{}]
        self.defers = [[]]
        self.seg_exits = False
        self.ret_type = info['ret']
        params = []
        if info['this']:
            self.cur_class = info['cls']
            params.append(self.ctype(info['cls']).c(1) + 'self')
        for (i, name, t0) in info['free']:
            t = t0 if (t0.ref or t0.dims) else CT(t0.base, t0.ptr, True, t0.const, t0.cxx)
            self.locals[-1][i] = t
            params.append(t.decl(name))
        for j, p in enumerate(info['own']):
            t = self.ntype(p)
            if t.ref and self.is_byval(t):
                t = CT(t.base, t.ptr, False, t.const, t.cxx)
            self.locals[-1][p['id']] = t
            params.append(t.decl(p.get('name') or ('_p%d' % j)))
        head = '%s %s(%s)' % (info['ret'].c().strip(), cname, ', '.join(params) or 'void')
        self.protos[cname] = (info['lam'].get('id', cname), head + ';')
        if not hasattr(self, 'sigs'):
            self.sigs = {}
        self.sigs[cname] = (info['ret'].c().strip(), list(params))
        rng = info['body'].get('range', {})
        self.spans[cname] = (rng.get('begin', {}).get('file'), rng.get('begin', {}).get('line'), rng.get('end', {}).get('line'))
        btext = self.block(info['body'])
        self.funcs[cname] = head + '\n' + self.weave_fn(dict(self.contract)) + btext + '\n'
        self.func_order.append(cname)

    def vardecl_hook(self, v):
        return None

    def skip_wrappers(self, n):
        while n.get('kind') in ('ExprWithCleanups', 'CXXBindTemporaryExpr', 'ParenExpr'):
            n = n['inner'][0]
        return n

    def strip_keep_mat(self, n):
        while n.get('kind') in ('ExprWithCleanups', 'CXXBindTemporaryExpr', 'ParenExpr') or \
                (n.get('kind') == 'ImplicitCastExpr' and n.get('castKind') == 'NoOp'):
            n = n['inner'][0]
        return n

    def range_for(self, n):
        inner = n['inner']
        rangedecl = inner[1]['inner'][0]
        loopvar = inner[-2]['inner'][0]
        body = inner[-1]
        rexpr = rangedecl['inner'][0]
        rt = self.objtype(rangedecl)
        rtd = self.objtype_desugared(rangedecl)
        keys = ['range:' + rt, 'range:' + (rtd or '?')]
        ct = None
        for cand in (rangedecl, self.peel(rexpr), rexpr):       # the implicit __range variable often lacks the desugared type
            try:
                ct = self.ctype(self.qt(cand), cand.get('type', {}).get('desugaredQualType'))
                ct = CT(ct.base, ct.ptr, False, ct.const, ct.cxx)
                keys.append('range:@' + ct.base)
                break
            except Unsupported:
                ct = None
        b = self.lookup_binding(keys)
        if b is None:
            raise Unsupported('range-for over %s' % rt)
        size_fn, at_fn = b
        self.tmp += 1
        r, i = '__range%d' % self.tmp, '__i%d' % self.tmp
        if ct is None:
            ct = self.ctype(self.qt(rangedecl), rangedecl['type'].get('desugaredQualType'))
        self.locals.append({})
        vt = self.ntype(loopvar)
        self.locals[-1][loopvar['id']] = vt
        rtext = self.expr(rexpr)
        lc = self.weave_loop((r, i))
        self.loop_depth_push()
        if vt.ref:
            bind = '%s = %s(%s, %s);\n' % (vt.decl(loopvar['name']), at_fn, r, i)
        else:
            bind = '%s = *%s(%s, %s);\n' % (vt.decl(loopvar['name']), at_fn, r, i)
        btxt = self.stmt_block(body)
        self.loop_depth_pop()
        self.locals.pop()
        rc = CT(ct.base, ct.ptr, False)
        return ('{ %s = %s; size_t %s;\nfor (%s = 0; %s < %s(%s); ++%s)\n%s{\n%s%s}\n}\n' %
                (rc.decl('*' + r), self.addr(rtext), i, i, i, size_fn, r, i, lc, bind, btxt))

    # ------------------------------------------------------------------ expressions
    def value_expr(self, n, t=None):
        return self.expr(n)

    def local_type(self, did):
        for scope in reversed(self.locals):
            if did in scope:
                return scope[did]
        return None

    def expr(self, n):
        k = n.get('kind')
        m = getattr(self, 'e_' + k, None)
        if m is None:
            raise Unsupported('expression kind %s in %s' % (k, self.cur_fn))
        return m(n)

    def e_ExprWithCleanups(self, n): return self.expr(n['inner'][0])
    def e_CXXBindTemporaryExpr(self, n): return self.expr(n['inner'][0])
    def e_MaterializeTemporaryExpr(self, n): return self.expr(n['inner'][0])
    def e_ConstantExpr(self, n): return self.expr(n['inner'][0])
    def e_SubstNonTypeTemplateParmExpr(self, n): return self.expr(n['inner'][-1])
    def e_ParenExpr(self, n): return '(' + self.expr(n['inner'][0]) + ')'
    def e_CXXThisExpr(self, n): return 'self'
    def e_CXXNullPtrLiteralExpr(self, n): return '0'
    def e_GNUNullExpr(self, n): return '0'
    def e_CXXBoolLiteralExpr(self, n): return '1' if n['value'] else '0'
    def e_ImplicitValueInitExpr(self, n): return '0'

    def e_CXXNewExpr(self, n):
        # `new T[n]` / `new T(...)`: only through a unit-supplied allocation model (key new[]:@<C type> / new:@<C type>)
        t = self.ntype(n)
        elem = CT(t.base, max(t.ptr - 1, 0)).c().strip()
        if n.get('isArray'):
            bind = self.calls.get('new[]:@' + elem)
            if bind is None:
                raise Unsupported('array new of %s in %s without an allocation model' % (elem, self.cur_fn))
            size = next((c for c in n.get('inner', []) if c.get('kind') not in ('CXXConstructExpr', 'InitListExpr')), None)
            if size is None:
                raise Unsupported('array new without a size expression in %s' % self.cur_fn)
            return '%s(%s)' % (bind, self.expr(size))
        bind = self.calls.get('new:@' + elem)
        ctor = next((c for c in n.get('inner', []) if c.get('kind') == 'CXXConstructExpr'), None)
        if bind is not None and ctor is not None:
            # `new (placement) T(args)`: the unit's allocation-and-construction model receives the constructor arguments; where the object lives is dropped
            self.dropped.add('placement / allocator arguments of `new %s(...)` in %s' % (elem, self.cur_fn))
            return '%s(%s)' % (bind, ', '.join(self.expr(a) for a in ctor.get('inner', [])))
        raise Unsupported('new expression of %s in %s' % (elem, self.cur_fn))

    def e_CXXDefaultInitExpr(self, n):
        raise Unsupported('default member initializer in expression')

    def e_IntegerLiteral(self, n):
        t = self.ntype(n).base
        v = n['value']
        suf = {'unsigned int': 'u', 'long': 'l', 'unsigned long': 'ul', 'long long': 'll', 'unsigned long long': 'ull',
               'size_t': 'ul', 'uint64_t': 'ul'}.get(t, '')
        return v + suf

    def e_CharacterLiteral(self, n):
        return str(n['value'])

    def e_StringLiteral(self, n):
        return n['value']

    def e_FloatingLiteral(self, n):
        return n['value']

    def e_DeclRefExpr(self, n):
        r = n['referencedDecl']
        rk = r['kind']
        if rk == 'EnumConstantDecl':
            return self.enum_constant(r)
        if rk in ('VarDecl', 'ParmVarDecl', 'BindingDecl'):
            t = self.local_type(r['id'])
            if t is None:
                # global / static / captured variable
                g = self.u.get('globals', {}).get(r['name'])
                if g is not None:
                    return g
                d = self.decls.get(r['id'])
                cv = self.const_global(r)
                if cv is not None:
                    return cv
                raise Unsupported('reference to non-local variable %s' % r['name'])
            nm = getattr(self, 'local_names', {}).get(r['id'], r['name'])
            if t.ref:
                return '(*%s)' % nm
            return nm
        if rk in ('FunctionDecl', 'CXXMethodDecl'):
            return r['name']
        raise Unsupported('DeclRefExpr to %s' % rk)

    def const_global(self, r):
        """a const-qualified static data member / namespace-scope variable of integral type whose initialiser is a literal: its value"""
        d = self.decls.get(r['id'])
        if d is None or d.get('kind') != 'VarDecl':
            return None
        qt = d.get('type', {}).get('qualType', '')
        if 'const' not in qt.replace('*', ' ').split() and 'constexpr' not in str(d.get('constexpr', '')):
            return None
        init = [c for c in d.get('inner', []) if c.get('kind', '').endswith('Expr') or c.get('kind', '').endswith('Literal')]
        if not init:
            return None
        e = init[-1]
        while e.get('kind') in ('ImplicitCastExpr', 'ConstantExpr', 'ParenExpr') and e.get('inner'):
            e = e['inner'][0]
        if e.get('kind') not in ('IntegerLiteral', 'CXXBoolLiteralExpr', 'CharacterLiteral'):
            return None
        return '((%s)%s)' % (self.ctype(qt.replace('const ', '').replace(' const', ''), d['type'].get('desugaredQualType')).c().strip(), self.expr(e))

    def field_decl(self, n, base_cls):
        fid = n.get('referencedMemberDecl')
        d = self.decls.get(fid)
        if d is not None:
            return d
        if not base_cls or '<' in base_cls:
            return None
        q = '%s::%s' % (base_cls, n['name'])
        d = self.field_by_name(q)
        if d is None and self.u.get('auto_fields', True):
            try:
                self.load('%s::%s' % (base_cls.split('::')[-1], n['name']))
            except astdump.ExtractionError:
                pass
            d = self.field_by_name(q)
        return d

    def field_by_name(self, q):
        for qn, lst in self.byname.items():
            if qn == q or qn.endswith('::' + q):
                for d in lst:
                    if d['kind'] in ('FieldDecl', 'VarDecl'):
                        return d
        return None

    def add_field(self, cls, name, t):
        sname = self.base_type(norm(cls))
        if sname and sname.startswith('struct '):
            s = self.structs.setdefault(sname[7:], {})
            if sname[7:] not in self.struct_order:
                self.struct_order.append(sname[7:])
            if name not in s:
                s[name] = t
        return sname

    def e_MemberExpr(self, n):
        base = n['inner'][0]
        if not n.get('name'):
            # implicit access to an anonymous struct/union member (C anonymous members: the field names are visible in the parent)
            return self.expr(base)
        if self.qt(n) == '<bound member function type>':
            raise Unsupported('bound member function outside call')
        bcls = self.objtype(base)
        key = 'f:%s::%s' % (bcls, n['name'])
        b = self.lookup_binding([key, 'f:%s::%s' % (self.objtype_desugared(base) or '?', n['name'])])
        btext = self.expr(base)
        obj = btext if n.get('isArrow') else self.addr(btext)
        if b is not None:
            return b(self, n, obj) if callable(b) else b.replace('$o', obj)
        fd = self.field_decl(n, bcls)
        if fd is not None and fd.get('kind') == 'FieldDecl':
            ft = self.ctype(fd['type']['qualType'], fd['type'].get('desugaredQualType'))
        elif fd is not None and fd.get('kind') == 'VarDecl':
            g = self.u.get('globals', {}).get(n['name'])
            if g is not None:
                return g
            raise Unsupported('static member %s' % n['name'])
        else:
            ft = self.ntype(n)
            if (bcls + '::' + n['name']) in self.u.get('ref_fields', []):
                ft.ref = True
        try:
            bt = self.ntype(base)
            owner = bt.base[7:] if bt.base.startswith('struct ') else bcls
        except Unsupported:
            owner = bcls
        sname = self.add_field(owner, n['name'], ft)
        if sname is None or not sname.startswith('struct '):
            raise Unsupported('member %s of non-struct %s (%s)' % (n['name'], bcls, sname))
        if sname[7:] in self.union_structs and ft.ptr > 0:
            cell = ('%s->__u' % btext) if n.get('isArrow') else ('(%s).__u' % btext)
            return '(*(%s*)&%s)' % (ft.c().strip(), cell)
        acc = ('%s->%s' % (btext, n['name'])) if n.get('isArrow') else ('%s.%s' % (btext, n['name']))
        if not n.get('isArrow') and not re.fullmatch(r'[A-Za-z_][A-Za-z0-9_.>\-]*', btext):
            acc = '(%s).%s' % (btext, n['name'])
        if ft.ref:
            return '(*%s)' % acc
        return acc

    def e_UnaryOperator(self, n):
        op = n['opcode']
        s = n['inner'][0]
        e = self.expr(s)
        if op == '*':
            return self.deref(e)
        if op == '&':
            return self.addr(e)
        if n.get('isPostfix'):
            return '(%s%s)' % (e, op)
        if op == '!':
            return '(!%s)' % e
        return '(%s%s)' % (op, e)

    def e_BinaryOperator(self, n):
        a, b = n['inner']
        op = n['opcode']
        if op in ('.*', '->*'):
            raise Unsupported('pointer to member')
        if op in ('<', '<=', '>', '>='):
            try:
                ta, tb = self.ntype(a), self.ntype(b)
            except Unsupported:
                ta = tb = None
            if ta and tb and ta.ptr > 0 and tb.ptr > 0:
                # ordered pointer comparison: compare offsets inside one object (asserted), so that a
                # pointer formed beyond one-past-the-end but only *compared* is not reported as a read
                fn = {'<': 'verif_ptr_lt', '<=': 'verif_ptr_le', '>': 'verif_ptr_gt', '>=': 'verif_ptr_ge'}[op]
                return '%s(%s, %s)' % (fn, self.expr(a), self.expr(b))
        return '(%s %s %s)' % (self.expr(a), op, self.expr(b))

    e_CompoundAssignOperator = e_BinaryOperator

    def e_ConditionalOperator(self, n):
        c, a, b = n['inner']
        return '(%s ? %s : %s)' % (self.expr(c), self.expr(a), self.expr(b))

    def e_ArraySubscriptExpr(self, n):
        a, i = n['inner']
        return '%s[%s]' % (self.expr(a), self.expr(i))

    def cast_to(self, n, e):
        t = self.ntype(n)
        return '((%s)%s)' % (t.c().strip(), e)

    def e_ImplicitCastExpr(self, n):
        ck = n.get('castKind')
        s = n['inner'][0]
        if ck in ('LValueToRValue', 'NoOp', 'FunctionToPointerDecay', 'ArrayToPointerDecay',
                  'ConstructorConversion', 'UserDefinedConversion', 'AtomicToNonAtomic', 'NonAtomicToAtomic'):
            return self.expr(s)
        if ck == 'NullToPointer':
            return '0'
        if ck in ('IntegralToBoolean', 'PointerToBoolean', 'FloatingToBoolean'):
            self.note_bool_narrowing(n, s)
            return '(%s != 0)' % self.expr(s)
        if ck in ('IntegralCast', 'BitCast', 'IntegralToFloating', 'FloatingToIntegral', 'FloatingCast',
                  'IntegralToPointer', 'PointerToIntegral', 'BooleanToSignedIntegral'):
            return self.cast_to(n, self.expr(s))
        if ck in ('DerivedToBase', 'UncheckedDerivedToBase', 'BaseToDerived'):
            return self.base_cast(n, s)
        if ck == 'ToVoid':
            return '((void)%s)' % self.expr(s)
        raise Unsupported('cast kind %s' % ck)

    def note_bool_narrowing(self, n, s):
        pass

    def base_cast(self, n, s):
        """Derived-to-base conversion.  When the derived record is known, the base sub-object is the embedded
        first member `__base` (single, non-virtual inheritance); otherwise a pointer cast."""
        e = self.expr(s)
        t = self.ntype(n)
        if self.strip_keep_mat(s).get('kind') == 'MaterializeTemporaryExpr' and self.ntype(s).ptr == 0:
            e = '(*%s)' % self.temp_addr(s, e)      # the temporary object needs an address
        if n.get('castKind') in ('DerivedToBase', 'UncheckedDerivedToBase'):
            path = None
            for derived in (self.objtype(s), self.objtype_desugared(s)):
                if derived and path is None:
                    path = self.base_path(derived, t.cxx if t.cxx else self.objtype(n))
            if path is not None:
                if self.is_glvalue(n) and t.ptr == 0:
                    return '(%s)%s' % (e, ''.join('.__base' for _ in path))
                return '(&(%s)->__base%s)' % (e, ''.join('.__base' for _ in path[1:]))
        if self.is_glvalue(n) and t.ptr == 0:
            return '(*(%s*)%s)' % (t.c().strip(), self.addr(e))
        return '((%s)%s)' % (t.c().strip(), e)

    def bases_of(self, cls):
        d = self.record_decl(cls)
        if d is None:
            return None
        return [norm(b['type']['qualType']) for b in d.get('bases', [])]

    def base_path(self, derived, base):
        """list of records from derived (exclusive) down to base (inclusive) along first bases, or None."""
        path, cur = [], derived
        for _ in range(8):
            bs = self.bases_of(cur)
            if not bs:
                return None
            if len(bs) != 1:
                return None if base not in bs or bs[0] != base else path + [base]
            path.append(bs[0])
            if bs[0] == base or bs[0].endswith('::' + base) or base.endswith('::' + bs[0]):
                self.embed_base(derived, path)
                return path
            cur = bs[0]
        return None

    def embed_base(self, derived, path):
        cur = derived
        for b in path:
            sname = self.base_type(norm(cur))
            bname = self.base_type(norm(b))
            if sname and bname and sname.startswith('struct ') and bname.startswith('struct '):
                st = self.structs.setdefault(sname[7:], {})
                if sname[7:] not in self.struct_order:
                    self.struct_order.append(sname[7:])
                if '__base' not in st:
                    # keep the base sub-object first
                    items = list(st.items())
                    st.clear()
                    st['__base'] = CT(bname, cxx=norm(b))
                    for k, v in items:
                        st[k] = v
            cur = b

    def e_CStyleCastExpr(self, n):
        ck = n.get('castKind')
        s = n['inner'][0]
        if ck in ('NoOp', 'LValueToRValue', 'ConstructorConversion'):
            return self.expr(s)
        if ck == 'ToVoid':
            return '((void)%s)' % self.expr(s)
        if ck in ('IntegralToBoolean', 'PointerToBoolean'):
            return '(%s != 0)' % self.expr(s)
        if ck == 'BaseToDerived' and self.u.get('downcast_obligation'):
            # a static downcast is an obligation: the object must be of the target class (unit option: target class -> C expression over $p)
            tgt = norm(self.qt(n)).rstrip('*& ').split('::')[-1]
            cond = self.u['downcast_obligation'].get(tgt)
            if cond is None:
                raise Unsupported('static downcast to %s without a type test' % tgt)
            e = self.expr(s)
            self.tmp += 1
            t = self.ntype(n)
            return '({ void *__dc%d = (void *)(%s); __CPROVER_assert(%s, "[%s] static_cast to %s only of an object of that class"); (%s)__dc%d; })' % (
                self.tmp, e, cond.replace('$p', '__dc%d' % self.tmp), self.u.get('downcast_tag', 'P:C19'), tgt, t.c().strip(), self.tmp)
        return self.cast_to(n, self.expr(s))

    e_CXXStaticCastExpr = e_CStyleCastExpr
    e_CXXFunctionalCastExpr = e_CStyleCastExpr
    e_CXXReinterpretCastExpr = e_CStyleCastExpr
    e_CXXConstCastExpr = e_CStyleCastExpr

    def e_InitListExpr(self, n):
        t = self.ntype(n)
        kids = n.get('inner', [])
        vi = self.u.get('value_init', {}).get(t.c().strip())
        def empty_init(c):
            return c.get('kind') in ('CXXDefaultInitExpr', 'ImplicitValueInitExpr') or (c.get('kind') == 'InitListExpr' and all(empty_init(x) for x in c.get('inner', [])))
        if vi is not None and all(empty_init(c) for c in kids):
            # `T{}` of a type the unit models: the model's value-initialised object
            return vi
        if any(c.get('kind') == 'CXXDefaultInitExpr' for c in kids):
            # clang's JSON omits the expression: take the in-class initialiser of the field at that position
            rd = self.record_decl(t.cxx) or self.record_decl(norm(n.get('type', {}).get('desugaredQualType', '') or ''))
            fdecls = [c for c in (rd or {}).get('inner', []) if c.get('kind') == 'FieldDecl']
            fixed = []
            for i, c in enumerate(kids):
                if c.get('kind') == 'CXXDefaultInitExpr':
                    if i >= len(fdecls):
                        raise Unsupported('default member initializer without record definition')
                    ex = [x for x in fdecls[i].get('inner', []) if not x.get('kind', '').endswith('Comment')]
                    if not ex:
                        raise Unsupported('default member initializer of %s not found' % fdecls[i].get('name'))
                    fixed.append(ex[0])
                else:
                    fixed.append(c)
            kids = fixed
        items = [self.expr(c) for c in kids]
        if t.dims:
            return '{%s}' % ', '.join(items or ['0'])
        if t.base.startswith('struct ') and t.ptr == 0:
            # positional initialisation: needs the record's field order
            fields = self.record_fields(t)
            if fields is None and n.get('type', {}).get('desugaredQualType'):
                fields = self.record_fields(CT(t.base, cxx=norm(n['type']['desugaredQualType'])))
            if fields is None or len(fields) < len(items):
                raise Unsupported('init list for %s without known field order' % t.base)
            parts = []
            for (fname, ft), it in zip(fields, items):
                st = self.structs.setdefault(t.base[7:], {})
                if t.base[7:] not in self.struct_order:
                    self.struct_order.append(t.base[7:])
                st.setdefault(fname, ft)
                parts.append('.%s = %s' % (fname, it))
            return '((%s){%s})' % (t.c().strip(), ', '.join(parts) or '0')
        return '{%s}' % ', '.join(items)

    def record_fields(self, t):
        q = t.cxx
        for qn, lst in self.byname.items():
            if qn == q or qn.endswith('::' + q) or q.endswith('::' + qn):
                for d in lst:
                    if d['kind'] == 'CXXRecordDecl' and d.get('completeDefinition'):
                        out = []
                        for c in d.get('inner', []):
                            if c.get('kind') == 'FieldDecl':
                                out.append((c['name'], self.ctype(c['type']['qualType'], c['type'].get('desugaredQualType'))))
                        return out
        return None

    # ---- calls
    def lower_args(self, args, sig=None, ptypes=None):
        out = []
        callee = self.cur_callee      # nested calls in the arguments overwrite it
        for i, a in enumerate(args):
            if sig is not None and i >= len(sig):
                break           # the model takes only the leading arguments (trailing defaulted ones dropped)
            if a.get('kind') == 'CXXDefaultArgExpr':
                if a.get('inner'):
                    a = a['inner'][0]
                else:
                    a = self.default_arg(i, callee)
            mode = sig[i] if sig and i < len(sig) else None
            text = self.expr(a)
            pk = self.peel(a)
            if pk.get('kind') == 'DeclRefExpr' and pk.get('referencedDecl', {}).get('id') in getattr(self, 'static_literals', ()):
                out.append(text)        # a static string literal object: the character array itself (sizeof gives its length)
                continue
            nb = self.u.get('bool_narrowing_obligation')
            inner_cast = self.skip_wrappers(a)
            if nb and callee and callee[0].split('::')[-1] in nb.get('callees', []) and inner_cast.get('kind') == 'ImplicitCastExpr' and \
                    inner_cast.get('castKind') in ('IntegralToBoolean', 'PointerToBoolean'):
                # the overload that was resolved takes a bool: feeding it a wider value is lossless only if the value is 0 or 1
                src = inner_cast['inner'][0]
                st = self.ntype(src)
                stext = self.expr(src)
                desc = '[%s] value fed to %s(bool) is lossless (source type %s, expression %s)' % (
                    nb['tag'], callee[0].split('::')[-1], norm(self.qt(src)), re.sub(r'[^A-Za-z0-9_.>()\- ]', '', stext)[:80])
                if inner_cast.get('castKind') == 'PointerToBoolean':
                    text = '({ __CPROVER_assert(0, "%s"); (%s != 0); })' % (desc, stext)
                else:
                    self.tmp += 1
                    v = '__nb%d' % self.tmp
                    text = '({ %s = %s; __CPROVER_assert(%s == 0 || %s == 1, "%s"); (%s != 0); })' % (st.decl(v), stext, v, v, desc, v)
            core = self.skip_wrappers(a)
            if mode == 'v':
                out.append(text)
            elif mode == 'p':
                out.append(self.addr(text) if self.is_glvalue(core) else self.temp_addr(a, text))
            elif ptypes is not None and i < len(ptypes):
                pt = ptypes[i]
                if pt.ref and not self.is_byval(pt):
                    out.append(self.addr(text) if self.is_glvalue(core) else self.temp_addr(a, text))
                else:
                    out.append(text)
            else:
                if self.is_glvalue(core) and core.get('kind') != 'MaterializeTemporaryExpr':
                    t = self.ntype(core)
                    # unbound signature: scalars and by-value view types travel by value,
                    # other class-type glvalues by address (a model takes `T *`)
                    if self.is_byval(CT(t.base, t.ptr, False, cxx=t.cxx)) or t.ptr > 0 or not t.base.startswith('struct ') and t.base not in self.u.get('by_pointer', []):
                        out.append(text)
                    else:
                        out.append(self.addr(text))
                elif core.get('kind') == 'MaterializeTemporaryExpr':
                    t = self.ntype(core)
                    if t.ptr == 0 and (t.base.startswith('struct ') or t.base in self.u.get('by_pointer', [])) and not self.is_byval(CT(t.base, cxx=t.cxx)):
                        out.append(self.temp_addr(core, text))     # a temporary bound to a reference parameter
                    else:
                        out.append(text)
                else:
                    out.append(text)
        return out

    cur_callee = None   # (class-qualified name or function name, number of arguments) of the call being lowered

    def default_arg(self, i, callee=None):
        """clang's JSON omits the expression of a CXXDefaultArgExpr: take it from the callee's declaration."""
        callee = callee or self.cur_callee
        if not callee:
            raise Unsupported('default argument of an unknown callee')
        qual, nargs = callee
        cands = []
        for attempt in (0, 1):
            for q, lst in self.byname.items():
                if q == qual or q.endswith('::' + qual):
                    for d in lst:
                        if d['kind'] in ('FunctionDecl', 'CXXMethodDecl', 'CXXConstructorDecl') and len(self.params_of(d)) == nargs:
                            cands.append(d)
            if cands or attempt:
                break
            try:
                self.load('::'.join(qual.split('::')[-2:]))
            except astdump.ExtractionError:
                pass
        for d in cands:
            if i >= len(self.params_of(d)):
                continue
            p = self.params_of(d)[i]
            if 'init' in p and p.get('inner'):
                return p['inner'][-1]
        raise Unsupported('default argument %d of %s not found' % (i, qual))

    def temp_addr(self, a, text):
        t = self.ntype(a)
        return '&((%s){%s}[0])' % (CT(t.base, t.ptr).c().strip() + '[1]', text)

    def apply_binding(self, b, n, obj, args, argnodes):
        sig = None
        if isinstance(b, tuple):
            b, sig = b
        if callable(b):
            return b(self, n, obj, args, argnodes)        # a callable binding lowers its own arguments (args may be None)
        if args is None:
            args = self.lower_args(argnodes, sig)
        if '$' in b:
            t = b.replace('$o', '(%s)' % obj if obj else '')
            for i, a in enumerate(args):
                t = t.replace('$%d' % i, '(%s)' % a)
            return t
        allargs = ([obj] if obj is not None else []) + args
        call = '%s(%s)' % (b, ', '.join(allargs))
        if self.is_glvalue(n) and n.get('kind') in ('CallExpr', 'CXXMemberCallExpr', 'CXXOperatorCallExpr'):
            return '(*%s)' % call     # a model of a reference-returning callee returns a pointer
        return call

    def peel(self, n):
        while n.get('kind') in ('ImplicitCastExpr', 'ParenExpr', 'ExprWithCleanups'):
            n = n['inner'][0]
        return n

    def e_CallExpr(self, n):
        callee = self.peel(n['inner'][0])
        argnodes = n['inner'][1:]
        if callee.get('kind') == 'DeclRefExpr':
            r = callee['referencedDecl']
            name = r['name']
            self.cur_callee = (name, len(argnodes))
            b = self.lookup_binding(['fn:' + name])
            if b is not None:
                return self.apply_binding(b, n, None, None, argnodes)
            # a /repo function we can translate?
            d = self.resolve_function(r, name)
            if d is not None:
                cn = self.queue(d)
                pts = [self.ntype(p) for p in self.params_of(d)]
                return self.wrapref(n, '%s(%s)' % (cn, ', '.join(self.lower_args(argnodes, None, pts))))
            ptypes = self.proto_param_types(r.get('type', {}).get('qualType', ''))
            self.externs.setdefault(name, r.get('type', {}).get('qualType', ''))
            return self.wrapref(n, '%s(%s)' % (name, ', '.join(self.lower_args(argnodes, None, ptypes))))
        if callee.get('kind') == 'MemberExpr' and self.qt(callee) != '<bound member function type>':
            # call through a function-pointer field: a unit may bind the call itself (`fp:<field>`), the field stays a plain pointer
            b = self.lookup_binding(['fp:' + callee.get('name', '')])
            if b is not None:
                return self.apply_binding(b, n, None, None, argnodes)
            return '%s(%s)' % (self.expr(callee), ', '.join(self.lower_args(argnodes)))
        raise Unsupported('call through %s' % callee.get('kind'))

    def wrapref(self, n, call):
        return '(*%s)' % call if self.is_glvalue(n) else call

    def proto_param_types(self, fq):
        m = re.match(r'.*?\((.*)\)[^)]*$', fq)
        if not m:
            return None
        try:
            return [self.ctype(p) for p in split_top(m.group(1)) if p != 'void' and p != '...']
        except Unsupported:
            return None

    def resolve_function(self, r, name):
        d = self.decls.get(r['id'])
        if d is not None and self.body_of(d) is not None:
            return d
        if name in self.u.get('no_translate', []):
            return None
        if not self.u.get('auto_translate', True):
            return None
        d = self.function_by_name(name, r)
        if d is not None:
            return d
        try:
            self.load(name)
        except astdump.ExtractionError:
            return None
        return self.function_by_name(name, r)

    def function_by_name(self, name, r):
        sig = norm(r.get('type', {}).get('qualType', '')).replace(' ', '')
        cands = [d for d in self.find_function(name)
                 if (d['kind'] == 'FunctionDecl' or (d['kind'] == 'CXXMethodDecl' and (self.is_static_method(d) or r.get('kind') == 'CXXMethodDecl')))
                 and self.in_repo(d) and norm(self.qt(d)).replace(' ', '') == sig]
        for d in cands:
            if d['kind'] == 'CXXMethodDecl':
                self.static_methods.add(d['id'])
        return cands[0] if len(cands) >= 1 else None

    def in_repo(self, d):
        f = (d.get('loc', {}).get('file') or d.get('range', {}).get('begin', {}).get('file') or '')
        f2 = d.get('loc', {}).get('expansionLoc', {}).get('file') or ''
        f = f or f2
        return f.startswith(astdump.REPO) and '/llvm/' not in f

    def queue(self, d, qual=None):
        cn = self.cname_for(d, qual)
        if cn not in self.funcs and not any(p[1] == cn for p in self.pending):
            self.pending.append((d, cn))
        return cn

    def method_keys(self, objnode, name):
        keys = ['m:%s::%s' % (self.objtype(objnode), name)]
        d = self.objtype_desugared(objnode)
        if d:
            keys.append('m:%s::%s' % (d, name))
        try:                      # keyed by the lowered (model) type, whatever the C++ spelling / typedef
            keys.append('m:@%s::%s' % (self.ntype(objnode).base, name))
        except Unsupported:
            pass
        keys.append('m:*::%s' % name)
        return keys

    def e_CXXMemberCallExpr(self, n):
        me = n['inner'][0]
        me = self.strip(me) if me.get('kind') != 'MemberExpr' else me
        argnodes = n['inner'][1:]
        if me.get('kind') != 'MemberExpr':
            raise Unsupported('member call through %s' % me.get('kind'))
        objn = me['inner'][0]
        name = me['name']
        self.cur_callee = ('%s::%s' % (self.objtype(objn).split('<')[0], name), len(argnodes))
        # peel derived-to-base conversions: a binding may be keyed on any level
        levels = [objn]
        while levels[-1].get('kind') == 'ImplicitCastExpr' and levels[-1].get('castKind') in ('DerivedToBase', 'UncheckedDerivedToBase', 'NoOp'):
            levels.append(levels[-1]['inner'][0])
        for lv in reversed(levels):
            keys = self.method_keys(lv, name)[:-1]
            b = self.lookup_binding(keys)
            if b is not None:
                otext = self.expr(lv)
                if me.get('isArrow'):
                    obj = otext
                elif self.strip_keep_mat(lv).get('kind') == 'MaterializeTemporaryExpr' or not self.is_glvalue(lv):
                    obj = self.temp_addr(lv, otext)
                else:
                    obj = self.addr(otext)
                return self.apply_binding(b, n, obj, None, argnodes)
        otext = self.expr(objn)
        if me.get('isArrow'):
            obj = otext
        elif self.strip_keep_mat(objn).get('kind') == 'MaterializeTemporaryExpr' or not self.is_glvalue(objn):
            obj = self.temp_addr(objn, otext)       # method call on a temporary object
        else:
            obj = self.addr(otext)
        # a /repo method we can translate?
        d = self.resolve_method(me, objn, name, len([a for a in argnodes]))
        if d is not None:
            cn = self.queue(d)
            pts = [self.ntype(p) for p in self.params_of(d)]
            cls = self.class_of(d)
            ot = self.ctype(cls).c(1).strip()
            return self.wrapref(n, '%s(%s)' % (cn, ', '.join(['(%s)%s' % (ot, obj)] + self.lower_args(argnodes, None, pts))))
        b = self.lookup_binding(['m:*::%s' % name])
        if b is not None:
            return self.apply_binding(b, n, obj, None, argnodes)
        ocls = self.objtype_desugared(objn) or self.objtype(objn)
        cn = cident(ocls.split('<')[0]) + '_' + cident(name.replace('operator', 'op'))
        self.externs.setdefault(cn, 'method %s::%s' % (self.objtype(objn), name))
        return self.wrapref(n, '%s(%s)' % (cn, ', '.join([obj] + self.lower_args(argnodes))))

    def resolve_method(self, me, objn, name, nargs):
        mid = me.get('referencedMemberDecl')
        cls = self.objtype(objn)
        full = '%s::%s' % (cls.split('<')[0], name)
        if full in self.u.get('no_translate', []) or name in self.u.get('no_translate', []):
            return None
        d = self.decls.get(mid)
        if d is not None and self.body_of(d) is not None:
            return d
        if not self.u.get('auto_translate', True):
            return None
        if '<' in cls and not self.u.get('translate_templates', False):
            return None
        if not re.fullmatch(r'[A-Za-z_][A-Za-z0-9_:]*', full):
            return None
        d = self.method_by_name(full, mid, nargs)
        if d is not None:
            return d
        try:
            self.load('%s::%s' % (cls.split('::')[-1].split('<')[0], name))
        except astdump.ExtractionError:
            return None
        return self.method_by_name(full, mid, nargs)

    def method_by_name(self, full, mid, nargs):
        cands = [c for c in self.find_function(full) if self.in_repo(c)]
        for cand in cands:
            if cand.get('previousDecl') == mid or cand['id'] == mid:
                return cand
        cands = [c for c in cands if len(self.params_of(c)) >= nargs]
        if len(cands) == 1:
            return cands[0]
        if len(cands) > 1:
            exact = [c for c in cands if len(self.params_of(c)) == nargs]
            if len(exact) == 1:
                return exact[0]
            raise Unsupported('ambiguous overload of %s with %d arguments' % (full, nargs))
        return None

    OPNAMES = {'==': 'eq', '!=': 'ne', '<': 'lt', '>': 'gt', '<=': 'le', '>=': 'ge', '[]': 'index', '()': 'call',
               '=': 'assign', '->': 'arrow', '*': 'star', '+': 'plus', '-': 'minus', '++': 'inc', '--': 'dec',
               '<<': 'shl', '>>': 'shr', '+=': 'addassign', '!': 'not', '|=': 'orassign', '&': 'and', '|': 'or'}

    def e_CXXOperatorCallExpr(self, n):
        callee = self.peel(n['inner'][0])
        argnodes = n['inner'][1:]
        opname = callee['referencedDecl']['name']   # e.g. operator==
        op = opname[len('operator'):]
        a0 = argnodes[0]
        if op == '()':
            tgt = self.peel(a0)
            rid = (tgt.get('referencedDecl') or {}).get('id') if tgt.get('kind') == 'DeclRefExpr' else None
            if rid in self.local_lambdas:
                return self.call_lambda(self.local_lambdas[rid], argnodes[1:])
        keys = ['o:%s:%s' % (op, self.objtype(a0))]
        d0 = self.objtype_desugared(a0)
        if d0:
            keys.append('o:%s:%s' % (op, d0))
        if len(argnodes) > 1:
            keys.insert(0, 'o:%s:%s:%s' % (op, self.objtype(a0), self.objtype(argnodes[1])))
        try:
            keys.append('o:%s:@%s' % (op, self.ntype(a0).base))
        except Unsupported:
            pass
        b = self.lookup_binding(keys)
        if b is None:
            # the operator may be declared in a base class: try the operand below derived-to-base conversions
            lv = a0
            while b is None and lv.get('kind') == 'ImplicitCastExpr' and lv.get('castKind') in ('DerivedToBase', 'UncheckedDerivedToBase', 'NoOp'):
                lv = lv['inner'][0]
                ks = ['o:%s:%s' % (op, self.objtype(lv))]
                try:
                    ks.append('o:%s:@%s' % (op, self.ntype(lv).base))
                except Unsupported:
                    pass
                b = self.lookup_binding(ks)
            if b is not None:
                a0 = lv
        if b is not None:
            obj = self.expr(a0)
            if self.strip_keep_mat(a0).get('kind') == 'MaterializeTemporaryExpr':
                obj = self.temp_addr(a0, obj)
            elif self.is_glvalue(self.skip_wrappers(a0)):
                obj = self.addr(obj)
            return self.apply_binding(b, n, obj, None, argnodes[1:])
        # translate a /repo operator
        r = callee['referencedDecl']
        d = self.decls.get(r['id'])
        if d is None or self.body_of(d) is None:
            cls = self.objtype(a0)
            if re.fullmatch(r'[A-Za-z_][A-Za-z0-9_:]*', cls) and self.u.get('auto_translate', True):
                try:
                    self.load('%s::%s' % (cls.split('::')[-1], opname))
                except astdump.ExtractionError:
                    pass
                d = self.decls.get(r['id'])
                if d is None or self.body_of(d) is None:
                    cs = [c for c in self.find_function('%s::%s' % (cls, opname)) if self.in_repo(c)]
                    cs = [c for c in cs if len(self.params_of(c)) + (1 if c['kind'] == 'CXXMethodDecl' else 0) == len(argnodes)]
                    d = cs[0] if len(cs) == 1 else None
        if d is not None and d.get('isImplicit') and op == '=':
            d = None        # compiler-generated member-wise assignment: plain C struct assignment below
        if d is not None and self.body_of(d) is not None and self.in_repo(d):
            qual = '%s::op_%s' % (self.objtype(a0), self.OPNAMES.get(op, 'x'))
            cn = self.queue(d, qual)
            pts = [self.ntype(p) for p in self.params_of(d)]
            if d['kind'] == 'CXXMethodDecl':
                obj = self.addr(self.expr(a0))
                return self.wrapref(n, '%s(%s)' % (cn, ', '.join([obj] + self.lower_args(argnodes[1:], None, pts))))
            return self.wrapref(n, '%s(%s)' % (cn, ', '.join(self.lower_args(argnodes, None, pts))))
        # plain struct assignment
        if op == '=' and self.ntype(a0).base.startswith('struct '):
            return '(%s = %s)' % (self.expr(a0), self.expr(argnodes[1]))
        raise Unsupported('operator%s on %s (no binding)' % (op, self.objtype(a0)))

    def e_CXXConstructExpr(self, n):
        t = self.objtype(n)
        td = self.objtype_desugared(n)
        argnodes = [a for a in n.get('inner', [])]
        ctor = re.sub(r'\s*noexcept(\(.*\))?$', '', norm(n.get('ctorType', {}).get('qualType', '')))
        m = re.match(r'void \((.*)\)', ctor)
        ptxt = m.group(1) if m else ''
        self.cur_callee = ('%s::%s' % (t.split('<')[0], t.split('<')[0].split('::')[-1]), len(argnodes))
        keys = ['c:%s(%s)' % (t, ptxt), 'c:%s/%d' % (t, len(argnodes))]
        if td:
            keys += ['c:%s(%s)' % (td, ptxt), 'c:%s/%d' % (td, len(argnodes))]
        b = self.lookup_binding(keys)
        if b is not None:
            return self.apply_binding(b, n, None, None, argnodes)
        # copy / move construction of a value type: the C value itself
        if len(argnodes) == 1:
            a = argnodes[0]
            if self.objtype(a) == t or (td and self.objtype_desugared(a) == td) or \
                    (re.sub(r'^const ', '', ptxt).rstrip('& ').strip() == t.split('::')[-1] and
                     t.split('::')[-1] in (self.objtype(a).split('::')[-1], (self.objtype_desugared(a) or '').split('::')[-1])):
                return self.expr(a)
        ct = self.ntype(n)
        if not argnodes and ct.base.startswith('struct '):
            return '((%s){0})' % ct.c().strip()
        # a /repo constructor we can translate?
        d = self.resolve_ctor(n, t, len(argnodes), ptxt)
        if d is not None:
            cn = self.queue(d, '%s::ctor%d' % (t, len(argnodes)))
            pts = [self.ntype(p) for p in self.params_of(d)]
            self.need_ctor_wrapper(cn, ct, pts)
            return '%s__new(%s)' % (cn, ', '.join(self.lower_args(argnodes, None, pts)))
        raise Unsupported('constructor %s(%s) (no binding)' % (t, ptxt))

    e_CXXTemporaryObjectExpr = e_CXXConstructExpr

    ctor_wrappers = None

    def need_ctor_wrapper(self, cn, ct, pts):
        if self.ctor_wrappers is None:
            self.ctor_wrappers = {}
        if cn in self.ctor_wrappers:
            return
        params = ', '.join(p.decl('a%d' % i) if not (p.ref and self.is_byval(p)) else CT(p.base, p.ptr).decl('a%d' % i) for i, p in enumerate(pts))
        args = ', '.join(['&r'] + ['a%d' % i for i in range(len(pts))])
        tn = ct.c().strip()
        self.ctor_wrappers[cn] = ('%s %s__new(%s);' % (tn, cn, params or 'void'),
                                  '%s %s__new(%s) { %s r = {0}; %s(%s); return r; }\n' % (tn, cn, params or 'void', tn, cn, args))

    def resolve_ctor(self, n, t, nargs, ptxt):
        if '<' in t or not self.u.get('auto_translate', True):
            return None
        short = t.split('::')[-1]
        try:
            self.load('%s::%s' % (short, short))
        except astdump.ExtractionError:
            return None
        for q, lst in self.byname.items():
            for d in lst:
                if d['kind'] == 'CXXConstructorDecl' and d.get('name') == short and self.body_of(d) is not None \
                        and len(self.params_of(d)) == nargs and self.in_repo(d):
                    m = re.match(r'void \((.*)\)', norm(self.qt(d)))
                    if m and m.group(1).replace(' ', '') == ptxt.replace(' ', ''):
                        return d
        return None

    def e_CXXDefaultArgExpr(self, n):
        if n.get('inner'):
            return self.expr(n['inner'][0])
        raise Unsupported('default argument without expression')

    def e_UnaryExprOrTypeTraitExpr(self, n):
        if n.get('name') == 'sizeof':
            if 'argType' in n:
                return 'sizeof(%s)' % self.ctype(n['argType']['qualType']).c().strip()
            return 'sizeof(%s)' % self.expr(n['inner'][0])
        raise Unsupported('type trait %s' % n.get('name'))

    def e_LambdaExpr(self, n):
        raise Unsupported('lambda expression in %s' % self.cur_fn)

    # ------------------------------------------------------------------ driver
    def run(self):
        for qual, spec in self.u['functions'].items():
            cands = self.find_function(spec.get('of', qual), spec.get('nparams'), spec.get('ptypes'))
            if len(cands) != 1:
                raise astdump.ExtractionError('function %s: %d definitions found in %s (renamed or moved?)'
                                              % (qual, len(cands), self.source))
            d = cands[0]
            if spec.get('of'):
                # a second contract for the same function (a specialised precondition): translated again under another name
                cn = spec['cname']
                if spec.get('ptypes'):
                    self.fn_cname[d['id']] = cn       # an overload selected by its parameter types: calls to it go to this contract
            else:
                cn = spec.get('cname') or self.cname_for(d, qual)
                self.fn_cname[d['id']] = cn
            spec['_cname'] = cn
            spec['_decl'] = d
        for qual, spec in self.u['functions'].items():
            self.translate_function(spec['_decl'], spec['_cname'], spec)
        depth = 0
        while self.pending or self.lambda_queue:
            if self.lambda_queue:
                self.translate_lambda(self.lambda_queue.pop(0))
                continue
            d, cn = self.pending.pop(0)
            if cn in self.funcs:
                continue
            self.translate_function(d, cn, self.u.get('helper_contracts', {}).get(cn))
            depth += 1
            if depth > 60:
                raise Unsupported('too many transitive callees')
        return self.emit()

    def complete_structs(self):
        """Records named in 'full_structs' get every declared field (so that contracts can state that untouched
        fields are preserved), in declaration order."""
        for q in self.u.get('full_structs', []):
            d = self.record_decl(q)
            if d is None:
                raise astdump.ExtractionError('record %s not found for full_structs' % q)
            sname = self.base_type(norm(q))
            for c in d.get('inner', []):
                if c.get('kind') == 'FieldDecl':
                    self.add_field(sname[7:], c['name'], self.ctype(c['type']['qualType'], c['type'].get('desugaredQualType')))

    def emit(self):
        self.complete_structs()
        # fields a contract talks about even when the (changed) code no longer touches them
        for q, names in self.u.get('need_fields', {}).items():
            d = self.record_decl(q)
            if d is None:
                raise astdump.ExtractionError('record %s not found for need_fields' % q)
            sname = self.base_type(norm(q))
            have = {c['name']: c for c in d.get('inner', []) if c.get('kind') == 'FieldDecl'}
            for nm in names:
                if nm not in have:
                    raise astdump.ExtractionError('field %s::%s not found (renamed?)' % (q, nm))
                c = have[nm]
                self.add_field(sname[7:], nm, self.ctype(c['type']['qualType'], c['type'].get('desugaredQualType')))
        # enumerations a contract talks about even when the translated code does not mention them
        for q in self.u.get('need_enums', []):
            if self.lookup_enum(q) is None:
                raise astdump.ExtractionError('enum %s not found for need_enums (renamed?)' % q)
        out = ['/* generated by cxx2c from %s -- do not edit */' % self.source]
        out.append(self.u.get('prelude', ''))
        for en, (under, vals) in self.enums.items():
            out.append('typedef %s %s;' % (under, en))
            out.append('enum { %s };' % ', '.join('%s = %d' % (cn, v) for cn, v, _ in vals))
        predefined = set(self.u.get('predefined_structs', []))
        for s in self.struct_order:
            if s not in predefined:
                out.append('struct %s;' % s)
        out.append(self.u.get('after_forward', ''))
        # order structs by by-value containment
        done, order = set(), []

        def visit(s, stack=()):
            if s in done or s in predefined or s not in self.structs:
                return
            if s in stack:
                raise Unsupported('recursive by-value struct %s' % s)
            for f, t in self.structs[s].items():
                if t.ptr == 0 and not t.ref and t.base.startswith('struct '):
                    visit(t.base[7:], stack + (s,))
            done.add(s)
            order.append(s)
        # model-only structs (e.g. the pair type of a hash map modelled as a vector) take part in the ordering
        for sn, fields in self.u.get('synthetic_structs', {}).items():
            d = {}
            for fname, ftxt in fields:
                m = re.match(r'^(.*?)\s*(\**)$', ftxt.strip())
                d[fname] = CT(m.group(1), ptr=len(m.group(2)))
            self.structs[sn] = d
            self.struct_order.append(sn)
        for s in list(self.struct_order):
            visit(s)
        extra = self.u.get('struct_extra', {})
        vecs = dict(self.u.get('vec_types', {}))     # model vector typedef -> element C type
        emitted_vecs = set()

        def emit_vecs_ready(defined):
            for vn, elem in vecs.items():
                if vn in emitted_vecs:
                    continue
                if not elem.startswith('struct ') or elem.endswith('*') or elem[7:].strip() in defined or elem[7:].strip() in predefined:
                    out.append('VERIF_VEC(%s, %s)' % (vn, elem))
                    emitted_vecs.add(vn)
        # a struct holding a model vector by value must come after the vector typedef, which must come after its element
        pending = list(order)
        defined = set()
        emit_vecs_ready(defined)
        guard = 0
        while pending:
            guard += 1
            if guard > 10000:
                raise Unsupported('cannot order structs and vector models: %s' % pending)
            s = pending.pop(0)
            need = [t.base for t in self.structs[s].values() if t.ptr == 0 and not t.ref and t.base in vecs and t.base not in emitted_vecs]
            need += [t.base for t in self.structs[s].values() if t.ptr == 0 and not t.ref and t.base.startswith('struct ')
                     and t.base[7:] in self.structs and t.base[7:] not in defined and t.base[7:] not in predefined]
            if need:
                pending.append(s)
                continue
            fields = self.structs[s]
            body = ''.join('  %s;\n' % t.decl(f) for f, t in fields.items())
            body += extra.get(s, '')
            if not body:
                body = '  char _empty;\n'
            if s in self.union_structs:
                if all(t.ptr > 0 and not t.dims for t in fields.values()):
                    # a union of pointers is one pointer-sized cell; members are typed views of it (a C union would make
                    # cbmc read the second member through byte extraction, which loses the pointer's value set)
                    body = '  void *__u;\n'
                else:
                    body = '  union {\n%s  };\n' % body
            out.append('struct %s {\n%s};' % (s, body))
            defined.add(s)
            emit_vecs_ready(defined)
        emit_vecs_ready(defined | set(self.structs))
        out.append(self.u.get('after_structs', ''))
        for cn, (i, p) in self.protos.items():
            out.append(p)
        if self.ctor_wrappers:
            for p, bdy in self.ctor_wrappers.values():
                out.append(p)
        for gname, decl in getattr(self, 'file_statics', []):
            out.append('%s;' % decl)
        out.append(self.u.get('models', ''))
        for cn in self.func_order:
            out.append(self.funcs[cn])
        if self.ctor_wrappers:
            for p, bdy in self.ctor_wrappers.values():
                out.append(bdy)
        out.append(self.u.get('harness', ''))
        return strip_deref_addr('\n'.join(out) + '\n')
