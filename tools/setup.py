"""Offline setup: check the tools are there and the repo's support library exists for the replay drivers."""
import os
import shutil
import subprocess
import sys

need = ['clang++-14', 'goto-cc', 'goto-instrument', 'cbmc']
missing = [t for t in need if shutil.which(t) is None]
if missing:
    print('missing tools: %s' % missing)
    sys.exit(1)
root = os.path.dirname(os.path.dirname(os.path.abspath(__file__)))
os.makedirs(os.path.join(root, 'build'), exist_ok=True)
if os.path.isdir('/repo/_build') and not os.path.exists('/repo/_build/lib/libllvmSupport.a'):
    subprocess.run(['ninja', '-C', '/repo/_build', 'llvmSupport', 'LLVMDemangle'])
print('setup ok')
