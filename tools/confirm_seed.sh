#!/bin/bash
# confirm_seed.sh <ID> <k> : re-run, in the scratch worktree /tmp/seed/<ID>, the three facts a seeded change must satisfy:
#   (1) with the change the repository builds and all 83 tests pass, (2) the demonstration fails with the change,
#   (3) the demonstration passes without it.  Writes seeded/<ID>-<k>/confirm.json and copies the seed files.
ID=$1; K=$2; WT=${SEEDROOT:-/tmp/seed}/$ID; OUT=$WT/OUT/$K; DST=/verif/seeded/$ID-${DSTK:-$K}
[ -f $OUT/patch.diff ] || { echo "no patch"; exit 2; }
cd $WT || exit 2
git checkout -q -- . ; git apply $OUT/patch.diff || { echo "patch does not apply"; exit 2; }
nice ninja -C _build -j8 >/dev/null 2>$WT/ninja.err || { echo "build failed with change"; git checkout -q -- .; exit 2; }
pass=0; failed=""
for t in _build/bin/*Tests; do o=$($t 2>&1); rc=$?; p=$(echo "$o" | grep -c '^\[       OK \]'); pass=$((pass+p)); [ $rc -ne 0 ] && failed="$failed $(basename $t)"; done
$OUT/run_demo.sh $WT $WT/_build > $WT/demo_with.log 2>&1; d1=$?
git checkout -q -- . ; nice ninja -C _build -j8 >/dev/null 2>&1
$OUT/run_demo.sh $WT $WT/_build > $WT/demo_without.log 2>&1; d0=$?
mkdir -p $DST; cp -r $OUT/* $DST/ 2>/dev/null; rm -f $DST/demo $DST/*.o
ok=false; [ $pass -eq 83 ] && [ -z "$failed" ] && [ $d1 -ne 0 ] && [ $d0 -eq 0 ] && ok=true
cat > $DST/confirm.json <<J
{"seed": "$ID-${DSTK:-$K}", "confirmed": $ok, "tests_passed_with_change": $pass, "test_binaries_failed_with_change": "$failed",
 "demo_exit_with_change": $d1, "demo_exit_without_change": $d0,
 "ran": "git apply patch.diff; ninja -C _build; all _build/bin/*Tests; run_demo.sh <worktree> <builddir>; git checkout -- .; ninja; run_demo.sh",
 "worktree_head": "$(git rev-parse --short HEAD)"}
J
echo "$ID-${DSTK:-$K} confirmed=$ok tests=$pass failed='$failed' demo_with=$d1 demo_without=$d0"
