"""Regenerate MANIFEST.json from propmap.py (single source of truth for what is claimed)."""
import json
import os
import sys

ROOT = os.path.dirname(os.path.dirname(os.path.abspath(__file__)))
sys.path.insert(0, ROOT)
import propmap  # noqa: E402


def not_applicable():
    out = [{'property_id': k, 'reason': v} for k, v in sorted(propmap.NOT_APPLICABLE.items())]
    ids = [json.loads(l)['id'] for l in open(os.path.join(ROOT, 'properties.jsonl')) if l.strip()]
    for i in ids:
        if i not in propmap.PROPS and i not in propmap.NOT_APPLICABLE:
            out.append({'property_id': i, 'reason': 'not claimed at this commit: the units that would carry its contracts '
                        '(DESIGN.md section 4) are not built yet, so no check is registered for it'})
    return sorted(out, key=lambda x: x['property_id'])


def main():
    checks = []
    for pid in sorted(propmap.PROPS):
        p = propmap.PROPS[pid]
        checks.append({
            'property_id': pid,
            'quick_cmd': './check %s --tier quick' % pid,
            'thorough_cmd': './check %s --tier thorough' % pid,
            'evidence_file': '/verif/evidence/%s.json' % pid,
            'replay_cmd_template': './check %s --replay {path}' % pid,
            'engine': 'cxx2c+dfcc',
            'level_claimed': {
                'category': p.get('level', 'proof'),
                'text': 'Contract-based deductive verification of the real functions: every run re-extracts the C++ of /repo '
                        'from clang\'s AST, lowers it mechanically to C, weaves the contracts of units ' + ', '.join(p['units']) +
                        ' and discharges every obligation with goto-instrument --dfcc + cbmc, function by function, for all inputs '
                        'and all loop iterations (loop contracts, no unwinding bound). Claimed for: ' + p['claim'] + '.',
                'design_ref': p.get('design_ref', 'DESIGN.md section 4'),
            },
            'level_note': 'Trusted: clang-14 AST, the cxx2c lowering rules, the C models / assumed contracts of library and virtual '
                          'callees (listed per run in the evidence), cbmc + dfcc. Not decided: ' + '; '.join(p.get('not_decided', [])) + '.',
            'technique': 'contract-based deductive verification (CBMC code contracts via goto-instrument --dfcc on C generated from clang AST)',
        })
    man = {
        'version': 1,
        'setup_cmd': 'python3 tools/setup.py',
        'hooks': {
            'guard': 'LLBUILD_VERIF',
            'enable': 'not used: verification reads /repo sources through clang -ast-dump; nothing in /repo is built with a define',
            'baseline_off_cmd': 'ctest --test-dir /repo/_build -j8 --timeout 900',
            'source_commits': [],
            'add_only': True,
        },
        'engines': [{'name': 'cxx2c+dfcc', 'path': 'tools/', 'serves_properties': sorted(propmap.PROPS),
                     'kind_free_text': 'clang JSON AST -> C translator, contract weaver, goto-instrument dfcc / cbmc runner, native ASan replay drivers'}],
        'checks': checks,
        'not_applicable': not_applicable(),
        'notes': 'exit 2 from a check means undecided (extraction/translation failure, solver timeout, vacuity), never a pass and never a violation',
    }
    with open(os.path.join(ROOT, 'MANIFEST.json'), 'w') as fh:
        json.dump(man, fh, indent=1)
    print('MANIFEST.json: %d checks, %d not applicable' % (len(checks), len(man['not_applicable'])))


if __name__ == '__main__':
    main()
