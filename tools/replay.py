"""From a failed obligation to a replay on the real code.

A dfcc counterexample is a counterexample to an *inductive step* (the state after havocking the loop or
a replaced callee), not a reachable whole input, so it cannot be fed to the real function directly.
The replay therefore (1) stores a digest of the verifier's trace for the failed obligation and (2) lets
the unit's native driver -- the real /repo .cpp compiled with ASan/UBSan plus a native evaluation of the
same property-level clauses -- search the small-input space for an input on which the real code violates
them.  Found => reproduced (the replay file carries the input); not found or no driver =>
`no-failing-input-found`, the violation is still reported.
"""
import hashlib
import json
import os
import subprocess

from . import astdump

ROOT = astdump.ROOT
REPO = astdump.REPO
BIN = os.path.join(astdump.BUILD, 'replay')

LIBS = ['lib/libllbuildBuildSystem.a', 'lib/libllbuildNinja.a', 'lib/libllbuildCore.a', 'lib/libllbuildBasic.a', 'lib/libllvmSupport.a', 'lib/libLLVMDemangle.a']


def build_driver(unit, extra_libs=()):
    src = os.path.join(ROOT, 'replay', unit + '.cpp')
    if not os.path.exists(src):
        return None, 'no native driver for unit %s' % unit
    os.makedirs(BIN, exist_ok=True)
    key = hashlib.sha256((astdump.tree_hash() + open(src).read() + open(os.path.join(ROOT, 'replay', 'driver_common.h')).read()).encode()).hexdigest()[:16]
    exe = os.path.join(BIN, '%s-%s' % (unit, key))
    if os.path.exists(exe):
        return exe, ''
    if 'lib/' not in open(src).read().split('#include "driver_common.h"')[0].replace('#include "llbuild/', ''):
        # the driver links the code under test from the repo's libraries: refresh them from the working tree first
        subprocess.run(['ninja', '-C', os.path.join(REPO, '_build'), 'llbuildBuildSystem', 'llbuildNinja', 'llbuildCore', 'llbuildBasic', 'llvmSupport'],
                       stdout=subprocess.PIPE, stderr=subprocess.PIPE)
    libs = [os.path.join(REPO, '_build', l) for l in LIBS if os.path.exists(os.path.join(REPO, '_build', l))]
    cmd = ['clang++-14', '-std=c++14', '-g', '-O1', '-fno-rtti', '-fno-exceptions', '-DNDEBUG', '-fsanitize=address,undefined',
           '-fno-sanitize-recover=undefined', '-Wno-everything',
           '-I' + REPO, '-I' + REPO + '/include', '-I' + REPO + '/lib/llvm/Support', '-I' + REPO + '/products/libllbuild/include',
           '-I' + os.path.join(ROOT, 'replay'),
           '-include', REPO + '/include/libstdc++14-workaround.h', src, '-o', exe] + libs + ['-lpthread', '-ldl', '-lsqlite3', '-lcurses']
    p = subprocess.run(cmd, stdout=subprocess.PIPE, stderr=subprocess.PIPE)
    if p.returncode != 0:
        # retry without the optional system libraries
        cmd2 = [c for c in cmd if c not in ('-lsqlite3', '-lcurses')]
        p = subprocess.run(cmd2, stdout=subprocess.PIPE, stderr=subprocess.PIPE)
        if p.returncode != 0:
            return None, 'driver build failed: ' + p.stderr.decode()[-1500:]
    return exe, ''


def run_driver(exe, args, timeout=600):
    env = dict(os.environ, ASAN_OPTIONS='detect_leaks=0:abort_on_error=0', UBSAN_OPTIONS='print_stacktrace=1')
    try:
        p = subprocess.run([exe] + args, stdout=subprocess.PIPE, stderr=subprocess.PIPE, timeout=timeout, env=env)
        return p.returncode, p.stdout.decode(errors='replace'), p.stderr.decode(errors='replace')
    except subprocess.TimeoutExpired:
        return 'timeout', '', ''


def trace_digest(ob, limit=60):
    out = []
    for st in ob.get('trace') or []:
        out.append(st)
    return out[-limit:]


def make_replay(pid, unit, frec, obligations, path, tier):
    seed = int(os.environ.get('VERIF_SEED', '0') or 0)
    rep = {'property': pid, 'unit': unit, 'function': frec['function'], 'cname': frec.get('cname'),
           'failed_obligations': [{'name': o['name'], 'description': o['description'], 'tag': o.get('tag'),
                                   'clause': o.get('clause'), 'line_in_generated_c': o.get('line'),
                                   'verifier_trace_digest': trace_digest(o)} for o in obligations],
           'verifier_cmd': frec.get('cmd'), 'reproduced': False}
    exe, why = build_driver(unit)
    if exe is None:
        rep['native'] = why
    else:
        budget = 20000 if tier == 'quick' else 300000
        maxlen = 5 if tier == 'quick' else 7
        rc, out, err = run_driver(exe, ['search', frec['function'], str(maxlen), str(seed), str(budget)])
        rep['native'] = {'driver': 'replay/%s.cpp' % unit, 'search': out.strip()[-400:], 'stderr_head': err[:1500]}
        for line in out.splitlines():
            if line.startswith('FOUND '):
                hx = line.split()[1]
                rep['input_hex'] = hx
                rc2, o2, e2 = run_driver(exe, ['run', frec['function'], hx])
                rep['native']['run'] = {'exit': rc2, 'stdout': o2[-400:], 'stderr': e2[:3000]}
                rep['reproduced'] = rc2 != 0
    os.makedirs(os.path.dirname(path), exist_ok=True)
    with open(path, 'w') as fh:
        json.dump(rep, fh, indent=1)
    return rep


def replay_file(path):
    rep = json.load(open(path))
    print('replay of %s / %s / %s' % (rep['property'], rep['unit'], rep['function']))
    for o in rep['failed_obligations']:
        print('  failed obligation: %s -- %s %s' % (o['name'], o['description'][:100], o.get('clause') or ''))
    if 'input_hex' not in rep:
        print('  no failing input was found for this obligation; verifier output is in the file')
        return 0
    exe, why = build_driver(rep['unit'])
    if exe is None:
        print('  ' + why)
        return 2
    rc, out, err = run_driver(exe, ['run', rep['function'], rep['input_hex']])
    print('  input %s -> exit %s %s' % (rep['input_hex'], rc, out.strip()))
    if err.strip():
        print(err[-2000:])
    return 1 if rc != 0 else 0
